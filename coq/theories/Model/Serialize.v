(* Model of the parsers and serialisers of rsdd (property C17):
     src/repr/cnf.rs            Cnf::to_dimacs, Cnf::from_dimacs
     src/repr/logical_expr.rs   LogicalExpr::from_dimacs, LogicalExpr::from_sexpr
     src/serialize/ser_logical_expr.rs  LogicalSExpr, unique_variables, variable_mapping
     src/serialize/ser_bdd.rs   BDDSerializer::from_bdd / serialize_helper
     src/serialize/ser_sdd.rs   SDDSerializer::from_sdd / serialize_helper
     src/serialize/ser_vtree.rs VTreeSerializer::from_vtree
   One definition per Rust function, same case analysis, same order of steps.  No proofs here.

   Abstractions (listed in props/C17.json):
   * the third-party lexers/parsers (dimacs 0.2.0, serde_sexpr 0.1.0, serde_json) are NOT modelled
     character by character.  DIMACS is modelled from the token stream of the `dimacs` crate
     (Nat / Zero / Minus / keyword tokens, comments already dropped) through its
     parse_header / parse_clauses / parse_clause / parse_lit; s-expressions from the AST
     LogicalSExpr; JSON from the serialiser structs (SerBDD, SDDOr, SerVTree).
   * to_dimacs prints a text; its model here is the sequence of integer tokens per printed line;
     the characters themselves (and the lexer arms that read them) are in Model/SerializeText.v.
   * variable names (Rust String, ordered bytewise-lexicographically by Ord for String) are
     lists of byte values [list N] with [name_cmp] the lexicographic order.
   * HashSet<&String> is a duplicate-free list in an arbitrary order (here: insertion order);
     the mapping is proved independent of that order (Proofs/Serialize.v, mapping_perm).
   * HashMap<&BddNode, usize> / HashMap<SddPtr, usize> are association lists keyed by the
     unfolding of the *regular* node (tree layer: pointer identity = structural identity).
   * machine integers: labels and DIMACS numbers are N / Z / positive (no wrap below 2^63). *)
From Coq Require Import Bool NArith ZArith List Arith.
Import ListNotations.
From RsddV Require Import Base.Bdd Model.Compile.
From RsddV Require Model.CnfUtil Model.SddVtree Model.SddOps Model.BddProg Model.VTree.

(* ==================================================================================== *)
(* (a) DIMACS: printer (Cnf::to_dimacs) and parser (dimacs::parse_dimacs + Cnf::from_dimacs) *)

Definition lit := CnfUtil.lit.             (* (label, polarity), labels 0-based *)
Definition dclause := list lit.

(* format!("{}{}", if polarity {""} else {"-"}, label + 1) *)
Definition z_of_lit (l : lit) : Z :=
  if snd l then (Z.of_N (fst l) + 1)%Z else Z.opp (Z.of_N (fst l) + 1)%Z.
(* one printed line "\n<l1> <l2> ... <lk> 0" (an empty clause prints "\n 0") *)
Definition print_clause (c : dclause) : list Z := map z_of_lit c ++ [0%Z].
(* to_dimacs prints clause lines only: no "p cnf" header *)
Definition print_dimacs (cs : list dclause) : list (list Z) := map print_clause cs.
Definition to_dimacs (c : CnfUtil.cnf) : list (list Z) := print_dimacs (CnfUtil.clauses c).

(* token stream of dimacs::lexer (relevant tokens only; comments dropped by ValidLexer) *)
Inductive tok := TNat (n : positive) | TZero | TMinus | TProblem | TCnf | TSat.
(* how one printed integer is lexed: '0' -> Zero; '1'..'9'.. -> Nat; '-' -> Minus *)
Definition lex_int (z : Z) : list tok :=
  match z with Z0 => [TZero] | Zpos p => [TNat p] | Zneg p => [TMinus; TNat p] end.
Definition lex_ints (l : list Z) : list tok := flat_map lex_int l.
(* "p cnf <num_vars> <num_clauses>": both numbers must lex as Nat, i.e. be non-zero
   (expect_nat rejects the Zero token: "p cnf 0 0" and "p cnf 3 0" are parse errors) *)
Definition header (nv nc : positive) : list tok := [TProblem; TCnf; TNat nv; TNat nc].

(* result of a parser: value, parse error (rsdd: .unwrap() panics), or model fuel exhausted *)
Inductive pres (A : Type) := POk (x : A) | PErr | PFuel.
Arguments POk {A} x. Arguments PErr {A}. Arguments PFuel {A}.

(* Parser::parse_clause with parse_lit inlined: literals until Zero or EndOfFile *)
Fixpoint parse_clause (ts : list tok) (lits : list Z) : option (list Z * list tok) :=
  match ts with
  | [] => Some (rev lits, [])                       (* EndOfFile: consume, return *)
  | TZero :: r => Some (rev lits, r)
  | TNat n :: r => parse_clause r (Zpos n :: lits)
  | TMinus :: TNat n :: r => parse_clause r (Zneg n :: lits)
  | TMinus :: _ => None                             (* ExpectedNat *)
  | _ => None                                       (* UnexpectedToken *)
  end.

(* Parser::parse_clauses: while !is_at_eof { clauses.push(parse_clause()?) } *)
Fixpoint parse_clauses (fuel : nat) (ts : list tok) : pres (list (list Z)) :=
  match fuel with
  | O => PFuel
  | S f =>
    match ts with
    | [] => POk []
    | _ => match parse_clause ts [] with
           | None => PErr
           | Some (c, r) => match parse_clauses f r with
                            | POk cs => POk (c :: cs) | PErr => PErr | PFuel => PFuel end
           end
    end
  end.

(* parse_dimacs / parse_header / parse_cnf_header.  num_vars and num_clauses are read and
   then ignored (parse_clauses only uses num_clauses as a capacity hint; rsdd drops num_vars).
   A (valid) "p sat" instance makes rsdd panic: PErr as well. *)
Definition parse_dimacs (ts : list tok) : pres (list (list Z)) :=
  match ts with
  | TProblem :: TCnf :: TNat _ :: TNat _ :: body => parse_clauses (S (length body)) body
  | _ => PErr
  end.
(* the clause part alone, from integer tokens *)
Definition parse_dimacs_tokens (l : list Z) : pres (list (list Z)) :=
  let body := lex_ints l in parse_clauses (S (length body)) body.

(* Cnf::from_dimacs: sign() is Pos for >= 0; label = var - 1 ("subtract 1, we are 0-indexed") *)
Definition lit_of_z (z : Z) : lit := ((Z.to_N (Z.abs z) - 1)%N, (0 <=? z)%Z).
Definition cnf_from_dimacs (ts : list tok) : pres CnfUtil.cnf :=
  match parse_dimacs ts with
  | POk cs => POk (CnfUtil.cnf_new (map (map lit_of_z) cs))
  | PErr => PErr | PFuel => PFuel
  end.

(* ==================================================================================== *)
(* (c) LogicalExpr::from_dimacs: Literal(var as usize, sign) -- the DIMACS number itself is the
   label (1-based; label 0 is never used), unlike Cnf::from_dimacs *)
Definition elit_of_z (z : Z) : expr := ELit (Z.to_N (Z.abs z)) (0 <=? z)%Z.

(* if v.len() == 1 { v.pop().unwrap() } else { let mut e = v.pop().unwrap();
   for x in v { e = mk(e, x) }; e }      None = unwrap on an empty vector (panic) *)
Definition pop_fold (mk : expr -> expr -> expr) (v : list expr) : option expr :=
  match v with
  | [x] => Some x
  | _ => match rev v with
         | [] => None
         | last :: _ => Some (fold_left mk (removelast v) last)
         end
  end.

Fixpoint all_some {A} (l : list (option A)) : option (list A) :=
  match l with
  | [] => Some []
  | None :: _ => None
  | Some x :: r => match all_some r with Some t => Some (x :: t) | None => None end
  end.

Definition expr_of_clauses (cs : list (list Z)) : option expr :=
  match all_some (map (fun c => pop_fold EOr (map elit_of_z c)) cs) with
  | None => None                       (* an empty clause: lit_vec.pop().unwrap() panics *)
  | Some clause_vec => pop_fold EAnd clause_vec   (* no clause at all: panics *)
  end.
Definition expr_from_dimacs (ts : list tok) : pres expr :=
  match parse_dimacs ts with
  | POk cs => match expr_of_clauses cs with Some e => POk e | None => PErr end
  | PErr => PErr | PFuel => PFuel
  end.

(* ==================================================================================== *)
(* (b) s-expressions: LogicalSExpr, unique_variables, variable_mapping, from_sexpr *)
Definition name := list N.                 (* bytes of the String *)

Inductive sexpr :=
| XTrue | XFalse
| XVar (s : name)
| XNot (e : sexpr)
| XOr (a b : sexpr) | XAnd (a b : sexpr) | XIff (a b : sexpr) | XXor (a b : sexpr)
| XIte (a b c : sexpr).

(* Ord for String / &String: lexicographic on bytes, a proper prefix is smaller *)
Fixpoint name_cmp (a b : name) : comparison :=
  match a, b with
  | [], [] => Eq
  | [], _ :: _ => Lt
  | _ :: _, [] => Gt
  | x :: a', y :: b' => match N.compare x y with Eq => name_cmp a' b' | c => c end
  end.
Definition name_eqb (a b : name) : bool := match name_cmp a b with Eq => true | _ => false end.
Definition name_ltb (a b : name) : bool := match name_cmp a b with Lt => true | _ => false end.

(* HashSet<&String>: insert / union *)
Definition set_mem (x : name) (s : list name) : bool := existsb (name_eqb x) s.
Definition set_add (x : name) (s : list name) : list name := if set_mem x s then s else s ++ [x].
Definition set_union (a b : list name) : list name := fold_left (fun acc x => set_add x acc) b a.

Fixpoint unique_variables (e : sexpr) : list name :=
  match e with
  | XTrue | XFalse => []
  | XVar s => [s]
  | XNot l => unique_variables l
  | XOr a b | XAnd a b | XIff a b | XXor a b => set_union (unique_variables a) (unique_variables b)
  | XIte a b c => set_union (set_union (unique_variables a) (unique_variables b)) (unique_variables c)
  end.

(* v.sort() on a vector without duplicates *)
Fixpoint name_insert (x : name) (l : list name) : list name :=
  match l with
  | [] => [x]
  | y :: t => match name_cmp x y with Gt => y :: name_insert x t | _ => x :: l end
  end.
Definition name_sort (l : list name) : list name := fold_right name_insert [] l.

(* HashMap::from_iter(v.into_iter().enumerate().map(|(index, val)| (val, index))) *)
Definition sorted_names (e : sexpr) : list name := name_sort (unique_variables e).
Definition variable_mapping (e : sexpr) : list (name * nat) :=
  let v := sorted_names e in combine v (seq 0 (length v)).
Definition map_get (m : list (name * nat)) (s : name) : option nat :=
  match find (fun p => name_eqb (fst p) s) m with Some p => Some (snd p) | None => None end.

(* LogicalExpr::from_sexpr's helper.  None = panic: todo!() on True / False (or unwrap of a
   missing key, which cannot happen for the expression's own mapping) *)
Fixpoint sx_helper (m : list (name * nat)) (e : sexpr) : option expr :=
  match e with
  | XTrue | XFalse => None
  | XVar s => match map_get m s with Some i => Some (ELit (N.of_nat i) true) | None => None end
  | XNot l =>
    match l with
    | XVar s => match map_get m s with Some i => Some (ELit (N.of_nat i) false) | None => None end
    | _ => match sx_helper m l with Some x => Some (ENot x) | None => None end
    end
  | XOr a b => match sx_helper m a, sx_helper m b with Some x, Some y => Some (EOr x y) | _, _ => None end
  | XAnd a b => match sx_helper m a, sx_helper m b with Some x, Some y => Some (EAnd x y) | _, _ => None end
  | XIff a b => match sx_helper m a, sx_helper m b with Some x, Some y => Some (EIff x y) | _, _ => None end
  | XXor a b => match sx_helper m a, sx_helper m b with Some x, Some y => Some (EXor x y) | _, _ => None end
  | XIte g t e' =>
    match sx_helper m g, sx_helper m t, sx_helper m e' with
    | Some x, Some y, Some z => Some (EIte x y z) | _, _, _ => None end
  end.
Definition from_sexpr (e : sexpr) : option expr := sx_helper (variable_mapping e) e.

(* ==================================================================================== *)
(* (d) BDDSerializer *)
Inductive sptr := PPtr (index : nat) (compl : bool) | PTrue | PFalse.      (* SerBDDPtr *)
Definition row := (var * sptr * sptr)%type.                               (* SerBDD {topvar, low, high} *)
(* (table keyed by node, nodes) *)
Definition bstate := (list (bdd * nat) * list row)%type.

Fixpoint blookup (k : bdd) (t : list (bdd * nat)) : option nat :=
  match t with
  | [] => None
  | (k', i) :: r => if bdd_eqb k k' then Some i else blookup k r
  end.

(* serialize_helper: constants; a node already in the table; otherwise low, then high, push,
   insert.  The key is the node, i.e. the pointer without its complement bit. *)
Fixpoint ser_bdd (p : bdd) (st : bstate) : sptr * bstate :=
  match p with
  | BT => (PTrue, st)
  | BF => (PFalse, st)
  | BN c v lo hi =>
    match blookup (BN false v lo hi) (fst st) with
    | Some i => (PPtr i c, st)
    | None =>
      let '(l, st1) := ser_bdd lo st in
      let '(h, st2) := ser_bdd hi st1 in
      let index := length (snd st2) in
      (PPtr index c, ((BN false v lo hi, index) :: fst st2, snd st2 ++ [(v, l, h)]))
    end
  end.

(* from_bdd: BDDSerializer { nodes, roots: vec![r] } *)
Definition bdd_serialize (p : bdd) : list row * sptr :=
  let '(r, st) := ser_bdd p ([], []) in (snd st, r).

(* -- independent readers of a node table -- *)
(* value of a pointer given the values of the rows read so far *)
Definition ptr_val (vals : list bool) (p : sptr) : option bool :=
  match p with
  | PTrue => Some true
  | PFalse => Some false
  | PPtr i c => match nth_error vals i with Some b => Some (xorb c b) | None => None end
  end.
(* rows are read in order; a row may only point to earlier rows (None otherwise) *)
Fixpoint eval_rows (rows : list row) (vals : list bool) (a : asg) : option (list bool) :=
  match rows with
  | [] => Some vals
  | (v, l, h) :: r =>
    match ptr_val vals l, ptr_val vals h with
    | Some bl, Some bh => eval_rows r (vals ++ [if a v then bh else bl]) a
    | _, _ => None
    end
  end.
Definition eval_table (t : list row) (root : sptr) (a : asg) : option bool :=
  match eval_rows t [] a with Some vals => ptr_val vals root | None => None end.

(* deserialiser: rebuilds the unfolding *)
Definition with_compl (c : bool) (p : bdd) : bdd :=
  match p with BN _ v l h => BN c v l h | _ => p end.
Definition ptr_tree (trees : list bdd) (p : sptr) : option bdd :=
  match p with
  | PTrue => Some BT
  | PFalse => Some BF
  | PPtr i c => match nth_error trees i with Some t => Some (with_compl c t) | None => None end
  end.
Fixpoint unfold_rows (rows : list row) (trees : list bdd) : option (list bdd) :=
  match rows with
  | [] => Some trees
  | (v, l, h) :: r =>
    match ptr_tree trees l, ptr_tree trees h with
    | Some tl, Some th => unfold_rows r (trees ++ [BN false v tl th])
    | _, _ => None
    end
  end.
Definition unfold_table (t : list row) (root : sptr) : option bdd :=
  match unfold_rows t [] with Some trees => ptr_tree trees root | None => None end.

(* children indices smaller than the row's own index *)
Definition ptr_below (n : nat) (p : sptr) : bool :=
  match p with PPtr i _ => Nat.ltb i n | _ => true end.
Fixpoint rows_ordered_from (n : nat) (rows : list row) : bool :=
  match rows with
  | [] => true
  | (_, l, h) :: r => ptr_below n l && ptr_below n h && rows_ordered_from (S n) r
  end.
Definition rows_ordered (rows : list row) : bool := rows_ordered_from 0 rows.

(* ==================================================================================== *)
(* (e) SDDSerializer *)
Import SddOps.
Inductive xptr :=                                                          (* SerSDDPtr *)
| XPtr (index : nat) (compl : bool) | XPTrue | XPFalse | XPLit (label : var) (pol : bool).
Definition xrow := list (xptr * xptr).                                     (* SDDOr(Vec<SDDAnd>) *)
Definition sstate := (list (sdd * nat) * list xrow)%type.

Fixpoint slookup (k : sdd) (t : list (sdd * nat)) : option nat :=
  match t with
  | [] => None
  | (k', i) :: r => if sdd_eqb k k' then Some i else slookup k r
  end.

(* matches!(sdd, PtrFalse | Var(_, false) | ComplBDD(_) | Compl(_)) *)
Definition s_compl (p : sdd) : bool :=
  match p with SF | SVar _ false | SBdd true _ _ _ _ | SOr true _ _ => true | _ => false end.
(* ComplBDD(b) => BDD(b), Compl(or) => Reg(or), _ => sdd *)
Definition s_reg (p : sdd) : sdd :=
  match p with
  | SBdd true l i lo hi => SBdd false l i lo hi
  | SOr true i els => SOr false i els
  | _ => p
  end.

Fixpoint ser_sdd (p : sdd) (st : sstate) : xptr * sstate :=
  match slookup (s_reg p) (fst st) with
  | Some i => (XPtr i (s_compl p), st)
  | None =>
    match p with
    | ST => (XPTrue, st)
    | SF => (XPFalse, st)
    | SVar l pol => (XPLit l pol, st)
    | SBdd c lbl idx lo hi =>
      let '(l, st1) := ser_sdd lo st in
      let '(h, st2) := ser_sdd hi st1 in
      let index := length (snd st2) in
      (XPtr index (s_compl p),
       ((SBdd false lbl idx lo hi, index) :: fst st2,
        snd st2 ++ [[(XPLit lbl true, h); (XPLit lbl false, l)]]))
    | SOr c idx els =>
      let '(o, st1) :=
        (fix go (l : list elem) (st : sstate) : xrow * sstate :=
           match l with
           | [] => ([], st)
           | (pr, sb) :: r =>
             let '(pp, s1) := ser_sdd pr st in
             let '(ss, s2) := ser_sdd sb s1 in
             let '(rest, s3) := go r s2 in
             ((pp, ss) :: rest, s3)
           end) els st in
      let index := length (snd st1) in
      (XPtr index (s_compl p), ((SOr false idx els, index) :: fst st1, snd st1 ++ [o]))
    end
  end.
(* the element loop of the SOr case, as a function of its own (for the proofs) *)
Fixpoint ser_els (l : list elem) (st : sstate) : xrow * sstate :=
  match l with
  | [] => ([], st)
  | (pr, sb) :: r =>
    let '(pp, s1) := ser_sdd pr st in
    let '(ss, s2) := ser_sdd sb s1 in
    let '(rest, s3) := ser_els r s2 in
    ((pp, ss) :: rest, s3)
  end.

Definition sdd_serialize (p : sdd) : list xrow * xptr :=
  let '(r, st) := ser_sdd p ([], []) in (snd st, r).

(* independent reader: a row is the disjunction of the conjunctions prime /\ sub *)
Definition xptr_val (vals : list bool) (a : asg) (p : xptr) : option bool :=
  match p with
  | XPTrue => Some true
  | XPFalse => Some false
  | XPLit l pol => Some (Bool.eqb (a l) pol)
  | XPtr i c => match nth_error vals i with Some b => Some (xorb c b) | None => None end
  end.
Fixpoint xrow_val (vals : list bool) (a : asg) (r : xrow) : option bool :=
  match r with
  | [] => Some false
  | (p, s) :: t =>
    match xptr_val vals a p, xptr_val vals a s, xrow_val vals a t with
    | Some bp, Some bs, Some bt => Some ((bp && bs) || bt)
    | _, _, _ => None
    end
  end.
Fixpoint eval_xrows (rows : list xrow) (vals : list bool) (a : asg) : option (list bool) :=
  match rows with
  | [] => Some vals
  | r :: t => match xrow_val vals a r with Some b => eval_xrows t (vals ++ [b]) a | None => None end
  end.
Definition eval_xtable (t : list xrow) (root : xptr) (a : asg) : option bool :=
  match eval_xrows t [] a with Some vals => xptr_val vals a root | None => None end.

Definition xptr_below (n : nat) (p : xptr) : bool :=
  match p with XPtr i _ => Nat.ltb i n | _ => true end.
Fixpoint xrows_ordered_from (n : nat) (rows : list xrow) : bool :=
  match rows with
  | [] => true
  | r :: t => forallb (fun e => xptr_below n (fst e) && xptr_below n (snd e)) r && xrows_ordered_from (S n) t
  end.
Definition xrows_ordered (rows : list xrow) : bool := xrows_ordered_from 0 rows.

(* ==================================================================================== *)
(* VTreeSerializer: SerVTree mirrors the tree *)
Inductive ser_vtree := SVLeaf (v : nat) | SVNode (left right : ser_vtree).
Fixpoint vtree_serialize (t : VTree.vtree) : ser_vtree :=
  match t with
  | VTree.VLeaf v => SVLeaf v
  | VTree.VNode l r => SVNode (vtree_serialize l) (vtree_serialize r)
  end.
(* the reader *)
Fixpoint vtree_deserialize (s : ser_vtree) : VTree.vtree :=
  match s with
  | SVLeaf v => VTree.VLeaf v
  | SVNode l r => VTree.VNode (vtree_deserialize l) (vtree_deserialize r)
  end.

(* ==================================================================================== *)
(* what the correspondence driver runs (wrappers with clash-free names) *)
Definition c17_bdd_pool (o : list nat) (ops : list BddProg.bop) : option (list bdd) :=
  match BddProg.run_prog (fun _ => true) (BddProg.bstate_init o) ops with
  | Some st => Some (BddProg.bpool st) | None => None end.
Definition c17_sdd_pool (t : SddVtree.vtree) (compress_on : bool) (ops : list SddOps.sop) : res (list sdd) :=
  SddOps.run_prog t compress_on ops.

Definition bo_const := BddProg.OConst.   Definition bo_var := BddProg.OVar.
Definition bo_neg := BddProg.ONeg.       Definition bo_and := BddProg.OAnd.
Definition bo_or := BddProg.OOr.         Definition bo_xor := BddProg.OXor.
Definition bo_iff := BddProg.OIff.       Definition bo_ite := BddProg.OIte.
Definition bo_cond := BddProg.OCond.     Definition bo_cond_model := BddProg.OCondModel.
Definition bo_exists := BddProg.OExists. Definition bo_compose := BddProg.OCompose.
Definition bo_and_lst := BddProg.OAndLst. Definition bo_or_lst := BddProg.OOrLst.
Definition bo_new_var := BddProg.ONewVar.
Definition so_true := SddOps.OTrue.      Definition so_false := SddOps.OFalse.
Definition so_var := SddOps.OVar.        Definition so_neg := SddOps.ONeg.
Definition so_and := SddOps.OAnd.        Definition so_or := SddOps.OOr.
Definition so_xor := SddOps.OXor.        Definition so_iff := SddOps.OIff.
Definition so_ite := SddOps.OIte.        Definition so_cond := SddOps.OCond.
Definition so_exists := SddOps.OExists.  Definition so_compose := SddOps.OCompose.
Definition sv_leaf := SddVtree.VLeaf.    Definition sv_node := SddVtree.VNode.
Definition vt_leaf := VTree.VLeaf.       Definition vt_node := VTree.VNode.

(* truth tables over variables lo .. lo+n-1 (row k: variable lo+j = bit j of k), for the driver *)
Definition asg_of_row (lo : N) (k : N) : asg := fun v => N.testbit k (v - lo).
Definition rows_upto (n : nat) : list N := map N.of_nat (seq 0 (2 ^ n)).
Definition expr_table (lo : N) (n : nat) (e : expr) : list bool :=
  map (fun k => den_e e (asg_of_row lo k)) (rows_upto n).
