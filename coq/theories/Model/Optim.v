(* Model of the optimisation queries of repr/bdd.rs (C12):
     bdd_fold / bdd_fold_h, marginal_map_eval, marginal_map_h, marginal_map,
     eu_ub, meu_h, meu, bb_ub, bb_h, bb.
   One definition per Rust function, same case analysis, same order of steps.

   * bdd_fold_h: the per-node dual-polarity scratch memo is removed (memoised = plain
     recursion is C10; bdd_fold clears the scratch after every call).  [self.low()] /
     [self.high()] push the complement bit of the pointer to the children, so the model
     recurses with a complement flag; PtrTrue => high_v, PtrFalse => low_v.
   * PartialModel (repr/model.rs): two bit sets (true_assignments, false_assignments); modelled
     as a function var -> option bool ([get]) with functional [set].  [assignment_iter] lists the
     false assignments in ascending order and then the true ones; the model enumerates the
     variables 0 .. num_vars-1 (every partial model the code builds here only holds variables
     below num_vars: [from_litvec] indexes a vector of length num_vars and panics otherwise,
     which is the [None] result of marginal_map_m / meu_m / bb_m).
   * BitSet::from_iter(end) + contains = list membership.
   * f64 is modelled by exact canonical rationals (Qc) as in Model/Semirings.v: the statements
     are about exactly representable values with exactly representable results (what the
     correspondence generates: dyadic weights).
   No proofs in this file. *)
From Coq Require Import Bool NArith ZArith QArith Qcanon List Arith.
Import ListNotations.
From RsddV Require Import Base.Bdd Model.Semirings.

(* ------------------------------------------------------------------------------------- *)
(* bdd_fold_h / bdd_fold                                                                   *)
Section Fold.
  Context {T : Type}.
  Variable f : var -> T -> T -> T.
  Variable low_v high_v : T.

  (* bdd_fold_c c p = bdd_fold_h of the pointer p complemented c times *)
  Fixpoint bdd_fold_c (c0 : bool) (p : bdd) : T :=
    match p with
    | BT => if c0 then low_v else high_v        (* PtrTrue => high_v *)
    | BF => if c0 then high_v else low_v        (* PtrFalse => low_v *)
    | BN c v lo hi =>
      let c' := xorb c0 c in
      let l := bdd_fold_c c' lo in              (* self.low().bdd_fold_h(..) *)
      let h := bdd_fold_c c' hi in              (* self.high().bdd_fold_h(..) *)
      f v l h
    end.
  Definition bdd_fold_m (p : bdd) : T := bdd_fold_c false p.
End Fold.

(* ------------------------------------------------------------------------------------- *)
(* PartialModel                                                                            *)
Definition pm := var -> option bool.
Definition pm_empty : pm := fun _ => None.                    (* from_litvec(&[], n) *)
Definition pm_get (m : pm) (x : var) : option bool := m x.
Definition pm_set (m : pm) (x : var) (b : bool) : pm :=
  fun y => if N.eqb y x then Some b else m y.

(* from_litvec: init_assgn[label] = Some(polarity) for each literal in turn; index out of
   bounds panics = None *)
Definition pm_from_litvec (lits : list (var * bool)) (num_vars : nat) : option pm :=
  fold_left (fun acc l =>
               match acc with
               | None => None
               | Some m => if Nat.ltb (N.to_nat (fst l)) num_vars
                           then Some (pm_set m (fst l) (snd l)) else None
               end) lits (Some pm_empty).

Definition var_range (n : nat) : list var := map N.of_nat (seq 0 n).
Definition is_some_b (b : bool) (o : option bool) : bool :=
  match o with Some b' => Bool.eqb b b' | None => false end.
(* assignment_iter: false assignments ascending, chained with the true ones ascending *)
Definition assignment_iter (m : pm) (num_vars : nat) : list (var * bool) :=
  map (fun x => (x, false)) (filter (fun x => is_some_b false (m x)) (var_range num_vars)) ++
  map (fun x => (x, true)) (filter (fun x => is_some_b true (m x)) (var_range num_vars)).

(* BitSet::contains on BitSet::from_iter(l) *)
Definition mem_var (x : var) (l : list var) : bool := existsb (N.eqb x) l.

(* ------------------------------------------------------------------------------------- *)
(* marginal MAP (RealSemiring)                                                             *)
Local Open Scope Qc_scope.
Section MarginalMap.
  Variable num_vars : nat.
  Variable wlo whi : var -> real.          (* wmc.var_weight(v) = (low_w, high_w) *)
  Variable p : bdd.

  Definition marginal_map_eval_m (partial_map_assgn : pm) (map_vars : list var) : real :=
    let v := bdd_fold_m
      (fun varlabel low high =>
         let low_w := wlo varlabel in let high_w := whi varlabel in
         match pm_get partial_map_assgn varlabel with
         | None => if mem_var varlabel map_vars
                   then qmax (low_w * low) (high_w * high)
                   else (low_w * low) + (high_w * high)
         | Some true => high
         | Some false => low
         end) 0 1 p in
    (* multiply in weights of all variables in the partial assignment *)
    fold_left (fun (v : real) (lit : var * bool) => if snd lit then v * whi (fst lit) else v * wlo (fst lit))
              (assignment_iter partial_map_assgn num_vars) v.

  Fixpoint marginal_map_h_m (cur_lb : real) (cur_best : pm) (margvars : list var) (cur_assgn : pm)
    : real * pm :=
    match margvars with
    | [] =>
      let possible_best := marginal_map_eval_m cur_assgn [] in
      if qgt possible_best cur_lb then (possible_best, cur_assgn) else (cur_lb, cur_best)
    | x :: end_ =>
      let true_model := pm_set cur_assgn x true in
      let false_model := pm_set cur_assgn x false in
      let true_ub := marginal_map_eval_m true_model end_ in
      let false_ub := marginal_map_eval_m false_model end_ in
      (* branch on the greater upper-bound first *)
      let order := if qgt true_ub false_ub
                   then [(true_ub, true_model); (false_ub, false_model)]
                   else [(false_ub, false_model); (true_ub, true_model)] in
      fold_left (fun (best : real * pm) (um : real * pm) =>
                   if qgt (fst um) (fst best)
                   then marginal_map_h_m (fst best) (snd best) end_ (snd um)
                   else best) order (cur_lb, cur_best)
    end.

  Definition marginal_map_m (vars : list var) : option (real * pm) :=
    match pm_from_litvec (map (fun x => (x, true)) vars) num_vars with
    | None => None
    | Some cur_assgn =>
      let lower_bound := marginal_map_eval_m cur_assgn [] in
      Some (marginal_map_h_m lower_bound cur_assgn vars pm_empty)
    end.
End MarginalMap.

(* ------------------------------------------------------------------------------------- *)
(* maximum expected utility (ExpectedUtility)                                              *)
Section Meu.
  Variable num_vars : nat.
  Variable wlo whi : var -> eu.
  Variable p : bdd.

  Definition eu_ub_m (partial_decisions : pm) (decision_vars : list var) : eu :=
    bdd_fold_m
      (fun varlabel low high =>
         let false_w := wlo varlabel in let true_w := whi varlabel in
         match pm_get partial_decisions varlabel with
         | None => if mem_var varlabel decision_vars
                   then (qmax (fst low) (fst high), qmax (snd low) (snd high))
                   else eu_add (eu_mul false_w low) (eu_mul true_w high)
         | Some true => high
         | Some false => low
         end) (sr_zero eu_ops) (sr_one eu_ops) p.

  Fixpoint meu_h_m (cur_lb : eu) (cur_best : pm) (decision_vars : list var) (cur_assgn : pm)
    : eu * pm :=
    match decision_vars with
    | [] =>
      let possible_best := eu_ub_m cur_assgn [] in
      if qgt (snd possible_best) (snd cur_lb) then (possible_best, cur_assgn) else (cur_lb, cur_best)
    | x :: end_ =>
      let true_model := pm_set cur_assgn x true in
      let false_model := pm_set cur_assgn x false in
      let true_ub := eu_ub_m true_model end_ in
      let false_ub := eu_ub_m false_model end_ in
      let order := if qgt (snd true_ub) (snd false_ub)
                   then [(true_ub, true_model); (false_ub, false_model)]
                   else [(false_ub, false_model); (true_ub, true_model)] in
      fold_left (fun (best : eu * pm) (um : eu * pm) =>
                   if qgt (snd (fst um)) (snd (fst best))
                   then meu_h_m (fst best) (snd best) end_ (snd um)
                   else best) order (cur_lb, cur_best)
    end.

  Definition meu_m (decision_vars : list var) : option (eu * pm) :=
    match pm_from_litvec (map (fun x => (x, true)) decision_vars) num_vars with
    | None => None
    | Some cur_assgn =>
      let lower_bound := eu_ub_m cur_assgn [] in
      Some (meu_h_m lower_bound cur_assgn decision_vars pm_empty)
    end.
End Meu.
Local Close Scope Qc_scope.

(* ------------------------------------------------------------------------------------- *)
(* generic branch and bound over a BBSemiring                                              *)
(* the operations of the traits Semiring + JoinSemilattice (PartialOrd) + BBSemiring, and the
   == of PartialEq, as a record; the laws are hypotheses of the theorems (Proofs/Optim.v) *)
Record bb_ops (T : Type) := {
  bb_sr : sr_ops T;
  bb_join : T -> T -> T;            (* JoinSemilattice::join *)
  bb_choose : T -> T -> T;          (* BBSemiring::choose *)
  bb_le : T -> T -> bool;           (* PartialOrd::le *)
  bb_eq : T -> T -> bool            (* PartialEq::eq *)
}.
Arguments bb_sr {T}. Arguments bb_join {T}. Arguments bb_choose {T}. Arguments bb_le {T}. Arguments bb_eq {T}.

Section BB.
  Context {T : Type}.
  Variable o : bb_ops T.
  Variable num_vars : nat.
  Variable wlo whi : var -> T.
  Variable p : bdd.
  Let mul := sr_mul (bb_sr o).
  Let add := sr_add (bb_sr o).

  Definition bb_ub_m (partial_join_assgn : pm) (join_vars : list var) : T :=
    let partial_join_acc :=
      fold_left (fun (acc : T) (lit : var * bool) => if snd lit then mul acc (whi (fst lit)) else mul acc (wlo (fst lit)))
                (assignment_iter partial_join_assgn num_vars) (sr_one (bb_sr o)) in
    let v := bdd_fold_m
      (fun varlabel low high =>
         let w_l := wlo varlabel in let w_h := whi varlabel in
         match pm_get partial_join_assgn varlabel with
         | None => if mem_var varlabel join_vars
                   then bb_join o (mul w_l low) (mul w_h high)
                   else add (mul w_l low) (mul w_h high)
         | Some true => high
         | Some false => low
         end) (sr_zero (bb_sr o)) (sr_one (bb_sr o)) p in
    mul partial_join_acc v.

  Fixpoint bb_h_m (cur_lb : T) (cur_best : pm) (join_vars : list var) (cur_assgn : pm) : T * pm :=
    match join_vars with
    | [] =>
      let possible_best := bb_ub_m cur_assgn [] in
      let best := bb_choose o cur_lb possible_best in
      if bb_eq o cur_lb best then (cur_lb, cur_best) else (possible_best, cur_assgn)
    | x :: end_ =>
      let true_model := pm_set cur_assgn x true in
      let false_model := pm_set cur_assgn x false in
      let true_ub := bb_ub_m true_model end_ in
      let false_ub := bb_ub_m false_model end_ in
      let order := if bb_eq o true_ub (bb_choose o true_ub false_ub)
                   then [(true_ub, true_model); (false_ub, false_model)]
                   else [(false_ub, false_model); (true_ub, true_model)] in
      (* the pruning test compares with cur_lb (not best_lb); one branch resets to
         (cur_lb, cur_best) *)
      fold_left (fun (best : T * pm) (um : T * pm) =>
                   if negb (bb_le o (fst um) cur_lb)
                   then
                     let r := bb_h_m (fst best) (snd best) end_ (snd um) in
                     let new_lb := bb_choose o cur_lb (fst r) in
                     if bb_eq o new_lb (fst r) then (fst r, snd r) else (cur_lb, cur_best)
                   else best) order (cur_lb, cur_best)
    end.

  Definition bb_m (join_vars : list var) : option (T * pm) :=
    match pm_from_litvec (map (fun x => (x, true)) join_vars) num_vars with
    | None => None
    | Some cur_assgn =>
      let lower_bound := bb_ub_m cur_assgn [] in
      Some (bb_h_m lower_bound cur_assgn join_vars pm_empty)
    end.
End BB.

(* the two shipped instances of BBSemiring *)
Definition real_bb : bb_ops real :=
  {| bb_sr := real_ops; bb_join := real_join; bb_choose := real_choose; bb_le := real_le;
     bb_eq := qeq |}.
(* derive(PartialEq) on ExpectedUtility(f64, f64): both components equal *)
Definition eu_eqb (a b : eu) : bool := qeq (fst a) (fst b) && qeq (snd a) (snd b).
Definition eu_bb : bb_ops eu :=
  {| bb_sr := eu_ops; bb_join := eu_join; bb_choose := eu_choose; bb_le := eu_le;
     bb_eq := eu_eqb |}.

Definition bb_real_m := @bb_m real real_bb.
Definition bb_eu_m := @bb_m eu eu_bb.
