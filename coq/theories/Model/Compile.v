(* Model of bottom-up compilation with the BDD builder (builder/mod.rs compile_logical_expr /
   compile_plan, builder/bdd/builder.rs compile_cnf / collapse_clauses /
   compile_cnf_with_assignments, plan/bottom_up_plan.rs from_dtree).  LogicalExpr and
   BottomUpPlan are both instances of [expr] (the former has no constants, the latter no xor);
   the trait defaults evaluate sub-terms left to right and then apply the builder operation. *)
From Coq Require Import Bool NArith List Lia Arith.
Import ListNotations.
From RsddV Require Import Base.Bdd Model.IteStd Model.BddOps.

Inductive expr :=
| ELit (v : var) (pol : bool) | ETrue | EFalse
| ENot (e : expr) | EAnd (a b : expr) | EOr (a b : expr) | EIff (a b : expr) | EXor (a b : expr)
| EIte (g t e : expr).

Definition literal := (var * bool)%type.
Definition clause := list literal.
Definition cnf := list clause.

Section C.
Variable level : var -> nat.
Variable remember : nat -> bool.
Variable fuel : nat.

Fixpoint compile_e (e : expr) (s : cst) : option (bdd * cst) :=
  match e with
  | ELit v pol => Some (var_m v pol, s)
  | ETrue => Some (BT, s)
  | EFalse => Some (BF, s)
  | ENot a => match compile_e a s with Some (r, s1) => Some (neg r, s1) | None => None end
  | EAnd a b =>
    match compile_e a s with None => None | Some (ra, s1) =>
    match compile_e b s1 with None => None | Some (rb, s2) => and_m level remember fuel s2 ra rb end end
  | EOr a b =>
    match compile_e a s with None => None | Some (ra, s1) =>
    match compile_e b s1 with None => None | Some (rb, s2) => or_m level remember fuel s2 ra rb end end
  | EIff a b =>
    match compile_e a s with None => None | Some (ra, s1) =>
    match compile_e b s1 with None => None | Some (rb, s2) => iff_m level remember fuel s2 ra rb end end
  | EXor a b =>
    match compile_e a s with None => None | Some (ra, s1) =>
    match compile_e b s1 with None => None | Some (rb, s2) => xor_m level remember fuel s2 ra rb end end
  | EIte g t e' =>
    match compile_e g s with None => None | Some (rg, s1) =>
    match compile_e t s1 with None => None | Some (rt, s2) =>
    match compile_e e' s2 with None => None | Some (re, s3) => ite_m level remember fuel s3 rg rt re end end end
  end.
End C.

(* ---- the expressions the CNF compilers build ---- *)
(* compile_cnf: bdd = var(c[0]); for lit in c { bdd = or(bdd, var(lit)) } *)
Definition clause_expr (c : clause) : expr :=
  match c with
  | [] => EFalse
  | (v, p) :: _ => fold_left (fun acc l => EOr acc (ELit (fst l) (snd l))) c (ELit v p)
  end.

(* collapse_clauses: balanced conjunction, split at len/2 *)
Fixpoint collapse (fuel : nat) (l : list expr) : option expr :=
  match fuel with
  | O => None
  | S f =>
    match l with
    | [] => None
    | [x] => Some x
    | _ => let k := Nat.div2 (length l) in
           match collapse f (firstn k l), collapse f (skipn k l) with
           | Some a, Some b => Some (EAnd a b)
           | Some a, None | None, Some a => Some a
           | None, None => None
           end
    end
  end.

(* compile_cnf: the clause order after the best-effort sort is unspecified (the comparator is
   not a total order); by canonicity the result does not depend on it (theorem
   compile_cnf_perm), so the model takes the clauses in the given order. *)
Definition cnf_expr (f : cnf) : expr :=
  if Nat.eqb (length f) 0 then ETrue
  else if existsb (fun c => Nat.eqb (length c) 0) f then EFalse
  else match collapse (S (length f)) (map clause_expr f) with Some e => e | None => ETrue end.

(* compile_cnf_with_assignments: clause under a partial assignment; the size-ordered heap
   combines the clause diagrams in an unspecified order (ties), modelled as a left fold *)
Definition asg_get (m : list literal) (v : var) : option bool :=
  match find (fun l => N.eqb (fst l) v) m with Some (_, b) => Some b | None => None end.
Fixpoint clause_expr_under (m : list literal) (c : clause) (cur : expr) : expr :=
  match c with
  | [] => cur
  | (v, p) :: r =>
    match asg_get m v with
    | None => clause_expr_under m r (EOr (ELit v p) cur)
    | Some b => if Bool.eqb b p then ETrue else clause_expr_under m r cur
    end
  end.
Definition cnf_expr_under (m : list literal) (f : cnf) : expr :=
  match map (fun c => clause_expr_under m c EFalse) f with
  | [] => ETrue
  | e :: r => fold_left EAnd r e
  end.

(* BottomUpPlan::from_dtree on the shape of a dtree *)
Inductive dshape := DLeaf (c : clause) | DNode (l r : dshape).
Fixpoint plan_of_dtree (t : dshape) : expr :=
  match t with
  | DNode l r => EAnd (plan_of_dtree l) (plan_of_dtree r)
  | DLeaf [] => EFalse
  | DLeaf ((v, p) :: r) => fold_left (fun acc l => EOr acc (ELit (fst l) (snd l))) r (ELit v p)
  end.
Fixpoint dleaves (t : dshape) : list clause :=
  match t with DLeaf c => [c] | DNode l r => dleaves l ++ dleaves r end.

(* ---- semantics ---- *)
Fixpoint den_e (e : expr) (x : asg) : bool :=
  match e with
  | ELit v pol => Bool.eqb (x v) pol
  | ETrue => true | EFalse => false
  | ENot a => negb (den_e a x)
  | EAnd a b => den_e a x && den_e b x
  | EOr a b => den_e a x || den_e b x
  | EIff a b => Bool.eqb (den_e a x) (den_e b x)
  | EXor a b => xorb (den_e a x) (den_e b x)
  | EIte g t e' => if den_e g x then den_e t x else den_e e' x
  end.
Definition lit_eval (x : asg) (l : literal) : bool := Bool.eqb (x (fst l)) (snd l).
Definition clause_eval (x : asg) (c : clause) : bool := existsb (lit_eval x) c.
Definition cnf_eval (f : cnf) (x : asg) : bool := forallb (clause_eval x) f.
Fixpoint evars (e : expr) : list var :=
  match e with
  | ELit v _ => [v] | ETrue | EFalse => []
  | ENot a => evars a
  | EAnd a b | EOr a b | EIff a b | EXor a b => evars a ++ evars b
  | EIte g t e' => evars g ++ evars t ++ evars e'
  end.
