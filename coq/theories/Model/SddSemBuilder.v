(* C11 -- model of SemanticSddBuilder (src/builder/sdd/semantic.rs), the SDD builder that identifies
   nodes by their semantic hash.  It implements the generic trait SddBuilder
   (src/builder/sdd/builder.rs) whose default methods -- unique_or, unique_bdd, and_indep,
   and_sub_desc, and_prime_desc, and_cartesian, and, condition, exists, compile_cnf(_helper) -- are
   shared with CompressionSddBuilder; Model/SddOps.v transcribes them for the latter with the
   trait's hooks (sdd_eq, is_true, is_false, canonicalize, get_or_insert_bdd/sdd, app_cache_get /
   _insert) fixed to structural equality and pure node construction, so it is not parametric in
   them.  This file is the copy-and-adapt of those definitions with the hooks of semantic.rs:

     sdd_eq(a, b)            = a.cached_semantic_hash() == b.cached_semantic_hash()      [eqS]
     is_true(a) / is_false(a)= eq(a, PtrTrue) / eq(a, PtrFalse)   (builder.rs:41-47: by HASH)
     compress                = no-op;  canonicalize(node, table) = unique_or(node, table)
     get_or_insert_bdd / get_or_insert_sdd(node):                               [get_or_insert]
        h = node.semantic_hash()
        check_cached_hash_and_neg(h): get_shared_sdd_ptr(h), then get_shared_sdd_ptr(h.negate()).neg()
        get_shared_sdd_ptr(h): value 0 => PtrFalse, 1 => PtrTrue, else bdd_tbl.get_by_hash,
                               then sdd_tbl.get_by_hash
        miss: insert the node as given, pointer Reg / BDD to it
     app_cache_get(SddAnd(a, b)): h = a.hash * b.hash; 0 => PtrFalse, 1 => PtrTrue, else the
        HashMap<u128, SddPtr> entry; app_cache_insert: insert under h when h > 1
     ite_cache_*             = todo!(): ite / iff / xor (and compose, which calls iff) panic unless
                               Ite::new already resolves the triple to a constant (builder.rs:553-557)

   Representation.  Pointers are unfoldings ([sdd] of Model/SddOps.v).  The hash of a pointer is a
   function of its unfolding: [shash] is SddPtr::cached_semantic_hash / BinarySDD::semantic_hash /
   SddOr::semantic_hash / SddAnd::semantic_hash (Model/SddSemHash.v has the same recursion WITH
   the per-node cache fields and the checked u128 arithmetic: sdd_cached_hash, proved to return
   exactly [shash] for every pointer: Proofs/SddSemBuilderCoded.v; here the value in Z/P is
   recomputed, as Model/TopDownStore.v does for the semantic decision-DNNF store).  The builder
   functions take the pointer hash as a parameter [H]; [run_prog_sem] and all theorems fix
   H = shash P w.  A weight missing from the map makes the Rust code panic; [swl]/[swh] are
   total (the labels of well-formed pointers are leaves of the vtree, whose variables the map of
   SemanticSddBuilder::new covers).
   The two tables (BackedRobinhoodTable driven by get_by_hash / get_or_insert_by_hash(.., true) on
   FxHasher(h.value())) are ONE finite map from the semantic hash VALUE to the stored node (as its
   regular pointer): a value is inserted only after both tables missed it, so it lives in at most
   one of them; FxHasher is taken to be injective on the values met (as in Model/TopDownStore.v).
   The apply cache is a finite map from the product value to the stored pointer.

   Ghost output.  Every operation also returns the list of [ev]ents it caused: [EPtr p] for every
   pointer whose hash was compared by sdd_eq, [EReq n] for every node requested from
   get_or_insert_bdd / _sdd, [EPair a b] for every operand pair whose product keyed the apply cache.  They are what "the nodes requested during
   the run" means in the conditional theorems; the store never reads them.

   [res]: Ok / OutOfFuel / Panic as in Model/SddOps.v.  Fuel bounds the depth of and(); with hash
   identification a pointer returned by the store may be normalised for a HIGHER vtree node than
   the one requested, so the depth is not bounded by the vtree height; the theorems are stated
   for runs that return.  No proofs in this file. *)
From Coq Require Import Bool NArith List Arith.
Import ListNotations.
From RsddV Require Import Base.Bdd Base.Util Model.SddVtree Model.SddOps Model.SemHash.

(* ---- ghost events ---- *)
Inductive ev := EPtr (p : sdd) | EReq (n : sdd) | EPair (a b : sdd).

(* ---- the builder state: node tables and apply cache ---- *)
Record sst := mkSst { s_tbl : list (N * sdd); s_app : list (N * sdd) }.
Definition sst_empty : sst := mkSst [] [].

Fixpoint tbl_get (t : list (N * sdd)) (h : N) : option sdd :=
  match t with
  | [] => None
  | (k, p) :: r => if N.eqb k h then Some p else tbl_get r h
  end.

(* ---- state + ghost-writer monad ---- *)
Definition M (A : Type) : Type := sst -> res (A * sst * list ev).
Definition ret {A} (x : A) : M A := fun st => Ok (x, st, []).
Definition bnd {A B} (m : M A) (f : A -> M B) : M B := fun st =>
  match m st with
  | Ok (x, st1, l1) =>
    match f x st1 with
    | Ok (y, st2, l2) => Ok (y, st2, l1 ++ l2)
    | OutOfFuel => OutOfFuel
    | Panic => Panic
    end
  | OutOfFuel => OutOfFuel
  | Panic => Panic
  end.
Definition panic {A} : M A := fun _ => Panic.
Definition out_of_fuel {A} : M A := fun _ => OutOfFuel.
Notation "'do' x <- m ; k" := (bnd m (fun x => k)) (at level 200, x name, m at level 100, k at level 200).

(* `a && b` / `a || b` on builder predicates: the right operand is evaluated only when needed *)
Definition andM (a b : M bool) : M bool := do x <- a; if x then b else ret false.
Definition orM (a b : M bool) : M bool := do x <- a; if x then ret true else b.

(* the "BinarySDD in disguise" test at the head of unique_or: node.len() == 2, both primes Var *)
Definition bdd_shape (node : list elem) : option (bool * sdd * var * sdd) :=
  match node with
  | [(SVar _ polarity, s0); (SVar label _, s1)] => Some (polarity, s0, label, s1)
  | _ => None
  end.

Section Hash.
Variable P : N.                     (* const P: u128 *)
Variable w : wmap.                  (* self.map = create_semantic_hash_map(num_vars) *)
(* ---- FiniteField<P> values in Z/P ---- *)
Definition swl (v : var) : N := fst (nth (N.to_nat v) w (1%N, 0%N)).
Definition swh (v : var) : N := snd (nth (N.to_nat v) w (1%N, 0%N)).
Definition negP (h : N) : N := ((1 + P - h) mod P)%N.          (* FiniteField::negate *)
Definition mulP (a b : N) : N := ((a * b) mod P)%N.            (* Mul for FiniteField *)
Definition cneg (c : bool) (h : N) : N := if c then negP h else h.

(* SddPtr::cached_semantic_hash (sdd.rs:64-84) with BinarySDD::semantic_hash (binary_sdd.rs:66),
   SddOr::semantic_hash (sdd_or.rs:45: FiniteField::new of the raw sum of the element products)
   and SddAnd::semantic_hash (sdd_or.rs:212) *)
Fixpoint shash (p : sdd) : N :=
  match p with
  | ST => (1 mod P)%N
  | SF => (0 mod P)%N
  | SVar v pol => if pol then swh v else swl v
  | SBdd c l _ lo hi => cneg c ((mulP (shash lo) (swl l) + mulP (shash hi) (swh l)) mod P)%N
  | SOr c _ els =>
    cneg c (((fix go (l : list elem) : N :=
                match l with
                | [] => 0%N
                | (pr, sb) :: r => (mulP (shash pr) (shash sb) + go r)%N
                end) els) mod P)%N
  end.
End Hash.

(* The builder proper.  [H] is the hash of a pointer as the builder computes it: the theorems and
   [run_prog_sem] instantiate it with [shash P w]; it is a parameter only so that the extracted
   model can be driven with a memoised copy of that function (the recursion recomputes the hash
   of a pointer at every comparison, the Rust code caches it on the node). *)
Section SemBuilder.
Variable t : vtree.                 (* the builder's VTreeManager *)
Variable P : N.                     (* const P: u128 *)
Variable H : sdd -> N.              (* SddPtr::cached_semantic_hash(&self.vtree, &self.map).value() *)

(* SddAnd::new(a, b).semantic_hash().value(): the apply-cache key *)
Definition app_key (a b : sdd) : N := mulP P (H a) (H b).

(* ---- SemanticSddBuilder::sdd_eq; SddBuilder::is_true / is_false ---- *)
Definition eqS (a b : sdd) : M bool :=
  fun st => Ok (N.eqb (H a) (H b), st, [EPtr a; EPtr b]).
Definition is_trueS (a : sdd) : M bool := eqS a ST.
Definition is_falseS (a : sdd) : M bool := eqS a SF.

(* ---- the node tables ---- *)
(* get_shared_sdd_ptr *)
Definition get_shared (st : sst) (h : N) : option sdd :=
  if N.eqb h 0 then Some SF
  else if N.eqb h 1 then Some ST
  else tbl_get (s_tbl st) h.
(* check_cached_hash_and_neg *)
Definition check_hash_and_neg (st : sst) (h : N) : option sdd :=
  match get_shared st h with
  | Some p => Some p
  | None => match get_shared st (negP P h) with Some p => Some (sneg p) | None => None end
  end.
(* get_or_insert_bdd / get_or_insert_sdd; [n] is the regular pointer to the requested node *)
Definition get_or_insert (n : sdd) : M sdd := fun st =>
  let h := H n in
  match check_hash_and_neg st h with
  | Some p => Ok (p, st, [EReq n])
  | None => Ok (n, mkSst ((h, n) :: s_tbl st) (s_app st), [EReq n])
  end.

(* ---- the apply cache ---- *)
Definition app_cache_get (a b : sdd) : M (option sdd) := fun st =>
  let h := app_key a b in
  Ok (if N.eqb h 0 then Some SF else if N.eqb h 1 then Some ST else tbl_get (s_app st) h, st, [EPair a b]).
Definition app_cache_insert (a b r : sdd) : M unit := fun st =>
  let h := app_key a b in
  Ok (tt, if N.ltb 1 h then mkSst (s_tbl st) ((h, r) :: s_app st) else st, [EPair a b]).

(* ---- SddBuilder::unique_bdd ---- *)
Definition unique_bdd (lbl : var) (lo hi : sdd) (idx : nat) : M sdd :=
  do e <- eqS hi lo;
  if e then ret hi else
  do c1 <- andM (is_falseS hi) (is_trueS lo);
  if c1 then ret (SVar lbl false) else
  do c2 <- andM (is_trueS hi) (is_falseS lo);
  if c2 then ret (SVar lbl true) else
  do c3 <- orM (ret (s_is_neg hi)) (orM (is_falseS hi) (ret (s_is_neg_var hi)));
  if c3 then do r <- get_or_insert (SBdd false lbl idx (sneg lo) (sneg hi)); ret (sneg r)
  else get_or_insert (SBdd false lbl idx lo hi).

(* ---- SddBuilder::unique_or; canonicalize = unique_or, compress = no-op ---- *)
Definition unique_or (node : list elem) (table : nat) : M sdd :=
  match bdd_shape node with
  | Some (polarity, s0, label, s1) =>
    unique_bdd label (if negb polarity then s0 else s1) (if polarity then s0 else s1) table
  | None =>
    match sort_els node with
    | [] => panic                                       (* node[0] on an empty vector *)
    | (p0, s0) :: rest =>
      do c <- orM (ret (s_is_neg s0)) (orM (is_falseS s0) (ret (s_is_neg_var s0)));
      if c then
        do r <- get_or_insert (SOr false table (map (fun e => (fst e, sneg (snd e))) ((p0, s0) :: rest)));
        ret (sneg r)
      else get_or_insert (SOr false table ((p0, s0) :: rest))
    end
  end.
Definition canonicalize (node : list elem) (table : nat) : M sdd := unique_or node table.

Section Rec.
Variable andf : sdd -> sdd -> M sdd.      (* the recursive calls self.and(..) *)

(* SddBuilder::and_indep *)
Definition and_indep (a b : sdd) (lca : nat) : M sdd :=
  if is_right_linear (node_at t lca) then
    match a with
    | SVar label true => unique_bdd label SF b lca
    | SVar label false => unique_bdd label b SF lca
    | _ => panic
    end
  else unique_or [(a, b); (sneg a, SF)] lca.

(* SddBuilder::and_sub_desc *)
Fixpoint sub_desc_loop (d : sdd) (els : list elem) : M (list elem) :=
  match els with
  | [] => ret []
  | (root_p, root_s) :: rest =>
    do new_s <- andf root_s d;
    do v <- sub_desc_loop d rest;
    ret ((root_p, new_s) :: v)
  end.
Definition and_sub_desc (r d : sdd) : M sdd :=
  match r with
  | SBdd c lbl idx lo hi =>
    do l <- andf (adj c lo) d;
    do h <- andf (adj c hi) d;
    unique_bdd lbl l h idx
  | SOr c idx els =>
    do v <- sub_desc_loop d (map (fun e => (fst e, adj c (snd e))) els);
    canonicalize v idx
  | _ => panic
  end.

(* the inner loop shared by and_prime_desc and and_cartesian; None = "return SddPtr::true_ptr()";
   [brk] enables the "p1 => p2" early break of and_cartesian *)
Fixpoint prod_inner (brk : bool) (p1 s1 : sdd) (bels : list elem) : M (option (list elem)) :=
  match bels with
  | [] => ret (Some [])
  | (p2, s2) :: rest =>
    do p <- andf p1 p2;
    do f <- is_falseS p;
    if f then prod_inner brk p1 s1 rest else
    do s <- andf s1 s2;
    do tt <- andM (is_trueS p) (is_trueS s);
    if tt then ret None else
    do b <- (if brk then eqS p1 p else ret false);
    if b then ret (Some [(p, s)]) else
    do o <- prod_inner brk p1 s1 rest;
    ret (match o with None => None | Some v => Some ((p, s) :: v) end)
  end.

(* SddBuilder::and_prime_desc *)
Fixpoint prime_desc_loop (d : sdd) (rels : list elem) : M (option (list elem)) :=
  match rels with
  | [] => ret (Some [])
  | (p1, s1) :: rest =>
    do o <- prod_inner false p1 s1 [(d, ST); (sneg d, SF)];
    match o with
    | None => ret None
    | Some v1 =>
      do o2 <- prime_desc_loop d rest;
      ret (match o2 with None => None | Some v2 => Some (v1 ++ v2) end)
    end
  end.
Definition and_prime_desc (r d : sdd) : M sdd :=
  match adj_elems r with
  | None => panic
  | Some rels =>
    do o <- prime_desc_loop d rels;
    match o with
    | None => ret ST
    | Some new_n => canonicalize new_n (vidx t r)      (* r.vtree() *)
    end
  end.

(* b.node_iter().find(|a| self.eq(a.prime(), p1)) *)
Fixpoint find_eq (p1 : sdd) (bels : list elem) : M (option elem) :=
  match bels with
  | [] => ret None
  | e :: rest => do b <- eqS (fst e) p1; if b then ret (Some e) else find_eq p1 rest
  end.

(* SddBuilder::and_cartesian *)
Fixpoint cartesian_loop (aels bels : list elem) : M (option (list elem)) :=
  match aels with
  | [] => ret (Some [])
  | (p1, s1) :: rest =>
    do eq_itm <- find_eq p1 bels;
    match eq_itm with
    | Some (_, s2) =>
      do s <- andf s1 s2;
      do o <- cartesian_loop rest bels;
      ret (match o with None => None | Some v => Some ((p1, s) :: v) end)
    | None =>
      do o <- prod_inner true p1 s1 bels;
      match o with
      | None => ret None
      | Some v1 =>
        do o2 <- cartesian_loop rest bels;
        ret (match o2 with None => None | Some v2 => Some (v1 ++ v2) end)
      end
    end
  end.
Definition and_cartesian (a b : sdd) (lca : nat) : M sdd :=
  let general :=
    match adj_elems a, adj_elems b with
    | Some aels, Some bels =>
      do o <- cartesian_loop aels bels;
      match o with None => ret ST | Some r => canonicalize r lca end
    | _, _ => panic
    end in
  match a with
  | SBdd _ lbl _ _ _ =>
    if is_right_linear (node_at t lca) then
      match slow a, shigh a, slow b, shigh b with
      | Some al, Some ah, Some bl, Some bh =>
        do l <- andf al bl;
        do h <- andf ah bh;
        unique_bdd lbl l h lca
      | _, _, _, _ => panic                 (* b.low() on a non-BinarySDD *)
      end
    else general
  | _ => general
  end.

(* BottomUpBuilder::and for SddBuilder.  vtree_index panics on a constant pointer; none reaches
   it (a constant has the hash of PtrTrue / PtrFalse), the branch is kept for fidelity. *)
Definition and_body (a b : sdd) : M sdd :=
  do t1 <- is_trueS a; if t1 then ret b else
  do t2 <- is_trueS b; if t2 then ret a else
  do f1 <- is_falseS a; if f1 then ret SF else
  do f2 <- is_falseS b; if f2 then ret SF else
  do e1 <- eqS a b; if e1 then ret a else
  do e2 <- eqS a (sneg b); if e2 then ret SF else
  if s_is_const a || s_is_const b then panic else
  let ab := if Nat.eqb (vidx t a) (vidx t b) || is_prime_index (vidx t a) (vidx t b) then (a, b) else (b, a) in
  let a := fst ab in let b := snd ab in
  do c <- app_cache_get a b;
  match c with
  | Some x => ret x
  | None =>
    let av := vidx t a in
    let bv := vidx t b in
    let l := lca t av bv in
    do r <- (if Nat.eqb av bv then and_cartesian a b l
             else if Nat.eqb l av then and_sub_desc a b
             else if Nat.eqb l bv then and_prime_desc b a
             else and_indep a b l);
    do u <- app_cache_insert a b r;
    ret r
  end.
End Rec.

Fixpoint and_m (fuel : nat) (a b : sdd) : M sdd :=
  match fuel with
  | O => out_of_fuel
  | S fuel' => and_body (and_m fuel') a b
  end.

(* BottomUpBuilder::or (default): De Morgan *)
Definition or_m (fuel : nat) (a b : sdd) : M sdd :=
  do r <- and_m fuel (sneg a) (sneg b); ret (sneg r).

(* BottomUpBuilder::condition, with the pending negation as a flag (as Model/SddOps.v: cond_m) *)
Section Cond.
Variable lbl : var.
Variable value : bool.

(* one iteration of the loop over f.node_iter(): inl = early "return news" *)
Definition cond_step (newp : sdd) (news : M sdd) (rest : M (sdd + list elem)) : M (sdd + list elem) :=
  do f <- is_falseS newp;
  if f then rest else
  do ns <- news;
  do tr <- is_trueS newp;
  if tr then ret (inl ns) else
  do r <- rest;
  ret (match r with inl x => inl x | inr v => inr ((newp, ns) :: v) end).

Definition cond_fin (idx : nat) (r : sdd + list elem) : M sdd :=
  match r with inl x => ret x | inr v => canonicalize v idx end.

Fixpoint cond_m (flip : bool) (f : sdd) : M sdd :=
  match f with
  | ST => ret (if flip then SF else ST)
  | SF => ret (if flip then ST else SF)
  | SVar l pol => ret (cond_var lbl value l (xorb flip pol))
  | SBdd c l idx lo hi =>
    let c' := xorb flip c in
    do r <- cond_step (cond_var lbl value l true) (cond_m c' hi)
              (cond_step (cond_var lbl value l false) (cond_m c' lo) (ret (inr [])));
    cond_fin idx r
  | SOr c idx els =>
    let c' := xorb flip c in
    do r <- (fix loop (l : list elem) : M (sdd + list elem) :=
               match l with
               | [] => ret (inr [])
               | (p, s) :: r => do newp <- cond_m false p; cond_step newp (cond_m c' s) (loop r)
               end) els;
    cond_fin idx r
  end.
End Cond.
Definition condition_m (f : sdd) (lbl : var) (value : bool) : M sdd :=
  cond_m lbl value false f.

(* BottomUpBuilder::ite: Ite::new first; a constant triple returns, everything else reaches
   ite_cache_hash = todo!().  iff = ite(f, g, !g), xor = ite(f, !g, g). *)
Definition ite_m (f g h : sdd) : M sdd :=
  match s_ite_new (is_prime_ptr t) f g h with
  | SIteConst r => ret r
  | _ => panic
  end.

(* BottomUpBuilder::exists *)
Definition exists_m (fuel : nat) (f : sdd) (lbl : var) : M sdd :=
  do v1 <- condition_m f lbl true;
  do v2 <- condition_m f lbl false;
  or_m fuel v1 v2.

(* BottomUpBuilder::compose (default): iff, and, exists *)
Definition compose_m (fuel : nat) (f : sdd) (lbl : var) (g : sdd) : M sdd :=
  do i <- ite_m (SVar lbl true) g (sneg g);
  do a <- and_m fuel i f;
  exists_m fuel a lbl.

(* SddBuilder::compile_cnf; [sorted] = the clause vector after sort_by (see Model/SddOps.v) *)
Fixpoint clause_fold (fuel : nat) (c : list lit) (acc : sdd) : M sdd :=
  match c with
  | [] => ret acc
  | l :: r => do b <- or_m fuel acc (SVar (fst l) (snd l)); clause_fold fuel r b
  end.
Definition clause_m (fuel : nat) (c : list lit) : M sdd :=
  match c with
  | [] => panic                                   (* lit_vec[0] on an empty clause *)
  | (v, p) :: _ => clause_fold fuel c (SVar v p)
  end.
Fixpoint clauses_m (fuel : nat) (cs : list (list lit)) : M (list sdd) :=
  match cs with
  | [] => ret []
  | c :: r => do x <- clause_m fuel c; do xs <- clauses_m fuel r; ret (x :: xs)
  end.
Fixpoint cnf_helper (fuel : nat) (hf : nat) (vec : list sdd) : M (option sdd) :=
  match hf with
  | O => out_of_fuel
  | S hf' =>
    match vec with
    | [] => ret None
    | [x] => ret (Some x)
    | _ =>
      let k := Nat.div2 (length vec) in
      do sub_l <- cnf_helper fuel hf' (firstn k vec);
      do sub_r <- cnf_helper fuel hf' (skipn k vec);
      match sub_l, sub_r with
      | None, None => ret None
      | Some v, None | None, Some v => ret (Some v)
      | Some l, Some r => do x <- and_m fuel l r; ret (Some x)
      end
    end
  end.
Definition compile_cnf_m (fuel : nat) (clauses sorted : list (list lit)) : M sdd :=
  if Nat.eqb (length clauses) 0 then ret ST
  else if existsb (fun c : list lit => Nat.eqb (length c) 0) clauses then ret SF
  else
    do cvec <- clauses_m fuel sorted;
    do r <- cnf_helper fuel (S (length cvec)) cvec;
    ret (match r with None => ST | Some x => x end).

(* ---- operation programs over a pool of results (the program language of Model/SddOps.v) ---- *)
Definition step_s (fuel : nat) (pool : list sdd) (o : sop) : M (list sdd) :=
  let push (r : M sdd) : M (list sdd) := do x <- r; ret (pool ++ [x]) in
  match o with
  | OTrue => push (ret ST)
  | OFalse => push (ret SF)
  | OVar v pol => push (ret (SVar v pol))
  | ONeg i => push (ret (sneg (pget pool i)))
  | OAnd i j => push (and_m fuel (pget pool i) (pget pool j))
  | OOr i j => push (or_m fuel (pget pool i) (pget pool j))
  | OXor i j => push (ite_m (pget pool i) (sneg (pget pool j)) (pget pool j))
  | OIff i j => push (ite_m (pget pool i) (pget pool j) (sneg (pget pool j)))
  | OIte i j k => push (ite_m (pget pool i) (pget pool j) (pget pool k))
  | OCond i v b => push (condition_m (pget pool i) v b)
  | OExists i v => push (exists_m fuel (pget pool i) v)
  | OCompose i v j => push (compose_m fuel (pget pool i) v (pget pool j))
  | OCnf f sorted => push (compile_cnf_m fuel f sorted)
  end.

Fixpoint run_s (fuel : nat) (pool : list sdd) (ops : list sop) : M (list sdd) :=
  match ops with
  | [] => ret pool
  | o :: r => do pool' <- step_s fuel pool o; run_s fuel pool' r
  end.

(* BottomUpBuilder::eq on two pool entries, after the program *)
Definition pool_eq (pool : list sdd) (i j : nat) : M bool := eqS (pget pool i) (pget pool j).

End SemBuilder.

(* a fresh builder: what the driver runs *)
Definition run_prog_sem (t : vtree) (P : N) (w : wmap) (fuel : nat) (ops : list sop)
  : res (list sdd * sst * list ev) :=
  run_s t P (shash P w) fuel [] ops sst_empty.
(* the same with the hash function supplied (extensionally [shash P w]): what the driver runs *)
Definition run_prog_sem_h (t : vtree) (P : N) (H : sdd -> N) (fuel : nat) (ops : list sop)
  : res (list sdd * sst * list ev) :=
  run_s t P H fuel [] ops sst_empty.
