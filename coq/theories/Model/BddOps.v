(* Model of the ROBDD builder (src/builder/bdd/robdd.rs, src/builder/bdd/builder.rs,
   src/builder/mod.rs) on the tree layer.  One definition per Rust function, same case
   analysis.  Abstracted: node identity (= structural identity of unfoldings), the apply
   cache's forgetting (an arbitrary [remember] stream), statistics counters. *)
From Coq Require Import Bool NArith List Lia Arith.
Import ListNotations.
From RsddV Require Import Base.Bdd Model.IteStd.

Section Ops.
Variable level : var -> nat.          (* VarOrder::get: position of a variable *)
Variable var_at_level : nat -> var.   (* VarOrder::var_at_level *)
Variable remember : nat -> bool.      (* does lookup number i still find what was stored? *)

Definition top (p : bdd) : option var := match p with BN _ v _ _ => Some v | _ => None end.

(* the closure [o] of ite_helper *)
Definition ord (a b : bdd) : bool :=
  match top a, top b with
  | None, _ => true
  | _, None => false
  | Some va, Some vb => Nat.ltb (level va) (level vb)
  end.

(* VarOrder::first *)
Definition first (a b : bdd) : bdd :=
  match top a, top b with
  | None, _ => b
  | _, None => a
  | Some va, Some vb => if Nat.ltb (level va) (level vb) then a else b
  end.
(* VarOrder::first_essential *)
Definition first_essential (f g h : bdd) : option var := top (first (first f g) h).

(* RobddBuilder::condition_essential *)
Definition cond_ess (f : bdd) (lbl : var) (b : bool) : bdd :=
  match f with
  | BN c v l h => if N.eqb v lbl then (let r := if b then h else l in if c then neg r else r) else f
  | _ => f
  end.

(* BddBuilder::get_or_insert: the complement normalisation; identity is structural *)
Definition mk_node (v : var) (lo hi : bdd) : bdd :=
  if is_neg hi || is_false hi then BN true v (neg lo) (neg hi) else BN false v lo hi.

(* apply cache: standard triple -> result, with permitted forgetting *)
Definition key := (bdd * bdd * bdd)%type.
Definition key_eqb (x y : key) : bool :=
  let '(a, b, c) := x in let '(a', b', c') := y in bdd_eqb a a' && bdd_eqb b b' && bdd_eqb c c'.
Record cst := { entries : list (key * bdd); tick : nat }.
Definition cst_empty : cst := {| entries := []; tick := 0 |}.
Definition cget (s : cst) (k : key) : option bdd * cst :=
  let s' := {| entries := entries s; tick := S (tick s) |} in
  if remember (tick s) then
    match find (fun e => key_eqb (fst e) k) (entries s) with
    | Some (_, r) => (Some r, s') | None => (None, s') end
  else (None, s').
Definition cput (s : cst) (k : key) (r : bdd) : cst := {| entries := (k, r) :: entries s; tick := tick s |}.

(* RobddBuilder::ite_helper.  The standard triple is the cache key only; the recursion is on
   the original triple; nothing is cached on the t == f shortcut. *)
Fixpoint ite_m (fuel : nat) (s : cst) (f g h : bdd) : option (bdd * cst) :=
  match fuel with
  | O => None
  | S fuel' =>
    let t := ite_new ord f g h in
    match t with
    | IteConst r => Some (r, s)
    | IteChoice a b c | IteComplChoice a b c =>
      let compl := match t with IteComplChoice _ _ _ => true | _ => false end in
      match cget s (a, b, c) with
      | (Some r, s1) => Some (if compl then neg r else r, s1)
      | (None, s1) =>
        match first_essential f g h with
        | None => None
        | Some lbl =>
          match ite_m fuel' s1 (cond_ess f lbl true) (cond_ess g lbl true) (cond_ess h lbl true) with
          | None => None
          | Some (rt, s2) =>
            match ite_m fuel' s2 (cond_ess f lbl false) (cond_ess g lbl false) (cond_ess h lbl false) with
            | None => None
            | Some (re, s3) =>
              if bdd_eqb rt re then Some (rt, s3)
              else let r := mk_node lbl re rt in
                   Some (r, cput s3 (a, b, c) (if compl then neg r else r))
            end
          end
        end
      end
    end
  end.

(* BottomUpBuilder defaults for BDDs (builder/bdd/builder.rs, builder/mod.rs) *)
Definition var_m (v : var) (pol : bool) : bdd :=
  let r := mk_node v BF BT in if pol then r else neg r.
Definition and_m fuel s f g := ite_m fuel s f g BF.
Definition or_m fuel s f g :=
  match and_m fuel s (neg f) (neg g) with Some (r, s') => Some (neg r, s') | None => None end.
Definition iff_m fuel s f g := ite_m fuel s f g (neg g).
Definition xor_m fuel s f g := ite_m fuel s f (neg g) g.

(* RobddBuilder::cond_with_alloc with its per-call memo keyed on the (complemented) pointer *)
Definition memo := list (bdd * bdd).
Definition memo_get (m : memo) (p : bdd) : option bdd :=
  match find (fun e => bdd_eqb (fst e) p) m with Some (_, r) => Some r | None => None end.

Fixpoint cond_m (p : bdd) (lbl : var) (value : bool) (m : memo) : bdd * memo :=
  match p with
  | BT | BF => (p, m)
  | BN c v lo hi =>
    if Nat.ltb (level lbl) (level v) then (p, m)
    else if N.eqb v lbl then
      (let r := if value then hi else lo in if c then neg r else r, m)
    else match memo_get m p with
    | Some r => (if c then neg r else r, m)
    | None =>
      let '(l, m1) := cond_m lo lbl value m in
      let '(h, m2) := cond_m hi lbl value m1 in
      if bdd_eqb l h then (if c then neg l else l, m2)
      else
        let res := if negb (bdd_eqb l lo) || negb (bdd_eqb h hi)
                   then (let r := mk_node v l h in if c then neg r else r)
                   else p in
        (res, (p, if c then neg res else res) :: m2)
    end
  end.

(* BottomUpBuilder::condition (cond_helper starts from an empty memo) *)
Definition condition_m (p : bdd) (lbl : var) (value : bool) : bdd := fst (cond_m p lbl value []).

(* RobddBuilder::condition_model: one conditioning per assigned literal, in iteration order *)
Definition condition_model_m (p : bdd) (lits : list (var * bool)) : bdd :=
  fold_left (fun acc l => condition_m acc (fst l) (snd l)) lits p.

Definition exists_m fuel s p lbl :=
  or_m fuel s (condition_m p lbl true) (condition_m p lbl false).

(* BottomUpBuilder::compose: exists lbl. (lbl <=> g) /\ f *)
Definition compose_m fuel s f lbl g :=
  match iff_m fuel s (var_m lbl true) g with
  | None => None
  | Some (i, s1) =>
    match and_m fuel s1 i f with
    | None => None
    | Some (a, s2) => exists_m fuel s2 a lbl
    end
  end.

Fixpoint and_lst_m fuel s (acc : bdd) (l : list bdd) : option (bdd * cst) :=
  match l with
  | [] => Some (acc, s)
  | x :: r => match and_m fuel s acc x with Some (a, s') => and_lst_m fuel s' a r | None => None end
  end.
Fixpoint or_lst_m fuel s (acc : bdd) (l : list bdd) : option (bdd * cst) :=
  match l with
  | [] => Some (acc, s)
  | x :: r => match or_m fuel s acc x with Some (a, s') => or_lst_m fuel s' a r | None => None end
  end.

(* RobddBuilder::smooth_helper, by recursion on n = total - current *)
Fixpoint smooth_h (n : nat) (p : bdd) (current : nat) : bdd :=
  match n with
  | O => p
  | S n' =>
    match p with
    | BN c v lo hi =>
      if N.eqb v (var_at_level current) then
        let r := mk_node v (smooth_h n' lo (S current)) (smooth_h n' hi (S current)) in
        if c then neg r else r
      else
        let r := smooth_h n' (BN false v lo hi) (S current) in
        let d := mk_node (var_at_level current) r r in
        if c then neg d else d
    | _ =>
      let r := smooth_h n' p (S current) in
      mk_node (var_at_level current) r r
    end
  end.
Definition smooth_m (p : bdd) (num_vars : nat) : bdd := smooth_h num_vars p 0.

(* the pinned smooth_helper (before the fix of D3): counts depth, not level *)
Fixpoint smooth_pinned_h (n : nat) (p : bdd) (current : nat) : bdd :=
  match n with
  | O => p
  | S n' =>
    match p with
    | BN c v lo hi =>
      let r := mk_node v (smooth_pinned_h n' lo (S current)) (smooth_pinned_h n' hi (S current)) in
      if c then neg r else r
    | _ =>
      let r := smooth_pinned_h n' p (S current) in
      mk_node (var_at_level current) r r
    end
  end.

End Ops.
