(* Model of the per-node scratch slot (repr/bdd.rs: BddNode.data, scratch / set_scratch /
   is_scratch_cleared / clear_scratch) and of the public queries that use it: the memoised
   fold behind unsmoothed_wmc / evaluate / semantic_hash (DDNNFPtr::fold for BddPtr) and
   count_nodes.  A node is identified by (var, low, high) -- the complement bit lives in the
   pointer, so Reg(n) and Compl(n) share one slot, which is why the fold keeps a pair
   (value as complemented, value as regular). *)
From Coq Require Import Bool NArith List Lia Arith.
Import ListNotations.
From RsddV Require Import Base.Bdd.

Definition node := (var * bdd * bdd)%type.
Definition node_eqb (a b : node) : bool :=
  let '(v, l, h) := a in let '(v', l', h') := b in N.eqb v v' && bdd_eqb l l' && bdd_eqb h h'.

Section Q.
Variable S : Type.

(* what a slot may hold: the typed Box<dyn Any>; a read with the wrong type sees nothing *)
Inductive payload := PFold (compl reg : option S) | PCount.
Definition scratch := node -> option payload.
Definition empty_scratch : scratch := fun _ => None.
Definition set_s (s : scratch) (n : node) (v : option payload) : scratch :=
  fun m => if node_eqb m n then v else s m.
(* scratch::<DDNNFCache<T>>() *)
Definition read_fold (s : scratch) (n : node) : option (option S * option S) :=
  match s n with Some (PFold a b) => Some (a, b) | _ => None end.
(* scratch::<usize>() *)
Definition read_count (s : scratch) (n : node) : bool :=
  match s n with Some PCount => true | _ => false end.

Variable add mul : S -> S -> S.
Variable zero one : S.
Variable wlo whi : var -> S.

(* bottomup_pass_h: c0 = is the pointer complemented *)
Fixpoint fold_memo (c0 : bool) (p : bdd) (s : scratch) : S * scratch :=
  match p with
  | BT => (if c0 then zero else one, s)
  | BF => (if c0 then one else zero, s)
  | BN c v lo hi =>
    let ng := xorb c0 c in
    let n := (v, lo, hi) in
    let helper (cached : option S) :=
      let '(lv, s1) := fold_memo ng lo s in
      let '(hv, s2) := fold_memo ng hi s1 in
      let r := add (mul (wlo v) lv) (mul (whi v) hv) in
      (r, set_s s2 n (Some (if ng then PFold (Some r) cached else PFold cached (Some r)))) in
    match read_fold s n with
    | Some (Some l, Some h) => (if ng then l else h, s)
    | Some (Some x, None) => if ng then (x, s) else helper (Some x)
    | Some (None, Some y) => if ng then helper (Some y) else (y, s)
    | Some (None, None) => helper None
    | None => helper None
    end
  end.

(* BddPtr::clear_scratch: stops at a node whose slot is already empty *)
Fixpoint clear (p : bdd) (s : scratch) : scratch :=
  match p with
  | BN _ v lo hi =>
    let n := (v, lo, hi) in
    match s n with
    | Some _ => clear hi (clear lo (set_s s n None))
    | None => s
    end
  | _ => s
  end.

(* the public query: fold, then clear_scratch on the root *)
Definition fold_public (p : bdd) (s : scratch) : S * scratch :=
  let '(r, s1) := fold_memo false p s in (r, clear p s1).

(* count_nodes: count_h marks visited nodes with a usize *)
Fixpoint count_h (p : bdd) (st : scratch * nat) : scratch * nat :=
  match p with
  | BN _ v lo hi =>
    let n := (v, lo, hi) in
    let '(s, k) := st in
    if read_count s n then st
    else count_h hi (count_h lo (set_s s n (Some PCount), Datatypes.S k))
  | _ => st
  end.
Definition count_public (p : bdd) (s : scratch) : nat * scratch :=
  let '(s1, k) := count_h p (s, 0) in (k, clear p s1).
End Q.
Arguments PFold {S} _ _.
Arguments PCount {S}.

(* the nodes reachable from a pointer *)
Fixpoint nodes (p : bdd) : list node :=
  match p with BN _ v lo hi => (v, lo, hi) :: nodes lo ++ nodes hi | _ => [] end.
