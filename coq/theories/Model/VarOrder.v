(* Model of rsdd::repr::var_order::VarOrder (src/repr/var_order.rs).  The record the code keeps:
   two Vec<usize>.  Every indexing that can panic in the code (slice index out of bounds)
   returns [None] here, so a theorem cannot hold because of a default value. *)
From Coq Require Import Bool List Lia Arith.
Import ListNotations.
From RsddV Require Import Base.Util.

Record order := { var_to_pos : list nat; pos_to_var : list nat }.

(* the loop of VarOrder::new:  v[order[i]] = i;  pos_to_var.push(order[i]) *)
Fixpoint new_loop (o : list nat) (i : nat) (v : list nat) : option (list nat) :=
  match o with
  | [] => Some v
  | x :: t => if x <? length v then new_loop t (S i) (set_nth v x i) else None (* index panic *)
  end.

(* VarOrder::new(order) *)
Definition order_new (o : list nat) : option order :=
  match new_loop o 0 (repeat 0 (length o)) with
  | Some v => Some {| var_to_pos := v; pos_to_var := o |}
  | None => None
  end.

(* VarOrder::linear_order(n) *)
Definition linear_order (n : nat) : option order := order_new (seq 0 n).

Definition num_vars (r : order) : nat := length (var_to_pos r).

(* get / var_at_level: [None] = index panic *)
Definition get (r : order) (v : nat) : option nat := nth_error (var_to_pos r) v.
Definition var_at_level (r : order) (p : nat) : option nat := nth_error (pos_to_var r) p.

Definition lt (r : order) (a b : nat) : option bool :=
  match get r a, get r b with Some pa, Some pb => Some (pa <? pb) | _, _ => None end.
Definition lte (r : order) (a b : nat) : option bool :=
  match get r a, get r b with Some pa, Some pb => Some (pa <=? pb) | _, _ => None end.

(* first: generic in the item type; [var] is PartialVariableOrder::var *)
Definition first {T} (var : T -> option nat) (r : order) (a b : T) : option T :=
  match var a, var b with
  | None, _ => Some b
  | _, None => Some a
  | Some va, Some vb =>
    match get r va, get r vb with
    | Some pa, Some pb => Some (if pa <? pb then a else b)
    | _, _ => None
    end
  end.

(* first_essential: [None] = one of the two panics (index, or "no valid first variable") *)
Definition first_essential {T} (var : T -> option nat) (r : order) (a b c : T) : option nat :=
  match first var r a b with
  | Some f1 => match first var r f1 c with Some f2 => var f2 | None => None end
  | None => None
  end.

(* above / below: outer [None] = panic, inner option = the code's Option *)
Definition above (r : order) (a : nat) : option (option nat) :=
  match get r a with
  | None => None
  | Some 0 => Some None
  | Some (S l) => match var_at_level r l with Some v => Some (Some v) | None => None end
  end.
Definition below (r : order) (a : nat) : option (option nat) :=
  match get r a with
  | None => None
  | Some l => if length (pos_to_var r) <=? l + 1 then Some None
              else match var_at_level r (l + 1) with Some v => Some (Some v) | None => None end
  end.

Definition last_var (r : order) : option nat := nth_error (pos_to_var r) (length (pos_to_var r) - 1).

(* new_last: returns the extended order and the new label *)
Definition new_last (r : order) : order * nat :=
  let pos := length (pos_to_var r) in
  ({| var_to_pos := var_to_pos r ++ [pos]; pos_to_var := pos_to_var r ++ [pos] |}, pos).

(* the two maps are mutually inverse permutations of 0..n-1 *)
Definition wf_order (r : order) : Prop :=
  let n := length (pos_to_var r) in
  length (var_to_pos r) = n /\
  (forall v, v < n -> exists p, get r v = Some p /\ p < n /\ var_at_level r p = Some v) /\
  (forall p, p < n -> exists v, var_at_level r p = Some v /\ v < n /\ get r v = Some p).
