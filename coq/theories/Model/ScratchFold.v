(* C10B — model of the scratch protocol of BddPtr::bdd_fold (repr/bdd.rs 442-502: bdd_fold_h,
   bdd_fold; the fold behind marginal_map_eval / eu_ub / bb_ub) and of the decision-DNNF
   TopDownBuilder::condition (builder/decision_nnf/builder.rs 136-203: cond_helper reads
   bdd.scratch::<BddPtr>(), the line that would write it is commented out, condition then calls
   bdd.clear_scratch()), over ONE scratch representation that the other scratch users of
   repr/bdd.rs (the DDNNF fold of Model/Scratch.v and count_nodes) are re-stated over as well, so
   that sequences mixing all of them can be run on one state.

   Scratch slot = BddNode.data : RefCell<Option<Box<dyn Any>>>.  A read scratch::<X>() succeeds iff
   the slot is full AND the stored value's TypeId is X's (downcast_ref).  The payload types in use:
     (Option<T>, Option<T>)   bdd_fold_h        -- and DDNNFCache<T> of the DDNNF fold is the SAME
                                                   Rust type (type alias, bdd.rs 892): for equal T the
                                                   two queries can read each other's entries
     usize                    count_nodes
     BddPtr                   decision-DNNF cond_helper (read only)
   The model's payload is [CPair ty a b] with [ty : tyid] standing for TypeId::of::<T>() (the carrier
   [T] of the model is the disjoint union of all result types in play; a read with another [ty]
   sees nothing), [CCount], [CPtr b], and [COther] for any other type.
   A node is identified by (var, low, high) as in Model/Scratch.v ([node], [node_eqb], [nodes]).
   One definition per Rust function, same case analysis, same order of steps.  No proofs here. *)
From Coq Require Import Bool NArith List Arith.
Import ListNotations.
From RsddV Require Import Base.Bdd Model.Scratch Model.TopDown.

Definition tyid := N.

Section C.
Variable T : Type.

Inductive cpayload :=
| CPair (ty : tyid) (compl reg : option T)
| CCount
| CPtr (b : bdd)
| COther.
Definition cscratch := node -> option cpayload.
Definition cempty : cscratch := fun _ => None.
(* set_scratch (Some v) / the assignment of clear_scratch (None) *)
Definition cset (s : cscratch) (n : node) (v : option cpayload) : cscratch :=
  fun m => if node_eqb m n then v else s m.
(* scratch::<(Option<X>, Option<X>)>() where ty = TypeId of X *)
Definition read_pair (ty : tyid) (s : cscratch) (n : node) : option (option T * option T) :=
  match s n with
  | Some (CPair ty' a b) => if N.eqb ty' ty then Some (a, b) else None
  | _ => None
  end.
(* scratch::<usize>() *)
Definition read_cnt (s : cscratch) (n : node) : bool :=
  match s n with Some CCount => true | _ => false end.
(* scratch::<BddPtr>() *)
Definition read_ptr (s : cscratch) (n : node) : option bdd :=
  match s n with Some (CPtr b) => Some b | _ => None end.

(* BddPtr::clear_scratch (303-315): stops at a node whose slot is already empty *)
Fixpoint cclear (p : bdd) (s : cscratch) : cscratch :=
  match p with
  | BN _ v lo hi =>
    let n := (v, lo, hi) in
    match s n with
    | Some _ => cclear hi (cclear lo (cset s n None))
    | None => s
    end
  | _ => s
  end.

(* ------------------------------------------------------------------------------------- *)
(* bdd_fold_h / bdd_fold                                                                   *)
Section BFold.
Variable ty : tyid.                    (* TypeId of the result type *)
Variable f : var -> T -> T -> T.
Variable low_v high_v : T.

(* the plain recursion (no scratch): bdd_fold_plain c p = the fold of the pointer p complemented
   c times; self.low() / self.high() push the complement bit to the children *)
Fixpoint bdd_fold_plain (c0 : bool) (p : bdd) : T :=
  match p with
  | BT => if c0 then low_v else high_v        (* PtrTrue => high_v *)
  | BF => if c0 then high_v else low_v        (* PtrFalse => low_v *)
  | BN c v lo hi =>
    let c' := xorb c0 c in
    f v (bdd_fold_plain c' lo) (bdd_fold_plain c' hi)
  end.

(* bdd_fold_h (442-488) as coded; c0 = the pointer reached is p complemented c0 times *)
Fixpoint bdd_fold_h (c0 : bool) (p : bdd) (s : cscratch) : T * cscratch :=
  match p with
  | BT => (if c0 then low_v else high_v, s)
  | BF => (if c0 then high_v else low_v, s)
  | BN c v lo hi =>
    let ng := xorb c0 c in                      (* self.is_neg() *)
    let n := (v, lo, hi) in
    let fold_helper (prev_low prev_high : option T) :=
      let '(l, s1) := bdd_fold_h ng lo s in     (* self.low().bdd_fold_h(..) *)
      let '(h, s2) := bdd_fold_h ng hi s1 in    (* self.high().bdd_fold_h(..) *)
      let res := f v l h in
      (res, cset s2 n (Some (if ng then CPair ty (Some res) prev_high
                             else CPair ty prev_low (Some res)))) in
    match read_pair ty s n with
    | Some (prev_low, prev_high) =>
      match prev_low, prev_high, ng with
      | Some x, _, true => (x, s)               (* Some((Some(v), _)) if self.is_neg() *)
      | _, Some y, false => (y, s)              (* Some((_, Some(v))) if !self.is_neg() *)
      | _, _, _ => fold_helper prev_low prev_high
      end
    | None => fold_helper None None             (* empty slot, or a payload of another type *)
    end
  end.

(* bdd_fold (490-502): bdd_fold_h, then clear_scratch on the root *)
Definition bdd_fold_public (p : bdd) (s : cscratch) : T * cscratch :=
  let '(r, s1) := bdd_fold_h false p s in (r, cclear p s1).
End BFold.

(* ------------------------------------------------------------------------------------- *)
(* the DDNNF fold (bottomup_pass_h / fold, bdd.rs 925-998) and count_nodes (1000-1021) over the
   common scratch: Model/Scratch.v's fold_memo / fold_public / count_h / count_public re-stated
   (Proofs/ScratchFold.v: cfold_sim, ccount_sim tie them to the originals) *)
Section CFold.
Variable ty : tyid.                    (* TypeId of the semiring *)
Variable add mul : T -> T -> T.
Variable zero one : T.
Variable wlo whi : var -> T.

Fixpoint cfold_memo (c0 : bool) (p : bdd) (s : cscratch) : T * cscratch :=
  match p with
  | BT => (if c0 then zero else one, s)
  | BF => (if c0 then one else zero, s)
  | BN c v lo hi =>
    let ng := xorb c0 c in
    let n := (v, lo, hi) in
    let helper (cached : option T) :=
      let '(lv, s1) := cfold_memo ng lo s in
      let '(hv, s2) := cfold_memo ng hi s1 in
      let r := add (mul (wlo v) lv) (mul (whi v) hv) in
      (r, cset s2 n (Some (if ng then CPair ty (Some r) cached else CPair ty cached (Some r)))) in
    match read_pair ty s n with
    | Some (Some l, Some h) => (if ng then l else h, s)
    | Some (Some x, None) => if ng then (x, s) else helper (Some x)
    | Some (None, Some y) => if ng then helper (Some y) else (y, s)
    | Some (None, None) => helper None
    | None => helper None
    end
  end.
Definition cfold_public (p : bdd) (s : cscratch) : T * cscratch :=
  let '(r, s1) := cfold_memo false p s in (r, cclear p s1).
End CFold.

Fixpoint ccount_h (p : bdd) (st : cscratch * nat) : cscratch * nat :=
  match p with
  | BN _ v lo hi =>
    let n := (v, lo, hi) in
    let '(s, k) := st in
    if read_cnt s n then st
    else ccount_h hi (ccount_h lo (cset s n (Some CCount), S k))
  | _ => st
  end.
Definition ccount_public (p : bdd) (s : cscratch) : nat * cscratch :=
  let '(s1, k) := ccount_h p (s, 0) in (k, cclear p s1).

(* ------------------------------------------------------------------------------------- *)
(* decision-DNNF conditioning (builder/decision_nnf/builder.rs 136-203, standard node store):
   Model/TopDown.v's cond_helper with the scratch lookup that the code performs -- and never
   fills: `// bdd.set_scratch(..)` is commented out, so the state is only read *)
Fixpoint cond_helper_s (p : bdd) (lbl : var) (value : bool) (s : cscratch) : bdd :=
  match p with
  | BT | BF => p
  | BN c v lo hi =>
    if N.eqb v lbl then
      let r := if value then hi else lo in
      if c then neg r else r
    else
      (* check cache: if let Some(v) = bdd.scratch::<BddPtr>() *)
      match read_ptr s (v, lo, hi) with
      | Some w => if c then neg w else w
      | None =>
        let l := cond_helper_s lo lbl value s in
        let h := cond_helper_s hi lbl value s in
        if bdd_eqb l h then (if c then neg l else l)
        else if negb (bdd_eqb l lo) || negb (bdd_eqb h hi) then
          let r := dnnf_mk_node v l h in if c then neg r else r
        else p
      end
  end.
(* TopDownBuilder::condition (199-203): cond_helper, then bdd.clear_scratch() *)
Definition dnnf_condition_s (p : bdd) (lbl : var) (value : bool) (s : cscratch) : bdd * cscratch :=
  let r := cond_helper_s p lbl value s in (r, cclear p s).

(* ------------------------------------------------------------------------------------- *)
(* sequences of public queries of all four kinds on one scratch state *)
Inductive mquery :=
| MFold (ty : tyid) (add mul : T -> T -> T) (zero one : T) (wlo whi : var -> T) (p : bdd)
| MCount (p : bdd)
| MBFold (ty : tyid) (f : var -> T -> T -> T) (low_v high_v : T) (p : bdd)
| MCond (p : bdd) (lbl : var) (value : bool).
Inductive manswer := AVal (x : T) | ANat (k : nat) | APtr (b : bdd).

Definition run_mquery (q : mquery) (s : cscratch) : manswer * cscratch :=
  match q with
  | MFold ty add mul zero one wlo whi p =>
    let '(r, s') := cfold_public ty add mul zero one wlo whi p s in (AVal r, s')
  | MCount p => let '(k, s') := ccount_public p s in (ANat k, s')
  | MBFold ty f low_v high_v p => let '(r, s') := bdd_fold_public ty f low_v high_v p s in (AVal r, s')
  | MCond p lbl value => let '(r, s') := dnnf_condition_s p lbl value s in (APtr r, s')
  end.
Fixpoint run_mixed (qs : list mquery) (s : cscratch) : list manswer * cscratch :=
  match qs with
  | [] => ([], s)
  | q :: r =>
    let '(a, s1) := run_mquery q s in
    let '(rest, s2) := run_mixed r s1 in (a :: rest, s2)
  end.
End C.
Arguments CPair {T} _ _ _.
Arguments CCount {T}.
Arguments CPtr {T} _.
Arguments COther {T}.
Arguments MFold {T} _ _ _ _ _ _ _ _.
Arguments MCount {T} _.
Arguments MBFold {T} _ _ _ _ _.
Arguments MCond {T} _ _ _.
Arguments AVal {T} _.
Arguments ANat {T} _.
Arguments APtr {T} _.

(* number of distinct nodes: what count_nodes returns *)
Fixpoint dedup (l : list node) : list node :=
  match l with
  | [] => []
  | x :: r => if existsb (node_eqb x) r then dedup r else x :: dedup r
  end.
Definition count_pure (p : bdd) : nat := length (dedup (nodes p)).
