(* Model of rsdd::util::semirings (src/util/semirings/*.rs) and of the exported primes
   (src/constants.rs).  One definition per Rust impl, same case analysis, same order of steps.

   * FiniteField<P>: over N, every u128 operation that can overflow is modelled explicitly in
     two build modes: [Wrapping] (release: result mod 2^128) and [Checked] (overflow-checks:
     the operation panics = [None]).  [% P] with P = 0 panics in both modes.  The theorems
     (Proofs/Semirings.v) show that for every exported prime neither the wrap nor the panic
     ever happens on residues, and that the results are integer arithmetic modulo P.
   * RealSemiring / Complex / ExpectedUtility: f64 is modelled by exact canonical rationals
     (Qc); the statements are therefore about exactly representable values whose results are
     exactly representable (which is what the correspondence generates: small dyadics).
     f64::max / f64::min / < / > / == are the rational ones (no NaN, -0.0 = 0.0).
   * RationalSemiring: the `rational` crate is trusted to be exact reduced fractions (Qc)
     as long as numerator and denominator fit i128.
   * Polynomial<C>: [C; MAX_COEFFS] is a list (length MAX_COEFFS for every value built by the
     code) plus the [len] field, with the loops and the [len] bookkeeping as coded.
   No proofs in this file. *)
From Coq Require Import Bool NArith ZArith QArith Qcanon List Arith.
Import ListNotations.
From RsddV Require Import Base.Util Generated.Constants.

(* ------------------------------------------------------------------------------------- *)
(* the Semiring trait: a carrier with +, *, zero(), one()                                  *)
Record sr_ops (A : Type) := { sr_add : A -> A -> A; sr_mul : A -> A -> A; sr_zero : A; sr_one : A }.
Arguments sr_add {A}. Arguments sr_mul {A}. Arguments sr_zero {A}. Arguments sr_one {A}.

Definition bind {A B} (o : option A) (f : A -> option B) : option B :=
  match o with Some x => f x | None => None end.

(* ------------------------------------------------------------------------------------- *)
(* u128 arithmetic                                                                         *)
Local Open Scope N_scope.

Inductive mode := Wrapping | Checked.

Definition u128 : N := 2 ^ 128.

(* x + y on u128 *)
Definition u_add (m : mode) (x y : N) : option N :=
  if x + y <? u128 then Some (x + y)
  else match m with Wrapping => Some ((x + y) mod u128) | Checked => None end.

(* x - y on u128 *)
Definition u_sub (m : mode) (x y : N) : option N :=
  if y <=? x then Some (x - y)
  else match m with Wrapping => Some ((x + u128 - y) mod u128) | Checked => None end.

(* x % p: division by zero panics in every build *)
Definition u_rem (x p : N) : option N := if p =? 0 then None else Some (x mod p).

(* u128::checked_mul *)
Definition checked_mul (x y : N) : option N := if x * y <? u128 then Some (x * y) else None.

(* ------------------------------------------------------------------------------------- *)
(* finitefield.rs                                                                          *)

(* FiniteField::new(v) = FiniteField { v: v % P } *)
Definition ff_new (P v : N) : option N := u_rem v P.

(* negate: FiniteField::new(P - self.v + 1) *)
Definition ff_negate (m : mode) (P v : N) : option N :=
  bind (u_sub m P v) (fun t => bind (u_add m t 1) (fun s => ff_new P s)).

Definition ff_one (P : N) : option N := ff_new P 1.
Definition ff_zero (P : N) : option N := ff_new P 0.

(* add: FiniteField::new((self.v + rhs.v) % P) *)
Definition ff_add (m : mode) (P a b : N) : option N :=
  bind (u_add m a b) (fun s => bind (u_rem s P) (fun r => ff_new P r)).

(* let add_mod = |x, y| if x >= P - y { x - (P - y) } else { x + y }; *)
Definition add_mod (m : mode) (P x y : N) : option N :=
  bind (u_sub m P y) (fun t => if t <=? x then u_sub m x t else u_add m x y).

(* while b > 0 { if b & 1 == 1 { acc = add_mod(acc, a) }  a = add_mod(a, a);  b >>= 1 }
   One iteration per bit of b = structural recursion on the binary representation. *)
Fixpoint ff_mul_loop (m : mode) (P : N) (b : positive) (a acc : N) : option N :=
  match b with
  | xH => bind (add_mod m P acc a) (fun acc' => bind (add_mod m P a a) (fun _ => Some acc'))
  | xO b' => bind (add_mod m P a a) (fun a' => ff_mul_loop m P b' a' acc)
  | xI b' => bind (add_mod m P acc a) (fun acc' =>
             bind (add_mod m P a a) (fun a' => ff_mul_loop m P b' a' acc'))
  end.

(* mul: checked_mul fast path, else double-and-add *)
Definition ff_mul (m : mode) (P a b : N) : option N :=
  match checked_mul a b with
  | Some prod => bind (u_rem prod P) (fun r => ff_new P r)
  | None =>
    match b with
    | N0 => ff_new P 0                         (* loop body never runs: acc = 0 *)
    | Npos p => bind (ff_mul_loop m P p a 0) (fun acc => ff_new P acc)
    end
  end.

(* sub: FiniteField::new(if a >= b { a - b } else { P - (b - a) }) *)
Definition ff_sub (m : mode) (P a b : N) : option N :=
  if b <=? a then bind (u_sub m a b) (fun d => ff_new P d)
  else bind (u_sub m b a) (fun d => bind (u_sub m P d) (fun r => ff_new P r)).

(* the side conditions on a modulus under which the model provably never overflows *)
Definition ff_okb (P : N) : bool := (1 <? P) && (2 * P <=? u128).

(* residues as a plain semiring (integer arithmetic modulo P): the specification side *)
Definition zp_ops (P : N) : sr_ops N :=
  {| sr_add := fun a b => (a + b) mod P; sr_mul := fun a b => (a * b) mod P;
     sr_zero := 0; sr_one := 1 |}.

Local Close Scope N_scope.

(* ------------------------------------------------------------------------------------- *)
(* boolean.rs                                                                              *)
Definition bool_ops : sr_ops bool := {| sr_add := orb; sr_mul := andb; sr_zero := false; sr_one := true |}.

(* ------------------------------------------------------------------------------------- *)
(* exact stand-in for f64 on exactly representable values                                 *)
Local Open Scope Qc_scope.

Definition qlt (a b : Qc) : bool := match a ?= b with Lt => true | _ => false end.   (* a < b  *)
Definition qgt (a b : Qc) : bool := match a ?= b with Gt => true | _ => false end.   (* a > b  *)
Definition qeq (a b : Qc) : bool := match a ?= b with Eq => true | _ => false end.   (* a == b *)
Definition qmax (a b : Qc) : Qc := match a ?= b with Lt => b | _ => a end.           (* f64::max *)
Definition qmin (a b : Qc) : Qc := match a ?= b with Gt => b | _ => a end.           (* f64::min *)

(* the derived / hand-written PartialOrd::le: matches!(partial_cmp, Some(Less | Equal)) *)
Definition le_of (c : option comparison) : bool :=
  match c with Some Lt | Some Eq => true | _ => false end.

(* ------------------------------------------------------------------------------------- *)
(* realsemiring.rs                                                                         *)
Definition real := Qc.
Definition real_ops : sr_ops real := {| sr_add := Qcplus; sr_mul := Qcmult; sr_zero := 0; sr_one := 1 |}.
Definition real_sub (a b : real) : real := a - b.
Definition real_partial_cmp (a b : real) : option comparison := Some (a ?= b).   (* derived *)
Definition real_le (a b : real) : bool := le_of (real_partial_cmp a b).
Definition real_join (a b : real) : real := qmax a b.
Definition real_choose (a b : real) : real := real_join a b.       (* BBSemiring and BBRing *)
Definition real_meet (a b : real) : real := qmin a b.

(* ------------------------------------------------------------------------------------- *)
(* rational.rs (the `rational` crate: reduced fractions)                                   *)
Definition rational_ops : sr_ops Qc := {| sr_add := Qcplus; sr_mul := Qcmult; sr_zero := 0; sr_one := 1 |}.

(* ------------------------------------------------------------------------------------- *)
(* complex.rs                                                                              *)
Definition cx := (Qc * Qc)%type.        (* (re, im) *)
Definition cx_add (a b : cx) : cx := (fst a + fst b, snd a + snd b).
Definition cx_mul (a b : cx) : cx :=
  (fst a * fst b - snd a * snd b, fst a * snd b + snd a * fst b).
Definition cx_sub (a b : cx) : cx := (fst a - fst b, snd a - snd b).
Definition cx_ops : sr_ops cx := {| sr_add := cx_add; sr_mul := cx_mul; sr_zero := (0, 0); sr_one := (1, 0) |}.

(* ------------------------------------------------------------------------------------- *)
(* expectation.rs                                                                          *)
Definition eu := (Qc * Qc)%type.        (* ExpectedUtility(prob, utility) *)
Definition eu_add (a b : eu) : eu := (fst a + fst b, snd a + snd b).
Definition eu_sub (a b : eu) : eu := (fst a - fst b, snd a - snd b).
Definition eu_mul (a b : eu) : eu :=
  let e := (fst a * snd b) + (snd a * fst b) in (fst a * fst b, e).
Definition eu_ops : sr_ops eu := {| sr_add := eu_add; sr_mul := eu_mul; sr_zero := (0, 0); sr_one := (1, 0) |}.

Definition eu_partial_cmp (a b : eu) : option comparison :=
  if qlt (fst a) (fst b) && qlt (snd a) (snd b) then Some Lt
  else if qgt (fst a) (fst b) && qgt (snd a) (snd b) then Some Gt
  else if qeq (fst a) (fst b) && qeq (snd a) (snd b) then Some Eq
  else None.
Definition eu_le (a b : eu) : bool := le_of (eu_partial_cmp a b).
Definition eu_join (a b : eu) : eu := (qmax (fst a) (fst b), qmax (snd a) (snd b)).
Definition eu_choose (a b : eu) : eu := if qgt (snd a) (snd b) then a else b.   (* both impls *)
Definition eu_meet (a b : eu) : eu := (qmin (fst a) (fst b), qmin (snd a) (snd b)).

Local Close Scope Qc_scope.

(* ------------------------------------------------------------------------------------- *)
(* polynomial_semiring_implementation.rs                                                   *)
Section Poly.
  Context {C : Type} (o : sr_ops C).

  Record poly := { coeffs : list C; plen : nat }.

  Definition MAXC : nat := max_coeffs.
  Definition zeros : list C := repeat (sr_zero o) MAXC.

  Definition pzero : poly := {| coeffs := zeros; plen := 0 |}.

  (* coeffs[0] = C::one() *)
  Definition pone : poly := {| coeffs := set_nth zeros 0 (sr_one o); plen := 1 |}.

  Definition cf (p : poly) (i : nat) : C := nth i (coeffs p) (sr_zero o).

  (* max_len = self.len.max(rhs.len).min(MAX); for i in 0..max_len { new[i] = a[i] + b[i] } *)
  Definition padd (a b : poly) : poly :=
    let max_len := Nat.min (Nat.max (plen a) (plen b)) MAXC in
    {| coeffs := fold_left (fun acc i => set_nth acc i (sr_add o (cf a i) (cf b i)))
                           (seq 0 max_len) zeros;
       plen := max_len |}.

  (* one step of the inner loop: if i + j < MAX { new[i+j] = new[i+j] + a[i] * b[j] } *)
  Definition pmul_step (a b : poly) (i : nat) (acc : list C) (j : nat) : list C :=
    if Nat.ltb (i + j) MAXC
    then set_nth acc (i + j) (sr_add o (nth (i + j) acc (sr_zero o)) (sr_mul o (cf a i) (cf b j)))
    else acc.

  Definition pmul (a b : poly) : poly :=
    if Nat.eqb (plen a) 0 || Nat.eqb (plen b) 0 then pzero
    else
      let new_len := Nat.min (plen a + plen b - 1) MAXC in      (* saturating_sub(1).min(MAX) *)
      {| coeffs := fold_left (fun acc i => fold_left (pmul_step a b i) (seq 0 (plen b)) acc)
                             (seq 0 (plen a)) zeros;
         plen := new_len |}.

  Definition poly_ops : sr_ops poly := {| sr_add := padd; sr_mul := pmul; sr_zero := pzero; sr_one := pone |}.
End Poly.
Arguments poly C : clear implicits.
