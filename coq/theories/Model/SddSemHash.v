(* Model of semantic hashing on SDD pointers (src/repr/sdd.rs, src/repr/sdd/sdd_or.rs,
   src/repr/sdd/binary_sdd.rs, src/repr/ddnnf.rs).  There are TWO hashes of an SddPtr in the code:

   (a) DDNNFPtr::semantic_hash(map) = self.unsmoothed_wmc(map) in FiniteField<P> (ddnnf.rs:104):
       literally "count under the hash weights", i.e. the fold of Model/SddWmc.v (bottomup_pass_h:
       a complemented pointer is counted as the node with all subs negated, the prime is never
       negated, or_v starts from zero) instantiated with the FiniteField operations of
       Model/Semirings.v: [sdd_hash_c] / [sdd_hash_m].  No new recursion is needed.

   (b) SddPtr::cached_semantic_hash(vtree, map) (sdd.rs:64-84), the dedicated recursion used by the
       semantic SDD builder, with one cache field [semantic_hash : RefCell<Option<u128>>] per node:
         PtrTrue => new(1), PtrFalse => new(0), Var(l, pol) => if pol { high_w } else { low_w },
         BDD(n) => n.cached_semantic_hash(), Reg(n) => n.cached_semantic_hash(),
         ComplBDD | Compl => self.neg().cached_semantic_hash().negate()      -- 1 - hash
       BinarySDD::semantic_hash = low.cached() * low_w + high.cached() * high_w   (binary_sdd.rs:66)
       SddOr::semantic_hash = FiniteField::new( sum over the elements, as a RAW u128 sum,
                                of  (prime.cached() * sub.cached()).value() )       (sdd_or.rs:45)
       SddAnd::semantic_hash = prime.cached() * sub.cached()                        (sdd_or.rs:212)
       {BinarySDD,SddOr}::cached_semantic_hash: if let Some(h) = cache { return new(h) }
                                                h = semantic_hash(); cache = Some(h.value()); h
       This is [sdd_cached_hash]; the caches of all nodes are a finite map keyed by the node (the
       unfolding with the pointer's complement bit cleared, as in Model/SddWmc.v), threaded
       through.  The stored value is a bare u128: neither the modulus nor the map is recorded.
       The raw sum is Iterator::sum on u128: it panics on overflow in a build with overflow checks
       and wraps otherwise ([u_add m]).  The [vtree] argument is unused by the code.

   [None] = the Rust code panicked.  The weights are inputs ([wmap] of Model/SemHash.v).
   No proofs in this file. *)
From Coq Require Import Bool NArith List.
Import ListNotations.
From RsddV Require Import Base.Bdd Model.SddVtree Model.SddOps Model.SddWmc Model.Semirings Model.SemHash.

Local Open Scope N_scope.
Local Notation obind := Semirings.bind.

(* ---- (a) DDNNFPtr::semantic_hash for SddPtr: the count under the hash weights ---- *)
Definition sdd_hash_c (m : mode) (P : N) (w : wmap) (fl : bool) (p : sdd) : hv :=
  sdd_wmc_c hv (hadd m P) (hmul m P) (ff_zero P) (ff_one P) (w_lo w) (w_hi w) fl p.
Definition sdd_hash_m (m : mode) (P : N) (w : wmap) (p : sdd) : hv := sdd_hash_c m P w false p.
(* the same through the per-node scratch slots, as the public method runs it *)
Definition sdd_hash_public (m : mode) (P : N) (w : wmap) (p : sdd) (s : sscratch hv) : hv * sscratch hv :=
  sdd_wmc_public hv (hadd m P) (hmul m P) (ff_zero P) (ff_one P) (w_lo w) (w_hi w) p s.

(* ---- (b) SddPtr::cached_semantic_hash ---- *)
(* the [semantic_hash] fields of all BinarySDD / SddOr nodes: finite map node -> stored u128 *)
Definition shcache := list (sdd * N).
Fixpoint shc_get (k : sdd) (s : shcache) : option N :=
  match s with
  | [] => None
  | (k', h) :: r => if sdd_eqb k k' then Some h else shc_get k r
  end.
Definition shc_set (k : sdd) (h : N) (s : shcache) : shcache := (k, h) :: s.

Fixpoint sdd_cached_hash (m : mode) (P : N) (w : wmap) (p : sdd) (s : shcache) : option (N * shcache) :=
  match p with
  | ST => option_map (fun r => (r, s)) (ff_new P 1)
  | SF => option_map (fun r => (r, s)) (ff_new P 0)
  | SVar v pol => option_map (fun r => (r, s)) (if pol then w_hi w v else w_lo w v)
  | SBdd c l i lo hi =>
    let key := SBdd false l i lo hi in
    let reg :=
      match shc_get key s with
      | Some h => option_map (fun r => (r, s)) (ff_new P h)
      | None =>
        (* BinarySDD::semantic_hash *)
        obind (w_lo w l) (fun lw => obind (w_hi w l) (fun hw =>
        obind (sdd_cached_hash m P w lo s) (fun ls =>
        obind (ff_mul m P (fst ls) lw) (fun a =>
        obind (sdd_cached_hash m P w hi (snd ls)) (fun hs =>
        obind (ff_mul m P (fst hs) hw) (fun b =>
        obind (ff_add m P a b) (fun r => Some (r, shc_set key r (snd hs)))))))))
      end in
    if c then obind reg (fun rs => option_map (fun x => (x, snd rs)) (ff_negate m P (fst rs)))
    else reg
  | SOr c i els =>
    let key := SOr false i els in
    let reg :=
      match shc_get key s with
      | Some h => option_map (fun r => (r, s)) (ff_new P h)
      | None =>
        (* SddOr::semantic_hash: nodes.iter().map(|and| and.semantic_hash().value()).sum() *)
        obind ((fix loop (l : list elem) (acc : N) (s0 : shcache) : option (N * shcache) :=
                  match l with
                  | [] => Some (acc, s0)
                  | (pr, sb) :: r =>
                    obind (sdd_cached_hash m P w pr s0) (fun ps =>
                    obind (sdd_cached_hash m P w sb (snd ps)) (fun ss =>
                    obind (ff_mul m P (fst ps) (fst ss)) (fun x =>
                    obind (u_add m acc x) (fun acc' => loop r acc' (snd ss)))))
                  end) els 0 s) (fun sum_s =>
        obind (ff_new P (fst sum_s)) (fun r => Some (r, shc_set key r (snd sum_s))))
      end in
    if c then obind reg (fun rs => option_map (fun x => (x, snd rs)) (ff_negate m P (fst rs)))
    else reg
  end.

(* a sequence of cached-hash queries on pointers that may share nodes; results in order *)
Fixpoint sdd_cached_hashes (m : mode) (P : N) (w : wmap) (ps : list sdd) (s : shcache) : option (list N * shcache) :=
  match ps with
  | [] => Some ([], s)
  | p :: r =>
    obind (sdd_cached_hash m P w p s) (fun hs =>
    obind (sdd_cached_hashes m P w r (snd hs)) (fun rs => Some (fst hs :: fst rs, snd rs)))
  end.

(* the guards of the theorems, as computable functions of the unfolding *)
(* every variable that occurs (var_weight panics on a label that is not in the map) *)
Fixpoint sdd_vars (p : sdd) : list var :=
  match p with
  | ST | SF => []
  | SVar v _ => [v]
  | SBdd _ l _ lo hi => l :: sdd_vars lo ++ sdd_vars hi
  | SOr _ _ els =>
    (fix go (l : list elem) : list var :=
       match l with [] => [] | (pr, sb) :: r => sdd_vars pr ++ sdd_vars sb ++ go r end) els
  end.
(* the largest number of elements of a reachable SddOr (the raw u128 sum has that many terms) *)
Fixpoint sdd_maxw (p : sdd) : nat :=
  match p with
  | SBdd _ _ _ lo hi => Nat.max (sdd_maxw lo) (sdd_maxw hi)
  | SOr _ _ els =>
    Nat.max (length els)
      ((fix go (l : list elem) : nat :=
          match l with [] => 0%nat | (pr, sb) :: r => Nat.max (sdd_maxw pr) (Nat.max (sdd_maxw sb) (go r)) end) els)
  | _ => 0%nat
  end.
