(* C09 — executable model of src/repr/unit_prop.rs (UnitPropagate, SATSolver), of the parts of
   src/repr/model.rs (PartialModel) and src/repr/cnf.rs (Cnf::new) they use.
   One definition per Rust function, same case analysis, same order of steps.  No proofs here.

   Representation choices (each is an abstraction of a container by its documented behaviour):
   - VarLabel / clause index: nat.   Literal: (label, polarity).
   - PartialModel (two disjoint BitSets): list (option bool) of length num_vars.
   - Vec<Vec<ClauseIdx>> watch lists: list (list nat), push = append at the end,
     swap_remove i = "last element moves to position i".
   - BitSet of clause indices (sat_clauses): list bool of length #clauses (canonical);
     BitSet iteration = ascending indices.
   - u128 + wrapping_mul: N modulo 2^128.
   - primal::Primes::all(): trial-division stream 2,3,5,... (primal itself is trusted; the
     correspondence compares the hashes, which exposes any difference).
   - the recursion of UnitPropagate::decide (loop over the watchers, recursive call on a discovered
     unit) is not structural: [up_decide]/[up_loop] recurse on explicit fuel and return
     [UOutOfFuel] when it is exhausted.
   The boolean [pinned] selects the code as pinned (true: the replacement-watch test consults the
   watch list chosen by the polarity of the DECIDED literal — defect D2) or as repaired (false: by
   the polarity of the CANDIDATE literal — the code as it is now). *)
From Coq Require Import Bool NArith List Arith.
Import ListNotations.
From RsddV Require Import Base.Util.

Definition lit := (nat * bool)%type.
Definition clause := list lit.
Definition lvar (l : lit) : nat := fst l.
Definition lpol (l : lit) : bool := snd l.
Definition lneg (l : lit) : lit := (fst l, negb (snd l)).
Definition lit_eqb (a b : lit) : bool := Nat.eqb (fst a) (fst b) && Bool.eqb (snd a) (snd b).

(* ---------- PartialModel (src/repr/model.rs) ---------- *)
Definition pmodel := list (option bool).
Definition pm_new (n : nat) : pmodel := repeat None n.
Definition pm_get (m : pmodel) (v : nat) : option bool := nth v m None.
Definition pm_set (m : pmodel) (v : nat) (b : bool) : pmodel := set_nth m v (Some b).
Definition pm_is_set (m : pmodel) (v : nat) : bool :=
  match pm_get m v with Some _ => true | None => false end.
(* is this literal true / false / unassigned under the partial model *)
Definition lit_true (m : pmodel) (l : lit) : bool :=
  match pm_get m (lvar l) with Some v => Bool.eqb (lpol l) v | None => false end.
Definition lit_false (m : pmodel) (l : lit) : bool :=
  match pm_get m (lvar l) with Some v => negb (Bool.eqb (lpol l) v) | None => false end.
Definition lit_unset (m : pmodel) (l : lit) : bool := negb (pm_is_set m (lvar l)).

(* PartialModel::difference: false_assignments \ other.false_assignments (ascending), then the
   same for the true sets *)
Definition pm_in (m : pmodel) (b : bool) (v : nat) : bool :=
  match pm_get m v with Some x => Bool.eqb x b | None => false end.
Definition pm_diff_pol (a b : pmodel) (p : bool) : list lit :=
  map (fun v => (v, p)) (filter (fun v => pm_in a p v && negb (pm_in b p v)) (seq 0 (length a))).
Definition pm_difference (a b : pmodel) : list lit := pm_diff_pol a b false ++ pm_diff_pol a b true.

(* ---------- Cnf::new (src/repr/cnf.rs 265-293): per clause a stable sort by label and removal
   of adjacent duplicates; num_vars = largest label + 1 ---------- *)
Fixpoint insert_by {A} (le : A -> A -> bool) (x : A) (l : list A) : list A :=
  match l with
  | [] => [x]
  | y :: t => if le x y then x :: l else y :: insert_by le x t
  end.
Definition sort_by {A} (le : A -> A -> bool) (l : list A) : list A := fold_right (insert_by le) [] l.
Fixpoint dedup (l : clause) : clause :=
  match l with
  | [] => []
  | x :: t => match t with
              | [] => [x]
              | y :: _ => if lit_eqb x y then dedup t else x :: dedup t
              end
  end.
Definition label_le (a b : lit) : bool := Nat.leb (lvar a) (lvar b).
Definition cnf_new_clause (c : clause) : clause := dedup (sort_by label_le c).
Definition cnf_new (raw : list clause) : list clause := map cnf_new_clause raw.
Definition clause_nvars (c : clause) : nat := fold_right (fun l acc => Nat.max (S (lvar l)) acc) 0 c.
Definition cnf_num_vars (cls : list clause) : nat := fold_right (fun c acc => Nat.max (clause_nvars c) acc) 0 cls.

(* ---------- UnitPropagate ---------- *)
Record watches := mkW { wpos : list (list nat); wneg : list (list nat) }.
(* the watch list of literal l *)
Definition wl_get (w : watches) (l : lit) : list nat :=
  nth (lvar l) (if lpol l then wpos w else wneg w) [].
Definition wl_put (w : watches) (l : lit) (x : list nat) : watches :=
  if lpol l then mkW (set_nth (wpos w) (lvar l) x) (wneg w)
  else mkW (wpos w) (set_nth (wneg w) (lvar l) x).
Definition wl_push (w : watches) (l : lit) (ci : nat) : watches := wl_put w l (wl_get w l ++ [ci]).
(* Vec::swap_remove *)
Definition swap_remove (l : list nat) (i : nat) : list nat :=
  match rev l with
  | [] => []
  | lastx :: _ => if Nat.eqb (S i) (length l) then removelast l else removelast (set_nth l i lastx)
  end.
Definition mem_nat (x : nat) (l : list nat) : bool := existsb (Nat.eqb x) l.

Definition clause_sat (m : pmodel) (c : clause) : bool := existsb (lit_true m) c.
Definition remaining (m : pmodel) (c : clause) : list lit := filter (lit_unset m) c.

Inductive upres :=
| UOutOfFuel
| URes (w : watches) (r : option pmodel).   (* r = None: UnitPropResult::UNSAT *)

(* UnitPropagate::decide (141-259).  [up_loop] is the `loop` at 164-257 with its watcher_idx. *)
Fixpoint up_decide (pinned : bool) (cls : list clause) (fuel : nat) (w : watches) (m : pmodel)
         (a : lit) {struct fuel} : upres :=
  match fuel with
  | O => UOutOfFuel
  | S f =>
    match pm_get m (lvar a) with
    | Some v => if Bool.eqb v (lpol a) then URes w (Some m) else URes w None
    | None => up_loop pinned cls f w (pm_set m (lvar a) (lpol a)) a 0
    end
  end
with up_loop (pinned : bool) (cls : list clause) (fuel : nat) (w : watches) (m : pmodel)
         (a : lit) (idx : nat) {struct fuel} : upres :=
  match fuel with
  | O => UOutOfFuel
  | S f =>
    let wl := wl_get w (lneg a) in
    if Nat.leb (length wl) idx then URes w (Some m) else
    let ci := nth idx wl 0 in
    let c := nth ci cls [] in
    if clause_sat m c then up_loop pinned cls f w m a (S idx) else
    match remaining m c with
    | [] => URes w None
    | [u] =>
      match up_decide pinned cls f w m u with
      | UOutOfFuel => UOutOfFuel
      | URes w' None => URes w' None
      | URes w' (Some m') => up_loop pinned cls f w' m' a (S idx)
      end
    | cand :: second :: _ =>
      let consulted := if pinned then (lvar cand, lpol a) else cand in
      let new_lit := if mem_nat ci (wl_get w consulted) then second else cand in
      let w1 := wl_put w (lneg a) (swap_remove wl idx) in
      let w2 := wl_push w1 new_lit ci in
      up_loop pinned cls f w2 m a idx
    end
  end.

(* the scan of UnitPropagate::new (99-117): None at the first empty clause; unit clauses are
   collected; every other clause watches c[1] (pushed first) and c[0] *)
Fixpoint up_new_scan (cls : list clause) (idx : nat) (w : watches) (implied : list lit)
  : option (watches * list lit) :=
  match cls with
  | [] => Some (w, implied)
  | c :: rest =>
    match c with
    | [] => None
    | [l] => up_new_scan rest (S idx) w (implied ++ [l])
    | l0 :: l1 :: _ => up_new_scan rest (S idx) (wl_push (wl_push w l1 idx) l0 idx) implied
    end
  end.

(* the loop 127-134 over the implied literals *)
Fixpoint up_new_units (pinned : bool) (cls : list clause) (fuel : nat) (w : watches) (m : pmodel)
         (implied : list lit) : upres :=
  match implied with
  | [] => URes w (Some m)
  | i :: rest =>
    match up_decide pinned cls fuel w m i with
    | UOutOfFuel => UOutOfFuel
    | URes w' None => URes w' None
    | URes w' (Some m') => up_new_units pinned cls fuel w' m' rest
    end
  end.

Definition up_new (pinned : bool) (cls : list clause) (nvars fuel : nat) : upres :=
  match up_new_scan cls 0 (mkW (repeat [] nvars) (repeat [] nvars)) [] with
  | None => URes (mkW [] []) None
  | Some (w, implied) => up_new_units pinned cls fuel w (pm_new nvars) implied
  end.

(* The fuel the solver-level functions pass.  Intended bound: every watch entry is examined at
   most once per assigned variable and there are at most two entries per clause.  Its sufficiency
   is NOT proved: the theorems are about runs that return (OutOfFuel is excluded by the history
   predicate), and the correspondence would show OUT_OF_FUEL as a disagreement. *)
Definition up_fuel (nvars : nat) (cls : list clause) : nat :=
  S ((S nvars) * (4 * length cls + 4)).

(* ---------- naive reference propagator: find a falsified clause -> UNSAT, find a unit clause
   (exactly one unassigned literal occurrence, no true literal: the code's own count at 200-205)
   -> assign; at most [fuel] rounds ---------- *)
Definition clause_status (m : pmodel) (c : clause) : option (option lit) :=
  (* None: nothing to do; Some None: falsified; Some (Some u): unit *)
  if clause_sat m c then None else
  match remaining m c with
  | [] => Some None
  | [u] => Some (Some u)
  | _ => None
  end.
Fixpoint first_status (m : pmodel) (cls : list clause) : option (option lit) :=
  match cls with
  | [] => None
  | c :: rest => match clause_status m c with
                 | Some None => Some None
                 | Some (Some u) => match first_status m rest with
                                    | Some None => Some None
                                    | _ => Some (Some u)
                                    end
                 | None => first_status m rest
                 end
  end.
Fixpoint up_naive (fuel : nat) (cls : list clause) (m : pmodel) : option pmodel :=
  match first_status m cls with
  | None => Some m
  | Some None => None
  | Some (Some u) => match fuel with
                     | O => Some m
                     | S f => up_naive f cls (pm_set m (lvar u) (lpol u))
                     end
  end.

(* ---------- prime stream (model of primal::Primes::all()) ---------- *)
Fixpoint no_div (fuel : nat) (d n : N) : bool :=
  match fuel with
  | O => true
  | S f => if (n <? d * d)%N then true
           else if (n mod d =? 0)%N then false else no_div f (d + 1)%N n
  end.
Definition is_prime (n : N) : bool := (2 <=? n)%N && no_div (N.to_nat n) 2%N n.
(* smallest prime >= c, searched in [c, c + fuel); 0 when none is found *)
Fixpoint next_prime (fuel : nat) (c : N) : N :=
  match fuel with
  | O => 0%N
  | S f => if is_prime c then c else next_prime f (c + 1)%N
  end.
(* the stream state is the smallest number not yet considered; Bertrand: the next prime after a
   prime p is below 2p, so fuel c + 2 always suffices (not proved; the theorems that use the
   weights carry the guard "no weight is 0") *)
Definition prime_next (c : N) : N * N :=
  let p := next_prime (N.to_nat c + 2) c in (p, (p + 1)%N).

(* ---------- SATSolver ---------- *)
Record sat_state := mkSS { ss_model : pmodel; ss_hash : N; ss_sat : list bool }.
Definition wclause := list (lit * N).
Record solver := mkSolver {
  s_nvars : nat;
  s_cnf : list clause;        (* up.cnf: the clauses as Cnf::new left them *)
  s_w : watches;              (* up.watch_list_pos / watch_list_neg *)
  s_clauses : list wclause;   (* normalised, tautology-free, weighted *)
  s_stack : list sat_state    (* head = top of the stack *)
}.

Definition two128 : N := (2 ^ 128)%N.
Definition wrapping_mul (a b : N) : N := ((a * b) mod two128)%N.

(* derived Ord of Literal: the polarity is the most significant bit of the word *)
Definition lit_le (a b : lit) : bool :=
  match lpol a, lpol b with
  | false, true => true
  | true, false => false
  | _, _ => Nat.leb (lvar a) (lvar b)
  end.
Definition norm_clause (c : clause) : clause := dedup (sort_by lit_le c).
(* the filter 366-377: keep the clauses that do not contain a literal and its negation *)
Definition tautological (c : clause) : bool :=
  existsb (fun l => existsb (lit_eqb (lneg l)) c) c.
Fixpoint weigh_clause (c : clause) (st : N) : wclause * N :=
  match c with
  | [] => ([], st)
  | l :: t => let '(p, st1) := prime_next st in
              let '(r, st2) := weigh_clause t st1 in ((l, p) :: r, st2)
  end.
Fixpoint weigh (cls : list clause) (st : N) : list wclause :=
  match cls with
  | [] => []
  | c :: t => let '(wc, st1) := weigh_clause c st in wc :: weigh t st1
  end.
Definition sat_clauses_of (cls : list clause) : list wclause :=
  weigh (filter (fun c => negb (tautological c)) (map norm_clause cls)) 2%N.

(* contains_pos_lit / contains_neg_lit: the clauses (ascending) containing the literal *)
Definition wc_has (l : lit) (wc : wclause) : bool := existsb (fun x => lit_eqb l (fst x)) wc.
Definition containing (cl : list wclause) (l : lit) : list nat :=
  filter (fun ci => wc_has l (nth ci cl [])) (seq 0 (length cl)).

(* update_hash_and_sat_set (293-345) *)
Definition mul_unset (top : pmodel) (wc : wclause) (h : N) : N :=
  fold_left (fun h x => if pm_is_set top (lvar (fst x)) then h else wrapping_mul h (snd x)) wc h.
Definition case2_clause (cl : list wclause) (top : pmodel) (acc : N * list bool) (ci : nat)
  : N * list bool :=
  let '(h, set) := acc in
  if nth ci set false then acc
  else (mul_unset top (nth ci cl []) h, set_nth set ci true).
Definition case2_lit (cl : list wclause) (top : pmodel) (acc : N * list bool) (l : lit)
  : N * list bool :=
  fold_left (case2_clause cl top) (containing cl l) acc.
(* the first literal of the clause on the same label: multiply its weight, break *)
Fixpoint mul_first_label (v : nat) (wc : wclause) (h : N) : N :=
  match wc with
  | [] => h
  | x :: t => if Nat.eqb (lvar (fst x)) v then wrapping_mul h (snd x) else mul_first_label v t h
  end.
Definition case3_lit (cl : list wclause) (set : list bool) (h : N) (l : lit) : N :=
  fold_left (fun h ci => if nth ci set false then h else mul_first_label (lvar l) (nth ci cl []) h)
            (containing cl (lneg l)) h.
Definition update_hash_and_sat_set (cl : list wclause) (top : sat_state) (new_model : pmodel)
  : N * list bool :=
  let diff := pm_difference new_model (ss_model top) in
  let '(h, set) := fold_left (case2_lit cl (ss_model top)) diff (ss_hash top, ss_sat top) in
  (fold_left (case3_lit cl set) diff h, set).

Definition count_true (l : list bool) : nat := count (fun b => b) l.

Inductive new_result := NewOutOfFuel | NewNone | NewSome (s : solver).

(* SATSolver::new (349-434) *)
Definition sat_new (pinned : bool) (cls : list clause) (nvars : nat) : new_result :=
  match up_new pinned cls nvars (up_fuel nvars cls) with
  | UOutOfFuel => NewOutOfFuel
  | URes _ None => NewNone
  | URes w (Some state) =>
    let cl := sat_clauses_of cls in
    let top := mkSS (pm_new nvars) 1%N (repeat false (length cl)) in
    let '(h, set) := update_hash_and_sat_set cl top state in
    NewSome (mkSolver nvars cls w cl [mkSS state h set; top])
  end.

Definition top_state (s : solver) : sat_state :=
  match s_stack s with
  | t :: _ => t
  | [] => mkSS [] 0%N []   (* the code panics (unwrap on an empty stack); excluded by the guards *)
  end.

Inductive decision_result := DSAT | DUNSAT | DUnknown | DOutOfFuel | DPanic.

(* SATSolver::decide (452-470).  A label >= num_vars indexes the watch lists out of bounds:
   the code panics before any mutation; the model says so explicitly. *)
Definition sat_decide (pinned : bool) (s : solver) (a : lit) : solver * decision_result :=
  if Nat.leb (s_nvars s) (lvar a) then (s, DPanic) else
  match up_decide pinned (s_cnf s) (up_fuel (s_nvars s) (s_cnf s)) (s_w s) (ss_model (top_state s)) a with
  | UOutOfFuel => (s, DOutOfFuel)
  | URes w' None => (mkSolver (s_nvars s) (s_cnf s) w' (s_clauses s) (s_stack s), DUNSAT)
  | URes w' (Some new_model) =>
    let '(h, set) := update_hash_and_sat_set (s_clauses s) (top_state s) new_model in
    (mkSolver (s_nvars s) (s_cnf s) w' (s_clauses s) (mkSS new_model h set :: s_stack s),
     if Nat.eqb (count_true set) (length (s_clauses s)) then DSAT else DUnknown)
  end.

(* SATSolver::pop *)
Definition sat_pop (s : solver) : solver :=
  mkSolver (s_nvars s) (s_cnf s) (s_w s) (s_clauses s) (tl (s_stack s)).

Definition sat_is_sat (s : solver) : bool :=
  Nat.eqb (count_true (ss_sat (top_state s))) (length (s_clauses s)).
Definition sat_is_set (s : solver) (v : nat) : bool := pm_is_set (ss_model (top_state s)) v.
Definition sat_cur_hash (s : solver) : N := ss_hash (top_state s).
Definition sat_difference_iter (s : solver) : list lit :=
  match s_stack s with
  | t :: t2 :: _ => pm_difference (ss_model t) (ss_model t2)
  | _ => []    (* the code panics (index len-2); excluded by the guards *)
  end.

(* the whole pipeline used by the correspondence: raw clauses -> Cnf::new -> SATSolver::new *)
Definition solver_of_raw (pinned : bool) (raw : list clause) : new_result :=
  let cls := cnf_new raw in sat_new pinned cls (cnf_num_vars cls).

(* histories *)
Inductive op := Decide (a : lit) | Pop.
Definition step (pinned : bool) (s : solver) (o : op) : solver * option decision_result :=
  match o with
  | Decide a => let '(s', r) := sat_decide pinned s a in (s', Some r)
  | Pop => (sat_pop s, None)
  end.
Fixpoint run (pinned : bool) (s : solver) (ops : list op) : solver :=
  match ops with
  | [] => s
  | o :: rest => run pinned (fst (step pinned s o)) rest
  end.
