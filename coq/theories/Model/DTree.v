(* Model of rsdd::repr::dtree (src/repr/dtree.rs), of VTree::from_dtree (src/repr/vtree.rs), and of
   the two order heuristics of src/repr/cnf.rs (min_fill_order with the interaction graph,
   force_order).

   VarSet (a BitSet; iteration in increasing label order) is a strictly increasing list.
   A CNF is its clause list as [Cnf::new] stores it (literals = (label, polarity)).
   petgraph's UnGraph is modelled with set semantics: a list of node weights in NodeIndex order
   (remove_node = swap_remove) and a set of unordered label pairs (trusted: petgraph).
   FORCE: the f64 centres of gravity and the f64 termination test are heuristic keys; they are an
   arbitrary oracle here (key type, comparison, key function, iteration count). *)
From Coq Require Import Bool List Lia Arith.
Import ListNotations.
From RsddV Require Import Base.Util Model.VarOrder Model.VTree.

Definition lit := (nat * bool)%type.
Definition clause := list lit.

(* ---------- VarSet ---------- *)
Definition mem (x : nat) (s : list nat) : bool := existsb (Nat.eqb x) s.
Fixpoint vs_insert (x : nat) (s : list nat) : list nat :=
  match s with
  | [] => [x]
  | y :: t => if x <? y then x :: s else if x =? y then s else y :: vs_insert x t
  end.
Definition vs_union (a b : list nat) : list nat := fold_right vs_insert a b.
Definition vs_inter (a b : list nat) : list nat := filter (fun x => mem x b) a.
Definition vs_minus (a b : list nat) : list nat := filter (fun x => negb (mem x b)) a.

(* ---------- DTree ---------- *)
Inductive dtree :=
| DLeaf (cl : clause) (cutset vars : list nat)
| DNode (l r : dtree) (cutset vars : list nat).

Definition get_vars (t : dtree) : list nat :=
  match t with DLeaf _ _ v => v | DNode _ _ _ v => v end.
Definition get_cutset (t : dtree) : list nat :=
  match t with DLeaf _ c _ => c | DNode _ _ c _ => c end.

(* DTree::init_vars *)
Fixpoint init_vars (t : dtree) : dtree :=
  match t with
  | DNode l r c _ =>
    let l' := init_vars l in let r' := init_vars r in
    DNode l' r' c (vs_union (get_vars l') (get_vars r'))
  | DLeaf cl c vars => DLeaf cl c (fold_left (fun s (x : lit) => vs_insert (fst x) s) cl vars)
  end.

(* DTree::gen_cutset *)
Fixpoint gen_cutset (anc : list nat) (t : dtree) : dtree :=
  match t with
  | DNode l r _ vars =>
    let inter := vs_inter (get_vars l) (get_vars r) in
    let my := vs_minus inter anc in
    let anc' := vs_union anc my in
    DNode (gen_cutset anc' l) (gen_cutset anc' r) my vars
  | DLeaf cl _ vars => DLeaf cl (vs_minus vars anc) vars
  end.

(* DTree::balanced; [None] = the assert on an empty slice; fuel = length of the slice *)
Fixpoint balanced (fuel : nat) (ts : list dtree) : option dtree :=
  match fuel with
  | 0 => None
  | S f =>
    match ts with
    | [] => None
    | [t] => Some t
    | _ =>
      let h := length ts / 2 in
      match balanced f (firstn h ts), balanced f (skipn h ts) with
      | Some l, Some r => Some (DNode l r [] [])
      | _, _ => None
      end
    end
  end.

(* one round of the elimination loop of from_cnf *)
Definition from_cnf_step (subtrees : list dtree) (o : nat) : option (list dtree) :=
  let (t, s) := partition (fun t => mem o (get_vars t)) subtrees in
  match t with
  | [] => Some s
  | _ => match balanced (length t) t with
         | Some nt => Some (s ++ [init_vars nt])
         | None => None
         end
  end.

Definition leaf_of (cl : clause) : dtree := init_vars (DLeaf cl [] []).

Fixpoint elim_loop (elim : list nat) (subtrees : list dtree) : option (list dtree) :=
  match elim with
  | [] => Some subtrees
  | o :: rest => match from_cnf_step subtrees o with Some s => elim_loop rest s | None => None end
  end.

(* DTree::from_cnf(cnf, elim_order): [elim] is elim_order.in_order_iter(), i.e. pos_to_var.
   [None] = panic (only for an empty clause list: balanced(&[])).
   [pinned = true] is the code before the repair cec595a, which did not call init_vars on the
   tree that joins the independent subtrees; [pinned = false] is the code as it is now. *)
Definition from_cnf_gen (pinned : bool) (cls : list clause) (elim : list nat) : option dtree :=
  match elim_loop elim (map leaf_of cls) with
  | Some st => match balanced (length st) st with
               | Some res => Some (gen_cutset [] (if pinned then res else init_vars res))
               | None => None
               end
  | None => None
  end.
Definition from_cnf := from_cnf_gen false.

(* DTree::cutwidth *)
Fixpoint cutwidth (t : dtree) : nat :=
  match t with
  | DLeaf _ _ _ => 0
  | DNode l r c _ => Nat.max (length c) (Nat.max (cutwidth l) (cutwidth r))
  end.

(* VTree::from_dtree: [None] is the code's Option::None (no variable below); right_linear_c is
   only called where it cannot panic (non-empty cutset or a continuation) *)
Fixpoint from_dtree (t : dtree) : option vtree :=
  match t with
  | DLeaf _ cutset _ => match cutset with [] => None | _ => right_linear_c cutset None end
  | DNode l r cutset _ =>
    match from_dtree l, from_dtree r with
    | None, None => match cutset with [] => None | _ => right_linear_c cutset None end
    | Some lv, None => right_linear_c cutset (Some lv)
    | None, Some rv => right_linear_c cutset (Some rv)
    | Some lv, Some rv => right_linear_c cutset (Some (VNode lv rv))
    end
  end.

(* ---------- specification vocabulary for dtrees ---------- *)
Definition clause_vars (cl : clause) : list nat := map fst cl.
(* clauses at the leaves, left to right *)
Fixpoint leaves (t : dtree) : list clause :=
  match t with DLeaf cl _ _ => [cl] | DNode l r _ _ => leaves l ++ leaves r end.
(* the variables below a node, recomputed from the clauses *)
Definition tvars (t : dtree) : list nat := flat_map clause_vars (leaves t).
(* all cutsets, in the order from_dtree lays them out *)
Fixpoint cuts (t : dtree) : list nat :=
  match t with DLeaf _ c _ => c | DNode l r c _ => c ++ cuts l ++ cuts r end.

(* ---------- Cnf ---------- *)
(* Cnf::new's num_vars: largest label + 1 (0 without literals) *)
Definition cnf_num_vars (cls : list clause) : nat :=
  fold_right (fun cl m => Nat.max (fold_right (fun (x : lit) k => Nat.max (fst x + 1) k) 0 cl) m) 0 cls.

(* ---------- interaction graph and min-fill ---------- *)
Record graph := { nodes : list nat; edges : list (nat * nat) }.

Definition has_edge (g : graph) (a b : nat) : bool :=
  existsb (fun e => ((fst e =? a) && (snd e =? b)) || ((fst e =? b) && (snd e =? a))) (edges g).
Definition add_edge_if_absent (g : graph) (a b : nat) : graph :=
  if has_edge g a b then g else {| nodes := nodes g; edges := edges g ++ [(a, b)] |}.

(* all position pairs (i <= j when [refl], i < j otherwise) of a list *)
Fixpoint pairs (refl : bool) (l : list nat) : list (nat * nat) :=
  match l with
  | [] => []
  | x :: t => (if refl then [(x, x)] else []) ++ map (fun y => (x, y)) t ++ pairs refl t
  end.

(* Cnf::interaction_graph: a clique per clause, [for j in i..len] (so also a self loop) *)
Definition interaction_graph (n : nat) (cls : list clause) : graph :=
  fold_left (fun g cl => fold_left (fun g e => add_edge_if_absent g (fst e) (snd e)) (pairs true (clause_vars cl)) g)
            cls {| nodes := seq 0 n; edges := [] |}.

(* neighbors_undirected(v): every adjacent node once (a self loop counts once) *)
Definition neighbors (g : graph) (v : nat) : list nat := filter (fun u => has_edge g v u) (nodes g).

(* num_fill *)
Definition num_fill (g : graph) (v : nat) : nat :=
  length (filter (fun e => negb (has_edge g (fst e) (snd e))) (pairs false (neighbors g v))).

(* Vec::swap_remove *)
Definition swap_remove (l : list nat) (i : nat) : list nat :=
  if S i =? length l then removelast l else set_nth (removelast l) i (last l 0).

(* eliminate_node(g, NodeIndex i) *)
Definition eliminate_node (g : graph) (i : nat) : graph :=
  let v := nth i (nodes g) 0 in
  let g1 := fold_left (fun g e => add_edge_if_absent g (fst e) (snd e)) (pairs false (neighbors g v)) g in
  {| nodes := swap_remove (nodes g1) i;
     edges := filter (fun e => negb ((fst e =? v) || (snd e =? v))) (edges g1) |}.

(* the code's choice: the first index of minimal num_fill (Iterator::min_by keeps the first) *)
Fixpoint argmin_first (best : nat) (bestv : nat) (i : nat) (vals : list nat) : nat :=
  match vals with
  | [] => best
  | x :: t => if x <? bestv then argmin_first i x (S i) t else argmin_first best bestv (S i) t
  end.
Definition pick_minfill (g : graph) : nat :=
  match map (num_fill g) (nodes g) with
  | [] => 0
  | x :: t => argmin_first 0 x 1 t
  end.

(* the while loop of min_fill_order for an arbitrary choice function; fuel = node count *)
Fixpoint minfill_loop (pick : graph -> nat) (fuel : nat) (g : graph) (ord : list nat) : option (list nat) :=
  match nodes g with
  | [] => Some ord
  | _ :: _ =>
    match fuel with
    | 0 => None
    | S f =>
      match nth_error (nodes g) (pick g) with
      | None => None
      | Some lbl => minfill_loop pick f (eliminate_node g (pick g)) (ord ++ [lbl])
      end
    end
  end.

Definition min_fill_elim (pick : graph -> nat) (cls : list clause) : option (list nat) :=
  let n := cnf_num_vars cls in minfill_loop pick n (interaction_graph n cls) [].
Definition min_fill_order (pick : graph -> nat) (cls : list clause) : option order :=
  match min_fill_elim pick cls with Some ord => order_new ord | None => None end.

(* ---------- FORCE ---------- *)
Section Force.
  Variable K : Type.
  Variable leb : K -> K -> bool.
  (* the average centre of gravity of a label in iteration [it] under the placement [l2p] *)
  Variable key : nat -> list nat -> nat -> K.

  (* sort_by on (key, label) pairs: stable insertion *)
  Fixpoint ins (x : K * nat) (l : list (K * nat)) : list (K * nat) :=
    match l with
    | [] => [x]
    | y :: t => if leb (fst y) (fst x) then y :: ins x t else x :: l
    end.
  Definition isort (l : list (K * nat)) : list (K * nat) := fold_left (fun acc x => ins x acc) l [].

  (* one pass of the loop body: pos_to_lbl by sorted key; then lbl_to_pos[lbl] = idx *)
  Definition force_step (it : nat) (l2p : list nat) : option (list nat) :=
    let n := length l2p in
    let p2l := map snd (isort (map (fun i => (key it l2p i, i)) (seq 0 n))) in
    new_loop p2l 0 l2p.

  Fixpoint force_iter (it : nat) (k : nat) (l2p : list nat) : option (list nat) :=
    match k with
    | 0 => Some l2p
    | S k' => match force_step it l2p with Some l => force_iter (S it) k' l | None => None end
    end.

  (* force_order; [extra] + 1 = number of executions of the loop body (it is a do-while).
     [None]: the empty clause list (the loop never ends: NaN < 1.0 is false) and an empty clause
     next to variables (usize underflow in average_span) *)
  Definition force_placement (cls : list clause) (extra : nat) : option (list nat) :=
    let n := cnf_num_vars cls in
    match cls with
    | [] => None
    | _ => if (0 <? n) && existsb (fun cl : clause => match cl with [] => true | _ => false end) cls then None
           else force_iter 0 (S extra) (seq 0 n)
    end.
  Definition force_order (cls : list clause) (extra : nat) : option order :=
    match force_placement cls extra with Some l2p => order_new l2p | None => None end.
End Force.
