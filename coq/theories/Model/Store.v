(* Store-level model of the ROBDD builder's node construction (component C02L): the link between
   the store layer (Model/RobinHood.v: the unique table as coded) and the tree layer
   (Base/Bdd.v, Model/BddOps.v: a pointer is its unfolding).

   Modelled code:
   - src/repr/bdd.rs: [BddPtr::{PtrTrue, PtrFalse, Reg(&node), Compl(&node)}]; [PartialEq for BddPtr]
     = same constructor and same node ADDRESS; [BddNode { var, low, high }] with
     [PartialEq/Eq/Hash for BddNode] = (var, low pointer, high pointer) -- the scratch fields are
     ignored by both; [neg], [is_neg], [is_false];
   - src/builder/bdd/robdd.rs: [RobddBuilder::get_or_insert] (the complement normalisation on top
     of the unique table's [get_or_insert]);
   - src/backing_store/bump_table.rs: [UniqueTable::get_or_insert] = hash the element with FxHasher
     and call [get_or_insert_by_hash(hash, elem, false)].

   Abstractions:
   - a node address is modelled by the node's index in the bump arena ([id]); the arena never moves
     or frees an element, so the two are in bijection (Model/RobinHood.v);
   - the RobinHood model stores numbers: a node (var, low, high) is stored as [enc (var, low, high)],
     an injective encoding (Proofs/Store.v: [dec_enc]), so that the table's element equality
     [N.eqb] is exactly the derived equality of [BddNode];
   - the hash is [H (enc node)] for an ARBITRARY function [H]: FxHasher applied to (var, addresses,
     discriminants) is one such function of the element, which one is irrelevant to every theorem.
   No proofs here. *)
From Coq Require Import Bool NArith List Lia Arith.
Import ListNotations.
From RsddV Require Import Base.Bdd Model.BddOps Model.RobinHood.

(* BddPtr; [id] = arena index of the node pointed to *)
Inductive sptr := STrue | SFalse | SReg (id : nat) | SCompl (id : nat).

(* BddNode { var, low, high } *)
Definition snode := (var * sptr * sptr)%type.

(* BddPtr::neg *)
Definition sneg (p : sptr) : sptr :=
  match p with STrue => SFalse | SFalse => STrue | SReg i => SCompl i | SCompl i => SReg i end.
(* BddPtr::is_neg *)
Definition s_is_neg (p : sptr) : bool := match p with SCompl _ => true | _ => false end.
(* BddPtr::is_false *)
Definition s_is_false (p : sptr) : bool := match p with SFalse => true | _ => false end.

(* PartialEq for BddPtr: same constructor, same address *)
Definition sptr_eqb (p q : sptr) : bool :=
  match p, q with
  | STrue, STrue | SFalse, SFalse => true
  | SReg i, SReg j | SCompl i, SCompl j => Nat.eqb i j
  | _, _ => false
  end.

(* ---- the injective encoding of nodes as the numbers the table model stores ---- *)

(* pairing N * N -> N without division: (a + b)^2 + b; the square root recovers a + b *)
Definition npair (a b : N) : N := ((a + b) * (a + b) + b)%N.
Definition nunpair (z : N) : N * N :=
  let s := N.sqrt z in let b := (z - s * s)%N in ((s - b)%N, b).

Definition enc_ptr (p : sptr) : N :=
  match p with
  | STrue => 0%N
  | SFalse => 1%N
  | SReg i => (2 + 2 * N.of_nat i)%N
  | SCompl i => (3 + 2 * N.of_nat i)%N
  end.
Definition dec_ptr (n : N) : sptr :=
  if N.eqb n 0 then STrue
  else if N.eqb n 1 then SFalse
  else if N.even n then SReg (N.to_nat ((n - 2) / 2)) else SCompl (N.to_nat ((n - 3) / 2)).

Definition enc (n : snode) : N :=
  let '(v, lo, hi) := n in npair v (npair (enc_ptr lo) (enc_ptr hi)).
Definition dec (z : N) : snode :=
  let '(v, r) := nunpair z in let '(l, h) := nunpair r in (v, dec_ptr l, dec_ptr h).

(* ---- RobddBuilder::get_or_insert ---- *)

Section WithHash.
Variable H : N -> N.   (* the hash of an element, as a function of the element *)

(* UniqueTable::get_or_insert(elem) on BackedRobinhoodTable<BddNode>: returns the node's id *)
Definition table_get_or_insert (t : table) (n : snode) : res (nat * table) :=
  get_or_insert_by_hash true t (H (enc n)) (enc n) false.

(* fn get_or_insert(&self, bdd: BddNode) -> BddPtr *)
Definition get_or_insert_s (t : table) (v : var) (lo hi : sptr) : res (sptr * table) :=
  if s_is_neg hi || s_is_false hi then
    match table_get_or_insert t (v, sneg lo, sneg hi) with
    | Ok (id, t') => Ok (SCompl id, t')
    | PslOverflow => PslOverflow
    | OutOfFuel => OutOfFuel
    end
  else
    match table_get_or_insert t (v, lo, hi) with
    | Ok (id, t') => Ok (SReg id, t')
    | PslOverflow => PslOverflow
    | OutOfFuel => OutOfFuel
    end.

End WithHash.

(* ---- the unfolding of a pointer: the tree-layer value it stands for ---- *)

(* Walks the arena from a pointer.  Fuel: one unit per node on a path; a node's children are
   created before the node, so their ids are smaller and [length arena] units always suffice
   (Proofs/Store.v: [unfold_total]).  [None] = dangling id or fuel exhausted. *)
Fixpoint unfold_f (fuel : nat) (a : list N) (p : sptr) : option bdd :=
  match p with
  | STrue => Some BT
  | SFalse => Some BF
  | SReg id | SCompl id =>
    match fuel with
    | O => None
    | S f =>
      match nth_error a id with
      | None => None
      | Some e =>
        let '(v, lo, hi) := dec e in
        match unfold_f f a lo, unfold_f f a hi with
        | Some l, Some h => Some (BN (s_is_neg p) v l h)
        | _, _ => None
        end
      end
    end
  end.

Definition unfold (a : list N) (p : sptr) : option bdd := unfold_f (length a) a p.

(* ---- specification vocabulary (used by the statements of Properties/C02L.v) ---- *)

(* a pointer refers to nothing at or above arena index [i] *)
Definition child_ok (i : nat) (p : sptr) : Prop :=
  match p with SReg j | SCompl j => j < i | _ => True end.
(* a pointer is valid in an arena: a constant, or a pointer (of either polarity) to a node of the
   arena.  Every arena element was returned by the call that appended it, so the valid pointers are
   exactly the constants, the pointers returned earlier and their negations. *)
Definition ptr_valid (a : list N) (p : sptr) : Prop := child_ok (length a) p.

(* the element at index [i] is the encoding of a node whose children are constants or smaller ids,
   in normal form: the high child is regular and not false *)
Definition node_ok (i : nat) (e : N) : Prop :=
  exists v lo hi, e = enc (v, lo, hi) /\ child_ok i lo /\ child_ok i hi /\
                  s_is_neg hi = false /\ s_is_false hi = false.
Definition wf_arena (a : list N) : Prop := forall i e, nth_error a i = Some e -> node_ok i e.

(* one request on a store, with arguments valid in that store, that did not hit the u8 overflow *)
Inductive step (H : N -> N) : table -> table -> Prop :=
| step_goi t v lo hi p t' :
    ptr_valid (arena t) lo -> ptr_valid (arena t) hi ->
    get_or_insert_s H t v lo hi = Ok (p, t') -> step H t t'.
(* any number of requests *)
Inductive steps (H : N -> N) : table -> table -> Prop :=
| steps_refl t : steps H t t
| steps_snoc t t1 t2 : steps H t t1 -> step H t1 t2 -> steps H t t2.
(* a store reached from the empty table of [c] slots *)
Definition reachable (H : N -> N) (c : nat) (t : table) : Prop := steps H (new_table c) t.

(* ---- histories of requests (what the correspondence driver runs) ---- *)

(* an argument of a request: a constant, the k-th earlier result, or its negation *)
Inductive arg := AT | AF | AR (k : nat) | AN (k : nat).

(* an out-of-range index resolves to a constant (still a legal request; the generator never
   produces one) *)
Definition resolve (pool : list sptr) (a : arg) : sptr :=
  match a with
  | AT => STrue
  | AF => SFalse
  | AR k => nth k pool STrue
  | AN k => sneg (nth k pool STrue)
  end.

Definition request := (var * arg * arg)%type.

(* run a list of requests; [pool] = results so far, oldest first *)
Fixpoint run_s (H : N -> N) (t : table) (pool : list sptr) (rs : list request) : res (list sptr * table) :=
  match rs with
  | [] => Ok (pool, t)
  | (v, lo, hi) :: r =>
    match get_or_insert_s H t v (resolve pool lo) (resolve pool hi) with
    | Ok (p, t') => run_s H t' (pool ++ [p]) r
    | PslOverflow => PslOverflow
    | OutOfFuel => OutOfFuel
    end
  end.

(* the same history on the tree layer: [mk_node] of Model/BddOps.v on unfoldings *)
Definition resolve_t (pool : list bdd) (a : arg) : bdd :=
  match a with
  | AT => BT
  | AF => BF
  | AR k => nth k pool BT
  | AN k => neg (nth k pool BT)
  end.
Fixpoint run_tree (pool : list bdd) (rs : list request) : list bdd :=
  match rs with
  | [] => pool
  | (v, lo, hi) :: r => run_tree (pool ++ [mk_node v (resolve_t pool lo) (resolve_t pool hi)]) r
  end.

(* two hash functions for the correspondence runs (any function does) *)
Definition hash_mod7 (x : N) : N := (x mod 7)%N.
Definition hash_id (x : N) : N := x.
