(* Operation programs over a pool of diagrams in one ROBDD builder: the language in which
   C01/C02/C05/C16 quantify "any sequence of builder operations".  The order is the
   builder's VarOrder (var_to_pos), extended at run time by new_var. *)
From Coq Require Import Bool NArith List Lia Arith.
Import ListNotations.
From RsddV Require Import Base.Bdd Model.IteStd Model.BddOps.

(* VarOrder as var_to_pos: position of variable i is the i-th entry *)
Definition order := list nat.
(* VarOrder::get.  The code indexes out of bounds (panics) for a variable that is not in the
   order; the default keeps the map injective and places such variables after all others. *)
Definition level_of (o : order) (v : var) : nat := nth (N.to_nat v) o (length o + N.to_nat v).
Fixpoint index_of (x : nat) (l : list nat) : nat :=
  match l with [] => 0 | y :: t => if Nat.eqb x y then 0 else S (index_of x t) end.
(* VarOrder::var_at_level = pos_to_var[i], the inverse of var_to_pos *)
Definition var_at (o : order) (i : nat) : var := N.of_nat (index_of i o).
(* VarOrder::new_last *)
Definition new_last (o : order) : order * var := (o ++ [length o], N.of_nat (length o)).
Definition in_order (o : order) (v : var) : bool := Nat.ltb (N.to_nat v) (length o).

Inductive bop :=
| OConst (b : bool)
| OVar (v : var) (pol : bool)
| ONeg (i : nat)
| OAnd (i j : nat) | OOr (i j : nat) | OXor (i j : nat) | OIff (i j : nat)
| OIte (i j k : nat)
| OCond (i : nat) (v : var) (b : bool)
| OCondModel (i : nat) (lits : list (var * bool))
| OExists (i : nat) (v : var)
| OCompose (i : nat) (v : var) (j : nat)
| OAndLst (l : list nat) | OOrLst (l : list nat)
| ONewVar (pol : bool).

Record bstate := { bord : order; bpool : list bdd; bcache : cst }.
Definition bstate_init (o : order) : bstate := {| bord := o; bpool := []; bcache := cst_empty |}.

Section Run.
Variable remember : nat -> bool.

Definition getp (st : bstate) (i : nat) : bdd := nth i (bpool st) BF.
Definition push (st : bstate) (r : bdd) (c : cst) : bstate :=
  {| bord := bord st; bpool := bpool st ++ [r]; bcache := c |}.
Definition push_opt (st : bstate) (o : option (bdd * cst)) : option bstate :=
  match o with Some (r, c) => Some (push st r c) | None => None end.

(* None: a variable outside the order (the code panics) — or fuel exhaustion, which the
   theorems exclude (fuel = number of levels + 1 always suffices) *)
Definition run_op (st : bstate) (op : bop) : option bstate :=
  let o := bord st in
  let lv := level_of o in
  let fuel := S (length o) in
  let c := bcache st in
  match op with
  | OConst b => Some (push st (if b then BT else BF) c)
  | OVar v pol => if in_order o v then Some (push st (var_m v pol) c) else None
  | ONeg i => Some (push st (neg (getp st i)) c)
  | OAnd i j => push_opt st (and_m lv remember fuel c (getp st i) (getp st j))
  | OOr i j => push_opt st (or_m lv remember fuel c (getp st i) (getp st j))
  | OXor i j => push_opt st (xor_m lv remember fuel c (getp st i) (getp st j))
  | OIff i j => push_opt st (iff_m lv remember fuel c (getp st i) (getp st j))
  | OIte i j k => push_opt st (ite_m lv remember fuel c (getp st i) (getp st j) (getp st k))
  | OCond i v b => if in_order o v then Some (push st (condition_m lv (getp st i) v b) c) else None
  | OCondModel i lits =>
      if forallb (fun l => in_order o (fst l)) lits
      then Some (push st (condition_model_m lv (getp st i) lits) c) else None
  | OExists i v => if in_order o v then push_opt st (exists_m lv remember fuel c (getp st i) v) else None
  | OCompose i v j => if in_order o v then push_opt st (compose_m lv remember fuel c (getp st i) v (getp st j)) else None
  | OAndLst l => push_opt st (and_lst_m lv remember fuel c BT (map (getp st) l))
  | OOrLst l => push_opt st (or_lst_m lv remember fuel c BF (map (getp st) l))
  | ONewVar pol =>
      let '(o', v) := new_last o in
      Some {| bord := o'; bpool := bpool st ++ [var_m v pol]; bcache := c |}
  end.

Fixpoint run_prog (st : bstate) (ops : list bop) : option bstate :=
  match ops with
  | [] => Some st
  | op :: r => match run_op st op with Some st' => run_prog st' r | None => None end
  end.
End Run.

(* ---- the specification program: the same operations on Boolean functions ---- *)
Definition bfun := asg -> bool.
Definition getf (pool : list bfun) (i : nat) : bfun := nth i pool (fun _ => false).
Definition restrict_ (f : bfun) (v : var) (b : bool) : bfun := fun x => f (upd x v b).
Definition exists_ (f : bfun) (v : var) : bfun := fun x => f (upd x v true) || f (upd x v false).
(* the documented meaning of compose: exists v. (v <=> g) /\ f *)
Definition compose_spec (f : bfun) (v : var) (g : bfun) : bfun :=
  exists_ (fun x => Bool.eqb (x v) (g x) && f x) v.

Definition spec_op (n : nat) (pool : list bfun) (op : bop) : nat * list bfun :=
  let add (f : bfun) := (n, pool ++ [f]) in
  match op with
  | OConst b => add (fun _ => b)
  | OVar v pol => add (fun x => Bool.eqb (x v) pol)
  | ONeg i => add (fun x => negb (getf pool i x))
  | OAnd i j => add (fun x => getf pool i x && getf pool j x)
  | OOr i j => add (fun x => getf pool i x || getf pool j x)
  | OXor i j => add (fun x => xorb (getf pool i x) (getf pool j x))
  | OIff i j => add (fun x => Bool.eqb (getf pool i x) (getf pool j x))
  | OIte i j k => add (fun x => if getf pool i x then getf pool j x else getf pool k x)
  | OCond i v b => add (restrict_ (getf pool i) v b)
  | OCondModel i lits => add (fun x => getf pool i (fold_right (fun l a => upd a (fst l) (snd l)) x lits))
  | OExists i v => add (exists_ (getf pool i) v)
  | OCompose i v j => add (compose_spec (getf pool i) v (getf pool j))
  | OAndLst l => add (fun x => forallb (fun i => getf pool i x) l)
  | OOrLst l => add (fun x => existsb (fun i => getf pool i x) l)
  | ONewVar pol => (S n, pool ++ [fun x => Bool.eqb (x (N.of_nat n)) pol])
  end.

Fixpoint spec_prog (n : nat) (pool : list bfun) (ops : list bop) : nat * list bfun :=
  match ops with
  | [] => (n, pool)
  | op :: r => let '(n', pool') := spec_op n pool op in spec_prog n' pool' r
  end.
