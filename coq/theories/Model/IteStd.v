(* Model of Ite::new (src/builder/cache/ite.rs): standard triples. Same four stages, same
   case order. *)
From Coq Require Import Bool NArith List Lia Arith.
Import ListNotations.
From RsddV Require Import Base.Bdd.

Inductive ite_t := IteChoice (f g h : bdd) | IteComplChoice (f g h : bdd) | IteConst (f : bdd).

Section S.
Variable order : bdd -> bdd -> bool.   (* the closure passed to Ite::new *)

Definition intro_consts (f g h : bdd) : bdd * bdd * bdd :=
  if bdd_eqb f h then (f, g, BF)
  else if bdd_eqb f (neg h) then (f, g, BT)
  else if bdd_eqb f (neg g) then (f, BF, h)
  else (f, g, h).

Definition terminal (f g h : bdd) : option bdd :=
  if is_true f then Some g
  else if is_false f then Some h
  else if is_true g && is_false h then Some f
  else if is_false g && is_true h then Some (neg f)
  else if bdd_eqb h g then Some g
  else None.

Definition reorder (f g h : bdd) : bdd * bdd * bdd :=
  if is_true g && order h f then (h, g, f)
  else if is_false h && order g f then (g, f, h)
  else if is_true h && order g f then (neg g, neg f, h)
  else if is_false g && order h f then (neg h, g, neg f)
  else if bdd_eqb g (neg h) && order g f then (g, f, neg f)
  else (f, g, h).

Definition std_neg (f g h : bdd) : ite_t :=
  if is_neg f && negb (is_neg h) then IteChoice (neg f) h g
  else if negb (is_neg f) && is_neg g then IteComplChoice f (neg g) (neg h)
  else if is_neg f && is_neg h then IteComplChoice (neg f) (neg h) (neg g)
  else IteChoice f g h.

Definition ite_new (f g h : bdd) : ite_t :=
  let '(f, g, h) := intro_consts f g h in
  match terminal f g h with
  | Some r => IteConst r
  | None => let '(f, g, h) := reorder f g h in std_neg f g h
  end.

Definition ite_ (x y z : bool) := if x then y else z.
Definition den_ite (t : ite_t) (a : asg) : bool :=
  match t with
  | IteChoice f g h => ite_ (den f a) (den g a) (den h a)
  | IteComplChoice f g h => negb (ite_ (den f a) (den g a) (den h a))
  | IteConst r => den r a
  end.

End S.
