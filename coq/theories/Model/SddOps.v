(* Model of the SDD builder (src/builder/sdd/builder.rs: trait SddBuilder and its
   BottomUpBuilder impl; src/builder/sdd/compression.rs: CompressionSddBuilder; src/repr/sdd.rs,
   sdd/sdd_or.rs, sdd/binary_sdd.rs) on the tree layer.  One definition per Rust function, same
   case analysis, same order of steps.

   An SddPtr is modelled by its unfolding; the constructors mirror the enum:
     PtrTrue, PtrFalse, Var(label, polarity), BDD / ComplBDD (&BinarySDD{label,index,low,high}),
     Reg / Compl (&SddOr{index, nodes}).
   Pointer equality (SddPtr::eq = address equality of nodes) is structural equality of unfoldings,
   which is what the two unique tables (bdd_tbl, sdd_tbl) guarantee; they are verified on their own
   (store layer, C02).  Abstracted: node identity, statistics counters, scratch fields.

   "Compression on/off" is CompressionSddBuilder::set_compression (field should_compress); the
   other builder of the crate, SemanticSddBuilder, identifies nodes by a probabilistic hash and
   leaves ite/iff/xor as todo!() -- it is outside this model (property C11).

   Caches.  app_cache is a HashMap that never forgets and is keyed by the (swapped) operand pair;
   the model's [and_m] consults an arbitrary oracle [cache : sdd -> sdd -> option sdd] at exactly
   that place; the theorems hold for every sound oracle and the correspondence runs with the
   empty one (the function is pure, so a table that only holds earlier results of the same
   function returns what recomputation returns).  The ite cache (AllIteTable) is modelled
   exactly, as an association list threaded through the operations of a program, because with
   compression off a hit may return a different (equivalent) structure than recomputation. *)
From Coq Require Import Bool NArith List Lia Arith.
Import ListNotations.
From RsddV Require Import Base.Bdd Base.Util Model.SddVtree.

Inductive sdd :=
| ST | SF
| SVar (v : var) (pol : bool)
| SBdd (c : bool) (lbl : var) (idx : nat) (lo hi : sdd)
| SOr (c : bool) (idx : nat) (els : list (sdd * sdd)).
Definition elem := (sdd * sdd)%type.   (* SddAnd { prime, sub } *)

(* outcome of a model run: a value, fuel exhausted, or a Rust panic!() reached *)
Inductive res (A : Type) := Ok (x : A) | OutOfFuel | Panic.
Arguments Ok {A} x. Arguments OutOfFuel {A}. Arguments Panic {A}.
Definition bind {A B} (r : res A) (f : A -> res B) : res B :=
  match r with Ok x => f x | OutOfFuel => OutOfFuel | Panic => Panic end.

(* ---- SddPtr ---- *)

(* PartialEq for SddPtr / SddOr / BinarySDD / SddAnd (addresses = unfoldings) *)
Fixpoint sdd_eqb (p q : sdd) : bool :=
  match p, q with
  | ST, ST | SF, SF => true
  | SVar v b, SVar v' b' => N.eqb v v' && Bool.eqb b b'
  | SBdd c l i lo hi, SBdd c' l' i' lo' hi' =>
    Bool.eqb c c' && N.eqb l l' && Nat.eqb i i' && sdd_eqb lo lo' && sdd_eqb hi hi'
  | SOr c i els, SOr c' i' els' =>
    Bool.eqb c c' && Nat.eqb i i' &&
    (fix go (l l' : list elem) : bool :=
       match l, l' with
       | [], [] => true
       | (p1, s1) :: r, (p2, s2) :: r' => sdd_eqb p1 p2 && sdd_eqb s1 s2 && go r r'
       | _, _ => false
       end) els els'
  | _, _ => false
  end.

(* derive(Ord) on SddPtr: variant order PtrTrue < PtrFalse < BDD < ComplBDD < Var < Compl < Reg,
   then the fields; references compare their referents (BinarySDD::cmp: label, index, low, high;
   SddOr::cmp: index, nodes lexicographically; SddAnd: prime, sub; Var: label, polarity). *)
Definition tag (p : sdd) : nat :=
  match p with
  | ST => 0 | SF => 1
  | SBdd false _ _ _ _ => 2 | SBdd true _ _ _ _ => 3
  | SVar _ _ => 4
  | SOr true _ _ => 5 | SOr false _ _ => 6
  end.
Definition bool_cmp (a b : bool) : comparison :=
  match a, b with false, true => Lt | true, false => Gt | _, _ => Eq end.
Definition thenc (c : comparison) (d : comparison) : comparison :=
  match c with Eq => d | _ => c end.

Fixpoint sdd_cmp (p q : sdd) : comparison :=
  match Nat.compare (tag p) (tag q) with
  | Eq =>
    match p, q with
    | SVar v b, SVar v' b' => thenc (N.compare v v') (bool_cmp b b')
    | SBdd _ l i lo hi, SBdd _ l' i' lo' hi' =>
      thenc (N.compare l l') (thenc (Nat.compare i i') (thenc (sdd_cmp lo lo') (sdd_cmp hi hi')))
    | SOr _ i els, SOr _ i' els' =>
      thenc (Nat.compare i i')
        ((fix lex (l l' : list elem) : comparison :=
            match l, l' with
            | [], [] => Eq
            | [], _ :: _ => Lt
            | _ :: _, [] => Gt
            | (p1, s1) :: r, (p2, s2) :: r' =>
              thenc (sdd_cmp p1 p2) (thenc (sdd_cmp s1 s2) (lex r r'))
            end) els els')
    | _, _ => Eq
    end
  | c => c
  end.

(* DDNNFPtr::neg *)
Definition sneg (p : sdd) : sdd :=
  match p with
  | ST => SF | SF => ST
  | SVar v b => SVar v (negb b)
  | SBdd c l i lo hi => SBdd (negb c) l i lo hi
  | SOr c i els => SOr (negb c) i els
  end.
Definition s_is_true (p : sdd) := match p with ST => true | _ => false end.
Definition s_is_false (p : sdd) := match p with SF => true | _ => false end.
Definition s_is_neg (p : sdd) :=
  match p with SBdd true _ _ _ _ | SOr true _ _ => true | _ => false end.
Definition s_is_neg_var (p : sdd) := match p with SVar _ false => true | _ => false end.
Definition s_is_const (p : sdd) := match p with ST | SF => true | _ => false end.

(* SddPtr::low / high (None = panic: not a BinarySDD) *)
Definition slow (p : sdd) : option sdd :=
  match p with SBdd c _ _ lo _ => Some (if c then sneg lo else lo) | _ => None end.
Definition shigh (p : sdd) : option sdd :=
  match p with SBdd c _ _ _ hi => Some (if c then sneg hi else hi) | _ => None end.

(* SddPtr::node_iter (SddNodeIter): a BinarySDD yields (label, high), (!label, low) *)
Definition elems (p : sdd) : option (list elem) :=
  match p with
  | SBdd _ l _ lo hi => Some [(SVar l true, hi); (SVar l false, lo)]
  | SOr _ _ els => Some els
  | _ => None
  end.
(* the idiom "let s = if r.is_neg() { s.neg() } else { s }" applied to every element *)
Definition adj (c : bool) (s : sdd) : sdd := if c then sneg s else s.
Definition adj_elems (p : sdd) : option (list elem) :=
  match elems p with
  | Some els => Some (map (fun e => (fst e, adj (s_is_neg p) (snd e))) els)
  | None => None
  end.

(* denotation: a complement bit negates the disjunction of the prime/sub conjunctions *)
Fixpoint sden (p : sdd) (a : asg) : bool :=
  match p with
  | ST => true | SF => false
  | SVar v b => Bool.eqb (a v) b
  | SBdd c l _ lo hi => xorb c (if a l then sden hi a else sden lo a)
  | SOr c _ els =>
    xorb c ((fix go (l : list elem) : bool :=
               match l with [] => false | (p, s) :: r => (sden p a && sden s a) || go r end) els)
  end.
Definition den_els (els : list elem) (a : asg) : bool :=
  existsb (fun e => sden (fst e) a && sden (snd e) a) els.

(* stable insertion sort: Vec::sort_by_key(|a| a.prime()) *)
Fixpoint insert_el (x : elem) (l : list elem) : list elem :=
  match l with
  | [] => [x]
  | e :: r => match sdd_cmp (fst x) (fst e) with Gt => e :: insert_el x r | _ => x :: l end
  end.
Definition sort_els (l : list elem) : list elem := fold_right insert_el [] l.

(* Vec::swap_remove *)
Definition swap_remove {A} (l : list A) (j : nat) : list A :=
  match rev l with
  | [] => l
  | last :: _ => if Nat.eqb j (length l - 1) then removelast l else set_nth (removelast l) j last
  end.

Section Builder.
Variable t : vtree.                         (* the builder's VTreeManager *)
Variable should_compress : bool.            (* CompressionSddBuilder.should_compress *)
Variable cache : sdd -> sdd -> option sdd.  (* app_cache_get at the moment of the call *)

(* SddBuilder::vtree_index (panics on constants; callers have excluded them) *)
Definition vidx (p : sdd) : nat :=
  match p with
  | SVar v _ => var_index t v
  | SBdd _ _ i _ _ | SOr _ i _ => i
  | _ => 0
  end.

(* SddBuilder::unique_bdd *)
Definition unique_bdd (lbl : var) (lo hi : sdd) (idx : nat) : sdd :=
  if sdd_eqb hi lo then hi
  else if s_is_false hi && s_is_true lo then SVar lbl false
  else if s_is_true hi && s_is_false lo then SVar lbl true
  else if s_is_neg hi || s_is_false hi || s_is_neg_var hi
       then SBdd true lbl idx (sneg lo) (sneg hi)
       else SBdd false lbl idx lo hi.

(* SddBuilder::unique_or *)
Definition unique_or (node : list elem) (table : nat) : res sdd :=
  let general :=
    match sort_els node with
    | [] => Panic                      (* node[0] on an empty vector *)
    | (p0, s0) :: rest =>
      if s_is_neg s0 || s_is_false s0 || s_is_neg_var s0
      then Ok (SOr true table (map (fun e => (fst e, sneg (snd e))) ((p0, s0) :: rest)))
      else Ok (SOr false table ((p0, s0) :: rest))
    end in
  match node with
  | [(SVar _ polarity, s0); (SVar label _, s1)] =>
    let low := if negb polarity then s0 else s1 in
    let high := if polarity then s0 else s1 in
    Ok (unique_bdd label low high table)
  | _ => general
  end.

(* CompressionSddBuilder::canonicalize_base_case *)
Definition canonicalize_base_case (node : list elem) : option sdd :=
  match node with
  | [] => Some ST
  | [(p, s)] => if s_is_true p then Some s else if s_is_false s then Some SF else None
  | [(p0, s0); (p1, s1)] =>
    if s_is_true s0 && s_is_false s1 then Some p0
    else if s_is_false s0 && s_is_true s1 then Some p1
    else None
  | _ => None
  end.

Section Rec.
Variable andf : sdd -> sdd -> res sdd.      (* the recursive calls self.and(..) *)

(* BottomUpBuilder::or (default): De Morgan *)
Definition or_f (a b : sdd) : res sdd := bind (andf (sneg a) (sneg b)) (fun r => Ok (sneg r)).

(* CompressionSddBuilder::compress.  The vector is node = done ++ cur :: rest with cur =
   node[i]; the while loop over j = i+1+k only touches cur and rest. *)
Fixpoint compress_while (fuel : nat) (cur : elem) (rest : list elem) (k : nat) : res (elem * list elem) :=
  match fuel with
  | O => OutOfFuel
  | S fuel' =>
    match nth_error rest k with
    | None => Ok (cur, rest)                               (* j >= node.len() *)
    | Some ej =>
      if sdd_eqb (snd cur) (snd ej)
      then bind (or_f (fst cur) (fst ej)) (fun p => compress_while fuel' (p, snd cur) (swap_remove rest k) k)
      else compress_while fuel' cur rest (S k)
    end
  end.
(* for i in 0..node.len(): the bound is the length before the loop; iterations with
   i >= current length do nothing *)
Fixpoint compress_for (n : nat) (done todo : list elem) : res (list elem) :=
  match n with
  | O => Ok (done ++ todo)
  | S n' =>
    match todo with
    | [] => Ok done
    | cur :: rest =>
      bind (compress_while (S (length rest)) cur rest 0)
           (fun cr => compress_for n' (done ++ [fst cr]) (snd cr))
    end
  end.
Definition compress (node : list elem) : res (list elem) := compress_for (length node) [] node.

(* CompressionSddBuilder::canonicalize *)
Definition canonicalize (node : list elem) (table : nat) : res sdd :=
  match canonicalize_base_case node with
  | Some r => Ok r
  | None =>
    if should_compress then
      bind (compress node) (fun node' =>
        match canonicalize_base_case node' with
        | Some r => Ok r
        | None => unique_or node' table
        end)
    else unique_or node table
  end.

(* SddBuilder::and_indep: a is prime to b, in independent vtrees below lca *)
Definition and_indep (a b : sdd) (lca : nat) : res sdd :=
  if is_right_linear (node_at t lca) then
    match a with
    | SVar label true => Ok (unique_bdd label SF b lca)
    | SVar label false => Ok (unique_bdd label b SF lca)
    | _ => Panic
    end
  else unique_or [(a, b); (sneg a, SF)] lca.

(* SddBuilder::and_sub_desc: d is normalised below the right child of r's vtree node *)
Fixpoint sub_desc_loop (d : sdd) (els : list elem) : res (list elem) :=
  match els with
  | [] => Ok []
  | (root_p, root_s) :: rest =>
    bind (andf root_s d) (fun new_s =>
    bind (sub_desc_loop d rest) (fun v => Ok ((root_p, new_s) :: v)))
  end.
Definition and_sub_desc (r d : sdd) : res sdd :=
  match r with
  | SBdd c lbl idx lo hi =>
    bind (andf (adj c lo) d) (fun l =>
    bind (andf (adj c hi) d) (fun h =>
    Ok (unique_bdd lbl l h idx)))
  | SOr c idx els =>
    bind (sub_desc_loop d (map (fun e => (fst e, adj c (snd e))) els)) (fun v => canonicalize v idx)
  | _ => Panic
  end.

(* the inner loop shared by and_prime_desc and and_cartesian: products of (p1, s1) with the
   elements of the other operand; None = "return SddPtr::true_ptr()".  [brk] enables the
   "p1 => p2" early break of and_cartesian. *)
Fixpoint prod_inner (brk : bool) (p1 s1 : sdd) (bels : list elem) : res (option (list elem)) :=
  match bels with
  | [] => Ok (Some [])
  | (p2, s2) :: rest =>
    bind (andf p1 p2) (fun p =>
    if s_is_false p then prod_inner brk p1 s1 rest
    else
      bind (andf s1 s2) (fun s =>
      if s_is_true p && s_is_true s then Ok None
      else if brk && sdd_eqb p1 p then Ok (Some [(p, s)])
      else bind (prod_inner brk p1 s1 rest) (fun o =>
           match o with None => Ok None | Some v => Ok (Some ((p, s) :: v)) end)))
  end.

(* SddBuilder::and_prime_desc: d is normalised below the left child of r's vtree node *)
Fixpoint prime_desc_loop (d : sdd) (rels : list elem) : res (option (list elem)) :=
  match rels with
  | [] => Ok (Some [])
  | (p1, s1) :: rest =>
    bind (prod_inner false p1 s1 [(d, ST); (sneg d, SF)]) (fun o =>
    match o with
    | None => Ok None
    | Some v1 =>
      bind (prime_desc_loop d rest) (fun o2 =>
      match o2 with None => Ok None | Some v2 => Ok (Some (v1 ++ v2)) end)
    end)
  end.
Definition and_prime_desc (r d : sdd) : res sdd :=
  match adj_elems r with
  | None => Panic
  | Some rels =>
    bind (prime_desc_loop d rels) (fun o =>
    match o with
    | None => Ok ST
    | Some new_n => canonicalize new_n (vidx r)      (* r.vtree() *)
    end)
  end.

(* SddBuilder::and_cartesian: a and b are normalised for the same vtree node *)
Fixpoint cartesian_loop (aels bels : list elem) : res (option (list elem)) :=
  match aels with
  | [] => Ok (Some [])
  | (p1, s1) :: rest =>
    match find (fun e => sdd_eqb (fst e) p1) bels with
    | Some (_, s2) =>
      (* equal prime: the only non-false product *)
      bind (andf s1 s2) (fun s =>
      bind (cartesian_loop rest bels) (fun o =>
      match o with None => Ok None | Some v => Ok (Some ((p1, s) :: v)) end))
    | None =>
      bind (prod_inner true p1 s1 bels) (fun o =>
      match o with
      | None => Ok None
      | Some v1 =>
        bind (cartesian_loop rest bels) (fun o2 =>
        match o2 with None => Ok None | Some v2 => Ok (Some (v1 ++ v2)) end)
      end)
    end
  end.
Definition and_cartesian (a b : sdd) (lca : nat) : res sdd :=
  let general :=
    match adj_elems a, adj_elems b with
    | Some aels, Some bels =>
      bind (cartesian_loop aels bels) (fun o =>
      match o with None => Ok ST | Some r => canonicalize r lca end)
    | _, _ => Panic
    end in
  match a with
  | SBdd _ lbl _ _ _ =>
    if is_right_linear (node_at t lca) then
      match slow a, shigh a, slow b, shigh b with
      | Some al, Some ah, Some bl, Some bh =>
        bind (andf al bl) (fun l =>
        bind (andf ah bh) (fun h =>
        Ok (unique_bdd lbl l h lca)))
      | _, _, _, _ => Panic                 (* b.low() on a non-BinarySDD *)
      end
    else general
  | _ => general
  end.

(* BottomUpBuilder::and for SddBuilder *)
Definition and_body (a b : sdd) : res sdd :=
  if s_is_true a then Ok b
  else if s_is_true b then Ok a
  else if s_is_false a then Ok SF
  else if s_is_false b then Ok SF
  else if sdd_eqb a b then Ok a
  else if sdd_eqb a (sneg b) then Ok SF
  else
    let ab := if Nat.eqb (vidx a) (vidx b) || is_prime_index (vidx a) (vidx b) then (a, b) else (b, a) in
    let a := fst ab in let b := snd ab in
    match cache a b with
    | Some x => Ok x
    | None =>
      let av := vidx a in
      let bv := vidx b in
      let l := lca t av bv in
      if Nat.eqb av bv then and_cartesian a b l
      else if Nat.eqb l av then and_sub_desc a b
      else if Nat.eqb l bv then and_prime_desc b a
      else and_indep a b l
    end.

End Rec.

(* fuel: every recursive call is normalised strictly below the current lca, so
   [vheight t + 1] suffices (theorem and_m_fuel) *)
Fixpoint and_m (fuel : nat) (a b : sdd) : res sdd :=
  match fuel with
  | O => OutOfFuel
  | S fuel' => and_body (and_m fuel') a b
  end.

Definition or_m (fuel : nat) (a b : sdd) : res sdd := or_f (and_m fuel) a b.

(* BottomUpBuilder::condition.  The Rust code recurses on [sub.neg()] for complemented nodes;
   to stay structurally recursive the model carries that pending negation as [flip]:
   cond_m flip f = condition(if flip then f.neg() else f)  (lemma cond_m_flip). *)
Section Cond.
Variable fuel : nat.
Variable lbl : var.
Variable value : bool.

Definition cond_var (l : var) (pol : bool) : sdd :=
  if N.eqb l lbl then (if Bool.eqb pol value then ST else SF) else SVar l pol.

(* one iteration of the loop over f.node_iter(): inl = early "return news" *)
Definition cond_step (newp : sdd) (news : res sdd) (rest : res (sdd + list elem)) : res (sdd + list elem) :=
  if s_is_false newp then rest
  else bind news (fun ns =>
       if s_is_true newp then Ok (inl ns)
       else bind rest (fun r =>
            match r with inl x => Ok (inl x) | inr v => Ok (inr ((newp, ns) :: v)) end)).

Fixpoint cond_m (flip : bool) (f : sdd) : res sdd :=
  match f with
  | ST => Ok (if flip then SF else ST)
  | SF => Ok (if flip then ST else SF)
  | SVar l pol => Ok (cond_var l (xorb flip pol))
  | SBdd c l idx lo hi =>
    let c' := xorb flip c in
    bind (cond_step (cond_var l true) (cond_m c' hi)
           (cond_step (cond_var l false) (cond_m c' lo) (Ok (inr []))))
         (fun r => match r with inl x => Ok x | inr v => canonicalize (and_m fuel) v idx end)
  | SOr c idx els =>
    let c' := xorb flip c in
    bind ((fix loop (l : list elem) : res (sdd + list elem) :=
             match l with
             | [] => Ok (inr [])
             | (p, s) :: r => bind (cond_m false p) (fun newp => cond_step newp (cond_m c' s) (loop r))
             end) els)
         (fun r => match r with inl x => Ok x | inr v => canonicalize (and_m fuel) v idx end)
  end.
End Cond.
Definition condition_m (fuel : nat) (f : sdd) (lbl : var) (value : bool) : res sdd :=
  cond_m fuel lbl value false f.

(* ---- Ite::new (src/builder/cache/ite.rs) over SDD pointers: same four stages as
   Model/IteStd.v, which is the instance for BDD pointers ---- *)
Inductive site_t := SIteChoice (f g h : sdd) | SIteComplChoice (f g h : sdd) | SIteConst (f : sdd).

Section Ite.
Variable order : sdd -> sdd -> bool.

Definition s_intro_consts (f g h : sdd) : sdd * sdd * sdd :=
  if sdd_eqb f h then (f, g, SF)
  else if sdd_eqb f (sneg h) then (f, g, ST)
  else if sdd_eqb f (sneg g) then (f, SF, h)
  else (f, g, h).

Definition s_terminal (f g h : sdd) : option sdd :=
  if s_is_true f then Some g
  else if s_is_false f then Some h
  else if s_is_true g && s_is_false h then Some f
  else if s_is_false g && s_is_true h then Some (sneg f)
  else if sdd_eqb h g then Some g
  else None.

Definition s_reorder (f g h : sdd) : sdd * sdd * sdd :=
  if s_is_true g && order h f then (h, g, f)
  else if s_is_false h && order g f then (g, f, h)
  else if s_is_true h && order g f then (sneg g, sneg f, h)
  else if s_is_false g && order h f then (sneg h, g, sneg f)
  else if sdd_eqb g (sneg h) && order g f then (g, f, sneg f)
  else (f, g, h).

Definition s_std_neg (f g h : sdd) : site_t :=
  if s_is_neg f && negb (s_is_neg h) then SIteChoice (sneg f) h g
  else if negb (s_is_neg f) && s_is_neg g then SIteComplChoice f (sneg g) (sneg h)
  else if s_is_neg f && s_is_neg h then SIteComplChoice (sneg f) (sneg h) (sneg g)
  else SIteChoice f g h.

Definition s_ite_new (f g h : sdd) : site_t :=
  let '(f, g, h) := s_intro_consts f g h in
  match s_terminal f g h with
  | Some r => SIteConst r
  | None => let '(f, g, h) := s_reorder f g h in s_std_neg f g h
  end.
End Ite.

(* VTreeManager::is_prime on pointers (panics on constants; Ite::new never asks it about one
   when the answer matters: lemma s_ite_new_order_irrelevant_on_consts) *)
Definition is_prime_ptr (a b : sdd) : bool := is_prime_index (vidx a) (vidx b).

(* AllIteTable: FxHashMap<(f,g,h), res> that never forgets; the complement flag of the
   standard triple is applied on insert and on get *)
Definition itekey := (sdd * sdd * sdd)%type.
Definition itekey_eqb (x y : itekey) : bool :=
  let '(a, b, c) := x in let '(a', b', c') := y in sdd_eqb a a' && sdd_eqb b b' && sdd_eqb c c'.
Definition itecache := list (itekey * sdd).
Definition ite_get (ic : itecache) (k : itekey) : option sdd :=
  match find (fun e => itekey_eqb (fst e) k) ic with Some (_, r) => Some r | None => None end.

(* BottomUpBuilder::ite for SddBuilder *)
Definition ite_m (fuel : nat) (ic : itecache) (f g h : sdd) : res (sdd * itecache) :=
  match s_ite_new is_prime_ptr f g h with
  | SIteConst r => Ok (r, ic)
  | SIteChoice a b c =>
    match ite_get ic (a, b, c) with
    | Some v => Ok (v, ic)
    | None =>
      bind (and_m fuel f g) (fun fg =>
      bind (and_m fuel (sneg f) h) (fun negfh =>
      bind (or_m fuel fg negfh) (fun r => Ok (r, ((a, b, c), r) :: ic))))
    end
  | SIteComplChoice a b c =>
    match ite_get ic (a, b, c) with
    | Some v => Ok (sneg v, ic)
    | None =>
      bind (and_m fuel f g) (fun fg =>
      bind (and_m fuel (sneg f) h) (fun negfh =>
      bind (or_m fuel fg negfh) (fun r => Ok (r, ((a, b, c), sneg r) :: ic))))
    end
  end.

Definition iff_m fuel ic f g := ite_m fuel ic f g (sneg g).
Definition xor_m fuel ic f g := ite_m fuel ic f (sneg g) g.

(* BottomUpBuilder::exists for SddBuilder *)
Definition exists_m (fuel : nat) (f : sdd) (lbl : var) : res sdd :=
  bind (condition_m fuel f lbl true) (fun v1 =>
  bind (condition_m fuel f lbl false) (fun v2 => or_m fuel v1 v2)).

(* BottomUpBuilder::compose (default): exists lbl. (lbl <=> g) /\ f *)
Definition compose_m (fuel : nat) (ic : itecache) (f : sdd) (lbl : var) (g : sdd) : res (sdd * itecache) :=
  bind (iff_m fuel ic (SVar lbl true) g) (fun r =>
  bind (and_m fuel (fst r) f) (fun a =>
  bind (exists_m fuel a lbl) (fun e => Ok (e, snd r)))).

(* ---- SddBuilder::compile_cnf (builder/sdd/builder.rs).  A CNF is cnf.clauses(): a list of
   clauses, a clause a list of (label, polarity) -- the types [clause]/[cnf] of Model/Compile.v.
   The clause order after cnf_sorted.sort_by(..) is NOT determined by the code (the comparator is
   not a total order, so the result depends on the sorting algorithm): the model takes the
   sorted vector as an argument, any permutation of the clauses. ---- *)
Definition lit := (var * bool)%type.

(* let mut bdd = Var(lit_vec[0]); for lit in lit_vec { bdd = self.or(bdd, Var(lit)) } *)
Definition clause_m (fuel : nat) (c : list lit) : res sdd :=
  match c with
  | [] => Panic                                   (* lit_vec[0] on an empty clause *)
  | (v, p) :: _ =>
    fold_left (fun acc l => bind acc (fun b => or_m fuel b (SVar (fst l) (snd l)))) c (Ok (SVar v p))
  end.
Fixpoint clauses_m (fuel : nat) (cs : list (list lit)) : res (list sdd) :=
  match cs with
  | [] => Ok []
  | c :: r => bind (clause_m fuel c) (fun x => bind (clauses_m fuel r) (fun xs => Ok (x :: xs)))
  end.

(* SddBuilder::compile_cnf_helper: balanced conjunction, split_at(len / 2); [hf] is the fuel of
   this recursion only (length + 1 suffices) *)
Fixpoint cnf_helper (fuel : nat) (hf : nat) (vec : list sdd) : res (option sdd) :=
  match hf with
  | O => OutOfFuel
  | S hf' =>
    match vec with
    | [] => Ok None
    | [x] => Ok (Some x)
    | _ =>
      let k := Nat.div2 (length vec) in
      bind (cnf_helper fuel hf' (firstn k vec)) (fun sub_l =>
      bind (cnf_helper fuel hf' (skipn k vec)) (fun sub_r =>
      match sub_l, sub_r with
      | None, None => Ok None
      | Some v, None | None, Some v => Ok (Some v)
      | Some l, Some r => bind (and_m fuel l r) (fun x => Ok (Some x))
      end))
    end
  end.

Definition compile_cnf_m (fuel : nat) (clauses sorted : list (list lit)) : res sdd :=
  if Nat.eqb (length clauses) 0 then Ok ST
  else if existsb (fun c : list lit => Nat.eqb (length c) 0) clauses then Ok SF
  else
    bind (clauses_m fuel sorted) (fun cvec =>
    bind (cnf_helper fuel (S (length cvec)) cvec) (fun r =>
    match r with None => Ok ST | Some x => Ok x end)).

(* ---- operation programs over a pool of results ---- *)
Inductive sop :=
| OTrue | OFalse
| OVar (v : var) (pol : bool)
| ONeg (i : nat)
| OAnd (i j : nat) | OOr (i j : nat) | OXor (i j : nat) | OIff (i j : nat)
| OIte (i j k : nat)
| OCond (i : nat) (v : var) (b : bool)
| OExists (i : nat) (v : var)
| OCompose (i : nat) (v : var) (j : nat)
| OCnf (clauses sorted : list (list (var * bool))).   (* compile_cnf; [sorted] = the vector after sort_by *)

Definition pget (pool : list sdd) (i : nat) : sdd := nth i pool SF.

Definition step_m (fuel : nat) (st : list sdd * itecache) (o : sop) : res (list sdd * itecache) :=
  let '(pool, ic) := st in
  let push (r : res sdd) := bind r (fun x => Ok (pool ++ [x], ic)) in
  let push2 (r : res (sdd * itecache)) := bind r (fun x => Ok (pool ++ [fst x], snd x)) in
  match o with
  | OTrue => push (Ok ST)
  | OFalse => push (Ok SF)
  | OVar v pol => push (Ok (SVar v pol))
  | ONeg i => push (Ok (sneg (pget pool i)))
  | OAnd i j => push (and_m fuel (pget pool i) (pget pool j))
  | OOr i j => push (or_m fuel (pget pool i) (pget pool j))
  | OXor i j => push2 (xor_m fuel ic (pget pool i) (pget pool j))
  | OIff i j => push2 (iff_m fuel ic (pget pool i) (pget pool j))
  | OIte i j k => push2 (ite_m fuel ic (pget pool i) (pget pool j) (pget pool k))
  | OCond i v b => push (condition_m fuel (pget pool i) v b)
  | OExists i v => push (exists_m fuel (pget pool i) v)
  | OCompose i v j => push2 (compose_m fuel ic (pget pool i) v (pget pool j))
  | OCnf f sorted => push (compile_cnf_m fuel f sorted)
  end.

Fixpoint run_m (fuel : nat) (st : list sdd * itecache) (ops : list sop) : res (list sdd * itecache) :=
  match ops with
  | [] => Ok st
  | o :: r => bind (step_m fuel st o) (fun st' => run_m fuel st' r)
  end.

End Builder.

Definition no_cache : sdd -> sdd -> option sdd := fun _ _ => None.
(* what the driver runs: a fresh builder, fuel = height + 1 *)
Definition run_prog (t : vtree) (compress_on : bool) (ops : list sop) : res (list sdd) :=
  bind (run_m t compress_on no_cache (S (vheight t)) ([], []) ops) (fun st => Ok (fst st)).
