(* Character level of Cnf::to_dimacs and of the part of dimacs::lexer::Lexer that reads what it
   prints (property C17).  to_dimacs builds its text with format!: usize / "-" + usize in decimal
   (no leading zero), one blank between literals, "\n" before and " 0" after every clause.  The
   lexer model covers exactly the characters such a text contains -- decimal digits, '-',
   whitespace (skip_whitespace, scan_nat, the '0' => Zero and '-' => Minus arms of next_token);
   any other character is outside this model (None): keywords and comments are handled at token
   level in Model/Serialize.v.  scan_nat's u64 accumulator is unbounded here (numbers < 2^63). *)
From Coq Require Import Ascii Decimal DecimalPos PArith ZArith List.
Import ListNotations.
From RsddV Require Import Model.Serialize.
Local Open Scope char_scope.

(* a text is its list of characters (all ASCII here) *)
Definition text := list ascii.

(* decimal digits, most significant first (what Display for integers writes) *)
Fixpoint chars_of_uint (d : uint) : text :=
  match d with
  | Nil => []
  | D0 l => "0" :: chars_of_uint l | D1 l => "1" :: chars_of_uint l
  | D2 l => "2" :: chars_of_uint l | D3 l => "3" :: chars_of_uint l
  | D4 l => "4" :: chars_of_uint l | D5 l => "5" :: chars_of_uint l
  | D6 l => "6" :: chars_of_uint l | D7 l => "7" :: chars_of_uint l
  | D8 l => "8" :: chars_of_uint l | D9 l => "9" :: chars_of_uint l
  end.
(* Display for a non-zero usize *)
Definition pos_text (p : positive) : text := chars_of_uint (Pos.to_uint p).
(* format!("{}{}", if polarity {""} else {"-"}, label + 1); the terminator is the literal "0" *)
Definition int_text (z : Z) : text :=
  match z with Z0 => ["0"] | Zpos p => pos_text p | Zneg p => "-" :: pos_text p end.
(* clause_str: the first literal as is, every further one after one blank *)
Fixpoint join_blank (l : list text) : text :=
  match l with [] => [] | [x] => x | x :: r => x ++ " " :: join_blank r end.
(* r = format!("{}\n{} 0", r, clause_str) *)
Definition clause_text (c : dclause) : text :=
  "010" :: join_blank (map (fun l => int_text (z_of_lit l)) c) ++ [" "; "0"].
Definition to_dimacs_text (cs : list dclause) : text := concat (map clause_text cs).

(* char::is_whitespace on ASCII: U+0009..U+000D and U+0020 *)
Definition is_ws (c : ascii) : bool :=
  match c with
  | " " | "009" | "010" | "011" | "012" | "013" => true
  | _ => false
  end.
(* scan_nat: val *= 10; val += digit *)
Definition digit_step (c : ascii) : option (positive -> positive) :=
  match c with
  | "0" => Some (fun a => 10 * a) | "1" => Some (fun a => 1 + 10 * a)
  | "2" => Some (fun a => 2 + 10 * a) | "3" => Some (fun a => 3 + 10 * a)
  | "4" => Some (fun a => 4 + 10 * a) | "5" => Some (fun a => 5 + 10 * a)
  | "6" => Some (fun a => 6 + 10 * a) | "7" => Some (fun a => 7 + 10 * a)
  | "8" => Some (fun a => 8 + 10 * a) | "9" => Some (fun a => 9 + 10 * a)
  | _ => None
  end%positive.
(* '1'...'9' => scan_nat starts with the digit's value *)
Definition digit_start (c : ascii) : option positive :=
  match c with
  | "1" => Some 1 | "2" => Some 2 | "3" => Some 3 | "4" => Some 4 | "5" => Some 5
  | "6" => Some 6 | "7" => Some 7 | "8" => Some 8 | "9" => Some 9
  | _ => None
  end%positive.

(* the token stream of a text; [cur] = the accumulator of a scan_nat in progress *)
Fixpoint lex_chars (s : text) (cur : option positive) : option (list tok) :=
  match s with
  | [] => Some (match cur with Some p => [TNat p] | None => [] end)
  | c :: r =>
    match cur, digit_step c with
    | Some acc, Some f => lex_chars r (Some (f acc))
    | _, _ =>
      let pre := match cur with Some p => [TNat p] | None => [] end in
      if is_ws c then option_map (@List.app tok pre) (lex_chars r None)
      else if Ascii.eqb c "0" then option_map (fun t => (pre ++ TZero :: t)%list) (lex_chars r None)
      else match digit_start c with
           | Some d => option_map (@List.app tok pre) (lex_chars r (Some d))
           | None =>
             if Ascii.eqb c "-" then option_map (fun t => (pre ++ TMinus :: t)%list) (lex_chars r None)
             else None
           end
    end
  end.
