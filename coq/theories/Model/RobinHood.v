(* Model of rsdd::backing_store::bump_table (src/backing_store/bump_table.rs): the unique
   table = robin-hood linear-probing hash table over a bump arena.  One definition per Rust
   function, same case analysis, same order of steps.

   - a slot is [HashTableElement { ptr, hash, psl }]; [ptr : Option<&T>] is modelled by the
     index of the element in the arena ([sid]); addresses are not modellable, arena indices are
     in bijection with them (the bump arena never moves or frees an element);
   - the arena is an append-only list of elements; elements are numbers (N) with equality;
   - the hash of every element is an INPUT of each call (u64 in the code);
   - [psl] is a [u8] in the code: [+ 1] panics in a debug build at 255 and wraps in a release
     build.  The model keeps [nat] and returns the explicit error [PslOverflow] exactly where the
     [u8] addition would overflow;
   - loops run on explicit fuel and return [OutOfFuel] when it is exhausted (never happens under
     the table invariant: Proofs/RobinHood.v);
   - the load test [(len + 1) as f64 > cap as f64 * LOAD_FACTOR] is modelled by the exact integer
     test [load_den * (len + 1) > load_num * cap] with LOAD_FACTOR = load_num / load_den re-read
     from the source on every run (Generated/Constants.v).  The two tests agree for every
     power-of-two capacity < 2^50 (every capacity after the first growth is one): the product
     cap * fl(0.7) is then exact and within cap * 2^-53 < 2^-3 of the real number 7*cap/10, which
     is at distance >= 1/5 from every integer (5 does not divide 7*2^k), and len + 1 is an
     integer.  For the initial capacities 1..16 set through the hook the agreement is checked by
     the correspondence (the moment of growth is visible in the slot order it compares).  The
     proofs only use load_num < load_den;
   - [fixed : bool] selects [grow]: [true] is the code as it is now (re-insert only occupied
     slots, psl reset to 0), [false] the pinned code (re-insert every slot, ghosts included,
     with its old psl) kept so that its refutation stays checkable. *)
From Coq Require Import Bool NArith List Lia Arith.
Import ListNotations.
From RsddV Require Import Base.Util Generated.Constants.

Record slot := { sid : option nat; shash : N; spsl : nat }.

(* HashTableElement::default() *)
Definition empty_slot : slot := {| sid := None; shash := 0%N; spsl := 0 |}.
(* HashTableElement::is_occupied *)
Definition occupied (s : slot) : bool := match sid s with Some _ => true | None => false end.

Inductive res (A : Type) : Type :=
| Ok (a : A)
| PslOverflow      (* a u8 psl would be incremented past 255 *)
| OutOfFuel.
Arguments Ok {A} a.
Arguments PslOverflow {A}.
Arguments OutOfFuel {A}.

Definition psl_max : nat := 255.   (* u8::MAX *)

(* (hash as usize) % cap *)
Definition home (c : nat) (h : N) : nat := N.to_nat (N.modulo h (N.of_nat c)).

(* searcher.psl = searcher.psl + 1 *)
Definition bump (s : slot) : slot := {| sid := sid s; shash := shash s; spsl := S (spsl s) |}.

(* fn propagate(v, cap, itm, pos) *)
Fixpoint propagate (fuel : nat) (v : list slot) (c : nat) (itm : slot) (pos : nat) : res (list slot) :=
  match fuel with
  | O => OutOfFuel
  | S f =>
    let cur := nth pos v empty_slot in
    if occupied cur then
      let '(v', searcher) := if Nat.ltb (spsl cur) (spsl itm) then (set_nth v pos itm, cur) else (v, itm) in
      if Nat.leb psl_max (spsl searcher) then PslOverflow
      else propagate f v' c (bump searcher) ((pos + 1) mod c)
    else Ok (set_nth v pos itm)
  end.

Record table := { tbl : list slot; cap : nat; len : nat; hits : nat; arena : list N }.

(* BackedRobinhoodTable::new() with [c] slots (DEFAULT_SIZE, or the verification hook's value) *)
Definition new_table (c : nat) : table :=
  {| tbl := repeat empty_slot c; cap := c; len := 0; hits := 0; arena := [] |}.

(* usize::next_power_of_two *)
Definition next_pow2 (n : nat) : nat := 2 ^ Nat.log2_up n.

Section Grow.
Variable fixed : bool.

Definition grow_step (c : nat) (acc : res (list slot)) (i : slot) : res (list slot) :=
  match acc with
  | Ok v =>
    if fixed then
      (if occupied i
       then propagate (S c) v c {| sid := sid i; shash := shash i; spsl := 0 |} (home c (shash i))
       else Ok v)
    else propagate (S c) v c i (home c (shash i))
  | e => e
  end.

(* BackedRobinhoodTable::grow *)
Definition grow (t : table) : res table :=
  let c := next_pow2 (cap t + 1) in
  match fold_left (grow_step c) (tbl t) (Ok (repeat empty_slot c)) with
  | Ok v => Ok {| tbl := v; cap := c; len := len t; hits := hits t; arena := arena t |}
  | PslOverflow => PslOverflow
  | OutOfFuel => OutOfFuel
  end.

(* alloc.alloc(elem); tbl[pos] = HashTableElement::new(ptr, hash, psl); len += 1; return ptr *)
Definition insert_at (t : table) (v : list slot) (pos : nat) (hash elem : N) (psl : nat) : nat * table :=
  let id := length (arena t) in
  (id, {| tbl := set_nth v pos {| sid := Some id; shash := hash; spsl := psl |};
          cap := cap t; len := S (len t); hits := hits t; arena := arena t ++ [elem] |}).

Definition hit (t : table) : table :=
  {| tbl := tbl t; cap := cap t; len := len t; hits := S (hits t); arena := arena t |}.

(* the probing loop of get_or_insert_by_hash *)
Fixpoint probe (fuel : nat) (t : table) (hash elem : N) (eq_by_hash : bool) (pos psl : nat) : res (nat * table) :=
  match fuel with
  | O => OutOfFuel
  | S f =>
    let cur := nth pos (tbl t) empty_slot in
    match sid cur with
    | Some id =>
      if N.eqb hash (shash cur) && (eq_by_hash || N.eqb (nth id (arena t) 0%N) elem) then Ok (id, hit t)
      else if Nat.ltb (spsl cur) psl then
        match propagate (S (cap t)) (tbl t) (cap t) cur pos with
        | Ok v => Ok (insert_at t v pos hash elem psl)
        | PslOverflow => PslOverflow
        | OutOfFuel => OutOfFuel
        end
      else if Nat.leb psl_max psl then PslOverflow
      else probe f t hash elem eq_by_hash ((pos + 1) mod cap t) (S psl)
    | None => Ok (insert_at t (tbl t) pos hash elem psl)
    end
  end.

Definition needs_grow (t : table) : bool := Nat.ltb (load_num * cap t) (load_den * (len t + 1)).

(* BackedRobinhoodTable::get_or_insert_by_hash *)
Definition get_or_insert_by_hash (t : table) (hash elem : N) (eq_by_hash : bool) : res (nat * table) :=
  match (if needs_grow t then grow t else Ok t) with
  | Ok t' => probe (S (cap t')) t' hash elem eq_by_hash (home (cap t') hash) 0
  | PslOverflow => PslOverflow
  | OutOfFuel => OutOfFuel
  end.

End Grow.

(* the loop of get_by_hash *)
Fixpoint lookup (fuel : nat) (t : table) (hash : N) (pos psl : nat) : res (option nat) :=
  match fuel with
  | O => OutOfFuel
  | S f =>
    let cur := nth pos (tbl t) empty_slot in
    match sid cur with
    | Some id =>
      if N.eqb hash (shash cur) then Ok (Some id)
      else if Nat.ltb (spsl cur) psl then Ok None
      else if Nat.leb psl_max psl then PslOverflow
      else lookup f t hash ((pos + 1) mod cap t) (S psl)
    | None => Ok None
    end
  end.

(* BackedRobinhoodTable::get_by_hash *)
Definition get_by_hash (t : table) (hash : N) : res (option nat * table) :=
  match lookup (S (cap t)) t hash (home (cap t) hash) 0 with
  | Ok (Some id) => Ok (Some id, hit t)
  | Ok None => Ok (None, t)
  | PslOverflow => PslOverflow
  | OutOfFuel => OutOfFuel
  end.

(* num_nodes(), hits() *)
Definition num_nodes (t : table) : nat := len t.

(* a history of get_or_insert_by_hash (H e) e false calls: returned ids and the final table *)
Fixpoint run (fixed : bool) (H : N -> N) (t : table) (es : list N) : res (list nat * table) :=
  match es with
  | [] => Ok ([], t)
  | e :: r =>
    match get_or_insert_by_hash fixed t (H e) e false with
    | Ok (id, t') =>
      match run fixed H t' r with
      | Ok (ids, t'') => Ok (id :: ids, t'')
      | PslOverflow => PslOverflow
      | OutOfFuel => OutOfFuel
      end
    | PslOverflow => PslOverflow
    | OutOfFuel => OutOfFuel
    end
  end.
