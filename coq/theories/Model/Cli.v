(* Model of the single-count pipeline of bin/weighted_model_count.rs (single_wmc): compile the
   expression with the configured order, smooth over ALL variables (those of the formula, numbered
   by rank of their name, and those that only occur in the weights file, appended in an unspecified
   order), count with the given weights and with unit weights.  File I/O, clap and printing are
   runtime glue, tied by correspondence only. *)
From Coq Require Import Bool NArith List Lia Arith.
Import ListNotations.
From RsddV Require Import Base.Bdd Model.IteStd Model.BddOps Model.BddProg Model.Wmc Model.Compile.

Definition wmc_N (wlo whi : var -> N) (p : bdd) : N := wmc_m N N.add N.mul 0%N 1%N wlo whi p.

Definition cli_counts (o : order) (e : expr) (wlo whi : var -> N) : option (N * N) :=
  let n := length o in
  match compile_e (level_of o) (fun _ => true) (S n) e cst_empty with
  | Some (r, _) =>
    let s := smooth_m (var_at o) r n in
    Some (wmc_N (fun _ => 1%N) (fun _ => 1%N) s, wmc_N wlo whi s)
  | None => None
  end.

(* the converters: compile, then serialise (C17); the compiled diagram *)
Definition cli_compile (o : order) (e : expr) : option bdd :=
  match compile_e (level_of o) (fun _ => true) (S (length o)) e cst_empty with
  | Some (r, _) => Some r | None => None end.
