(* Small self-contained vtree model for the SDD builder (src/repr/vtree.rs, src/util/btree.rs).
   A vtree is a binary tree with variable leaves (VTree = BTree<(), VarLabel>).  VTreeManager
   numbers all nodes (leaves and internal) by their position in the in-order traversal
   (inorder_dfs_iter); [VTreeIndex] is that number.  Only what SddBuilder uses is modelled:
   var_index, vtree(idx), lca, is_prime_index, is_right_linear.  (The Euler-tour / segment-tree
   implementation of lca and the dfs<->bfs maps are property C14's subject; here lca is the
   direct descent on in-order intervals, which is what that machinery computes.) *)
From Coq Require Import Bool NArith List Lia Arith.
Import ListNotations.
From RsddV Require Import Base.Bdd.

Inductive vtree := VLeaf (v : var) | VNode (l r : vtree).

(* number of nodes = length of the in-order traversal *)
Fixpoint vsize (t : vtree) : nat :=
  match t with VLeaf _ => 1 | VNode l r => vsize l + 1 + vsize r end.

Fixpoint vheight (t : vtree) : nat :=
  match t with VLeaf _ => 0 | VNode l r => S (Nat.max (vheight l) (vheight r)) end.

Fixpoint vleaves (t : vtree) : list var :=
  match t with VLeaf v => [v] | VNode l r => vleaves l ++ vleaves r end.

(* VTreeManager::var_index: in-order index of the leaf labelled v; [off] is the index of the
   first node of [t] in the traversal of the whole tree. *)
Fixpoint var_index_from (t : vtree) (off : nat) (v : var) : option nat :=
  match t with
  | VLeaf x => if N.eqb x v then Some off else None
  | VNode l r =>
    match var_index_from l off v with
    | Some i => Some i
    | None => var_index_from r (off + vsize l + 1) v
    end
  end.
(* vtree_lookup is initialised with zeros: a label that is in range but not a leaf gives 0 *)
Definition var_index (t : vtree) (v : var) : nat :=
  match var_index_from t 0 v with Some i => i | None => 0 end.

(* VTreeManager::vtree(idx): the subtree whose root has in-order index i *)
Fixpoint node_at_from (t : vtree) (off i : nat) : option vtree :=
  match t with
  | VLeaf _ => if Nat.eqb i off then Some t else None
  | VNode l r =>
    let m := off + vsize l in
    if Nat.eqb i m then Some t
    else if Nat.ltb i m then node_at_from l off i
    else node_at_from r (S m) i
  end.
Definition node_at (t : vtree) (i : nat) : option vtree := node_at_from t 0 i.

(* VTreeManager::lca on in-order indices *)
Fixpoint lca_from (t : vtree) (off i j : nat) : nat :=
  match t with
  | VLeaf _ => off
  | VNode l r =>
    let m := off + vsize l in
    if Nat.ltb i m && Nat.ltb j m then lca_from l off i j
    else if Nat.ltb m i && Nat.ltb m j then lca_from r (S m) i j
    else m
  end.
Definition lca (t : vtree) (i j : nat) : nat := lca_from t 0 i j.

(* VTree::is_right_linear of vtree(idx): the left child is a leaf *)
Definition is_right_linear (o : option vtree) : bool :=
  match o with Some (VNode (VLeaf _) _) => true | _ => false end.

(* VTreeManager::is_prime_index *)
Definition is_prime_index (i j : nat) : bool := Nat.ltb i j.
