(* Model of the queries on SDD pointers that go through the per-node scratch slot
   (src/repr/sdd.rs: impl DDNNFPtr for SddPtr -- fold, count_nodes; SddPtr::scratch / set_scratch /
   is_scratch_cleared / clear_scratch; sdd/sdd_or.rs and sdd/binary_sdd.rs: the slot itself and
   the unconditional recursive clear_scratch; src/repr/ddnnf.rs: unsmoothed_wmc, evaluate).

   fold(f) as coded (bottomup_pass_h):
     PtrTrue -> f(True); PtrFalse -> f(False); Var(v, pol) -> f(Lit(v, pol));
     any node pointer ptr (BDD / ComplBDD / Reg / Compl):
        or_v = f(False);
        for and in ptr.node_iter():            -- BinarySDD: (Var(label,true), high), (Var(label,false), low)
                                               -- SddOr: its elements in stored order
           s     = if ptr.is_neg() { and.sub().neg() } else { and.sub() }
           p_sub = fold(and.prime())           -- the prime is NEVER negated
           s_sub = fold(s)
           or_v  = f(Or(or_v, f(And(p_sub, s_sub)), {}))
   i.e. a complemented pointer is counted as the node whose subs are all negated.

   The Rust recursion on [sub.neg()] is not structural; as in Model/SddOps.v (cond_m) the model
   carries the pending negation as a flag:  sdd_fold_c fl p = fold(if fl then p.neg() else p)
   (lemma sdd_fold_c_sneg in Proofs/SddWmc.v; the unfolding equations sdd_fold_node_eq there are
   literally the loop above).

   First the plain recursion (what the memo computes, theorem sdd_fold_memo_spec), then the
   state-passing version with the scratch slot.  A node is identified by its unfolding without
   the pointer's complement bit, so Reg(n) / Compl(n) (BDD(n) / ComplBDD(n)) share one slot: that is
   why the slot holds a pair (value as complemented, value as regular). *)
From Coq Require Import Bool NArith List Lia Arith.
Import ListNotations.
From RsddV Require Import Base.Bdd Model.SddVtree Model.SddOps.

Section Fold.
Variable T : Type.
(* the closure f : DDNNF<T> -> T, one function per constructor of DDNNF; the VarSet of Or is
   always VarSet::new() *)
Variable fTrue fFalse : T.
Variable fLit : var -> bool -> T.
Variable fAnd : T -> T -> T.
Variable fOr : T -> T -> T.

Fixpoint sdd_fold_c (fl : bool) (p : sdd) : T :=
  match p with
  | ST => if fl then fFalse else fTrue
  | SF => if fl then fTrue else fFalse
  | SVar v b => fLit v (xorb fl b)
  | SBdd c l _ lo hi =>
    let ng := xorb fl c in                       (* ptr.is_neg() *)
    let or1 := fOr fFalse (fAnd (fLit l true) (sdd_fold_c ng hi)) in
    fOr or1 (fAnd (fLit l false) (sdd_fold_c ng lo))
  | SOr c _ els =>
    let ng := xorb fl c in
    (fix loop (l : list elem) (or_v : T) : T :=
       match l with
       | [] => or_v
       | (pr, sb) :: r => loop r (fOr or_v (fAnd (sdd_fold_c false pr) (sdd_fold_c ng sb)))
       end) els fFalse
  end.
Definition sdd_fold (p : sdd) : T := sdd_fold_c false p.

(* ---- the scratch slot ---- *)
(* Box<dyn Any>: a DDNNFCache<T> = (Option<T>, Option<T>) written by fold, or a usize written by
   count_nodes; a read at the other type (downcast_ref) sees nothing *)
Inductive spayload := SPFold (compl reg : option T) | SPCount.
(* the node a pointer points to: the unfolding with the complement bit cleared *)
Definition node_of (p : sdd) : sdd :=
  match p with
  | SBdd _ l i lo hi => SBdd false l i lo hi
  | SOr _ i els => SOr false i els
  | _ => p
  end.
Definition sscratch := sdd -> option spayload.        (* keyed by node_of *)
Definition sempty : sscratch := fun _ => None.
Definition sset (s : sscratch) (n : sdd) (v : option spayload) : sscratch :=
  fun m => if sdd_eqb m n then v else s m.
(* scratch::<DDNNFCache<T>>() *)
Definition sread_fold (s : sscratch) (n : sdd) : option (option T * option T) :=
  match s n with Some (SPFold a b) => Some (a, b) | _ => None end.
(* scratch::<usize>().is_some() *)
Definition sread_count (s : sscratch) (n : sdd) : bool :=
  match s n with Some SPCount => true | _ => false end.

(* the match on ptr.scratch::<DDNNFCache<T>>() of bottomup_pass_h; [helper cached] is
   bottomup_helper(cached) *)
Definition memo_dispatch (ng : bool) (s : sscratch) (n : sdd) (helper : option T -> T * sscratch) : T * sscratch :=
  match sread_fold s n with
  | Some (Some l, Some h) => (if ng then l else h, s)
  | Some (Some x, None) => if ng then (x, s) else helper (Some x)
  | Some (None, Some y) => if ng then helper (Some y) else (y, s)
  | Some (None, None) => helper None
  | None => helper None
  end.
(* the two set_scratch calls at the end of bottomup_helper *)
Definition memo_store (ng : bool) (s : sscratch) (n : sdd) (cached : option T) (or_v : T) : sscratch :=
  sset s n (Some (if ng then SPFold (Some or_v) cached else SPFold cached (Some or_v))).

Fixpoint sdd_fold_memo (fl : bool) (p : sdd) (s : sscratch) : T * sscratch :=
  match p with
  | ST => (if fl then fFalse else fTrue, s)
  | SF => (if fl then fTrue else fFalse, s)
  | SVar v b => (fLit v (xorb fl b), s)
  | SBdd c l i lo hi =>
    let ng := xorb fl c in
    let n := SBdd false l i lo hi in
    memo_dispatch ng s n (fun cached =>
      let '(hv, s1) := sdd_fold_memo ng hi s in
      let or1 := fOr fFalse (fAnd (fLit l true) hv) in
      let '(lv, s2) := sdd_fold_memo ng lo s1 in
      let or2 := fOr or1 (fAnd (fLit l false) lv) in
      (or2, memo_store ng s2 n cached or2))
  | SOr c i els =>
    let ng := xorb fl c in
    let n := SOr false i els in
    memo_dispatch ng s n (fun cached =>
      let '(or_v, s') :=
        (fix loop (l : list elem) (or_v : T) (s0 : sscratch) : T * sscratch :=
           match l with
           | [] => (or_v, s0)
           | (pr, sb) :: r =>
             let '(pv, s1) := sdd_fold_memo false pr s0 in
             let '(sv, s2) := sdd_fold_memo ng sb s1 in
             loop r (fOr or_v (fAnd pv sv)) s2
           end) els fFalse s in
      (or_v, memo_store ng s' n cached or_v))
  end.

(* SddPtr::clear_scratch -> BinarySDD::clear_scratch / SddOr::clear_scratch: unconditional (no
   "stop at an empty node" short-circuit, unlike BddPtr): empty the slot, then low, high /
   then prime, sub of every element *)
Fixpoint sdd_clear (p : sdd) (s : sscratch) : sscratch :=
  match p with
  | SBdd _ l i lo hi => sdd_clear hi (sdd_clear lo (sset s (SBdd false l i lo hi) None))
  | SOr _ i els =>
    (fix loop (l : list elem) (s0 : sscratch) : sscratch :=
       match l with
       | [] => s0
       | (pr, sb) :: r => loop r (sdd_clear sb (sdd_clear pr s0))
       end) els (sset s (SOr false i els) None)
  | _ => s
  end.

(* the public query: r = bottomup_pass_h(self, f); self.clear_scratch(); r *)
Definition sdd_fold_public (p : sdd) (s : sscratch) : T * sscratch :=
  let '(r, s1) := sdd_fold_memo false p s in (r, sdd_clear p s1).

(* count_nodes: count_h marks visited nodes with a usize; a BinarySDD contributes
   1 + count_h(low) + 1 + count_h(high), an SddOr  sum over its elements of
   count_h(sub) + count_h(prime) + 1  (sub first) *)
Fixpoint sdd_count_h (p : sdd) (s : sscratch) : nat * sscratch :=
  match p with
  | SBdd _ l i lo hi =>
    let n := SBdd false l i lo hi in
    if sread_count s n then (0, s)
    else
      let s0 := sset s n (Some SPCount) in
      let '(cl, s1) := sdd_count_h lo s0 in
      let '(ch, s2) := sdd_count_h hi s1 in
      (1 + cl + 1 + ch, s2)
  | SOr _ i els =>
    let n := SOr false i els in
    if sread_count s n then (0, s)
    else
      (fix loop (l : list elem) (c : nat) (s0 : sscratch) : nat * sscratch :=
         match l with
         | [] => (c, s0)
         | (pr, sb) :: r =>
           let '(cs, s1) := sdd_count_h sb s0 in
           let '(cp, s2) := sdd_count_h pr s1 in
           loop r (c + cs + cp + 1) s2
         end) els 0 (sset s n (Some SPCount))
  | _ => (0, s)
  end.
Definition sdd_count_public (p : sdd) (s : sscratch) : nat * sscratch :=
  let '(k, s1) := sdd_count_h p s in (k, sdd_clear p s1).
End Fold.
Arguments SPFold {T} _ _.
Arguments SPCount {T}.

(* the nodes reachable from a pointer (itself first; with repetitions) *)
Fixpoint sdd_nodes (p : sdd) : list sdd :=
  match p with
  | SBdd _ l i lo hi => SBdd false l i lo hi :: sdd_nodes lo ++ sdd_nodes hi
  | SOr _ i els =>
    SOr false i els ::
    (fix go (l : list elem) : list sdd :=
       match l with [] => [] | (pr, sb) :: r => sdd_nodes pr ++ sdd_nodes sb ++ go r end) els
  | _ => []
  end.
(* SddPtr::is_scratch_cleared on every reachable node *)
Definition sdd_all_cleared {T} (s : sscratch T) (p : sdd) : bool :=
  forallb (fun n => match s n with None => true | Some _ => false end) (sdd_nodes p).

(* ---- DDNNFPtr::unsmoothed_wmc: the fold with
        Or(l, r, _) => l + r, And(l, r) => l * r, True => one, False => zero,
        Lit(lbl, pol) => if pol { high_w } else { low_w } ---- *)
Section Wmc.
Variable S : Type.
Variable add mul : S -> S -> S.
Variable zero one : S.
Variable wlo whi : var -> S.      (* WmcParams::var_weight *)

Definition wlit (v : var) (pol : bool) : S := if pol then whi v else wlo v.
Definition sdd_wmc_c (fl : bool) (p : sdd) : S := sdd_fold_c S one zero wlit mul add fl p.
Definition sdd_wmc_m (p : sdd) : S := sdd_wmc_c false p.
(* the same through the scratch slot, as the public method runs it *)
Definition sdd_wmc_public (p : sdd) (s : sscratch S) : S * sscratch S :=
  sdd_fold_public S one zero wlit mul add p s.
End Wmc.

(* DDNNFPtr::evaluate: the Boolean semiring with weights (not a[v], a[v]) *)
Definition sdd_evaluate_m (p : sdd) (a : asg) : bool :=
  sdd_wmc_m bool orb andb false true (fun v => negb (a v)) (fun v => a v) p.
Definition sdd_evaluate_public (p : sdd) (a : asg) (s : sscratch bool) : bool * sscratch bool :=
  sdd_wmc_public bool orb andb false true (fun v => negb (a v)) (fun v => a v) p s.
