(* C06 — executable model of src/builder/decision_nnf/builder.rs (DecisionNNFBuilder:
   conjoin_implied, topdown_h, compile_cnf_topdown, cond_helper; TopDownBuilder::var/condition)
   over the standard node store of src/builder/decision_nnf/standard.rs (get_or_insert).
   One definition per Rust function, same case analysis, same order of steps.  No proofs here.

   Representation choices:
   - diagrams: the tree layer of Base/Bdd.v (a pointer is its unfolding; pointer equality of the
     standard store = structural equality, `==` on BddPtr = bdd_eqb).
   - SATSolver: the model of Model/UnitProp.v (labels are nat there; a diagram node carries
     N.of_nat label).  [pinned_up] selects the pinned / repaired unit propagator of that model.
   - VarOrder: the list pos_to_var; var_at_level = nth (the code indexes a Vec and panics out of
     range; the theorems carry "order is a permutation of 0..num_vars-1").
   - FxHashMap<u128, BddPtr> (the component cache): association list, newest binding first;
     get = first binding of the key, insert = cons (an overwritten binding is shadowed).
   - the recursion topdown_h(level) -> topdown_h(level+1) is on explicit fuel (num_vars + 1 at
     level 0 always suffices); None = fuel exhausted or the solver model reported
     OutOfFuel / Panic (label >= num_vars).
   - per-node scratch in cond_helper: the line that would fill it is commented out in the code
     (`// bdd.set_scratch(..)`), so the lookup always misses; the model has no memo.
   - compile_cnf_topdown's last step exists twice ([pinned_root]): conjoin_implied (now) / the
     unguarded loop (pinned, defect D9: an unsatisfiable CNF with root-implied literals gave a
     node denoting false instead of the false constant).
   - cond_helper exists twice: [cond_helper] is the code as it is now (low_raw()/high_raw()),
     [cond_helper_pinned] the code as pinned (complement-adjusted low()/high() and then a second
     negation — defect D8); [cond_helper_m pinned] selects. *)
From Coq Require Import Bool NArith List Arith.
Import ListNotations.
From RsddV Require Import Base.Util Base.Bdd Model.UnitProp.

(* ---------- StandardDecisionNNFBuilder::get_or_insert (standard.rs 19-31): complement
   normalisation only when high.is_neg(); a false (or true) high edge stays as it is ---------- *)
Definition dnnf_mk_node (v : var) (lo hi : bdd) : bdd :=
  if is_neg hi then BN true v (neg lo) (neg hi) else BN false v lo hi.

Definition nvar (l : lit) : var := N.of_nat (lvar l).

(* the node the code builds for an implied literal on top of [sub] (builder.rs 37-41, 133-137) *)
Definition lit_node (sub : bdd) (l : lit) : bdd :=
  if lpol l then dnnf_mk_node (nvar l) BF sub else dnnf_mk_node (nvar l) sub BF.

(* conjoin_implied (27-45) *)
Definition conjoin_implied (literals : list lit) (nnf : bdd) : bdd :=
  if is_false nnf then BF else fold_left lit_node literals nnf.

(* ---------- component cache ---------- *)
Definition cache := list (N * bdd).
Fixpoint cache_get (c : cache) (h : N) : option bdd :=
  match c with
  | [] => None
  | (k, d) :: t => if N.eqb k h then Some d else cache_get t h
  end.
Definition cache_insert (c : cache) (h : N) (d : bdd) : cache := (h, d) :: c.

Definition var_at_level (order : list nat) (level : nat) : nat := nth level order 0.

(* sat.difference_iter().filter(|x| x.label() != cur_v) *)
Definition new_assgn (s : solver) (cur_v : nat) : list lit :=
  filter (fun x => negb (Nat.eqb (lvar x) cur_v)) (sat_difference_iter s).

Section TopDown.
Variable pinned_up : bool.
Variable order : list nat.

(* one arm of topdown_h (79-93 / 94-108): decide cur_v = pol; UNSAT -> false; SAT -> the implied
   literals on top of true, pop; Unknown -> recurse, implied literals on top, pop.
   [use_cache = false] is the cache-less variant (every lookup misses, nothing is stored) used for
   topdown_correct_nocache. *)
Definition branch (rec : solver -> cache -> option (bdd * solver * cache))
           (s : solver) (c : cache) (cur_v : nat) (pol : bool) : option (bdd * solver * cache) :=
  match sat_decide pinned_up s (cur_v, pol) with
  | (s1, DUNSAT) => Some (BF, s1, c)
  | (s1, DSAT) => Some (conjoin_implied (new_assgn s1 cur_v) BT, sat_pop s1, c)
  | (s1, DUnknown) =>
    match rec s1 c with
    | None => None
    | Some (sub, s2, c2) => Some (conjoin_implied (new_assgn s2 cur_v) sub, sat_pop s2, c2)
    end
  | (_, DOutOfFuel) => None
  | (_, DPanic) => None
  end.

(* topdown_h (51-121) *)
Fixpoint topdown_h (use_cache : bool) (fuel : nat) (s : solver) (level : nat) (c : cache)
  : option (bdd * solver * cache) :=
  match fuel with
  | O => None
  | S f =>
    if Nat.leb (s_nvars s) level || sat_is_sat s then Some (BT, s, c) else
    let cur_v := var_at_level order level in
    if sat_is_set s cur_v then topdown_h use_cache f s (S level) c else
    let hashed := sat_cur_hash s in
    match (if use_cache then cache_get c hashed else None) with
    | Some v => Some (v, s, c)
    | None =>
      match branch (fun s' c' => topdown_h use_cache f s' (S level) c') s c cur_v true with
      | None => None
      | Some (high_bdd, s1, c1) =>
        match branch (fun s' c' => topdown_h use_cache f s' (S level) c') s1 c1 cur_v false with
        | None => None
        | Some (low_bdd, s2, c2) =>
          let r := if bdd_eqb high_bdd low_bdd then high_bdd
                   else dnnf_mk_node (N.of_nat cur_v) low_bdd high_bdd in
          Some (r, s2, if use_cache then cache_insert c2 hashed r else c2)
        end
      end
    end
  end.

(* compile_cnf_topdown (124-134).  [cls] is the Cnf's clause list (as Cnf::new left it), [nvars]
   its num_vars.  As the code is now ([pinned_root = false]) the initially implied literals are
   conjoined with conjoin_implied, which keeps a false residual false.  As pinned
   ([pinned_root = true], defect D9) the final loop built the literal nodes without testing for
   the false constant. *)
Definition compile_cnf_topdown (pinned_root : bool) (use_cache : bool) (cls : list clause)
           (nvars : nat) : option bdd :=
  match sat_new pinned_up cls nvars with
  | NewOutOfFuel => None
  | NewNone => Some BF
  | NewSome s =>
    match topdown_h use_cache (S nvars) s 0 [] with
    | None => None
    | Some (r, s', _) =>
      Some (if pinned_root then fold_left lit_node (sat_difference_iter s') r
            else conjoin_implied (sat_difference_iter s') r)
    end
  end.

(* raw clauses -> Cnf::new -> compile_cnf_topdown *)
Definition compile_raw (pinned_root : bool) (use_cache : bool) (raw : list clause) : option bdd :=
  let cls := cnf_new raw in compile_cnf_topdown pinned_root use_cache cls (cnf_num_vars cls).
End TopDown.

(* ---------- conditioning ---------- *)
(* cond_helper as it is now (144-188) *)
Fixpoint cond_helper (p : bdd) (lbl : var) (value : bool) : bdd :=
  match p with
  | BT | BF => p
  | BN c v lo hi =>
    if N.eqb v lbl then
      let r := if value then hi else lo in
      if c then neg r else r
    else
      let l := cond_helper lo lbl value in
      let h := cond_helper hi lbl value in
      if bdd_eqb l h then (if c then neg l else l)
      else if negb (bdd_eqb l lo) || negb (bdd_eqb h hi) then
        let r := dnnf_mk_node v l h in if c then neg r else r
      else p
  end.

(* cond_helper as pinned (D8).  [flip] = the argument is the negation of [p] (the pinned code
   recurses on the complement-adjusted children low()/high(), which are not subterms). *)
Fixpoint cond_helper_pinned_f (flip : bool) (p : bdd) (lbl : var) (value : bool) : bdd :=
  match p with
  | BT => if flip then BF else BT
  | BF => if flip then BT else BF
  | BN c0 v lo hi =>
    let c := xorb flip c0 in           (* bdd.is_neg() *)
    if N.eqb v lbl then
      let r := if value then (if c then neg hi else hi) else (if c then neg lo else lo) in
      if c then neg r else r
    else
      let l := cond_helper_pinned_f c lo lbl value in      (* cond_helper(bdd.low()) *)
      let h := cond_helper_pinned_f c hi lbl value in
      if bdd_eqb l h then (if c then neg l else l)
      else if negb (bdd_eqb l (if c then neg lo else lo)) || negb (bdd_eqb h (if c then neg hi else hi)) then
        let r := dnnf_mk_node v l h in if c then neg r else r
      else BN c v lo hi
  end.
Definition cond_helper_pinned (p : bdd) (lbl : var) (value : bool) : bdd :=
  cond_helper_pinned_f false p lbl value.

Definition cond_helper_m (pinned : bool) (p : bdd) (lbl : var) (value : bool) : bdd :=
  if pinned then cond_helper_pinned p lbl value else cond_helper p lbl value.

(* TopDownBuilder::condition (207-211): cond_helper, then clear_scratch (nothing to clear) *)
Definition condition (pinned : bool) (p : bdd) (lbl : var) (value : bool) : bdd :=
  cond_helper_m pinned p lbl value.

(* TopDownBuilder::var (196-204) *)
Definition dnnf_var (lbl : var) (polarity : bool) : bdd :=
  let r := dnnf_mk_node lbl BF BT in if polarity then r else neg r.
