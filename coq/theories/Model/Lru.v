(* Model of rsdd::util::lru::Lru (src/util/lru.rs): a direct-mapped lossy cache that
   doubles when more than GROW_RATIO of its slots are filled.  One definition per Rust
   function, same case analysis.  Keys and values are opaque numbers; the hash of every
   operation is an input (u64 in the code; only [hash mod 2^cap] is ever used). *)
From Coq Require Import Bool NArith List Lia Arith.
Import ListNotations.
From RsddV Require Import Base.Util Generated.Constants.

Record elt := { ekey : N; eval : N; ehash : N }.
Record lru := { tbl : list (option elt); cap : nat; num_filled : nat }.

(* pow_cap(hash as usize, cap) *)
Definition pos (c : nat) (h : N) : nat := N.to_nat (N.modulo h (2 ^ N.of_nat c)).

(* Lru::new(cap) *)
Definition lru_new (c : nat) : lru := {| tbl := repeat None (2 ^ c); cap := c; num_filled := 0 |}.

(* the part of [insert] after the growth test *)
Definition insert_raw (t : lru) (k v h : N) : lru :=
  let p := pos (cap t) h in
  let filled := match nth p (tbl t) None with Some _ => num_filled t | None => S (num_filled t) end in
  {| tbl := set_nth (tbl t) p (Some {| ekey := k; eval := v; ehash := h |});
     cap := cap t; num_filled := filled |}.

(* (num_filled as f64 / (1 << cap) as f64) > GROW_RATIO.  The quotient is an exact dyadic
   and GROW_RATIO = grow_num/grow_den is not dyadic, so the f64 test is the integer test. *)
Definition needs_grow (t : lru) : bool :=
  Nat.ltb (grow_num * 2 ^ cap t) (grow_den * num_filled t).

(* Lru::grow: re-insert every stored element into a table of twice the size; the caller
   keeps its own num_filled (as coded: only tbl and cap are copied back).  The re-insertions
   go through [insert] in the code; its growth test is never true there (lemma
   [regrow_never] in Proofs/Lru.v), so [insert_raw] is the same function. *)
Definition grow (t : lru) : lru :=
  let t' := fold_left (fun acc o => match o with
                                    | Some e => insert_raw acc (ekey e) (eval e) (ehash e)
                                    | None => acc end)
                      (tbl t) (lru_new (S (cap t))) in
  {| tbl := tbl t'; cap := cap t'; num_filled := num_filled t |}.

Definition insert (t : lru) (k v h : N) : lru :=
  insert_raw (if needs_grow t then grow t else t) k v h.

Definition get (t : lru) (k h : N) : option N :=
  match nth (pos (cap t) h) (tbl t) None with
  | Some e => if N.eqb (ekey e) k then Some (eval e) else None
  | None => None
  end.

(* operation language for the correspondence and the refinement theorem *)
Inductive op := Ins (k v h : N) | Get (k h : N).

Definition step (t : lru) (o : op) : lru * option (option N) :=
  match o with
  | Ins k v h => (insert t k v h, None)
  | Get k h => (t, Some (get t k h))
  end.

Fixpoint run (t : lru) (ops : list op) : list (option N) :=
  match ops with
  | [] => []
  | o :: r => let '(t', out) := step t o in
              match out with Some x => x :: run t' r | None => run t' r end
  end.

Fixpoint final (t : lru) (ops : list op) : lru :=
  match ops with [] => t | o :: r => final (fst (step t o)) r end.

(* number of occupied slots: what _get_stats().utilization * len reports *)
Definition occupied_count (t : lru) : nat := count (fun o : option elt => match o with Some _ => true | None => false end) (tbl t).
