(* Model of rsdd::repr::vtree (src/repr/vtree.rs) and of the parts of rsdd::util::btree
   (src/util/btree.rs) it uses: VTree = BTree<(), VarLabel>, its constructors, VTreeManager::new
   with its tables, the Euler-tour least common ancestor, is_prime_index, var_index, num_vars.

   Node identity.  The code identifies tree nodes by their address [*const BTree] in two hash
   maps.  A node of a Box tree has one address and distinct nodes have distinct addresses, so the
   model identifies a node with its path from the root (false = left, true = right).
   External crate: segment_tree::SegmentPoint<usize, Min>::query(l, r) is modelled by its
   documented behaviour, the minimum over the half-open slice [l, r) (trusted). *)
From Coq Require Import Bool List Lia Arith.
Import ListNotations.
From RsddV Require Import Base.Util.

Inductive vtree := VLeaf (v : nat) | VNode (l r : vtree).
Definition path := list bool.

(* ---------- constructors ([None] = the code's panic on an empty slice) ---------- *)

(* VTree::right_linear *)
Fixpoint right_linear (o : list nat) : option vtree :=
  match o with
  | [] => None
  | [x] => Some (VLeaf x)
  | x :: rest => match right_linear rest with Some r => Some (VNode (VLeaf x) r) | None => None end
  end.

(* VTree::left_linear, [rest @ .., last]: recursion on the reversed slice *)
Fixpoint left_linear_rev (ro : list nat) : option vtree :=
  match ro with
  | [] => None
  | [x] => Some (VLeaf x)
  | last :: rest => match left_linear_rev rest with Some l => Some (VNode l (VLeaf last)) | None => None end
  end.
Definition left_linear (o : list nat) : option vtree := left_linear_rev (rev o).

(* VTree::even_split(order, num_splits) *)
Fixpoint even_split (o : list nat) (k : nat) : option vtree :=
  match k with
  | 0 => right_linear o
  | S k' =>
    let h := length o / 2 in
    match even_split (firstn h o) k', even_split (skipn h o) k' with
    | Some l, Some r => Some (VNode l r)
    | _, _ => None
    end
  end.

(* VTree::rand_split: the random split index (in 1..len-1 after the clamp) is an oracle that
   sees the slice; out-of-range answers are clamped like the code's arithmetic guarantees *)
Fixpoint rand_split (choose : list nat -> nat) (fuel : nat) (o : list nat) : option vtree :=
  match fuel with
  | 0 => None
  | S f =>
    match o with
    | [] => None
    | [x] => Some (VLeaf x)
    | [x; y] => Some (VNode (VLeaf x) (VLeaf y))
    | _ =>
      let s := 1 + Nat.min (choose o) (length o - 2) in
      match rand_split choose f (firstn s o), rand_split choose f (skipn s o) with
      | Some l, Some r => Some (VNode l r)
      | _, _ => None
      end
    end
  end.

(* VTree::right_linear_c(vars, continuation) *)
Fixpoint right_linear_c (vars : list nat) (cont : option vtree) : option vtree :=
  match vars, cont with
  | [], None => None
  | [], Some v => Some v
  | [v1], Some v2 => Some (VNode (VLeaf v1) v2)
  | [v1], None => Some (VLeaf v1)
  | v :: rest, _ => match right_linear_c rest cont with
                    | Some sub => Some (VNode (VLeaf v) sub) | None => None end
  end.

(* ---------- tree observers ---------- *)

(* VTree::flatten_vtree: leaf labels left to right *)
Fixpoint flatten (t : vtree) : list nat :=
  match t with VLeaf v => [v] | VNode l r => flatten l ++ flatten r end.

(* VTree::num_vars (on the tree): largest label + 1 *)
Fixpoint vt_num_vars (t : vtree) : nat :=
  match t with VLeaf v => v + 1 | VNode l r => Nat.max (vt_num_vars l) (vt_num_vars r) end.

(* HashSet union: set semantics *)
Fixpoint set_add (x : nat) (s : list nat) : list nat :=
  match s with [] => [x] | y :: t => if x =? y then s else y :: set_add x t end.
Definition set_union (a b : list nat) : list nat := fold_left (fun s x => set_add x s) b a.

(* VTree::all_vars *)
Fixpoint all_vars (t : vtree) : list nat :=
  match t with VLeaf v => [v] | VNode l r => set_union (all_vars l) (all_vars r) end.

(* check_redundant_vars: true iff some label occurs twice (debug_assert of VTreeManager::new) *)
Fixpoint has_dup (l : list nat) : bool :=
  match l with [] => false | x :: t => existsb (Nat.eqb x) t || has_dup t end.

Fixpoint size (t : vtree) : nat := match t with VLeaf _ => 1 | VNode l r => size l + 1 + size r end.

(* the subtree at a path *)
Fixpoint subtree (t : vtree) (p : path) : option vtree :=
  match p, t with
  | [], _ => Some t
  | b :: q, VNode l r => subtree (if b then r else l) q
  | _ :: _, VLeaf _ => None
  end.

(* ---------- traversals (nodes as paths) ---------- *)

(* dfs_recurse / inorder_dfs_iter: left, self, right *)
Fixpoint dfs_from (p : path) (t : vtree) : list (path * vtree) :=
  match t with
  | VLeaf _ => [(p, t)]
  | VNode l r => dfs_from (p ++ [false]) l ++ [(p, t)] ++ dfs_from (p ++ [true]) r
  end.
Definition dfs (t : vtree) : list (path * vtree) := dfs_from [] t.

(* BreadthFirstIter: pop the front, push the children at the back.  Every step emits one node,
   so [size t] steps empty the queue; fuel exhaustion (never reached, see bfs_complete) = [] *)
Definition children (e : path * vtree) : list (path * vtree) :=
  match snd e with
  | VLeaf _ => []
  | VNode l r => [(fst e ++ [false], l); (fst e ++ [true], r)]
  end.
Fixpoint bfsq (fuel : nat) (q : list (path * vtree)) : list (path * vtree) :=
  match fuel with
  | 0 => []
  | S f => match q with [] => [] | e :: q' => e :: bfsq f (q' ++ children e) end
  end.
Definition bfs (t : vtree) : list (path * vtree) := bfsq (size t) [([], t)].

Definition path_eqb (a b : path) : bool := if list_eq_dec bool_dec a b then true else false.

(* HashMap<*const, usize> lookup: position of the node in a traversal; a missing key is a panic
   in the code ([map[&p]]); [None] here *)
Fixpoint index_of (p : path) (l : list path) : option nat :=
  match l with
  | [] => None
  | x :: t => if path_eqb p x then Some 0 else option_map S (index_of p t)
  end.

Fixpoint map_opt {A B} (f : A -> option B) (l : list A) : option (list B) :=
  match l with
  | [] => Some []
  | x :: t => match f x, map_opt f t with Some y, Some r => Some (y :: r) | _, _ => None end
  end.

(* dfs_to_bfs_mapping / bfs_to_dfs_mapping *)
Definition dfs_to_bfs (t : vtree) : option (list nat) :=
  let b := map fst (bfs t) in map_opt (fun p => index_of p b) (map fst (dfs t)).
Definition bfs_to_dfs (t : vtree) : option (list nat) :=
  let d := map fst (dfs t) in map_opt (fun p => index_of p d) (map fst (bfs t)).

(* ---------- LeastCommonAncestor ---------- *)

(* build_euler_vec with the bfs labelling [m] ([None] = key missing) *)
Fixpoint euler (m : path -> option nat) (p : path) (t : vtree) : option (list nat) :=
  match m p with
  | None => None
  | Some idx =>
    match t with
    | VLeaf _ => Some [idx]
    | VNode l r =>
      match euler m (p ++ [false]) l, euler m (p ++ [true]) r with
      | Some el, Some er => Some (idx :: el ++ idx :: er ++ [idx])
      | _, _ => None
      end
    end
  end.

(* the lookup loop of LeastCommonAncestor::new: first occurrence of every value *)
Fixpoint first_occ (x : nat) (l : list nat) : option nat :=
  match l with [] => None | y :: t => if x =? y then Some 0 else option_map S (first_occ x t) end.

Record lca_t := { seg : list nat; index_map : list nat }.

(* LeastCommonAncestor::new: [None] = a panic (missing key / unwrap of a None lookup) *)
Definition lca_new (t : vtree) : option lca_t :=
  let b := map fst (bfs t) in
  match euler (fun p => index_of p b) [] t with
  | None => None
  | Some ev =>
    match map_opt (fun i => first_occ i ev) (seq 0 (length (dfs t))) with
    | Some im => Some {| seg := ev; index_map := im |}
    | None => None
    end
  end.

(* segment_tree query(l, r): minimum of the half-open slice; the identity of Min (usize::MAX)
   on an empty slice is [None] *)
Fixpoint list_min (l : list nat) : option nat :=
  match l with
  | [] => None
  | x :: t => match list_min t with None => Some x | Some m => Some (Nat.min x m) end
  end.
Definition range_min (s : list nat) (lo hi : nat) : option nat := list_min (firstn (hi - lo) (skipn lo s)).

(* LeastCommonAncestor::lca on bfs indices *)
Definition lca_bfs (c : lca_t) (l r : nat) : option nat :=
  if l =? r then Some l
  else match nth_error (index_map c) l, nth_error (index_map c) r with
       | Some il, Some ir =>
         let (lo, hi) := if il <? ir then (il, ir) else (ir, il) in range_min (seg c) lo hi
       | _, _ => None
       end.

(* ---------- VTreeManager ---------- *)

Record manager := {
  m_tree : vtree;
  m_dfs_to_bfs : list nat;
  m_bfs_to_dfs : list nat;
  m_vtree_index : list nat;
  m_index_lookup : list vtree;
  m_lca : lca_t }.

(* the loop of VTreeManager::new filling vtree_lookup *)
Fixpoint fill_lookup (nodes : list vtree) (idx : nat) (tbl : list nat) : option (list nat) :=
  match nodes with
  | [] => Some tbl
  | VLeaf v :: rest => if v <? length tbl then fill_lookup rest (S idx) (set_nth tbl v idx) else None
  | VNode _ _ :: rest => fill_lookup rest (S idx) tbl
  end.

(* VTreeManager::new; the debug_assert on redundant variables is a panic ([None]) *)
Definition manager_new (t : vtree) : option manager :=
  if has_dup (flatten t) then None else
  let nodes := map snd (dfs t) in
  match fill_lookup nodes 0 (repeat 0 (vt_num_vars t)), dfs_to_bfs t, bfs_to_dfs t, lca_new t with
  | Some vi, Some d2b, Some b2d, Some c =>
    Some {| m_tree := t; m_dfs_to_bfs := d2b; m_bfs_to_dfs := b2d; m_vtree_index := vi;
            m_index_lookup := nodes; m_lca := c |}
  | _, _, _, _ => None
  end.

(* VTreeManager::lca on in-order indices *)
Definition mgr_lca (m : manager) (l r : nat) : option nat :=
  match nth_error (m_dfs_to_bfs m) l, nth_error (m_dfs_to_bfs m) r with
  | Some bl, Some br =>
    match lca_bfs (m_lca m) bl br with
    | Some b => nth_error (m_bfs_to_dfs m) b
    | None => None
    end
  | _, _ => None
  end.

Definition mgr_vtree (m : manager) (i : nat) : option vtree := nth_error (m_index_lookup m) i.
Definition var_index (m : manager) (lbl : nat) : option nat := nth_error (m_vtree_index m) lbl.
Definition is_prime_index (l r : nat) : bool := l <? r.
Definition is_prime_var (m : manager) (a b : nat) : option bool :=
  match var_index m a, var_index m b with Some i, Some j => Some (is_prime_index i j) | _, _ => None end.
(* VTreeManager::num_vars (as repaired): all_vars().len() *)
Definition mgr_num_vars (m : manager) : nat := length (all_vars (m_tree m)).

(* ---------- specification vocabulary ---------- *)

(* longest common prefix of two paths = the path of the least common ancestor *)
Fixpoint lcp (a b : path) : path :=
  match a, b with
  | x :: a', y :: b' => if Bool.eqb x y then x :: lcp a' b' else []
  | _, _ => []
  end.
