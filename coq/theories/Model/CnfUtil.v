(* Model of the CNF-side utilities of rsdd (property C15):
     src/repr/var_label.rs   Literal bit packing, VarSet
     src/repr/model.rs       PartialModel
     src/repr/cnf.rs         Cnf::new, eval, is_sat_partial, condition, AssignmentIter, wmc,
                             CnfHasher (new / decide / push / pop / hash)
   One definition per Rust function, same case analysis, same order of steps.  A Rust panic
   (index out of range, failed assert, unwrap of None) is the value [None].  No proofs here.

   Abstractions (listed in props/C15.json):
   * bit_set::BitSet is modelled by its documented behaviour: a finite set of indices iterated
     in increasing order (strictly increasing list of N);
   * std::collections::HashSet<usize> (CnfHasher.state) is a duplicate-free list; its
     iteration order is immaterial because u128::wrapping_mul is commutative and associative
     (lemma [h_hash_order_irrelevant] in Proofs/CnfUtil.v);
   * primal::Primes::all() is the stream 2,3,5,7,... produced here by trial division;
   * u64 / u128 arithmetic is N arithmetic with the wrap written out ([mod 2^64], [mod 2^128]);
     usize quantities that cannot overflow for labels < 2^63 are plain N / nat. *)
From Coq Require Import Bool NArith List Arith.
Import ListNotations.
From RsddV Require Import Base.Util Generated.Constants.
Local Open Scope N_scope.

Definition lit := (N * bool)%type.          (* (label, polarity) *)
Definition clause := list lit.

Definition lit_eqb (a b : lit) : bool := (fst a =? fst b) && Bool.eqb (snd a) (snd b).

(* ------------------------------------------------------------------------------------ *)
(* Literal { data: u64 } with BITFIELD [raw_label 0..63, raw_polarity 63..64]
   (var_label.rs 33-118, util/mod.rs 11-30).
   getter [s..e):  data << (64 - e) >> (64 - e + s)      (the left shift drops the high bits)
   setter [s..e):  mask = ((1 << (e-s)) - 1) << s; data &= !mask; data |= (val << s) & mask *)
Definition two63 : N := 2 ^ 63.
Definition two64 : N := 2 ^ 64.

Definition bf_get (data s e : N) : N := ((data * 2 ^ (64 - e)) mod two64) / 2 ^ (64 - e + s).
Definition bf_set (data s e val : N) : N :=
  let mask := (2 ^ (e - s) - 1) * 2 ^ s in
  N.lor (N.ldiff data mask) (N.land ((val * 2 ^ s) mod two64) mask).

Definition raw_label (d : N) : N := bf_get d 0 63.
Definition raw_polarity (d : N) : N := bf_get d 63 64.
Definition set_label (d v : N) : N := bf_set d 0 63 v.
Definition set_polarity (d v : N) : N := bf_set d 63 64 v.

(* Literal::new(label, polarity) : the packed u64 *)
Definition literal_new (label : N) (polarity : bool) : N :=
  set_polarity (set_label 0 label) (if polarity then 1 else 0).
Definition literal_label (d : N) : N := raw_label d.
Definition literal_polarity (d : N) : bool := raw_polarity d =? 1.
(* Literal::negated *)
Definition literal_negated (d : N) : N := literal_new (literal_label d) (negb (literal_polarity d)).
(* the (label, polarity) view used by everything below *)
Definition literal_view (d : N) : lit := (literal_label d, literal_polarity d).

(* ------------------------------------------------------------------------------------ *)
(* VarSet (BitSet): finite set, iteration in increasing order *)
Definition varset := list N.

Fixpoint vs_insert (v : N) (s : varset) : varset :=
  match s with
  | [] => [v]
  | x :: t => if v <? x then v :: s else if v =? x then s else x :: vs_insert v t
  end.
Definition vs_remove (v : N) (s : varset) : varset := filter (fun x => negb (x =? v)) s.
Definition vs_contains (s : varset) (v : N) : bool := existsb (N.eqb v) s.
Definition vs_difference (s o : varset) : varset := filter (fun x => negb (vs_contains o x)) s.
Definition vs_union (s o : varset) : varset := fold_left (fun acc x => vs_insert x acc) o s.

(* ------------------------------------------------------------------------------------ *)
(* PartialModel { true_assignments, false_assignments } (model.rs) *)
Record pmodel := { pm_true : varset; pm_false : varset }.

Definition pm_new (num_vars : N) : pmodel := {| pm_true := []; pm_false := [] |}.

(* from_assignments: enumerate, insert into one of the two sets *)
Fixpoint pm_from_assignments_aux (l : list (option bool)) (i : N) (acc : pmodel) : pmodel :=
  match l with
  | [] => acc
  | a :: t =>
    let acc' := match a with
                | Some true => {| pm_true := vs_insert i (pm_true acc); pm_false := pm_false acc |}
                | Some false => {| pm_true := pm_true acc; pm_false := vs_insert i (pm_false acc) |}
                | None => acc
                end in
    pm_from_assignments_aux t (i + 1) acc'
  end.
Definition pm_from_assignments (l : list (option bool)) : pmodel :=
  pm_from_assignments_aux l 0 (pm_new (N.of_nat (length l))).

Definition pm_from_total_model (l : list bool) : pmodel := pm_from_assignments (map Some l).

(* from_litvec: vec![None; num_vars]; init[label] = Some(polarity) in order (later wins);
   an index >= num_vars panics *)
Fixpoint litvec_fill (lits : list lit) (init : list (option bool)) : option (list (option bool)) :=
  match lits with
  | [] => Some init
  | l :: t =>
    if N.to_nat (fst l) <? length init then litvec_fill t (set_nth init (N.to_nat (fst l)) (Some (snd l)))
    else None
  end%nat.
Definition pm_from_litvec (lits : list lit) (num_vars : N) : option pmodel :=
  match litvec_fill lits (repeat None (N.to_nat num_vars)) with
  | Some init => Some (pm_from_assignments init)
  | None => None
  end.

Definition pm_unset (m : pmodel) (v : N) : pmodel :=
  {| pm_true := vs_remove v (pm_true m); pm_false := vs_remove v (pm_false m) |}.

Definition pm_set (m : pmodel) (v : N) (value : bool) : pmodel :=
  if value then {| pm_true := vs_insert v (pm_true m); pm_false := vs_remove v (pm_false m) |}
  else {| pm_true := vs_remove v (pm_true m); pm_false := vs_insert v (pm_false m) |}.

Definition pm_get (m : pmodel) (v : N) : option bool :=
  if vs_contains (pm_true m) v then Some true
  else if vs_contains (pm_false m) v then Some false
  else None.

Definition pm_lit_implied (m : pmodel) (l : lit) : bool :=
  match pm_get m (fst l) with Some v => Bool.eqb v (snd l) | None => false end.
Definition pm_lit_neg_implied (m : pmodel) (l : lit) : bool :=
  match pm_get m (fst l) with Some v => negb (Bool.eqb v (snd l)) | None => false end.
Definition pm_is_set (m : pmodel) (v : N) : bool :=
  vs_contains (pm_true m) v || vs_contains (pm_false m) v.

(* assignment_iter: false literals first, then true literals, each in increasing order *)
Definition pm_assignment_iter (m : pmodel) : list lit :=
  map (fun x => (x, false)) (pm_false m) ++ map (fun x => (x, true)) (pm_true m).
(* difference: false_diff.chain(true_diff) *)
Definition pm_difference (m o : pmodel) : list lit :=
  map (fun x => (x, false)) (vs_difference (pm_false m) (pm_false o))
  ++ map (fun x => (x, true)) (vs_difference (pm_true m) (pm_true o)).

(* ------------------------------------------------------------------------------------ *)
(* Cnf::new (cnf.rs 265-293) without the hasher field, which is [hasher_new] below *)
Record cnf := { clauses : list clause; num_vars : N }.

(* clause.sort_by_key(label): the stable sort, written as the stable insertion sort *)
Fixpoint insert_lit (x : lit) (l : clause) : clause :=
  match l with
  | [] => [x]
  | y :: t => if fst x <=? fst y then x :: y :: t else y :: insert_lit x t
  end.
Definition sort_clause (l : clause) : clause := fold_right insert_lit [] l.

(* Vec::dedup: drop every element equal to its predecessor *)
Fixpoint dedup (l : clause) : clause :=
  match l with
  | [] => []
  | x :: t => match t with
              | [] => [x]
              | y :: _ => if lit_eqb x y then dedup t else x :: dedup t
              end
  end.

Definition norm_clause (c : clause) : clause := dedup (sort_clause c).

(* iter().map(label + 1).max().unwrap_or(0), then max over clauses, unwrap_or(0) *)
Definition clause_nv (c : clause) : N := fold_left (fun m l => N.max m (fst l + 1)) c 0.
Definition cnf_nv (cs : list clause) : N := fold_left (fun m c => N.max m (clause_nv c)) cs 0.

Definition cnf_new (cs : list clause) : cnf :=
  let cs' := map norm_clause cs in {| clauses := cs'; num_vars := cnf_nv cs' |}.

(* Cnf::eval (394-410): assert!(len >= num_vars); per clause a flag set by any literal whose
   polarity equals assignment[label]; the first clause without one returns false.
   An index beyond the assignment panics. *)
Fixpoint eval_clause (a : list bool) (c : clause) (sat : bool) : option bool :=
  match c with
  | [] => Some sat
  | l :: t => match nth_error a (N.to_nat (fst l)) with
              | None => None
              | Some b => eval_clause a t (if Bool.eqb (snd l) b then true else sat)
              end
  end.
Fixpoint eval_clauses (a : list bool) (cs : list clause) : option bool :=
  match cs with
  | [] => Some true
  | c :: t => match eval_clause a c false with
              | None => None
              | Some false => Some false
              | Some true => eval_clauses a t
              end
  end.
Definition cnf_eval_impl (c : cnf) (a : list bool) : option bool :=
  if N.of_nat (length a) <? num_vars c then None else eval_clauses a (clauses c).

(* Cnf::is_sat_partial (413-428) *)
Definition sat_partial_clause (m : pmodel) (c : clause) : bool :=
  fold_left (fun sat l => match pm_get m (fst l) with
                          | Some b => if Bool.eqb (snd l) b then true else sat
                          | None => sat
                          end) c false.
Definition is_sat_partial (c : cnf) (m : pmodel) : bool :=
  forallb (sat_partial_clause m) (clauses c).

(* Cnf::condition (551-570): a clause containing the literal is dropped ('continue cnf' leaves
   the loop before the push), the complementary literal is skipped, everything else is kept
   (an emptied clause is kept as the empty clause); then Cnf::new on the result. *)
Fixpoint cond_clause (x : lit) (c : clause) : option clause :=
  match c with
  | [] => Some []
  | l :: t =>
    if (fst l =? fst x) && Bool.eqb (snd l) (snd x) then None
    else if (fst l =? fst x) && negb (Bool.eqb (snd l) (snd x)) then cond_clause x t
    else match cond_clause x t with Some r => Some (l :: r) | None => None end
  end.
Fixpoint cond_clauses (x : lit) (cs : list clause) : list clause :=
  match cs with
  | [] => []
  | c :: t => match cond_clause x c with
              | Some r => r :: cond_clauses x t
              | None => cond_clauses x t
              end
  end.
Definition condition (c : cnf) (x : lit) : cnf := cnf_new (cond_clauses x (clauses c)).

(* ------------------------------------------------------------------------------------ *)
(* AssignmentIter (221-262): cur = None -> all false; otherwise a binary increment by a
   half-adder fold with index 0 as the least significant bit; a final carry ends the
   iteration (the state has wrapped to all-false by then). *)
Record aiter := { ai_cur : option (list bool); ai_n : nat }.
Definition ai_new (n : nat) : aiter := {| ai_cur := None; ai_n := n |}.

Definition half_adder (st : list bool * bool) (b : bool) : list bool * bool :=
  (fst st ++ [xorb b (snd st)], b && snd st).
Definition ai_incr (c : list bool) : list bool * bool := fold_left half_adder c ([], true).

Definition ai_next (it : aiter) : option (list bool) * aiter :=
  match ai_cur it with
  | None => let z := repeat false (ai_n it) in (Some z, {| ai_cur := Some z; ai_n := ai_n it |})
  | Some c => let r := ai_incr c in
              (if snd r then None else Some (fst r), {| ai_cur := Some (fst r); ai_n := ai_n it |})
  end.

(* `for a in AssignmentIter::new(n)`: the items up to the first None (fuel = loop bound) *)
Fixpoint ai_collect (fuel : nat) (it : aiter) : option (list (list bool)) :=
  match fuel with
  | O => None
  | S f => match ai_next it with
           | (None, _) => Some []
           | (Some a, it') => match ai_collect f it' with Some r => Some (a :: r) | None => None end
           end
  end.

(* ------------------------------------------------------------------------------------ *)
(* Cnf::wmc (465-487) over an arbitrary carrier with the operations the code uses.
   weights.var_weight(i) for i < num_vars (a missing entry panics), then the loop over the
   iterator, adding the in-order product of the chosen weights when eval is true. *)
Section Wmc.
  Variable R : Type.
  Variables (radd rmul : R -> R -> R) (rzero rone : R).

  Fixpoint weight_vec (var_to_val : list (option (R * R))) (i n : nat) : option (list (R * R)) :=
    match n with
    | O => Some []
    | S k => match nth_error var_to_val i with
             | Some (Some w) => match weight_vec var_to_val (S i) k with
                                | Some r => Some (w :: r)
                                | None => None
                                end
             | _ => None
             end
    end.

  (* fold over enumerate(assgn) indexing weight_vec[idx]: the two lists have the same length *)
  Definition asg_weight (wv : list (R * R)) (a : list bool) : R :=
    fold_left (fun v (p : bool * (R * R)) => rmul v (if fst p then snd (snd p) else fst (snd p)))
              (combine a wv) rone.

  Fixpoint wmc_loop (c : cnf) (wv : list (R * R)) (fuel : nat) (it : aiter) (total : R) : option R :=
    match fuel with
    | O => None
    | S f => match ai_next it with
             | (None, _) => Some total
             | (Some a, it') =>
               match cnf_eval_impl c a with
               | None => None
               | Some true => wmc_loop c wv f it' (radd total (asg_weight wv a))
               | Some false => wmc_loop c wv f it' total
               end
             end
    end.

  Definition wmc (c : cnf) (var_to_val : list (option (R * R))) : option R :=
    let n := N.to_nat (num_vars c) in
    match weight_vec var_to_val 0 n with
    | None => None
    | Some wv => wmc_loop c wv (S (2 ^ n)) (ai_new n) rzero
    end.
End Wmc.

(* ------------------------------------------------------------------------------------ *)
(* primal::Primes::all(): 2, 3, 5, ... by trial division *)
Definition is_prime (n : N) : bool :=
  (2 <=? n) && forallb (fun d => negb (n mod (N.of_nat d) =? 0)) (seq 2 (N.to_nat n - 2)).

(* the first k primes >= cand; [fuel] bounds the number of candidates looked at *)
Fixpoint take_primes (k : nat) (cand : N) (fuel : nat) : option (list N) :=
  match k with
  | O => Some []
  | S k' => match fuel with
            | O => None
            | S f => if is_prime cand
                     then match take_primes k' (cand + 1) f with Some r => Some (cand :: r) | None => None end
                     else take_primes k (cand + 1) f
            end
  end.

(* hand the stream out clause by clause, literal by literal *)
Fixpoint assign_primes (ps : list N) (cs : list clause) : list (list (N * lit)) :=
  match cs with
  | [] => []
  | c :: t => combine (firstn (length c) ps) c :: assign_primes (skipn (length c) ps) t
  end.

(* ------------------------------------------------------------------------------------ *)
(* CnfHasher (53-181) *)
Definition two128 : N := 2 ^ 128.
Definition wrapping_mul (a b : N) : N := (a * b) mod two128.

Record hasher := {
  h_wcnf : list (list (N * lit));     (* weighted_cnf *)
  h_state : list (list nat);          (* state, top of the stack first *)
  h_pos : list (list nat);            (* pos_lits *)
  h_neg : list (list nat) }.          (* neg_lits *)

Definition clause_contains (c : clause) (l : lit) : bool := existsb (lit_eqb l) c.

Definition lit_index (cs : list clause) (num_vars : N) (pol : bool) : list (list nat) :=
  map (fun v => filter (fun i => clause_contains (nth i cs []) (N.of_nat v, pol)) (seq 0 (length cs)))
      (seq 0 (N.to_nat num_vars)).

Definition prime_fuel (k : nat) : nat := (k * k + 4)%nat.

(* CnfHasher::new(clauses, num_vars) *)
Definition hasher_new (cs : list clause) (num_vars : N) : option hasher :=
  let k := length (concat cs) in
  match take_primes k 2 (prime_fuel k) with
  | None => None                      (* not a behaviour of the code: fuel of the prime search *)
  | Some ps =>
    Some {| h_wcnf := assign_primes ps cs;
            h_state := [filter (fun i => (1 <? length (nth i cs []))%nat) (seq 0 (length cs))];
            h_pos := lit_index cs num_vars true;
            h_neg := lit_index cs num_vars false |}
  end.

(* the hasher stored in a Cnf *)
Definition cnf_hasher (c : cnf) : option hasher := hasher_new (clauses c) (num_vars c).

(* decide: index pos_lits/neg_lits (panics when out of range), then for every listed clause
   state.last_mut().unwrap().remove(idx) (panics on an empty stack only if there is one) *)
Definition h_decide (h : hasher) (l : lit) : option hasher :=
  match nth_error (if snd l then h_pos h else h_neg h) (N.to_nat (fst l)) with
  | None => None
  | Some idxs =>
    match idxs with
    | [] => Some h
    | _ :: _ =>
      match h_state h with
      | [] => None
      | top :: rest =>
        Some {| h_wcnf := h_wcnf h;
                h_state := fold_left (fun s i => filter (fun j => negb (Nat.eqb j i)) s) idxs top :: rest;
                h_pos := h_pos h; h_neg := h_neg h |}
      end
    end
  end.

Definition h_push (h : hasher) : option hasher :=
  match h_state h with
  | [] => None
  | top :: rest => Some {| h_wcnf := h_wcnf h; h_state := top :: top :: rest;
                           h_pos := h_pos h; h_neg := h_neg h |}
  end.

Definition h_pop (h : hasher) : hasher :=
  {| h_wcnf := h_wcnf h; h_state := tl (h_state h); h_pos := h_pos h; h_neg := h_neg h |}.

(* inner loop of hash: None = 'continue outer' (clause satisfied), otherwise the wrapped
   product of the weights of the literals that are neither implied nor refuted *)
Fixpoint clause_hash (m : pmodel) (wc : list (N * lit)) (acc : N) : option N :=
  match wc with
  | [] => Some acc
  | (w, l) :: t =>
    if pm_lit_implied m l then None
    else if pm_lit_neg_implied m l then clause_hash m t acc
    else clause_hash m t (wrapping_mul acc w)
  end.

Definition hash_top (wcnf : list (list (N * lit))) (m : pmodel) (top : list nat) : N :=
  fold_left (fun v i => match clause_hash m (nth i wcnf []) 1 with
                        | None => v
                        | Some cv => wrapping_mul v cv
                        end) top 1.

(* hash: v = [1; NUM_PRIMES]; every entry receives the same factors *)
Definition h_hash (h : hasher) (m : pmodel) : option (list N) :=
  match h_state h with
  | [] => None
  | top :: _ => Some (repeat (hash_top (h_wcnf h) m top) cnf_num_primes)
  end.

(* histories *)
Inductive hop := HPush | HDecide (l : lit) | HPop.

Definition h_step (h : hasher) (o : hop) : option hasher :=
  match o with
  | HPush => h_push h
  | HDecide l => h_decide h l
  | HPop => Some (h_pop h)
  end.

Fixpoint h_run (h : hasher) (ops : list hop) : option hasher :=
  match ops with
  | [] => Some h
  | o :: t => match h_step h o with Some h' => h_run h' t | None => None end
  end.
