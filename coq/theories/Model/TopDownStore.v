(* C06 — the top-down compiler over an ARBITRARY node store, and the semantic-hash store of
   src/builder/decision_nnf/semantic.rs as one instance.  No proofs here.

   [topdown_hx] is builder.rs's topdown_h / conjoin_implied / compile_cnf_topdown (the code as it
   is now, repaired propagator) with `self.get_or_insert(BddNode::new(v, lo, hi))` abstracted to
   [mk : St -> var -> bdd -> bdd -> option (bdd * St)] on a threaded store state St ([None] = the
   store panicked).  The standard store (Model/TopDown.v: dnnf_mk_node) is the instance with no
   state; the model used for the correspondence stays Model/TopDown.v.

   [sem_get_or_insert] is SemanticDecisionNNFBuilder::get_or_insert (26-45) with
   check_cached_hash_and_neg (78-102):
     h = bdd.semantic_hash()                 (BddNode::semantic_hash: low.cached()*low_w +
                                              high.cached()*high_w; cached = recomputed by
                                              C11_cached_hash_eq, so the model recomputes: hash_m)
     a node stored under h          => Reg(that node)
     a node stored under negate(h)  => Compl(that node)
     otherwise                      => store the node as given under h, Reg(new node)
   The table (BackedRobinhoodTable driven by get_by_hash / get_or_insert_by_hash on
   FxHasher(h.value())) is modelled abstractly as a finite map from the semantic hash VALUE to the
   stored node (as its regular pointer); FxHasher is taken to be injective on the values met.
   [ss_log] is a ghost: the nodes that were requested, in reverse order (what "the sub-functions
   the run touches" means in C06_semantic_store_correct_if_injective). *)
From Coq Require Import Bool NArith List Arith.
Import ListNotations.
From RsddV Require Import Base.Util Base.Bdd Model.UnitProp Model.TopDown Model.Semirings Model.SemHash.

Section Generic.
Variable St : Type.
Variable mk : St -> var -> bdd -> bdd -> option (bdd * St).
Variable order : list nat.

Definition lit_node_x (st : St) (sub : bdd) (l : lit) : option (bdd * St) :=
  if lpol l then mk st (nvar l) BF sub else mk st (nvar l) sub BF.

Fixpoint fold_lits_x (lits : list lit) (sub : bdd) (st : St) : option (bdd * St) :=
  match lits with
  | [] => Some (sub, st)
  | l :: t => match lit_node_x st sub l with
              | None => None
              | Some (n, st1) => fold_lits_x t n st1
              end
  end.

Definition conjoin_implied_x (lits : list lit) (nnf : bdd) (st : St) : option (bdd * St) :=
  if is_false nnf then Some (BF, st) else fold_lits_x lits nnf st.

Definition xres := (bdd * solver * cache * St)%type.

Definition branch_x (rec : solver -> cache -> St -> option xres)
           (s : solver) (c : cache) (st : St) (cur_v : nat) (pol : bool) : option xres :=
  match sat_decide false s (cur_v, pol) with
  | (s1, DUNSAT) => Some (BF, s1, c, st)
  | (s1, DSAT) =>
    match conjoin_implied_x (new_assgn s1 cur_v) BT st with
    | None => None
    | Some (b, st1) => Some (b, sat_pop s1, c, st1)
    end
  | (s1, DUnknown) =>
    match rec s1 c st with
    | None => None
    | Some (sub, s2, c2, st2) =>
      match conjoin_implied_x (new_assgn s2 cur_v) sub st2 with
      | None => None
      | Some (b, st3) => Some (b, sat_pop s2, c2, st3)
      end
    end
  | (_, DOutOfFuel) => None
  | (_, DPanic) => None
  end.

Fixpoint topdown_hx (fuel : nat) (s : solver) (level : nat) (c : cache) (st : St) : option xres :=
  match fuel with
  | O => None
  | S f =>
    if Nat.leb (s_nvars s) level || sat_is_sat s then Some (BT, s, c, st) else
    let cur_v := var_at_level order level in
    if sat_is_set s cur_v then topdown_hx f s (S level) c st else
    let hashed := sat_cur_hash s in
    match cache_get c hashed with
    | Some v => Some (v, s, c, st)
    | None =>
      match branch_x (fun s' c' st' => topdown_hx f s' (S level) c' st') s c st cur_v true with
      | None => None
      | Some (high_bdd, s1, c1, st1) =>
        match branch_x (fun s' c' st' => topdown_hx f s' (S level) c' st') s1 c1 st1 cur_v false with
        | None => None
        | Some (low_bdd, s2, c2, st2) =>
          match (if bdd_eqb high_bdd low_bdd then Some (high_bdd, st2)
                 else mk st2 (N.of_nat cur_v) low_bdd high_bdd) with
          | None => None
          | Some (r, st3) => Some (r, s2, cache_insert c2 hashed r, st3)
          end
        end
      end
    end
  end.

Definition compile_x (cls : list clause) (nvars : nat) (st0 : St) : option (bdd * St) :=
  match sat_new false cls nvars with
  | NewOutOfFuel => None
  | NewNone => Some (BF, st0)
  | NewSome s =>
    match topdown_hx (S nvars) s 0 [] st0 with
    | None => None
    | Some (r, s', _, st) => conjoin_implied_x (sat_difference_iter s') r st
    end
  end.

Definition compile_raw_x (raw : list clause) (st0 : St) : option (bdd * St) :=
  let cls := cnf_new raw in compile_x cls (cnf_num_vars cls) st0.
End Generic.

(* ---------- the semantic-hash store ---------- *)
Record sstore := mkSStore { ss_tbl : list (N * bdd); ss_log : list bdd }.
Definition sstore_empty : sstore := mkSStore [] [].

Fixpoint ss_get (t : list (N * bdd)) (h : N) : option bdd :=
  match t with
  | [] => None
  | (k, p) :: r => if N.eqb k h then Some p else ss_get r h
  end.

Definition sem_get_or_insert (m : mode) (P : N) (w : wmap)
           (st : sstore) (v : var) (lo hi : bdd) : option (bdd * sstore) :=
  let n := BN false v lo hi in
  let log := n :: ss_log st in
  match hash_m m P w n with
  | None => None                                        (* arithmetic / var_weight panic *)
  | Some h =>
    match ss_get (ss_tbl st) h with
    | Some p => Some (p, mkSStore (ss_tbl st) log)                      (* Reg(existing) *)
    | None =>
      match ff_negate m P h with
      | None => None
      | Some nh =>
        match ss_get (ss_tbl st) nh with
        | Some p => Some (neg p, mkSStore (ss_tbl st) log)              (* Compl(existing) *)
        | None => Some (n, mkSStore ((h, n) :: ss_tbl st) log)          (* Reg(new node) *)
        end
      end
    end
  end.

Definition compile_raw_sem (m : mode) (P : N) (w : wmap) (order : list nat) (raw : list clause)
  : option (bdd * sstore) :=
  compile_raw_x sstore (sem_get_or_insert m P w) order raw sstore_empty.
