From Coq Require Import Bool NArith List Lia.
Import ListNotations.

Definition var := N.
Definition asg := var -> bool.

Inductive bdd := BT | BF | BN (c : bool) (v : var) (lo hi : bdd).

Fixpoint bdd_eqb (p q : bdd) : bool :=
  match p, q with
  | BT, BT | BF, BF => true
  | BN c v l h, BN c' v' l' h' => Bool.eqb c c' && N.eqb v v' && bdd_eqb l l' && bdd_eqb h h'
  | _, _ => false
  end.

Lemma bdd_eqb_eq p q : bdd_eqb p q = true <-> p = q.
Proof.
  revert q; induction p as [| |c v l IHl h IHh]; intros [| |c' v' l' h']; simpl; split; try congruence; try reflexivity.
  - rewrite !andb_true_iff. intros [[[H1 H2] H3] H4].
    apply eqb_prop in H1. apply N.eqb_eq in H2. apply IHl in H3. apply IHh in H4. congruence.
  - intros H; inversion H; subst. rewrite eqb_reflx, N.eqb_refl. simpl.
    rewrite (proj2 (IHl _) eq_refl), (proj2 (IHh _) eq_refl). reflexivity.
Qed.

Definition neg (p : bdd) : bdd :=
  match p with BT => BF | BF => BT | BN c v l h => BN (negb c) v l h end.
Definition is_true p := match p with BT => true | _ => false end.
Definition is_false p := match p with BF => true | _ => false end.
Definition is_neg p := match p with BN true _ _ _ => true | _ => false end.

Fixpoint den (p : bdd) (a : asg) : bool :=
  match p with
  | BT => true | BF => false
  | BN c v l h => xorb c (if a v then den h a else den l a)
  end.

Lemma den_neg p a : den (neg p) a = negb (den p a).
Proof. destruct p as [| |[] v l h]; simpl; try reflexivity; destruct (if a v then _ else _); reflexivity. Qed.

Inductive ite_t := IteChoice (f g h : bdd) | IteComplChoice (f g h : bdd) | IteConst (f : bdd).

Section S.
Variable order : bdd -> bdd -> bool.

Definition intro_consts (f g h : bdd) : bdd * bdd * bdd :=
  if bdd_eqb f h then (f, g, BF)
  else if bdd_eqb f (neg h) then (f, g, BT)
  else if bdd_eqb f (neg g) then (f, BF, h)
  else (f, g, h).

Definition terminal (f g h : bdd) : option bdd :=
  if is_true f then Some g
  else if is_false f then Some h
  else if is_true g && is_false h then Some f
  else if is_false g && is_true h then Some (neg f)
  else if bdd_eqb h g then Some g
  else None.

Definition reorder (f g h : bdd) : bdd * bdd * bdd :=
  if is_true g && order h f then (h, g, f)
  else if is_false h && order g f then (g, f, h)
  else if is_true h && order g f then (neg g, neg f, h)
  else if is_false g && order h f then (neg h, g, neg f)
  else if bdd_eqb g (neg h) && order g f then (g, f, neg f)
  else (f, g, h).

Definition std_neg (f g h : bdd) : ite_t :=
  if is_neg f && negb (is_neg h) then IteChoice (neg f) h g
  else if negb (is_neg f) && is_neg g then IteComplChoice f (neg g) (neg h)
  else if is_neg f && is_neg h then IteComplChoice (neg f) (neg h) (neg g)
  else IteChoice f g h.

Definition ite_new (f g h : bdd) : ite_t :=
  let '(f, g, h) := intro_consts f g h in
  match terminal f g h with
  | Some r => IteConst r
  | None => let '(f, g, h) := reorder f g h in std_neg f g h
  end.

Definition ite_ (x y z : bool) := if x then y else z.
Definition den_ite (t : ite_t) (a : asg) : bool :=
  match t with
  | IteChoice f g h => ite_ (den f a) (den g a) (den h a)
  | IteComplChoice f g h => negb (ite_ (den f a) (den g a) (den h a))
  | IteConst r => den r a
  end.

Ltac eqs :=
  repeat match goal with
  | H : bdd_eqb _ _ = true |- _ => apply bdd_eqb_eq in H; subst
  | H : _ && _ = true |- _ => apply andb_true_iff in H; destruct H
  | H : is_true ?x = true |- _ => destruct x; try discriminate H; clear H
  | H : is_false ?x = true |- _ => destruct x; try discriminate H; clear H
  end.

Lemma intro_consts_sound f g h a :
  let '(f', g', h') := intro_consts f g h in
  ite_ (den f' a) (den g' a) (den h' a) = ite_ (den f a) (den g a) (den h a).
Proof.
  unfold intro_consts.
  destruct (bdd_eqb f h) eqn:E1; [eqs; simpl; destruct (den h a), (den g a); reflexivity|].
  destruct (bdd_eqb f (neg h)) eqn:E2; [eqs; simpl; rewrite den_neg; destruct (den h a), (den g a); reflexivity|].
  destruct (bdd_eqb f (neg g)) eqn:E3; [eqs; simpl; rewrite den_neg; destruct (den h a), (den g a); reflexivity|].
  reflexivity.
Qed.

Lemma terminal_sound f g h r a :
  terminal f g h = Some r -> den r a = ite_ (den f a) (den g a) (den h a).
Proof.
  unfold terminal.
  destruct (is_true f) eqn:E1; [intros [= <-]; eqs; reflexivity|].
  destruct (is_false f) eqn:E2; [intros [= <-]; eqs; reflexivity|].
  destruct (is_true g && is_false h) eqn:E3; [intros [= <-]; eqs; simpl; destruct (den f a); reflexivity|].
  destruct (is_false g && is_true h) eqn:E4; [intros [= <-]; eqs; simpl; rewrite den_neg; destruct (den f a); reflexivity|].
  destruct (bdd_eqb h g) eqn:E5; [intros [= <-]; eqs; destruct (den f a); reflexivity|].
  discriminate.
Qed.

Lemma reorder_sound f g h a :
  let '(f', g', h') := reorder f g h in
  ite_ (den f' a) (den g' a) (den h' a) = ite_ (den f a) (den g a) (den h a).
Proof.
  unfold reorder.
  destruct (is_true g && order h f) eqn:E1; [eqs; simpl; destruct (den f a), (den h a); reflexivity|].
  destruct (is_false h && order g f) eqn:E2; [eqs; simpl; destruct (den f a), (den g a); reflexivity|].
  destruct (is_true h && order g f) eqn:E3; [eqs; simpl; rewrite !den_neg; destruct (den f a), (den g a); reflexivity|].
  destruct (is_false g && order h f) eqn:E4; [eqs; simpl; rewrite !den_neg; destruct (den f a), (den h a); reflexivity|].
  destruct (bdd_eqb g (neg h) && order g f) eqn:E5; [eqs; simpl; rewrite !den_neg; destruct (den f a), (den h a); reflexivity|].
  reflexivity.
Qed.

Lemma std_neg_sound f g h a :
  den_ite (std_neg f g h) a = ite_ (den f a) (den g a) (den h a).
Proof.
  unfold std_neg.
  destruct (is_neg f && negb (is_neg h)); [simpl; rewrite den_neg; destruct (den f a), (den g a), (den h a); reflexivity|].
  destruct (negb (is_neg f) && is_neg g); [simpl; rewrite !den_neg; destruct (den f a), (den g a), (den h a); reflexivity|].
  destruct (is_neg f && is_neg h); [simpl; rewrite !den_neg; destruct (den f a), (den g a), (den h a); reflexivity|].
  reflexivity.
Qed.

Theorem ite_std_sound f g h a :
  den_ite (ite_new f g h) a = ite_ (den f a) (den g a) (den h a).
Proof.
  unfold ite_new.
  pose proof (intro_consts_sound f g h a) as H1.
  destruct (intro_consts f g h) as [[f1 g1] h1].
  destruct (terminal f1 g1 h1) eqn:T.
  - simpl. rewrite (terminal_sound _ _ _ _ a T). exact H1.
  - pose proof (reorder_sound f1 g1 h1 a) as H2.
    destruct (reorder f1 g1 h1) as [[f2 g2] h2].
    rewrite std_neg_sound. congruence.
Qed.
End S.
Print Assumptions ite_std_sound.
