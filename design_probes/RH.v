From Coq Require Import Bool NArith List Lia Arith.
Import ListNotations.

Record slot := { sid : option nat; shash : nat; spsl : nat }.
Definition empty_slot := {| sid := None; shash := 0; spsl := 0 |}.
Definition occupied (s : slot) := match sid s with Some _ => true | None => false end.
Fixpoint set_nth {A} (l : list A) (i : nat) (x : A) : list A :=
  match l, i with [] , _ => [] | _ :: t, O => x :: t | y :: t, S j => y :: set_nth t j x end.
Definition bump (s : slot) := {| sid := sid s; shash := shash s; spsl := S (spsl s) |}.

(* propagate, as coded *)
Fixpoint propagate (fuel : nat) (v : list slot) (cap : nat) (itm : slot) (pos : nat) : option (list slot) :=
  match fuel with
  | O => None
  | S f =>
    let cur := nth pos v empty_slot in
    if occupied cur then
      let '(v', searcher) := if Nat.ltb (spsl cur) (spsl itm) then (set_nth v pos itm, cur) else (v, itm) in
      propagate f v' cap (bump searcher) ((pos + 1) mod cap)
    else Some (set_nth v pos itm)
  end.

Record table := { tbl : list slot; cap : nat; len : nat; arena : list nat }.
Fixpoint next_pow2 (fuel n p : nat) : nat := match fuel with O => p | S f => if Nat.leb n p then p else next_pow2 f n (2 * p) end.

Section G.
Variable fixed : bool.   (* false: pinned grow; true: repaired grow *)
Definition grow (t : table) : option table :=
  let c := next_pow2 64 (cap t + 1) 1 in
  let step (acc : option (list slot)) (i : slot) :=
    match acc with None => None | Some v =>
      if fixed then
        (if occupied i then propagate (S c) v c {| sid := sid i; shash := shash i; spsl := 0 |} (shash i mod c) else Some v)
      else propagate (S c) v c i (shash i mod c)
    end in
  match fold_left step (tbl t) (Some (repeat empty_slot c)) with
  | None => None
  | Some v => Some {| tbl := v; cap := c; len := len t; arena := arena t |}
  end.

(* get_or_insert_by_hash with structural equality; returns the arena id *)
Fixpoint probe (fuel : nat) (t : table) (hash elem pos psl : nat) : option (nat * table) :=
  match fuel with
  | O => None
  | S f =>
    let cur := nth pos (tbl t) empty_slot in
    let insert_here (v : list slot) :=
      let id := length (arena t) in
      Some (id, {| tbl := set_nth v pos {| sid := Some id; shash := hash; spsl := psl |};
                   cap := cap t; len := S (len t); arena := arena t ++ [elem] |}) in
    match sid cur with
    | Some id =>
      if Nat.eqb hash (shash cur) && Nat.eqb (nth id (arena t) 0) elem then Some (id, t)
      else if Nat.ltb (spsl cur) psl then
        match propagate (S (cap t)) (tbl t) (cap t) cur pos with
        | None => None | Some v => insert_here v end
      else probe f t hash elem ((pos + 1) mod cap t) (S psl)
    | None => insert_here (tbl t)
    end
  end.
Definition get_or_insert (t : table) (hash elem : nat) : option (nat * table) :=
  match (if Nat.ltb (7 * cap t) (10 * (len t + 1)) then grow t else Some t) with
  | None => None
  | Some t' => probe (S (cap t')) t' hash elem (hash mod cap t') 0
  end.

Definition new_table (c : nat) : table := {| tbl := repeat empty_slot c; cap := c; len := 0; arena := [] |}.

(* run a history of elements with hash function H; return ids *)
Fixpoint run (H : nat -> nat) (t : table) (es : list nat) : option (list nat) :=
  match es with
  | [] => Some []
  | e :: r => match get_or_insert t (H e) e with
              | None => None
              | Some (id, t') => match run H t' r with None => None | Some ids => Some (id :: ids) end
              end
  end.
(* set semantics: ids equal iff elements equal *)
Fixpoint consistent (es ids : list nat) : bool :=
  match es, ids with
  | e :: r, i :: s =>
      forallb (fun p => Bool.eqb (Nat.eqb e (fst p)) (Nat.eqb i (snd p))) (combine r s) && consistent r s
  | _, _ => true
  end.
Definition ok (H : nat -> nat) (c0 : nat) (es : list nat) : bool :=
  match run H (new_table c0) es with Some ids => consistent es ids | None => false end.
End G.

(* all lists of length n over 0..k-1 *)
Fixpoint lists (n k : nat) : list (list nat) :=
  match n with O => [[]] | S m => flat_map (fun l => map (fun x => x :: l) (seq 0 k)) (lists m k) end.
Definition hfun (code : list nat) : nat -> nat := fun e => nth e code 0.

(* pinned code: duplicate with capacity 2, elements 0 and 1 hashed to 0 and 1, then re-request *)
Example rh_refuted : ok false (hfun [0;1;5]) 2 [0;1;0;1] = false.
Proof. vm_compute. reflexivity. Qed.
Example rh_fixed_same : ok true (hfun [0;1;5]) 2 [0;1;0;1] = true.
Proof. vm_compute. reflexivity. Qed.

(* exhaustive sweep for the repaired grow: 3 elements, hashes < 4, histories of length 6, capacities 1,2,4 *)
Definition sweep (fixed : bool) : bool :=
  forallb (fun code => forallb (fun c0 => forallb (fun es => ok fixed (hfun code) c0 es) (lists 6 3)) [1;2;4])
          (lists 3 4).
Time Eval vm_compute in sweep true.
Time Eval vm_compute in sweep false.
