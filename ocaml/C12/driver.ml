(* C12 driver: one BDD program, one pool entry (or its negation), one list of query/decision
   variables, real weights and expected-utility weights (numerators over 8 for probabilities,
   integers for utilities); runs the extracted marginal_map_m, bb over the real semiring, meu_m
   and bb over ExpectedUtility and prints exact values and the returned partial models.
   case tail:  Q <target> <neg> <k> <q>*k R (<lo8> <hi8>)*total E (<pl8> <ul> <ph8> <uh>)*total *)
let z_of_int i = if i = 0 then Z0 else if i > 0 then Zpos (pos_of_int i) else Zneg (pos_of_int (-i))
let string_of_z = function
  | Z0 -> "0" | Zpos p -> string_of_n (Npos p) | Zneg p -> "-" ^ string_of_n (Npos p)
let qs q = string_of_z (qc_num q) ^ "/" ^ string_of_n (Npos (qc_den q))
let eighth k = qc_of (z_of_int k) (pos_of_int 8)
let whole k = qc_of (z_of_int k) XH
let pm_str total (m : n -> bool option) =
  String.init total (fun v -> match m (n_of_int v) with Some true -> '1' | Some false -> '0' | None -> '-')

let () =
  List.iter (fun line ->
    match split_ws line with
    | id :: toks ->
      let (order, ops, rest) = parse_prog toks in
      (match rest, run_prog all_remembered (bstate_init order) ops with
       | "Q" :: target :: ng :: k :: rest, Some st ->
         let total = List.length st.bord in
         let p0 = List.nth st.bpool (ios target) in
         let p = if ng <> "0" then neg p0 else p0 in
         let (qs_, rest) = take (ios k) rest in
         let query = List.map (fun s -> n_of_int (ios s)) qs_ in
         (match rest with
          | "R" :: rest ->
            let (rw, rest) = take (2 * total) rest in
            (* a real weight token is n (= n/8) or n@k (= n/2^k) *)
            let dy s = match String.index_opt s '@' with
              | Some i -> qc_of (z_of_int (ios (String.sub s 0 i))) (pos_of_int (1 lsl (ios (String.sub s (i + 1) (String.length s - i - 1)))))
              | None -> eighth (ios s) in
            let rwa = Array.of_list (List.map dy rw) in
            let rlo v = rwa.(2 * int_of_n v) and rhi v = rwa.(2 * int_of_n v + 1) in
            (match rest with
             | "E" :: rest ->
               let (ew, _) = take (4 * total) rest in
               let ewa = Array.of_list (List.map ios ew) in
               let elo v = let i = 4 * int_of_n v in (eighth ewa.(i), whole ewa.(i + 1)) in
               let ehi v = let i = 4 * int_of_n v in (eighth ewa.(i + 2), whole ewa.(i + 3)) in
               let nv = nat_of_int total in
               (* optimal values only: which optimal assignment is returned is not fixed by the
                  property; the harness oracle judges the returned assignments *)
               let real_res = function
                 | None -> "PANIC"
                 | Some (v, _m) -> qs v in
               let eu_res = function
                 | None -> "PANIC"
                 | Some ((a, b), _m) -> qs a ^ "," ^ qs b in
               Printf.printf "%s mm=%s bbr=%s meu=%s bbe=%s\n" id
                 (real_res (marginal_map_m nv rlo rhi p query))
                 (real_res (bb_real_m nv rlo rhi p query))
                 (eu_res (meu_m nv elo ehi p query))
                 (eu_res (bb_eu_m nv elo ehi p query))
             | _ -> print_endline (id ^ " NONE"))
          | _ -> print_endline (id ^ " NONE"))
       | _ -> print_endline (id ^ " NONE"))
    | [] -> ()) (read_lines ())
