(* C18 driver: the C API's operation language interpreted in the tree model.  Prints, per pool
   entry, the expanded unfolding (children complement-adjusted, as low()/high() return them),
   the model count (smooth over all variables, unit weights) and the integer-weight count; then
   the identity classes. *)
let rec expand buf (p : bdd) : unit =
  match p with
  | BT -> Buffer.add_char buf 'T'
  | BF -> Buffer.add_char buf 'F'
  | BN (c, v, lo, hi) ->
    Buffer.add_char buf '(';
    Buffer.add_string buf (string_of_int (int_of_n v));
    Buffer.add_char buf ' ';
    expand buf (if c then neg lo else lo);
    Buffer.add_char buf ' ';
    expand buf (if c then neg hi else hi);
    Buffer.add_char buf ')'

let table_hex (p : bdd) (nv : int) : string =
  let buf = Buffer.create 64 in
  let n = 1 lsl nv in
  let a = ref 0 in
  while !a < n do
    let d = ref 0 in
    for i = 0 to 3 do
      if !a + i < n then begin
        let asg = !a + i in
        if den p (fun v -> (asg lsr (int_of_n v)) land 1 = 1) then d := !d lor (1 lsl i)
      end
    done;
    Buffer.add_string buf (Printf.sprintf "%x" !d);
    a := !a + 4
  done;
  Buffer.contents buf

let () =
  List.iter (fun line ->
    match split_ws line with
    | id :: "F" :: _ok :: nv :: rest ->
      (* the CNF pipeline: the model compiles the clauses under the linear order; only the function is compared *)
      let nv = ios nv in
      (match rest with
       | ncl :: r ->
         let rec clauses k r acc = if k = 0 then List.rev acc else
           (match r with
            | len :: r ->
              let (lits, r) = take (2 * ios len) r in
              let rec pairs = function v :: b :: t -> (n_of_int (ios v), bool_of_tok b) :: pairs t | _ -> [] in
              clauses (k - 1) r (pairs lits :: acc)
            | [] -> failwith "bad cnf") in
         let cnf = clauses (ios ncl) r [] in
         let order = List.init nv nat_of_int in
         (match compile_e (level_of order) all_remembered (nat_of_int (nv + 1)) (cnf_expr cnf) cst_empty with
          | Some (r, _) -> print_endline (id ^ " " ^ table_hex r nv)
          | None -> print_endline (id ^ " NONE"))
       | [] -> print_endline (id ^ " NONE"))
    | id :: toks ->
      let (order, ops, rest) = parse_prog toks in
      (match rest, run_prog all_remembered (bstate_init order) ops with
       | "K" :: ws, Some st ->
         let total = List.length st.bord in
         let wa = Array.of_list ws in
         let wlo v = n_of_string wa.(2 * int_of_n v) and whi v = n_of_string wa.(2 * int_of_n v + 1) in
         let one _ = n_of_int 1 in
         let buf = Buffer.create 256 in
         Buffer.add_string buf id; Buffer.add_char buf ' ';
         List.iter (fun p ->
           expand buf p;
           let mc = wmc_N one one (smooth_m (var_at st.bord) p (nat_of_int total)) in
           Buffer.add_string buf (" mc=" ^ string_of_n mc ^ " w=" ^ string_of_n (wmc_N wlo whi p) ^ " | ")) st.bpool;
         let arr = Array.of_list st.bpool in
         let cls = Array.mapi (fun i p -> let r = ref i in for j = i - 1 downto 0 do if bdd_eqb arr.(j) p then r := j done; !r) arr in
         Buffer.add_string buf ("eq " ^ String.concat " " (Array.to_list (Array.map string_of_int cls)));
         print_endline (Buffer.contents buf)
       | _ -> print_endline (id ^ " NONE"))
    | [] -> ()) (read_lines ())
