(* C18 driver: the C API's operation language interpreted in the tree model.  Prints, per pool
   entry, the expanded unfolding (children complement-adjusted, as low()/high() return them),
   the model count (smooth over all variables, unit weights) and the integer-weight count; then
   the identity classes. *)
let rec expand buf (p : bdd) : unit =
  match p with
  | BT -> Buffer.add_char buf 'T'
  | BF -> Buffer.add_char buf 'F'
  | BN (c, v, lo, hi) ->
    Buffer.add_char buf '(';
    Buffer.add_string buf (string_of_int (int_of_n v));
    Buffer.add_char buf ' ';
    expand buf (if c then neg lo else lo);
    Buffer.add_char buf ' ';
    expand buf (if c then neg hi else hi);
    Buffer.add_char buf ')'

let () =
  List.iter (fun line ->
    match split_ws line with
    | id :: toks ->
      let (order, ops, rest) = parse_prog toks in
      (match rest, run_prog all_remembered (bstate_init order) ops with
       | "K" :: ws, Some st ->
         let total = List.length st.bord in
         let wa = Array.of_list ws in
         let wlo v = n_of_string wa.(2 * int_of_n v) and whi v = n_of_string wa.(2 * int_of_n v + 1) in
         let one _ = n_of_int 1 in
         let buf = Buffer.create 256 in
         Buffer.add_string buf id; Buffer.add_char buf ' ';
         List.iter (fun p ->
           expand buf p;
           let mc = wmc_N one one (smooth_m (var_at st.bord) p (nat_of_int total)) in
           Buffer.add_string buf (" mc=" ^ string_of_n mc ^ " w=" ^ string_of_n (wmc_N wlo whi p) ^ " | ")) st.bpool;
         let arr = Array.of_list st.bpool in
         let cls = Array.mapi (fun i p -> let r = ref i in for j = i - 1 downto 0 do if bdd_eqb arr.(j) p then r := j done; !r) arr in
         Buffer.add_string buf ("eq " ^ String.concat " " (Array.to_list (Array.map string_of_int cls)));
         print_endline (Buffer.contents buf)
       | _ -> print_endline (id ^ " NONE"))
    | [] -> ()) (read_lines ())
