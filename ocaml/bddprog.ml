(* Shared by the BDD-program drivers: parser of the case language and canonical printers.
   case:  <nvars> <var_to_pos>*nvars <cache> <tblcap> <op>*      (tokens)
   ops:   t | f | v <var> <pol> | n <i> | a <i> <j> | o <i> <j> | x <i> <j> | e <i> <j>
          | i <i> <j> <k> | c <i> <var> <b> | m <i> <k> (<var> <b>)*k | q <i> <var>
          | p <i> <var> <j> | A <k> <i>*k | O <k> <i>*k | N <pol>
   The cache kind and table capacity only configure the implementation; the model's result
   does not depend on them (theorem ite_cache_transparent). *)
let ios = int_of_string
let bool_of_tok s = s <> "0"
let rec take k l = if k = 0 then ([], l) else match l with x :: r -> let (a, b) = take (k - 1) r in (x :: a, b) | [] -> failwith "short"

let parse_prog (toks : string list) : nat list * bop list * string list =
  match toks with
  | nv :: rest ->
    let n = ios nv in
    let (perm, rest) = take n rest in
    let order = List.map (fun s -> nat_of_int (ios s)) perm in
    (match rest with
     | _cache :: _tblcap :: rest ->
       let rec ops acc = function
         | "t" :: r -> ops (OConst true :: acc) r
         | "f" :: r -> ops (OConst false :: acc) r
         | "v" :: v :: p :: r -> ops (OVar (n_of_int (ios v), bool_of_tok p) :: acc) r
         | "n" :: i :: r -> ops (ONeg (nat_of_int (ios i)) :: acc) r
         | "a" :: i :: j :: r -> ops (OAnd (nat_of_int (ios i), nat_of_int (ios j)) :: acc) r
         | "o" :: i :: j :: r -> ops (OOr (nat_of_int (ios i), nat_of_int (ios j)) :: acc) r
         | "x" :: i :: j :: r -> ops (OXor (nat_of_int (ios i), nat_of_int (ios j)) :: acc) r
         | "e" :: i :: j :: r -> ops (OIff (nat_of_int (ios i), nat_of_int (ios j)) :: acc) r
         | "i" :: i :: j :: k :: r -> ops (OIte (nat_of_int (ios i), nat_of_int (ios j), nat_of_int (ios k)) :: acc) r
         | "c" :: i :: v :: b :: r -> ops (OCond (nat_of_int (ios i), n_of_int (ios v), bool_of_tok b) :: acc) r
         | "m" :: i :: k :: r ->
           let (lits, r) = take (2 * ios k) r in
           let rec pairs = function v :: b :: t -> (n_of_int (ios v), bool_of_tok b) :: pairs t | _ -> [] in
           ops (OCondModel (nat_of_int (ios i), pairs lits) :: acc) r
         | "q" :: i :: v :: r -> ops (OExists (nat_of_int (ios i), n_of_int (ios v)) :: acc) r
         | "p" :: i :: v :: j :: r -> ops (OCompose (nat_of_int (ios i), n_of_int (ios v), nat_of_int (ios j)) :: acc) r
         | "A" :: k :: r -> let (l, r) = take (ios k) r in ops (OAndLst (List.map (fun s -> nat_of_int (ios s)) l) :: acc) r
         | "O" :: k :: r -> let (l, r) = take (ios k) r in ops (OOrLst (List.map (fun s -> nat_of_int (ios s)) l) :: acc) r
         | "N" :: p :: r -> ops (ONewVar (bool_of_tok p) :: acc) r
         | rest -> (List.rev acc, rest) in
       let (o, rest) = ops [] rest in
       (order, o, rest)
     | _ -> failwith "bad case")
  | [] -> failwith "empty case"

(* canonical unfolding: T, F, (v lo hi), complement mark ! *)
let rec bdd_str buf (p : bdd) : unit =
  match p with
  | BT -> Buffer.add_char buf 'T'
  | BF -> Buffer.add_char buf 'F'
  | BN (c, v, lo, hi) ->
    if c then Buffer.add_char buf '!';
    Buffer.add_char buf '(';
    Buffer.add_string buf (string_of_int (int_of_n v));
    Buffer.add_char buf ' ';
    bdd_str buf lo;
    Buffer.add_char buf ' ';
    bdd_str buf hi;
    Buffer.add_char buf ')'

let all_remembered _ = true
