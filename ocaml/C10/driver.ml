(* C10 driver: runs the queries on the STATEFUL model (scratch threaded through all queries) and
   prints the answers; "DIRTY" is appended if some node of a pool entry still has scratch data.
   Repeat query  r <count> <q0> <q1>  (q0, q1 two sub-queries of one kind w / n / e on one pool entry;
   repetition t runs q0 for even t and q1 for odd t; only the LAST answer is printed): up to 300
   repetitions the stateful model really runs every repetition (scratch threaded through them, DIRTY
   checked after each); beyond that it runs the LAST repetition once.  That is sound for the MODEL
   because its queries are pure: by theorem C10_queries_commute (Properties/C10.v) any sequence of
   public folds / counts from the all-empty scratch answers call by call like the pure functions and
   ends all-empty, so the 65535 skipped repetitions change neither the answer of the last one nor the
   scratch state it starts from.  (Whether the IMPLEMENTATION is equally indifferent to them is what the
   case tests: the harness runs every repetition on the real builder.) *)
let () =
  List.iter (fun line ->
    match split_ws line with
    | id :: toks ->
      let (order, ops, rest) = parse_prog toks in
      (match rest, run_prog all_remembered (bstate_init order) ops with
       | "Q" :: qs, Some st ->
         let total = List.length st.bord in
         let pool = Array.of_list st.bpool in
         let lv = level_of st.bord in
         let s = ref empty_scratch_N in
         let outs = ref [] in
         let dirty () = Array.exists (fun p -> List.exists (fun n -> !s n <> None) (nodes p)) pool in
         let push a = outs := (if dirty () then a ^ " DIRTY" else a) :: !outs in
         let one = n_of_int 1 in
         let sub_len = function "w" -> 2 + 2 * total | "e" -> 2 + total | "n" -> 2 | _ -> failwith "bad repeat" in
         let rec go = function
           | "r" :: c :: (kind :: _ as r) ->
             let c = ios c in
             let len = sub_len kind in
             let (q0, r) = take len r in
             let (q1, r) = take len r in
             if c <= 300 then begin
               (* run them all; keep the last answer (and any DIRTY mark an earlier repetition produced) *)
               let keep = !outs in
               let was_dirty = ref false in
               for t = 0 to c - 1 do
                 outs := [];
                 go (if t mod 2 = 0 then q0 else q1);
                 (match !outs with [a] when t < c - 1 && String.length a > 6 && String.sub a (String.length a - 6) 6 = " DIRTY" -> was_dirty := true | _ -> ())
               done;
               (match !outs with
                | [a] -> outs := (if !was_dirty then a ^ " DIRTY-DURING-REPEAT" else a) :: keep
                | _ -> failwith "bad repeat")
             end else
               go (if (c - 1) mod 2 = 0 then q0 else q1);
             go r
           | "w" :: i :: r ->
             let (ws, r) = take (2 * total) r in
             let wa = Array.of_list ws in
             let wlo v = n_of_string wa.(2 * int_of_n v) and whi v = n_of_string wa.(2 * int_of_n v + 1) in
             let (a, s') = fold_public_N wlo whi pool.(ios i) !s in
             s := s'; push (string_of_n a); go r
           | "f" :: i :: r ->
             let (a, s') = fold_public_N (fun _ -> one) (fun _ -> one) pool.(ios i) !s in
             s := s'; push (string_of_n a); go r
           | "e" :: i :: r ->
             let (bits, r) = take total r in
             let ba = Array.of_list bits in
             push (if evaluate_m pool.(ios i) (fun v -> ba.(int_of_n v) <> "0") then "1" else "0"); go r
           | "n" :: i :: r ->
             let (k, s') = count_public_N pool.(ios i) !s in
             s := s'; push (string_of_int (int_of_nat k)); go r
           | "h" :: _ :: r -> push "ok"; go r
           | "d" :: ncl :: r ->
             let rec skip n r = if n = 0 then r else (match r with len :: r -> let (_, r) = take (2 * ios len) r in skip (n - 1) r | [] -> []) in
             (match skip (ios ncl) r with
              | k :: r -> let (_, r) = take (2 * ios k) r in push "ok"; go r
              | [] -> ())
           | "m" :: _ :: k :: r -> let (_, r) = take (ios k) r in push "ok"; go r
           | "c" :: i :: v :: b :: r ->
             let res = condition_m lv pool.(ios i) (n_of_int (ios v)) (bool_of_tok b) in
             let buf = Buffer.create 64 in bdd_str buf res; push (Buffer.contents buf); go r
           | "s" :: i :: n :: r ->
             let res = smooth_m (var_at st.bord) pool.(ios i) (nat_of_int (ios n)) in
             let buf = Buffer.create 64 in bdd_str buf res; push (Buffer.contents buf); go r
           | [] -> ()
           | _ -> failwith "bad query" in
         go qs;
         print_endline (id ^ " " ^ String.concat " ; " (List.rev !outs))
       | _ -> print_endline (id ^ " NONE"))
    | [] -> ()) (read_lines ())
