(* C10 driver: runs the queries on the STATEFUL model (scratch threaded through all queries) and
   prints the answers; "DIRTY" is appended if some node of a pool entry still has scratch data. *)
let () =
  List.iter (fun line ->
    match split_ws line with
    | id :: toks ->
      let (order, ops, rest) = parse_prog toks in
      (match rest, run_prog all_remembered (bstate_init order) ops with
       | "Q" :: qs, Some st ->
         let total = List.length st.bord in
         let pool = Array.of_list st.bpool in
         let lv = level_of st.bord in
         let s = ref empty_scratch_N in
         let outs = ref [] in
         let dirty () = Array.exists (fun p -> List.exists (fun n -> !s n <> None) (nodes p)) pool in
         let push a = outs := (if dirty () then a ^ " DIRTY" else a) :: !outs in
         let one = n_of_int 1 in
         let rec go = function
           | "w" :: i :: r ->
             let (ws, r) = take (2 * total) r in
             let wa = Array.of_list ws in
             let wlo v = n_of_string wa.(2 * int_of_n v) and whi v = n_of_string wa.(2 * int_of_n v + 1) in
             let (a, s') = fold_public_N wlo whi pool.(ios i) !s in
             s := s'; push (string_of_n a); go r
           | "f" :: i :: r ->
             let (a, s') = fold_public_N (fun _ -> one) (fun _ -> one) pool.(ios i) !s in
             s := s'; push (string_of_n a); go r
           | "e" :: i :: r ->
             let (bits, r) = take total r in
             let ba = Array.of_list bits in
             push (if evaluate_m pool.(ios i) (fun v -> ba.(int_of_n v) <> "0") then "1" else "0"); go r
           | "n" :: i :: r ->
             let (k, s') = count_public_N pool.(ios i) !s in
             s := s'; push (string_of_int (int_of_nat k)); go r
           | "h" :: _ :: r -> push "ok"; go r
           | "d" :: ncl :: r ->
             let rec skip n r = if n = 0 then r else (match r with len :: r -> let (_, r) = take (2 * ios len) r in skip (n - 1) r | [] -> []) in
             (match skip (ios ncl) r with
              | k :: r -> let (_, r) = take (2 * ios k) r in push "ok"; go r
              | [] -> ())
           | "m" :: _ :: k :: r -> let (_, r) = take (ios k) r in push "ok"; go r
           | "c" :: i :: v :: b :: r ->
             let res = condition_m lv pool.(ios i) (n_of_int (ios v)) (bool_of_tok b) in
             let buf = Buffer.create 64 in bdd_str buf res; push (Buffer.contents buf); go r
           | "s" :: i :: n :: r ->
             let res = smooth_m (var_at st.bord) pool.(ios i) (nat_of_int (ios n)) in
             let buf = Buffer.create 64 in bdd_str buf res; push (Buffer.contents buf); go r
           | [] -> ()
           | _ -> failwith "bad query" in
         go qs;
         print_endline (id ^ " " ^ String.concat " ; " (List.rev !outs))
       | _ -> print_endline (id ^ " NONE"))
    | [] -> ()) (read_lines ())
