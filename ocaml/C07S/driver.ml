(* C07S driver: runs the extracted SDD builder model on the program of the case, then the model of
   the scratch-based queries of impl DDNNFPtr for SddPtr on the last k pool entries and their
   negations, in the order the harness asks them, threading the scratch state through all of them.
   case:  <id> <compress 0|1> <vtree> ; <ops> W <k> (<code_v>)*7 A <m> ((<bit_v>)*7)*m
   out:   <id> (<idx><+|->:L=<count mod U64_LARGEST>,S=<count mod U32_SMALL>,ev=<bits>,cn=<count_nodes>)* clr=<0|1>
   Counts: the model's fold over N with residues as weights, reduced mod P at the end (the ring
   homomorphism N -> Z_P).  The memoised public query is what is printed; the plain recursion is
   computed next to it and a difference is reported as MEMO_MISMATCH.  After every query every
   slot of every node reachable from the pool must be empty in the model's state too (clr); when
   it is, the closure chain representing the state is replaced by the extensionally equal empty
   one (keeps lookups cheap; nothing else is ever looked up). *)
let nv = 7
let rec parse_vt = function
  | "L" :: v :: r -> (VLeaf (n_of_int (int_of_string v)), r)
  | "N" :: r -> let (l, r1) = parse_vt r in let (rt, r2) = parse_vt r1 in (VNode (l, rt), r2)
  | _ -> failwith "bad vtree"
let ni s = nat_of_int (int_of_string s)
let vi s = n_of_int (int_of_string s)
let rec parse_ops acc = function
  | "W" :: r -> (List.rev acc, r)
  | "t" :: r -> parse_ops (OTrue :: acc) r
  | "f" :: r -> parse_ops (OFalse :: acc) r
  | "v" :: v :: p :: r -> parse_ops (OVar (vi v, p = "1") :: acc) r
  | "n" :: i :: r -> parse_ops (ONeg (ni i) :: acc) r
  | "a" :: i :: j :: r -> parse_ops (OAnd (ni i, ni j) :: acc) r
  | "o" :: i :: j :: r -> parse_ops (OOr (ni i, ni j) :: acc) r
  | "x" :: i :: j :: r -> parse_ops (OXor (ni i, ni j) :: acc) r
  | "q" :: i :: j :: r -> parse_ops (OIff (ni i, ni j) :: acc) r
  | "i" :: i :: j :: k :: r -> parse_ops (OIte (ni i, ni j, ni k) :: acc) r
  | "c" :: i :: v :: b :: r -> parse_ops (OCond (ni i, vi v, b = "1") :: acc) r
  | "e" :: i :: v :: r -> parse_ops (OExists (ni i, vi v) :: acc) r
  | "m" :: i :: v :: j :: r -> parse_ops (OCompose (ni i, vi v, ni j) :: acc) r
  | _ -> failwith "bad op"

let big s = n_of_string s
let golden = big "210306068529402873165736369884012333109"  (* 0x9E3779B97F4A7C15F39CC0605CEDC835 *)
let hi_of_code code p =
  let one = n_of_int 1 and two = n_of_int 2 in
  match code with
  | 0 -> N0 | 1 -> one | 2 -> N.modulo two p
  | 3 -> N.sub p one | 4 -> N.sub p two
  | 5 -> N.div (N.sub p one) two | 6 -> N.div (N.add p one) two
  | c -> N.modulo (N.mul (n_of_int c) (N.modulo golden p)) p

type ans = AN of n | AB of bool | AC of int

let () =
  List.iter (fun line ->
    match split_ws line with
    | id :: comp :: rest -> with_budget id (fun () ->
      let (t, r1) = parse_vt rest in
      let (ops, tail) = match r1 with ";" :: r -> parse_ops [] r | _ -> failwith "bad case" in
      (match run_prog t (comp = "1") ops with
       | Ok pool ->
         let arr = Array.of_list pool in
         let ta = Array.of_list tail in
         let k = int_of_string ta.(0) in
         let codes = Array.init nv (fun v -> int_of_string ta.(1 + v)) in
         assert (ta.(1 + nv) = "A");
         let m = int_of_string ta.(2 + nv) in
         let asgs = Array.init m (fun q -> Array.init nv (fun v -> ta.(3 + nv + q * nv + v) = "1")) in
         let weights pr =
           let his = Array.map (fun c -> hi_of_code c pr) codes in
           let los = Array.map (fun hi -> N.modulo (N.sub (N.add pr (n_of_int 1)) hi) pr) his in
           ((fun v -> los.(int_of_n v)), (fun v -> his.(int_of_n v))) in
         let (loL, hiL) = weights prime_U64_LARGEST and (loS, hiS) = weights prime_U32_SMALL in
         (* the distinct nodes reachable from the pool *)
         let distinct = List.sort_uniq compare (List.concat_map sdd_nodes pool) in
         let sN = ref sempty_N and sB = ref sempty_B in
         let clr = ref true in
         let mismatch = ref false in
         let settle () =
           let cN = List.for_all (fun n -> match !sN n with None -> true | Some _ -> false) distinct in
           let cB = List.for_all (fun n -> match !sB n with None -> true | Some _ -> false) distinct in
           if cN then sN := sempty_N else clr := false;
           if cB then sB := sempty_B else clr := false in
         let ask p q =
           let r = match q with
             | 0 ->
               let (r, s') = sdd_wmc_N_public loL hiL p !sN in sN := s';
               if r <> sdd_wmc_N loL hiL p then mismatch := true;
               AN (N.modulo r prime_U64_LARGEST)
             | 1 ->
               let (r, s') = sdd_wmc_N_public loS hiS p !sN in sN := s';
               if r <> sdd_wmc_N loS hiS p then mismatch := true;
               AN (N.modulo r prime_U32_SMALL)
             | 2 ->
               (* count_nodes writes a usize into the same slot: run it on the state of the last
                  typed query (both are empty here) *)
               let (c, s') = sdd_count_public p !sN in sN := s'; AC (int_of_nat c)
             | e ->
               let a v = asgs.(e - 3).(int_of_n v) in
               let (r, s') = sdd_evaluate_public p a !sB in sB := s';
               if r <> sdd_evaluate_m p a then mismatch := true;
               AB r in
           settle (); r in
         let buf = Buffer.create 256 in
         Buffer.add_string buf id;
         let log = ref [] in
         let n = Array.length arr in
         for idx = n - k to n - 1 do
           List.iter (fun ng ->
             let p = if ng then sneg arr.(idx) else arr.(idx) in
             let cl = ask p 0 in
             let cs = ask p 1 in
             log := (p, 1, cs) :: (p, 0, cl) :: !log;
             let ev = String.init m (fun e ->
               let r = ask p (3 + e) in
               log := (p, 3 + e, r) :: !log;
               if r = AB true then '1' else '0') in
             let cn = ask p 2 in
             log := (p, 2, cn) :: !log;
             let sn = function AN x -> string_of_n x | AC c -> string_of_int c | AB b -> if b then "1" else "0" in
             Buffer.add_string buf (Printf.sprintf " %d%s:L=%s,S=%s,ev=%s,cn=%s" idx (if ng then "-" else "+") (sn cl) (sn cs) ev (if comp = "1" then sn cn else "*")))
             [false; true]
         done;
         (* the replay pass of the harness: every query again, in reverse order *)
         List.iter (fun (p, q, a) -> if ask p q <> a then mismatch := true) !log;
         Buffer.add_string buf (Printf.sprintf " clr=%d" (if !clr then 1 else 0));
         if !mismatch then Buffer.add_string buf " MEMO_MISMATCH";
         print_endline (Buffer.contents buf)
       | OutOfFuel -> print_endline (id ^ " OUT_OF_FUEL")
       | Panic -> print_endline (id ^ " PANIC")))
    | _ -> ()) (read_lines ())
