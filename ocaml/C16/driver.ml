(* C16 driver: runs the extracted Lru model on the case lines written by the harness.
   case:  <id> <cap> (i <k> <v> <h> | g <k> <h>)*
   out:   <id> (N | <v>)* util=<occupied/len reduced>
   S / K cases print a fixed token (oracle-only in the harness), P cases the pool of the builder model *)
let () =
  List.iter (fun line ->
    match split_ws line with
    | id :: "S" :: _ -> print_endline (id ^ " sdd")   (* SDD caches: decided by the harness oracle and by C03's theorems *)
    | id :: "K" :: _ -> print_endline (id ^ " soak")  (* soak (K <cap> <nkeys> <nops> <seed>): a ~10^6-operation history on a table of 2^16..2^18
                                                         slots; the list-based extracted model cannot follow it, so these cases are ORACLE-ONLY
                                                         (latest-value-per-key oracle in c16.rs); C16_lru_spec covers every capacity *)
    | id :: "P" :: toks ->
      (* builder level: the model's result is the same for every cache behaviour (theorem
         C16_cache_transparent); run it with two different forgetting streams as a sanity test *)
      let (order, ops, _) = parse_prog toks in
      let show rem = match run_prog rem (bstate_init order) ops with
        | None -> "NONE"
        | Some st -> let buf = Buffer.create 256 in
          List.iteri (fun k p -> Buffer.add_string buf (if k = 0 then "" else " | "); bdd_str buf p) st.bpool;
          Buffer.contents buf in
      let a = show all_remembered and b = show (fun n -> int_of_nat n mod 3 = 0) in
      print_endline (id ^ " " ^ (if a = b then a else "MODEL-CACHE-DEPENDENT"))
    | id :: cap :: rest ->
      let t = ref (lru_new (nat_of_int (int_of_string cap))) in
      let buf = Buffer.create 64 in
      Buffer.add_string buf id;
      let rec go = function
        | "i" :: k :: v :: h :: r ->
          t := insert !t (n_of_string k) (n_of_string v) (n_of_string h); go r
        | "g" :: k :: h :: r ->
          (match get !t (n_of_string k) (n_of_string h) with
           | None -> Buffer.add_string buf " N"
           | Some v -> Buffer.add_char buf ' '; Buffer.add_string buf (string_of_n v));
          go r
        | [] -> ()
        | _ -> failwith "bad case" in
      go rest;
      let occ = int_of_nat (occupied_count !t) and len = 1 lsl (int_of_nat (!t).cap) in
      let rec red a b = if a land 1 = 0 && b > 1 then red (a / 2) (b / 2) else (a, b) in
      let (a, b) = if occ = 0 then (0, 1) else red occ len in
      Buffer.add_string buf (Printf.sprintf " util=%d/%d" a b);
      print_endline (Buffer.contents buf)
    | _ -> ()) (read_lines ())
