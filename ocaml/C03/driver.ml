(* C03/C04 driver: runs the extracted SDD builder model on the case lines of the harness.
   case:  <id> <compress 0|1> <cap> <vtree> ; <ops>
     vtree ::= L <var> | N <vtree> <vtree>
     ops   ::= t | f | v <var> <pol> | n <i> | a <i> <j> | o <i> <j> | x <i> <j> | q <i> <j>
             | i <i> <j> <k> | c <i> <var> <0|1> | e <i> <var> | m <i> <var> <j>
             | k <n> followed by n clauses, each <len> <lit>...   compile_cnf; lit = 2*var + polarity
   out:   <id> <unfolding of every pool entry> # <index of the first equal pool entry, per entry>
          with compression off the shape of a result is not fixed by any property (element visiting
          order, clause order after the code's sort), hence only denotations are compared:
          <id> <truth table of every entry> # tt
   (the unique-table capacity <cap> has no counterpart in the model) *)
let rec parse_vt = function
  | "L" :: v :: r -> (VLeaf (n_of_int (int_of_string v)), r)
  | "N" :: r -> let (l, r1) = parse_vt r in let (rt, r2) = parse_vt r1 in (VNode (l, rt), r2)
  | _ -> failwith "bad vtree"
let ni s = nat_of_int (int_of_string s)
let vi s = n_of_int (int_of_string s)
let rec parse_ops acc = function
  | [] -> List.rev acc
  | "t" :: r -> parse_ops (OTrue :: acc) r
  | "f" :: r -> parse_ops (OFalse :: acc) r
  | "v" :: v :: p :: r -> parse_ops (OVar (vi v, p = "1") :: acc) r
  | "n" :: i :: r -> parse_ops (ONeg (ni i) :: acc) r
  | "a" :: i :: j :: r -> parse_ops (OAnd (ni i, ni j) :: acc) r
  | "o" :: i :: j :: r -> parse_ops (OOr (ni i, ni j) :: acc) r
  | "x" :: i :: j :: r -> parse_ops (OXor (ni i, ni j) :: acc) r
  | "q" :: i :: j :: r -> parse_ops (OIff (ni i, ni j) :: acc) r
  | "i" :: i :: j :: k :: r -> parse_ops (OIte (ni i, ni j, ni k) :: acc) r
  | "c" :: i :: v :: b :: r -> parse_ops (OCond (ni i, vi v, b = "1") :: acc) r
  | "e" :: i :: v :: r -> parse_ops (OExists (ni i, vi v) :: acc) r
  | "m" :: i :: v :: j :: r -> parse_ops (OCompose (ni i, vi v, ni j) :: acc) r
  | "k" :: n :: r ->
    let rec clause k acc r = if k = 0 then (List.rev acc, r) else
      (match r with x :: r' -> let c = int_of_string x in clause (k - 1) ((n_of_int (c / 2), c land 1 = 1) :: acc) r'
                  | [] -> failwith "bad clause") in
    let rec clauses k acc r = if k = 0 then (List.rev acc, r) else
      (match r with len :: r' -> let (c, r'') = clause (int_of_string len) [] r' in clauses (k - 1) (c :: acc) r''
                  | [] -> failwith "bad cnf") in
    let (f, r') = clauses (int_of_string n) [] r in
    parse_ops (OCnf (f, f) :: acc) r'
  | _ -> failwith "bad op"
let rec show = function
  | ST -> "T"
  | SF -> "F"
  | SVar (v, p) -> (if p then "v" else "!v") ^ string_of_int (int_of_n v)
  | SBdd (c, l, i, lo, hi) ->
    (if c then "~" else "") ^ "B" ^ string_of_int (int_of_nat i) ^ "." ^ string_of_int (int_of_n l)
    ^ "(" ^ show lo ^ "," ^ show hi ^ ")"
  | SOr (c, i, els) ->
    let es = List.sort compare (List.map (fun (p, s) -> show p ^ ":" ^ show s) els) in
    (if c then "~" else "") ^ "O" ^ string_of_int (int_of_nat i) ^ "[" ^ String.concat ";" es ^ "]"
let tt p =
  String.init 32 (fun j ->
    let base = 124 - 4 * j in
    let nib = ref 0 in
    for b = 0 to 3 do
      let row = base + b in
      if sden p (fun v -> (row lsr (int_of_n v)) land 1 = 1) then nib := !nib lor (1 lsl b)
    done;
    "0123456789abcdef".[!nib])
let () =
  List.iter (fun line ->
    match split_ws line with
    | id :: comp :: _cap :: rest -> with_budget id (fun () ->
      let (t, r1) = parse_vt rest in
      let ops = match r1 with ";" :: r -> parse_ops [] r | [] -> [] | _ -> failwith "bad case" in
      let tt_mode = comp <> "1" in
      (match run_prog t (comp = "1") ops with
       | Ok pool when tt_mode ->
         print_endline (String.concat " " (id :: List.map tt pool @ ["#"; "tt"]))
       | Ok pool ->
         let arr = Array.of_list pool in
         let strs = Array.map show arr in
         let ids = Array.mapi (fun i p ->
           let rec first j = if j >= i then i else if sdd_eqb arr.(j) p then j else first (j + 1) in
           string_of_int (first 0)) arr in
         print_endline (String.concat " " (id :: Array.to_list strs @ ["#"] @ Array.to_list ids))
       | OutOfFuel -> print_endline (id ^ " OUT_OF_FUEL")
       | Panic -> print_endline (id ^ " PANIC")))
    | _ -> ()) (read_lines ())
