(* C13 driver: evaluates the same battery of expressions as harness/src/bin/c13.rs on the
   extracted Coq model (Model/Semirings.v).  See the harness file for the case syntax.
   FiniteField runs in both build modes of the model (Checked = overflow panics, Wrapping);
   a panic of the Checked model prints PANIC (the harness is built with overflow checks), a
   difference between the two modes prints MODE-DIFF.
   FiniteField<P> runs for the exported primes, 2,3,5,7,11 and the further moduli [extra_moduli]
   (the Rust type is generic in P; each must satisfy ff_okb, the side condition of
   C13_ff_any_modulus).  The wide-magnitude cases realw/cxw/euw write dyadic operands as
   <m>p<e> = m * 2^e and carry a 0/1 mask: only the battery entries marked 1 are printed, in
   the same m p e form (m odd), the others as ~. *)

exception Panic

let get = function Some x -> x | None -> raise Panic

(* --- numbers --- *)
let z_of_string (s : string) : z =
  if String.length s > 0 && s.[0] = '-' then
    (match n_of_string (String.sub s 1 (String.length s - 1)) with N0 -> Z0 | Npos p -> Zneg p)
  else (match n_of_string s with N0 -> Z0 | Npos p -> Zpos p)

let string_of_z = function
  | Z0 -> "0"
  | Zpos p -> string_of_n (Npos p)
  | Zneg p -> "-" ^ string_of_n (Npos p)

let pos_of_string s = match n_of_string s with Npos p -> p | N0 -> failwith "zero denominator"

(* "n/d" -> canonical rational *)
let qc_of_string (s : string) : qc =
  match String.split_on_char '/' s with
  | [n] -> q2Qc { qnum = z_of_string n; qden = XH }
  | [n; d] -> q2Qc { qnum = z_of_string n; qden = pos_of_string d }
  | _ -> failwith "bad fraction"

let string_of_qc (x : qc) : string = string_of_z x.qnum ^ "/" ^ string_of_n (Npos x.qden)
let string_of_pair (a, b) = string_of_qc a ^ "," ^ string_of_qc b

(* dyadic notation "<m>p<e>" = m * 2^e *)
let rec pos_shift p k = if k <= 0 then p else pos_shift (XO p) (k - 1)
let rec pos_odd_part p k = match p with XO q -> pos_odd_part q (k + 1) | _ -> (p, k)
let qc_of_dy (s : string) : qc =
  match String.split_on_char 'p' s with
  | [m; e] ->
    let e = int_of_string e in
    let num = match z_of_string m with
      | Z0 -> Z0 | Zpos p -> Zpos (pos_shift p e) | Zneg p -> Zneg (pos_shift p e) in
    q2Qc { qnum = num; qden = pos_shift XH (- e) }
  | _ -> failwith "bad dyadic"
(* a reduced fraction whose denominator is a power of two, as <odd m>p<e>; anything else as n/d *)
let dy_of_qc (x : qc) : string =
  match pos_odd_part x.qden 0 with
  | (XH, k) ->
    (match x.qnum with
     | Z0 -> "0p0"
     | Zpos p -> let (o, t) = pos_odd_part p 0 in string_of_n (Npos o) ^ "p" ^ string_of_int (t - k)
     | Zneg p -> let (o, t) = pos_odd_part p 0 in "-" ^ string_of_n (Npos o) ^ "p" ^ string_of_int (t - k))
  | _ -> string_of_qc x
let dy_of_pair (a, b) = dy_of_qc a ^ "," ^ dy_of_qc b
let masked (mask : string) (l : string list) : string =
  if String.length mask <> List.length l then "BADMASK"
  else String.concat " " (List.mapi (fun i s -> if mask.[i] = '1' then s else "~") l)
let b01 b = if b then "1" else "0"

let rec n_mem x = function [] -> false | y :: t -> (string_of_n x = string_of_n y) || n_mem x t

(* --- FiniteField --- *)
let small_primes = List.map n_of_int [2; 3; 5; 7; 11]
(* 2^61-1, 2^89-1, 2^96+61, 2^107-1, 2^127-1, 2^127-3 (composite), 2^127 *)
let extra_moduli = List.map n_of_string
  [ "2305843009213693951"; "618970019642690137449562111"; "79228162514264337593543950397";
    "162259276829213363391578010288127"; "170141183460469231731687303715884105727";
    "170141183460469231731687303715884105725"; "170141183460469231731687303715884105728" ]

let ff_battery (m : mode) (p : n) (a : n) (b : n) (c : n) : string =
  let add x y = get (ff_add m p x y) and mul x y = get (ff_mul m p x y)
  and sub x y = get (ff_sub m p x y) and neg x = get (ff_negate m p x) in
  let x = get (ff_new p a) and y = get (ff_new p b) and z = get (ff_new p c) in
  let one = get (ff_one p) and zero = get (ff_zero p) in
  let r = [ x; y; z; add x y; mul x y; sub x y; sub y x; neg x;
            add (add x y) z; add x (add y z); mul (mul x y) z; mul x (mul y z);
            mul x (add y z); add (mul x y) (mul x z); sub (add x y) y; add (sub x y) y;
            one; zero; mul x one; add x zero; mul x zero; mul y x; add y x; mul (add y z) x ] in
  String.concat " " (List.map string_of_n r)

let ff_case p a b c =
  if not (n_mem p exported_primes || n_mem p small_primes || n_mem p extra_moduli) then "BADP"
  else if not (ff_okb p) then "NOT-OK-MODULUS"
  else
    let run m = try ff_battery m p a b c with Panic -> "PANIC" in
    let rc = run Checked and rw = run Wrapping in
    if rc = rw then rc else if rc = "PANIC" then "PANIC" else "MODE-DIFF"

(* --- generic battery pieces --- *)
let real_list s a b c =
  let o = real_ops in
  let ( +! ) = o.sr_add and ( *! ) = o.sr_mul in
    [ s (a +! b); s (a *! b); s (real_sub a b); s ((a +! b) +! c); s (a +! (b +! c));
      s ((a *! b) *! c); s (a *! (b *! c)); s (a *! (b +! c)); s ((a *! b) +! (a *! c));
      s o.sr_one; s o.sr_zero; s (real_join a b); s (real_meet a b); s (real_choose a b);
      s (real_choose a b); b01 (real_le a b);
      s (real_join (real_join a b) c); s (real_join a (real_join b c));
      s (real_meet (real_meet a b) c); s (real_meet a (real_meet b c));
      s (real_sub (a +! b) b); s (b *! a); s (a *! o.sr_one); s (a +! o.sr_zero);
      s (a *! o.sr_zero) ]
let real_case a b c = String.concat " " (real_list string_of_qc a b c)

let cx_list s wide a b c =
  let o = cx_ops in
  let ( +! ) = o.sr_add and ( *! ) = o.sr_mul in
    [ s (a +! b); s (a *! b); s (cx_sub a b); s ((a +! b) +! c); s (a +! (b +! c));
      s ((a *! b) *! c); s (a *! (b *! c)); s (a *! (b +! c)); s ((a *! b) +! (a *! c));
      s o.sr_one; s o.sr_zero; s (b *! a); s (a *! o.sr_one); s (a +! o.sr_zero);
      s (a *! o.sr_zero); s (cx_sub (a +! b) b) ]
    @ (if wide then [ s (o.sr_one *! a); s ((b +! c) *! a) ] else [])
let cx_case a b c = String.concat " " (cx_list string_of_pair false a b c)

let eu_list s wide a b c =
  let o = eu_ops in
  let ( +! ) = o.sr_add and ( *! ) = o.sr_mul in
  let cmp = match eu_partial_cmp a b with
    | Some Lt -> "L" | Some Gt -> "G" | Some Eq -> "E" | None -> "N" in
    [ s (a +! b); s (a *! b); s (eu_sub a b); s ((a +! b) +! c); s (a +! (b +! c));
      s ((a *! b) *! c); s (a *! (b *! c)); s (a *! (b +! c)); s ((a *! b) +! (a *! c));
      s o.sr_one; s o.sr_zero; s (eu_join a b); s (eu_meet a b); s (eu_choose a b);
      s (eu_choose a b); cmp; b01 (eu_le a b);
      s (eu_join (eu_join a b) c); s (eu_join a (eu_join b c));
      s (eu_meet (eu_meet a b) c); s (eu_meet a (eu_meet b c));
      s (eu_sub (a +! b) b); s (b *! a); s (a *! o.sr_one); s (a +! o.sr_zero);
      s (a *! o.sr_zero) ]
    @ (if wide then [ s (o.sr_one *! a); s ((b +! c) *! a) ] else [])
let eu_case a b c = String.concat " " (eu_list string_of_pair false a b c)

let rat_case a b c =
  let o = rational_ops in
  let ( +! ) = o.sr_add and ( *! ) = o.sr_mul in
  let s = string_of_qc in
  String.concat " "
    [ s a; s (a +! b); s (a *! b); s ((a +! b) +! c); s (a +! (b +! c));
      s ((a *! b) *! c); s (a *! (b *! c)); s (a *! (b +! c)); s ((a *! b) +! (a *! c));
      s o.sr_one; s o.sr_zero; s (b *! a); s (a *! o.sr_one); s (a +! o.sr_zero);
      s (a *! o.sr_zero) ]

let bool_case a b c =
  let o = bool_ops in
  let ( +! ) = o.sr_add and ( *! ) = o.sr_mul in
  String.concat " "
    (List.map b01
       [ a +! b; a *! b; (a +! b) +! c; a +! (b +! c); (a *! b) *! c; a *! (b *! c);
         a *! (b +! c); (a *! b) +! (a *! c); o.sr_one; o.sr_zero; b *! a; b +! a;
         a *! o.sr_one; a +! o.sr_zero; a *! o.sr_zero ])

(* --- polynomials over an arbitrary coefficient semiring of the model --- *)
let rec take k = function [] -> [] | x :: t -> if k <= 0 then [] else x :: take (k - 1) t
let rec drop k l = if k <= 0 then l else match l with [] -> [] | _ :: t -> drop (k - 1) t

let poly_case (type c) (co : c sr_ops) (conv : string -> c) (sh : c -> string) (toks : string list) : string =
  let maxc = int_of_nat max_coeffs in
  let parse toks =
    match toks with
    | len :: k :: rest ->
      let k = int_of_string k in
      let given = List.map conv (take k rest) in
      let pad = List.init (maxc - k) (fun _ -> co.sr_zero) in
      ({ coeffs = given @ pad; plen = nat_of_int (int_of_string len) }, drop k rest)
    | _ -> failwith "bad poly" in
  let (x, r1) = parse toks in
  let (y, r2) = parse r1 in
  let (z, _) = parse r2 in
  let o = poly_ops co in
  let ( +! ) = o.sr_add and ( *! ) = o.sr_mul in
  let s p = string_of_int (int_of_nat p.plen) ^ ":" ^ String.concat "," (List.map sh p.coeffs) in
  String.concat " "
    [ s (x +! y); s (x *! y); s ((x +! y) +! z); s (x +! (y +! z)); s ((x *! y) *! z);
      s (x *! (y *! z)); s (x *! (y +! z)); s ((x *! y) +! (x *! z)); s (o.sr_one *! x);
      s (x +! o.sr_zero); s (x *! o.sr_zero); s (y *! x); s o.sr_one; s o.sr_zero ]

let n_mod a b = match (zp_ops b).sr_add a N0 with r -> r

let () =
  List.iter (fun line ->
    match split_ws line with
    | id :: ty :: rest ->
      let res =
        try
          (match ty, rest with
           | "ff", [p; a; b; c] -> ff_case (n_of_string p) (n_of_string a) (n_of_string b) (n_of_string c)
           | "bool", [a; b; c] -> bool_case (a = "1") (b = "1") (c = "1")
           | "real", [a; b; c] -> real_case (qc_of_string a) (qc_of_string b) (qc_of_string c)
           | "rat", [a; b; c] -> rat_case (qc_of_string a) (qc_of_string b) (qc_of_string c)
           | "cx", [a; b; c; d; e; f] ->
             cx_case (qc_of_string a, qc_of_string b) (qc_of_string c, qc_of_string d) (qc_of_string e, qc_of_string f)
           | "eu", [a; b; c; d; e; f] ->
             eu_case (qc_of_string a, qc_of_string b) (qc_of_string c, qc_of_string d) (qc_of_string e, qc_of_string f)
           | "realw", [m; a; b; c] -> masked m (real_list dy_of_qc (qc_of_dy a) (qc_of_dy b) (qc_of_dy c))
           | "cxw", [m; a; b; c; d; e; f] ->
             masked m (cx_list dy_of_pair true (qc_of_dy a, qc_of_dy b) (qc_of_dy c, qc_of_dy d) (qc_of_dy e, qc_of_dy f))
           | "euw", [m; a; b; c; d; e; f] ->
             masked m (eu_list dy_of_pair true (qc_of_dy a, qc_of_dy b) (qc_of_dy c, qc_of_dy d) (qc_of_dy e, qc_of_dy f))
           | "poly", "real" :: toks -> poly_case real_ops qc_of_string string_of_qc toks
           | "poly", "ff11" :: toks ->
             let p = n_of_int 11 in
             poly_case (zp_ops p) (fun s -> n_mod (n_of_string s) p) string_of_n toks
           | _ -> "BADCASE")
        with Panic -> "PANIC" in
      print_endline (id ^ " " ^ res)
    | _ -> ()) (read_lines ())
