(* C01 driver: runs the program on the extracted model and prints the unfolding of every pool
   entry (re-read after the last operation).  out: <id> <entry> | <entry> | ...   or  <id> NONE *)
let () =
  List.iter (fun line ->
    match split_ws line with
    | id :: toks ->
      let (order, ops, _) = parse_prog toks in
      (match run_prog all_remembered (bstate_init order) ops with
       | None -> print_endline (id ^ " NONE")
       | Some st ->
         let buf = Buffer.create 256 in
         Buffer.add_string buf id;
         List.iteri (fun k p -> Buffer.add_string buf (if k = 0 then " " else " | "); bdd_str buf p) st.bpool;
         print_endline (Buffer.contents buf))
    | [] -> ()) (read_lines ())
