(* C15 driver: runs the extracted CnfUtil model on the case lines written by the harness.
   case:  <id> <clauses> ; <op> ; <op> ; ...
     clauses: (C <lit>* )*            raw clauses handed to Cnf::new, <lit> = p<k> | n<k>
     ops:     st <name> | new | eval <bits> | sat <tfu> | cond <lit> | wmc <w>* | iter <n>
              | lit <u64> <T|F> | pm <subop>* | h <subop>*
   out:   <id> <result> ; <result> ; ...
   A [None] of the model (= a Rust panic) is printed as PANIC; the state is unchanged afterwards. *)

let p_mod = n_of_string "2305843009213693951"          (* 2^61 - 1 *)
let ff_new v = N.modulo v p_mod                          (* FiniteField::new *)
let radd a b = N.modulo (N.add a b) p_mod                (* ops::Add *)
let rmul a b = N.modulo (N.mul a b) p_mod                (* ops::Mul (no overflow for P < 2^64) *)

let tb b = if b then "T" else "F"
let parse_lit (s : string) : lit =
  (n_of_string (String.sub s 1 (String.length s - 1)), s.[0] = 'p')
let show_lit ((l, b) : lit) = (if b then "p" else "n") ^ string_of_n l
let show_clause c = "(" ^ String.concat "," (List.map show_lit c) ^ ")"
let show_cnf tag (c : cnf) =
  Printf.sprintf "%s nv=%s cls=[%s]" tag (string_of_n c.num_vars)
    (String.concat "" (List.map show_clause c.clauses))
let parse_bits s = if s = "-" then [] else List.init (String.length s) (fun i -> s.[i] = '1')
let parse_tfu s =
  if s = "-" then []
  else List.init (String.length s)
         (fun i -> match s.[i] with 'T' -> Some true | 'F' -> Some false | _ -> None)
let show_bits l = if l = [] then "e" else String.concat "" (List.map (fun b -> if b then "1" else "0") l)
let show_lits l = "{" ^ String.concat "." (List.map show_lit l) ^ "}"
let show_vars l = "{" ^ String.concat "." (List.map string_of_n l) ^ "}"

let split_semi toks =
  let rec go cur acc = function
    | [] -> List.rev (List.rev cur :: acc)
    | ";" :: r -> go [] (List.rev cur :: acc) r
    | t :: r -> go (t :: cur) acc r in
  go [] [] toks

let parse_clauses toks : clause list =
  let close cur acc = match cur with None -> acc | Some c -> List.rev c :: acc in
  let rec go cur acc = function
    | [] -> List.rev (close cur acc)
    | "C" :: r -> go (Some []) (close cur acc) r
    | t :: r -> (match cur with
                 | Some c -> go (Some (parse_lit t :: c)) acc r
                 | None -> failwith "literal before the first C") in
  go None [] toks

let parse_weight s =
  if s = "U" then None
  else match String.split_on_char ':' s with
    | [a; b] -> Some (ff_new (n_of_string a), ff_new (n_of_string b))
    | _ -> failwith "bad weight"

let run_pm subs =
  let m = ref (pm_new N0) in
  let one s =
    match String.split_on_char ':' s with
    | ["new"; n] -> m := pm_new (n_of_string n); "ok"
    | ["fa"; a] -> m := pm_from_assignments (parse_tfu a); "ok"
    | ["ft"; b] -> m := pm_from_total_model (parse_bits b); "ok"
    | "fl" :: n :: rest ->
      let ls = match rest with [] -> "" | x :: _ -> x in
      let lits = List.map parse_lit (List.filter (fun x -> x <> "") (String.split_on_char '.' ls)) in
      (match pm_from_litvec lits (n_of_string n) with
       | None -> "PANIC"
       | Some x -> m := x; "ok")
    | ["s"; v; b] -> m := pm_set !m (n_of_string v) (b = "T"); "ok"
    | ["u"; v] -> m := pm_unset !m (n_of_string v); "ok"
    | ["g"; v] -> (match pm_get !m (n_of_string v) with None -> "N" | Some b -> tb b)
    | ["li"; l] -> tb (pm_lit_implied !m (parse_lit l))
    | ["ln"; l] -> tb (pm_lit_neg_implied !m (parse_lit l))
    | ["is"; v] -> tb (pm_is_set !m (n_of_string v))
    | ["it"] -> show_lits (pm_assignment_iter !m)
    | ["df"; a] -> show_lits (pm_difference !m (pm_from_assignments (parse_tfu a)))
    | ["dump"] -> "T" ^ show_vars (!m).pm_true ^ "F" ^ show_vars (!m).pm_false
    | _ -> failwith ("bad pm subop " ^ s) in
  "pm=" ^ String.concat "," (List.map one subs)

let run_h (c : cnf) subs =
  match cnf_hasher c with
  | None -> "h=OUT_OF_FUEL"
  | Some h0 ->
    let h = ref h0 in
    let step o = match h_step !h o with None -> "PANIC" | Some x -> h := x; "ok" in
    let one s =
      match String.split_on_char ':' s with
      | ["push"] -> step HPush
      | ["pop"] -> step HPop
      | ["d"; l] -> step (HDecide (parse_lit l))
      | ["q"; a] ->
        (match h_hash !h (pm_from_assignments (parse_tfu a)) with
         | None -> "PANIC"
         | Some (x :: _) -> string_of_n x
         | Some [] -> "NOPRIMES")
      | _ -> failwith ("bad h subop " ^ s) in
    "h=" ^ String.concat "," (List.map one subs)

let run_op (c : cnf) op =
  match op with
  | ["st"; name] -> "st=" ^ name
  | ["new"] -> show_cnf "new" c
  | ["eval"; b] ->
    "eval=" ^ (match cnf_eval_impl c (parse_bits b) with None -> "PANIC" | Some v -> tb v)
  | ["sat"; a] -> "sat=" ^ tb (is_sat_partial c (pm_from_assignments (parse_tfu a)))
  | ["cond"; l] -> show_cnf "cond" (condition c (parse_lit l))
  | "wmc" :: ws ->
    "wmc=" ^ (match wmc radd rmul (ff_new N0) (ff_new (Npos XH)) c (List.map parse_weight ws) with
              | None -> "PANIC"
              | Some v -> string_of_n v)
  | ["iter"; n] ->
    let k = nat_of_int (int_of_string n) in
    (match ai_collect (S (Nat.pow (S (S O)) k)) (ai_new k) with
     | None -> "iter=OUT_OF_FUEL"
     | Some l -> "iter=[" ^ String.concat "," (List.map show_bits l) ^ "]")
  | ["lit"; lab; pol] ->
    let d = literal_new (n_of_string lab) (pol = "T") in
    let nd = literal_negated d in
    Printf.sprintf "lit=%s,%s,neg=%s,%s"
      (string_of_n (literal_label d)) (tb (literal_polarity d))
      (string_of_n (literal_label nd)) (tb (literal_polarity nd))
  | "pm" :: subs -> run_pm subs
  | "h" :: subs -> run_h c subs
  | _ -> failwith ("bad op " ^ String.concat " " op)

let () =
  List.iter (fun line ->
    match split_ws line with
    | id :: rest ->
      (match split_semi rest with
       | cl :: ops ->
         let c = cnf_new (parse_clauses cl) in
         let rs = List.map (run_op c) (List.filter (fun o -> o <> []) ops) in
         print_endline (id ^ " " ^ String.concat " ; " rs)
       | [] -> print_endline id)
    | [] -> ()) (read_lines ())
