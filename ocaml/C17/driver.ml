(* C17 driver: runs the extracted models of the parsers / serialisers on the case lines of
   harness/src/bin/c17.rs and prints the same canonical result lines.
   streams:  D (CNF -> to_dimacs -> from_dimacs)   T (DIMACS tokens -> Cnf / LogicalExpr)
             S (s-expression -> mapping, from_sexpr)   B (BDD programs -> node tables)
             X (SDD programs -> node tables)   V (vtree -> serialised tree -> back) *)
let ios = int_of_string
let bool_of_tok s = s <> "0"
let rec take k l = if k = 0 then ([], l) else match l with x :: r -> let (a, b) = take (k - 1) r in (x :: a, b) | [] -> failwith "short"
let z_of_int i = if i = 0 then Z0 else if i > 0 then Zpos (pos_of_int i) else Zneg (pos_of_int (- i))
let int_of_z = function Z0 -> 0 | Zpos p -> int_of_pos p | Zneg p -> - (int_of_pos p)
let soi = string_of_int
let name_of_string (s : string) : n list = List.init (String.length s) (fun i -> n_of_int (Char.code s.[i]))
let string_of_name (l : n list) : string = String.concat "" (List.map (fun c -> String.make 1 (Char.chr (int_of_n c))) l)

(* extracted text (list of ascii = 8 booleans, least significant first) -> OCaml string *)
let char_of_ascii (Ascii (b0, b1, b2, b3, b4, b5, b6, b7)) =
  let b x k = if x then 1 lsl k else 0 in
  Char.chr (b b0 0 + b b1 1 + b b2 2 + b b3 3 + b b4 4 + b b5 5 + b b6 6 + b b7 7)
let ocaml_string (l : ascii list) = String.concat "" (List.map (fun c -> String.make 1 (char_of_ascii c)) l)
let escape (s : string) = String.map (fun c -> if c = '\n' then '|' else if c = ' ' then '_' else c) s

let show_clauses (cs : (n * bool) list list) : string =
  String.concat " " (List.map (fun c ->
    "[" ^ String.concat " " (List.map (fun (v, p) -> (if p then "+" else "-") ^ string_of_n v) c) ^ "]") cs)

let rec show_expr = function
  | ELit (v, p) -> string_of_n v ^ (if p then "+" else "-")
  | ETrue -> "TRUE" | EFalse -> "FALSE"
  | ENot a -> "!(" ^ show_expr a ^ ")"
  | EAnd (a, b) -> "&(" ^ show_expr a ^ "," ^ show_expr b ^ ")"
  | EOr (a, b) -> "|(" ^ show_expr a ^ "," ^ show_expr b ^ ")"
  | EIff (a, b) -> "=(" ^ show_expr a ^ "," ^ show_expr b ^ ")"
  | EXor (a, b) -> "^(" ^ show_expr a ^ "," ^ show_expr b ^ ")"
  | EIte (g, t, e) -> "?(" ^ show_expr g ^ "," ^ show_expr t ^ "," ^ show_expr e ^ ")"
let show_tt (l : bool list) = String.concat "" (List.map (fun b -> if b then "1" else "0") l)

(* ---- D ---- *)
let run_d toks =
  match toks with
  | ncl :: r ->
    let rec clauses k r acc = if k = 0 then List.rev acc else
      (match r with
       | len :: r ->
         let (lits, r) = take (2 * ios len) r in
         let rec pairs = function v :: b :: t -> (n_of_int (ios v), b = "1") :: pairs t | _ -> [] in
         clauses (k - 1) r (pairs lits :: acc)
       | [] -> failwith "bad cnf") in
    let input = clauses (ios ncl) r [] in
    let cnf = cnf_new input in
    let lines = to_dimacs cnf in
    let ls = String.concat " / " (List.map (fun l -> String.concat " " (List.map (fun z -> soi (int_of_z z)) l)) lines) in
    let nv = max 1 (int_of_n cnf.num_vars) and nc = max 1 (List.length input) in
    (* character level: the printed text, lexed by the model of the lexer *)
    let text = to_dimacs_text cnf.clauses in
    (match lex_chars text None with
     | None -> "D LEX_FAIL"
     | Some body ->
       let ts = header (pos_of_int nv) (pos_of_int nc) @ body in
       (match cnf_from_dimacs ts with
        | POk back -> "D " ^ ls ^ " => " ^ show_clauses back.clauses ^ " nv=" ^ string_of_n back.num_vars
                      ^ " text=" ^ escape (ocaml_string text)
        | PErr -> "D " ^ ls ^ " => ERR"
        | PFuel -> "D OUT_OF_FUEL"))
  | [] -> failwith "bad case"

(* ---- T ---- *)
let run_t toks =
  match toks with
  | fmt :: hv :: hc :: nt :: r ->
    let (zs, _) = take (ios nt) r in
    let z = List.map ios zs in
    let m = List.fold_left (fun a x -> max a (abs x)) 0 z in
    let body = lex_ints (List.map z_of_int z) in
    let ts = if fmt = "8" then body else header (pos_of_int (ios hv)) (pos_of_int (ios hc)) @ body in
    let cnf_s = match cnf_from_dimacs ts with
      | POk c -> show_clauses c.clauses ^ " nv=" ^ string_of_n c.num_vars
      | PErr -> "ERR" | PFuel -> "OUT_OF_FUEL" in
    let expr_s = match expr_from_dimacs ts with
      | POk e -> show_expr e ^ " tt=" ^ show_tt (expr_table (n_of_int 1) (nat_of_int m) e)
      | PErr -> "PANIC" | PFuel -> "OUT_OF_FUEL" in
    "T cnf=" ^ cnf_s ^ " expr=" ^ expr_s
  | _ -> failwith "bad case"

(* ---- S ---- *)
let rec parse_sx = function
  | "True" :: r -> (XTrue, r)
  | "False" :: r -> (XFalse, r)
  | "Var" :: s :: r -> (XVar (name_of_string s), r)
  | "Not" :: r -> let (a, r) = parse_sx r in (XNot a, r)
  | "Or" :: r -> let (a, r) = parse_sx r in let (b, r) = parse_sx r in (XOr (a, b), r)
  | "And" :: r -> let (a, r) = parse_sx r in let (b, r) = parse_sx r in (XAnd (a, b), r)
  | "Iff" :: r -> let (a, r) = parse_sx r in let (b, r) = parse_sx r in (XIff (a, b), r)
  | "Xor" :: r -> let (a, r) = parse_sx r in let (b, r) = parse_sx r in (XXor (a, b), r)
  | "Ite" :: r -> let (a, r) = parse_sx r in let (b, r) = parse_sx r in let (c, r) = parse_sx r in (XIte (a, b, c), r)
  | _ -> failwith "bad sexpr"
let run_s toks =
  match toks with
  | _fmt :: r ->
    let (e, _) = parse_sx r in
    let m = variable_mapping e in
    let ms = String.concat "," (List.map (fun (s, i) -> string_of_name s ^ "=" ^ soi (int_of_nat i)) m) in
    let expr_s = match from_sexpr e with
      | Some x -> show_expr x ^ " tt=" ^ show_tt (expr_table (n_of_int 0) (nat_of_int (List.length m)) x)
      | None -> "PANIC" in
    "S map=" ^ ms ^ " expr=" ^ expr_s
  | [] -> failwith "bad case"

(* ---- B ---- *)
let ni s = nat_of_int (ios s)
let vi s = n_of_int (ios s)
let parse_bprog (toks : string list) =
  match toks with
  | nv :: rest ->
    let n = ios nv in
    let (perm, rest) = take n rest in
    let order = List.map ni perm in
    (match rest with
     | _cache :: _tblcap :: rest ->
       let rec ops acc = function
         | "t" :: r -> ops (bo_const true :: acc) r
         | "f" :: r -> ops (bo_const false :: acc) r
         | "v" :: v :: p :: r -> ops (bo_var (vi v) (bool_of_tok p) :: acc) r
         | "n" :: i :: r -> ops (bo_neg (ni i) :: acc) r
         | "a" :: i :: j :: r -> ops (bo_and (ni i) (ni j) :: acc) r
         | "o" :: i :: j :: r -> ops (bo_or (ni i) (ni j) :: acc) r
         | "x" :: i :: j :: r -> ops (bo_xor (ni i) (ni j) :: acc) r
         | "e" :: i :: j :: r -> ops (bo_iff (ni i) (ni j) :: acc) r
         | "i" :: i :: j :: k :: r -> ops (bo_ite (ni i) (ni j) (ni k) :: acc) r
         | "c" :: i :: v :: b :: r -> ops (bo_cond (ni i) (vi v) (bool_of_tok b) :: acc) r
         | "m" :: i :: k :: r ->
           let (lits, r) = take (2 * ios k) r in
           let rec pairs = function v :: b :: t -> (vi v, bool_of_tok b) :: pairs t | _ -> [] in
           ops (bo_cond_model (ni i) (pairs lits) :: acc) r
         | "q" :: i :: v :: r -> ops (bo_exists (ni i) (vi v) :: acc) r
         | "p" :: i :: v :: j :: r -> ops (bo_compose (ni i) (vi v) (ni j) :: acc) r
         | "A" :: k :: r -> let (l, r) = take (ios k) r in ops (bo_and_lst (List.map ni l) :: acc) r
         | "O" :: k :: r -> let (l, r) = take (ios k) r in ops (bo_or_lst (List.map ni l) :: acc) r
         | "N" :: p :: r -> ops (bo_new_var (bool_of_tok p) :: acc) r
         | _ -> List.rev acc in
       (order, ops [] rest)
     | _ -> failwith "bad case")
  | [] -> failwith "empty case"
let show_sptr = function PTrue -> "T" | PFalse -> "F" | PPtr (i, c) -> (if c then "~" else "") ^ soi (int_of_nat i)
(* canonical row numbering (same as the harness): rows renumbered in the order in which a depth-first
   walk from the root completes them, pointers of a row in the row's own order; unreached rows keep
   their relative order at the end.  [ptrs_of row] lists the row's pointers as Some index / None *)
let canon_numbering (rows : 'r array) (ptrs_of : 'r -> int option list) (root : int option) : int array =
  let n = Array.length rows in
  let num = Array.make n (-1) in
  let next = ref 0 in
  let rec visit = function
    | Some j when j < n && num.(j) = -1 ->
      num.(j) <- max_int;
      List.iter visit (ptrs_of rows.(j));
      num.(j) <- !next; incr next
    | _ -> () in
  visit root;
  Array.iteri (fun j x -> if x = -1 then (num.(j) <- !next; incr next)) num;
  num
let order_of_numbering num =
  let idx = Array.init (Array.length num) (fun j -> j) in
  Array.sort (fun a b -> compare num.(a) num.(b)) idx; idx
let run_b toks =
  let (order, ops) = parse_bprog toks in
  match c17_bdd_pool order ops with
  | None -> "B NONE"
  | Some pool ->
    "B " ^ String.concat " | " (List.map (fun p ->
      let (rows, root) = bdd_serialize p in
      let rows = Array.of_list rows in
      let ix = function PPtr (i, _) -> Some (int_of_nat i) | _ -> None in
      let num = canon_numbering rows (fun ((_, l), h) -> [ix l; ix h]) (ix root) in
      let rn = function PPtr (i, c) when int_of_nat i < Array.length num -> PPtr (nat_of_int num.(int_of_nat i), c) | x -> x in
      String.concat " " (List.map (fun j -> let ((v, l), h) = rows.(j) in string_of_n v ^ "," ^ show_sptr (rn l) ^ "," ^ show_sptr (rn h)) (Array.to_list (order_of_numbering num)))
      ^ ";" ^ show_sptr (rn root)) pool)

(* ---- X ---- *)
let rec parse_svt = function
  | "L" :: v :: r -> (sv_leaf (vi v), r)
  | "N" :: r -> let (l, r1) = parse_svt r in let (rt, r2) = parse_svt r1 in (sv_node l rt, r2)
  | _ -> failwith "bad vtree"
let rec parse_sops acc = function
  | [] -> List.rev acc
  | "t" :: r -> parse_sops (so_true :: acc) r
  | "f" :: r -> parse_sops (so_false :: acc) r
  | "v" :: v :: p :: r -> parse_sops (so_var (vi v) (p = "1") :: acc) r
  | "n" :: i :: r -> parse_sops (so_neg (ni i) :: acc) r
  | "a" :: i :: j :: r -> parse_sops (so_and (ni i) (ni j) :: acc) r
  | "o" :: i :: j :: r -> parse_sops (so_or (ni i) (ni j) :: acc) r
  | "x" :: i :: j :: r -> parse_sops (so_xor (ni i) (ni j) :: acc) r
  | "q" :: i :: j :: r -> parse_sops (so_iff (ni i) (ni j) :: acc) r
  | "i" :: i :: j :: k :: r -> parse_sops (so_ite (ni i) (ni j) (ni k) :: acc) r
  | "c" :: i :: v :: b :: r -> parse_sops (so_cond (ni i) (vi v) (b = "1") :: acc) r
  | "e" :: i :: v :: r -> parse_sops (so_exists (ni i) (vi v) :: acc) r
  | "m" :: i :: v :: j :: r -> parse_sops (so_compose (ni i) (vi v) (ni j) :: acc) r
  | _ -> failwith "bad op"
let show_xptr = function
  | XPTrue -> "T" | XPFalse -> "F"
  | XPtr (i, c) -> (if c then "~" else "") ^ soi (int_of_nat i)
  | XPLit (l, p) -> (if p then "" else "!") ^ "v" ^ string_of_n l
let run_x toks =
  match toks with
  | comp :: rest ->
    let (t, r1) = parse_svt rest in
    let ops = match r1 with ";" :: r -> parse_sops [] r | [] -> [] | _ -> failwith "bad case" in
    (match c17_sdd_pool t (comp = "1") ops with
     | Ok pool ->
       "X " ^ String.concat " | " (List.map (fun p ->
         let (rows, root) = sdd_serialize p in
         let rows = Array.of_list rows in
         let ix = function XPtr (i, _) -> Some (int_of_nat i) | _ -> None in
         let num = canon_numbering rows (fun r -> List.concat_map (fun (a, b) -> [ix a; ix b]) r) (ix root) in
         let rn = function XPtr (i, c) when int_of_nat i < Array.length num -> XPtr (nat_of_int num.(int_of_nat i), c) | x -> x in
         if comp = "1" then
           String.concat " " (List.map (fun j ->
             String.concat "+" (List.map (fun (a, b) -> show_xptr (rn a) ^ ":" ^ show_xptr (rn b)) rows.(j))) (Array.to_list (order_of_numbering num)))
           ^ ";" ^ show_xptr (rn root)
         else begin
           (* uncompressed: only the denotation of the table (its value on the 2^7 assignments of
              variables 0..6, bit v of the row index = value of variable v) is compared *)
           let eval a =
             let vals = Array.make (Array.length rows) false in
             let pv = function
               | XPTrue -> true | XPFalse -> false
               | XPLit (l, p) -> (((a lsr (int_of_n l)) land 1) = 1) = p
               | XPtr (i, c) -> let i = int_of_nat i in (if i < Array.length vals then vals.(i) else false) <> c in
             Array.iteri (fun i r -> vals.(i) <- List.exists (fun (p, s) -> pv p && pv s) r) rows;
             pv root in
           "tt:" ^ String.init 128 (fun a -> if eval a then '1' else '0')
         end) pool)
     | OutOfFuel -> "X OUT_OF_FUEL"
     | Panic -> "X PANIC")
  | [] -> failwith "bad case"

(* ---- V ---- *)
let rec parse_vt = function
  | "L" :: v :: r -> (vt_leaf (ni v), r)
  | "N" :: r -> let (l, r1) = parse_vt r in let (rt, r2) = parse_vt r1 in (vt_node l rt, r2)
  | _ -> failwith "bad vtree"
let run_v toks =
  let (t, _) = parse_vt toks in
  (* printed through the serialised form: serialise, read back, print *)
  let rec show_ser = function
    | SVLeaf v -> "L " ^ soi (int_of_nat v)
    | SVNode (l, r) -> "N " ^ show_ser l ^ " " ^ show_ser r in
  let s = vtree_serialize t in
  let back = vtree_deserialize s in
  "V " ^ show_ser (vtree_serialize back)

let () =
  List.iter (fun line ->
    match split_ws line with
    | id :: kind :: rest ->
      let r = (match kind with
        | "D" -> run_d rest | "T" -> run_t rest | "S" -> run_s rest
        | "B" -> run_b rest | "X" -> run_x rest | "V" -> run_v rest
        | _ -> "BAD_CASE") in
      print_endline (id ^ " " ^ r)
    | _ -> ()) (read_lines ())
