(* C06 driver: runs the extracted top-down compiler / conditioning model on the case lines written
   by the harness.
   case:  <id> o <label>* {c <lit>*}          order = pos_to_var (0-based labels), lit = signed
                                              1-based label as in DIMACS
   out:   <id> OUT_OF_FUEL          (never: C06 theorems; would be a disagreement)
        | a leading STALE_CACHE_HIT / GHOST_ERASURE_MISMATCH / NOCACHE_DIFFERS marker if the ghost
          flag of compile_raw_g was cleared, the erasure failed, or the cache-less compiler built
          a different tree (never observed; each would show up as a disagreement)
        | <id> R <unfold r> S <tt r> { C<v><b> <unfold cond r> <unfold cond !r> <tt cond r> <tt cond !r> }
   unfold = canonical unfolding of the standard store's diagram (T, F, (v lo hi), ! = complement);
   tt = truth table over the CNF's variables (assignment a: bit v = value of variable v), which is
   what the semantic-hash store is compared on. *)
let lit_of_tok (t : string) : (nat * bool) =
  let i = int_of_string t in
  if i > 0 then (nat_of_int (i - 1), true) else (nat_of_int (- i - 1), false)

let rec bdd_str buf (p : bdd) : unit =
  match p with
  | BT -> Buffer.add_char buf 'T'
  | BF -> Buffer.add_char buf 'F'
  | BN (c, v, lo, hi) ->
    if c then Buffer.add_char buf '!';
    Buffer.add_char buf '(';
    Buffer.add_string buf (string_of_int (int_of_n v));
    Buffer.add_char buf ' ';
    bdd_str buf lo;
    Buffer.add_char buf ' ';
    bdd_str buf hi;
    Buffer.add_char buf ')'

let tt_str buf (p : bdd) (nv : int) : unit =
  for a = 0 to (1 lsl nv) - 1 do
    Buffer.add_char buf (if den p (fun v -> (a lsr (int_of_n v)) land 1 = 1) then '1' else '0')
  done

let () =
  List.iter (fun line ->
    match split_ws line with
    | id :: "o" :: rest ->
      let rec order acc = function
        | ("c" :: _ | []) as r -> (List.rev acc, r)
        | t :: r -> order (nat_of_int (int_of_string t) :: acc) r in
      let (ord, rest) = order [] rest in
      let rec clauses acc cur = function
        | "c" :: r -> clauses (match cur with None -> acc | Some c -> List.rev c :: acc) (Some []) r
        | [] -> List.rev (match cur with None -> acc | Some c -> List.rev c :: acc)
        | t :: r -> (match cur with
                     | Some c -> clauses acc (Some (lit_of_tok t :: c)) r
                     | None -> failwith "bad case") in
      let raw = clauses [] None rest in
      let nv = int_of_nat (cnf_num_vars (cnf_new raw)) in
      let buf = Buffer.create 1024 in
      Buffer.add_string buf id;
      (* ghost-instrumented compiler (same result by the erasure theorem, re-checked here), its
         "no stale cache hit" flag (always true by C06_no_stale_cache_hit, re-checked here), and the
         cache-less compiler of C06_topdown_correct_nocache, whose tree must be the same *)
      (match compile_raw_g ord true raw with
       | Some (rg, fl) ->
         (match compile_raw false ord false true raw with
          | Some r when bdd_eqb r rg -> ()
          | _ -> Buffer.add_string buf " GHOST_ERASURE_MISMATCH");
         if not fl then Buffer.add_string buf " STALE_CACHE_HIT";
         (match compile_raw false ord false false raw with
          | Some r0 when bdd_eqb r0 rg -> ()
          | _ -> Buffer.add_string buf " NOCACHE_DIFFERS")
       | None -> ());
      (match compile_raw false ord false true raw with
       | None -> Buffer.add_string buf " OUT_OF_FUEL"
       | Some r ->
         let nr = neg r in
         Buffer.add_string buf " R "; bdd_str buf r;
         Buffer.add_string buf " S "; tt_str buf r nv;
         for v = 0 to nv - 1 do
           List.iter (fun b ->
             let cr = condition false r (n_of_int v) b in
             let cn = condition false nr (n_of_int v) b in
             Buffer.add_string buf (Printf.sprintf " C%d%d " v (if b then 1 else 0));
             bdd_str buf cr; Buffer.add_char buf ' ';
             bdd_str buf cn; Buffer.add_char buf ' ';
             tt_str buf cr nv; Buffer.add_char buf ' ';
             tt_str buf cn nv) [false; true]
         done);
      print_endline (Buffer.contents buf)
    | _ -> ()) (read_lines ())
