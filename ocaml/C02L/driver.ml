(* C02L driver: runs the extracted store-level model of RobddBuilder::get_or_insert
   (Model/Store.v on top of Model/RobinHood.v) on the case lines written by the harness.
   case:  <id> <cap> (<var> <lo> <hi>)*      lo/hi: T | F | r<k> (k-th earlier result) | n<k> (its negation)
   out:   <id> per request R<cls> / C<cls> (constructor of the returned pointer, cls = index of the
          first request that returned the same arena id), then n=<arena length>, then " | " and the
          unfolding of every result separated by ';' (a string longer than 60 characters is printed
          as #<length>:<fnv1a-64>).
   The history is run twice, with H(x) = x mod 7 and H(x) = x: the line must not depend on the hash
   function; if it does the driver prints HASHDEP and both lines (a disagreement with the
   implementation's line).  UNSTABLE / NOUNFOLD mark results of the model that the theorems exclude. *)

exception Overflow
exception Fuel

let fnv (s : string) : int64 =
  let d = ref 0xcbf29ce484222325L in
  String.iter (fun ch -> d := Int64.mul (Int64.logxor !d (Int64.of_int (Char.code ch))) 0x100000001b3L) s;
  !d

let rec tree_str (b : Buffer.t) (t : bdd) : unit =
  match t with
  | BT -> Buffer.add_char b 'T'
  | BF -> Buffer.add_char b 'F'
  | BN (c, v, l, h) ->
    if c then Buffer.add_char b '~';
    Buffer.add_char b '(';
    Buffer.add_string b (string_of_n v);
    Buffer.add_char b ',';
    tree_str b l;
    Buffer.add_char b ',';
    tree_str b h;
    Buffer.add_char b ')'

let show (s : string) : string =
  if String.length s <= 60 then s else Printf.sprintf "#%d:%Lx" (String.length s) (fnv s)

let unfold_str (a : n list) (p : sptr) : string =
  match unfold a p with
  | None -> "NOUNFOLD"
  | Some t -> let b = Buffer.create 64 in tree_str b t; Buffer.contents b

let parse_arg (s : string) : arg =
  if s = "T" then AT else if s = "F" then AF
  else
    let k = nat_of_int (int_of_string (String.sub s 1 (String.length s - 1))) in
    match s.[0] with 'r' -> AR k | 'n' -> AN k | _ -> failwith "bad argument"

let history (h : n -> n) (c : nat) (reqs : (n * arg * arg) list) : string =
  let t = ref (new_table c) in
  let pool = ref [] in   (* oldest first *)
  let first : (int, int) Hashtbl.t = Hashtbl.create 16 in
  let buf = Buffer.create 64 in
  let unfs = ref [] in
  try
    List.iteri (fun k (v, lo, hi) ->
      match get_or_insert_s h !t v (resolve !pool lo) (resolve !pool hi) with
      | Ok (p, t') ->
        t := t';
        pool := !pool @ [p];
        let (ctor, id) = match p with
          | SReg id -> ("R", int_of_nat id) | SCompl id -> ("C", int_of_nat id)
          | STrue -> ("T", -1) | SFalse -> ("F", -1) in
        let cls = match Hashtbl.find_opt first id with Some c -> c | None -> Hashtbl.add first id k; k in
        Buffer.add_string buf (Printf.sprintf "%s%d " ctor cls);
        unfs := unfold_str (!t).arena p :: !unfs
      | PslOverflow -> raise Overflow
      | OutOfFuel -> raise Fuel) reqs;
    let unfs = List.rev !unfs in
    (* the earlier results still unfold to the same trees in the final arena *)
    let final = List.map (fun p -> unfold_str (!t).arena p) !pool in
    let stable = List.for_all2 (fun a b -> a = b) unfs final in
    Buffer.add_string buf (Printf.sprintf "n=%d | " (List.length (!t).arena));
    Buffer.add_string buf (String.concat ";" (List.map show unfs));
    if not stable then Buffer.add_string buf " UNSTABLE";
    String.trim (Buffer.contents buf)
  with Overflow -> "PANIC" | Fuel -> "OUTOFFUEL"

let () =
  List.iter (fun line ->
    match split_ws line with
    | id :: cap :: rest ->
      let c = nat_of_int (int_of_string cap) in
      let rec go acc = function
        | v :: lo :: hi :: r -> go ((n_of_string v, parse_arg lo, parse_arg hi) :: acc) r
        | [] -> List.rev acc
        | _ -> failwith "bad case" in
      let reqs = go [] rest in
      let l1 = history hash_mod7 c reqs in
      let l2 = history hash_id c reqs in
      if l1 = l2 then print_endline (id ^ " " ^ l1)
      else print_endline (id ^ " HASHDEP " ^ l1 ^ " /// " ^ l2)
    | _ -> ()) (read_lines ())
