(* C05 driver: compiles the case's formula with the extracted model and prints the unfolding. *)
let rec parse_ex = function
  | "L" :: v :: p :: r -> (ELit (n_of_int (ios v), bool_of_tok p), r)
  | "T" :: r -> (ETrue, r)
  | "F" :: r -> (EFalse, r)
  | "N" :: r -> let (a, r) = parse_ex r in (ENot a, r)
  | "A" :: r -> let (a, r) = parse_ex r in let (b, r) = parse_ex r in (EAnd (a, b), r)
  | "O" :: r -> let (a, r) = parse_ex r in let (b, r) = parse_ex r in (EOr (a, b), r)
  | "I" :: r -> let (a, r) = parse_ex r in let (b, r) = parse_ex r in (EIff (a, b), r)
  | "X" :: r -> let (a, r) = parse_ex r in let (b, r) = parse_ex r in (EXor (a, b), r)
  | "K" :: r -> let (a, r) = parse_ex r in let (b, r) = parse_ex r in let (c, r) = parse_ex r in (EIte (a, b, c), r)
  | _ -> failwith "bad expr"

let parse_cnf toks =
  match toks with
  | ncl :: r ->
    let rec clauses k r acc = if k = 0 then (List.rev acc, r) else
      (match r with
       | len :: r ->
         let (lits, r) = take (2 * ios len) r in
         let rec pairs = function v :: b :: t -> (n_of_int (ios v), bool_of_tok b) :: pairs t | _ -> [] in
         clauses (k - 1) r (pairs lits :: acc)
       | [] -> failwith "bad cnf") in
    clauses (ios ncl) r []
  | [] -> failwith "bad cnf"

let () =
  List.iter (fun line ->
    match split_ws line with
    | id :: nv :: rest ->
      let n = ios nv in
      let (perm, rest) = take n rest in
      let order = List.map (fun s -> nat_of_int (ios s)) perm in
      let lv = level_of order in
      let fuel = nat_of_int (n + 1) in
      let comp e = match compile_e lv all_remembered fuel e cst_empty with
        | Some (r, _) -> let b = Buffer.create 64 in bdd_str b r; Buffer.contents b
        | None -> "NONE" in
      (match rest with
       | _cache :: _cap :: "C" :: r ->
         let (cnf, r) = parse_cnf r in
         let lits = (match r with
           | "A" :: _k :: r -> let rec pairs = function v :: b :: t -> (n_of_int (ios v), bool_of_tok b) :: pairs t | _ -> [] in pairs r
           | _ -> []) in
         print_endline (id ^ " " ^ comp (cnf_expr cnf) ^ " | " ^ comp (cnf_expr_under lits cnf))
       | _cache :: _cap :: ("E" | "P") :: r -> let (e, _) = parse_ex r in print_endline (id ^ " " ^ comp e)
       | _cache :: _cap :: "D" :: _ek :: r ->
         let (_, r) = parse_cnf r in
         (match r with "P" :: r -> let (e, _) = parse_ex r in print_endline (id ^ " " ^ comp e) | _ -> print_endline (id ^ " NONE"))
       | _ -> print_endline (id ^ " NONE"))
    | _ -> ()) (read_lines ())
