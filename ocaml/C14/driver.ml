(* C14 driver: runs the extracted VarOrder / VTree / DTree models on the case lines written by
   harness/src/bin/c14.rs (see the header there for the case syntax) and prints the same canonical
   result line.  P = the model returned None (= the implementation panics). *)
let ioi = int_of_string
let nat s = nat_of_int (ioi s)
let nats l = List.map nat l
let soi n = string_of_int (int_of_nat n)
let set_str l = "[" ^ String.concat "," (List.map soi l) ^ "]"

(* ---------- O ---------- *)
let run_order toks =
  let start, rest =
    match toks with
    | "lin" :: n :: r -> (linear_order (nat n), r)
    | "new" :: k :: r ->
      let k = ioi k in
      let rec take i l acc = if i = 0 then (List.rev acc, l) else take (i - 1) (List.tl l) (List.hd l :: acc) in
      let (vs, r) = take k r [] in
      (order_new (nats vs), r)
    | _ -> failwith "bad O case" in
  match start with
  | None -> "P"
  | Some o ->
    let o = ref o in
    let buf = Buffer.create 64 in
    let add s = Buffer.add_char buf ' '; Buffer.add_string buf s in
    let on = function None -> "P" | Some n -> soi n in
    let ob = function None -> "P" | Some true -> "T" | Some false -> "F" in
    let oo = function None -> "P" | Some None -> "N" | Some (Some n) -> soi n in
    let item s = if s = "-" then None else Some (nat s) in
    let rec go = function
      | [] -> ()
      | "nl" :: r -> let (o', l) = new_last !o in o := o'; add ("nl=" ^ soi l); go r
      | "get" :: v :: r -> add (on (get !o (nat v))); go r
      | "lvl" :: p :: r -> add (on (var_at_level !o (nat p))); go r
      | "lt" :: a :: b :: r -> add (ob (lt !o (nat a) (nat b))); go r
      | "lte" :: a :: b :: r -> add (ob (lte !o (nat a) (nat b))); go r
      | "ab" :: v :: r -> add (oo (above !o (nat v))); go r
      | "be" :: v :: r -> add (oo (below !o (nat v))); go r
      | "fe" :: a :: b :: c :: r ->
        add (on (first_essential (fun (x : nat option) -> x) !o (item a) (item b) (item c))); go r
      | "last" :: r -> add (on (last_var !o)); go r
      | "nv" :: r -> add ("nv=" ^ soi (num_vars !o)); go r
      | "dump" :: r -> add (set_str (!o).var_to_pos ^ "|" ^ set_str (!o).pos_to_var); go r
      | _ -> failwith "bad op" in
    go rest;
    String.trim (Buffer.contents buf)

(* ---------- V ---------- *)
let rec vt_str = function
  | VLeaf v -> soi v
  | VNode (l, r) -> "(" ^ vt_str l ^ " " ^ vt_str r ^ ")"

let parse_shape toks =
  let rec go = function
    | "n" :: r -> let (l, r1) = go r in let (rt, r2) = go r1 in (VNode (l, rt), r2)
    | s :: r -> (VLeaf (nat (String.sub s 1 (String.length s - 1))), r)
    | [] -> failwith "bad shape" in
  fst (go toks)

let rec after_t = function "t" :: r -> r | _ :: r -> after_t r | [] -> failwith "no t"

let run_vtree toks =
  let tree =
    match toks with
    | "t" :: r -> Some (parse_shape r)
    | "rl" :: r -> right_linear (nats r)
    | "ll" :: r -> left_linear (nats r)
    | "es" :: k :: r -> even_split (nats r) (nat k)
    | "rs" :: r -> Some (parse_shape (after_t r))
    | _ -> failwith "bad V case" in
  match tree with
  | None -> "P"
  | Some t ->
    let shape = vt_str t in
    (match manager_new t with
     | None -> "t=" ^ shape ^ " P"
     | Some m ->
       let sz = int_of_nat (size t) in
       let idxs = List.init sz (fun i -> nat_of_int i) in
       let leaves = flatten t in
       let on = function None -> "P" | Some n -> soi n in
       let vi = String.concat "," (List.map (fun l -> soi l ^ ":" ^ on (var_index m l)) leaves) in
       let sub = String.concat "," (List.map (fun i -> match mgr_vtree m i with Some s -> vt_str s | None -> "P") idxs) in
       let lca = Buffer.create 64 and pr = Buffer.create 64 in
       List.iter (fun a -> List.iter (fun b ->
           Buffer.add_string lca (on (mgr_lca m a b) ^ ".");
           Buffer.add_char pr (if is_prime_index a b then '1' else '0')) idxs) idxs;
       Printf.sprintf "t=%s n=%s sz=%d vi=%s sub=%s lca=%s pr=%s" shape (soi (mgr_num_vars m)) sz vi sub
         (Buffer.contents lca) (Buffer.contents pr))

(* ---------- C ---------- *)
(* Cnf::new: stable sort by label, then dedup of adjacent equal literals (glue, trusted) *)
let normalise (c : int list) : (nat * bool) list =
  let lits = List.map (fun l -> (abs l - 1, l > 0)) c in
  let sorted = List.stable_sort (fun (a, _) (b, _) -> compare a b) lits in
  let rec dedup = function
    | x :: (y :: _ as r) -> if x = y then dedup r else x :: dedup r
    | l -> l in
  List.map (fun (v, p) -> (nat_of_int v, p)) (dedup sorted)

let lits_str (c : (nat * bool) list) =
  "[" ^ String.concat "," (List.map (fun (v, p) -> (if p then "" else "-") ^ string_of_int (int_of_nat v + 1)) c) ^ "]"

let rec dt_str = function
  | DLeaf (cl, c, v) -> Printf.sprintf "(L %s c%s v%s)" (lits_str cl) (set_str c) (set_str v)
  | DNode (l, r, c, v) -> Printf.sprintf "(N c%s v%s %s %s)" (set_str c) (set_str v) (dt_str l) (dt_str r)

let run_cnf toks =
  let rec split acc = function ";" :: r -> (List.rev acc, r) | x :: r -> split (x :: acc) r | [] -> failwith "no ;" in
  let (kind, cl_toks) = split [] toks in
  let rec clauses cur acc = function
    | [] -> List.rev acc
    | "0" :: r -> clauses [] (List.rev cur :: acc) r
    | x :: r -> clauses (ioi x :: cur) acc r in
  let cls = List.map normalise (clauses [] [] cl_toks) in
  let nv = cnf_num_vars cls in
  let head = "nv=" ^ soi nv in
  let order =
    match kind with
    | ["lin"] -> linear_order nv
    | "perm" :: _ :: p | "force" :: _ :: p -> order_new (nats p)
    | ["mf"] -> min_fill_order pick_minfill cls
    | ["forcep"] ->
      (* the guard of the model does not depend on the key oracle: any oracle gives None *)
      (match force_order (fun _ _ -> true) (fun _ _ _ -> O) cls O with
       | None -> None
       | Some _ -> failwith "model: force_order does not fail here")
    | _ -> failwith "bad kind" in
  match order with
  | None -> head ^ " ord=P"
  | Some o ->
    let head = head ^ " ord=" ^ set_str o.pos_to_var in
    (match from_cnf cls o.pos_to_var with
     | None -> head ^ " dt=P"
     | Some d ->
       let vt = match from_dtree d with None -> "-" | Some v -> vt_str v in
       Printf.sprintf "%s dt=%s cw=%s vt=%s" head (dt_str d) (soi (cutwidth d)) vt)

(* ---------- W: deep vtrees.  Only the queried pairs go through mgr_lca (one query costs
   O(size^2) in the nat-based model; the harness oracle checks all pairs) ---------- *)
let run_deep toks =
  let k, r = (match toks with k :: r -> (ioi k, r) | [] -> failwith "bad W case") in
  let rec take i l acc =
    if i = 0 then (List.rev acc, l)
    else (match l with a :: b :: r -> take (i - 1) r ((ioi a, ioi b) :: acc) | _ -> failwith "bad W queries") in
  let (queries, src) = take k r [] in
  let tree =
    match src with
    | "t" :: r -> Some (parse_shape r)
    | "rl" :: r -> right_linear (nats r)
    | "ll" :: r -> left_linear (nats r)
    | "cnf" :: ";" :: cl_toks ->
      let rec clauses cur acc = function
        | [] -> List.rev acc
        | "0" :: r -> clauses [] (List.rev cur :: acc) r
        | x :: r -> clauses (ioi x :: cur) acc r in
      let cls = List.map normalise (clauses [] [] cl_toks) in
      (match linear_order (cnf_num_vars cls) with
       | None -> None
       | Some o -> (match from_cnf cls o.pos_to_var with None -> None | Some d -> from_dtree d))
    | _ -> failwith "bad W source" in
  match tree with
  | None -> "P"
  | Some t ->
    let shape = vt_str t in
    (match manager_new t with
     | None -> "t=" ^ shape ^ " P"
     | Some m ->
       let sz = int_of_nat (size t) in
       let leaves = flatten t in
       let on = function None -> "P" | Some n -> soi n in
       let vi = String.concat "," (List.map (fun l -> soi l ^ ":" ^ on (var_index m l)) leaves) in
       let q = Buffer.create 1024 in
       List.iter (fun (a, b) ->
           Buffer.add_string q (Printf.sprintf "%d,%d:%s:%c;" a b (on (mgr_lca m (nat_of_int a) (nat_of_int b)))
                                  (if is_prime_index (nat_of_int a) (nat_of_int b) then '1' else '0'))) queries;
       Printf.sprintf "t=%s n=%s sz=%d vi=%s q=%s" shape (soi (mgr_num_vars m)) sz vi (Buffer.contents q))

let () =
  List.iter (fun line ->
    match split_ws line with
    | id :: "W" :: r -> print_endline (id ^ " " ^ run_deep r)
    | id :: "O" :: r -> print_endline (id ^ " " ^ run_order r)
    | id :: "V" :: r -> print_endline (id ^ " " ^ run_vtree r)
    | id :: "C" :: r -> print_endline (id ^ " " ^ run_cnf r)
    | _ -> ()) (read_lines ())
