(* C02 driver: identity class (index of the first structurally equal entry) of every pool entry
   of the model; growth cases: the set model never duplicates. *)
let () =
  List.iter (fun line ->
    match split_ws line with
    | id :: "G" :: _off :: count :: _ -> print_endline (id ^ " dups=0 nodes=" ^ count)
    | id :: toks ->
      let (order, ops, _) = parse_prog toks in
      (match run_prog all_remembered (bstate_init order) ops with
       | None -> print_endline (id ^ " NONE")
       | Some st ->
         let arr = Array.of_list st.bpool in
         let cls = Array.mapi (fun i p ->
           let r = ref i in
           for j = i - 1 downto 0 do if bdd_eqb arr.(j) p then r := j done; !r) arr in
         print_endline (String.concat " " (id :: Array.to_list (Array.map string_of_int cls))))
    | [] -> ()) (read_lines ())
