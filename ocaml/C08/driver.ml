(* C08 driver: program, then smooth one pool entry over the first n levels; prints the
   unfolding of the smoothed diagram and its counts under the given integer weights / unit weights *)
let () =
  List.iter (fun line ->
    match split_ws line with
    | id :: toks ->
      let (order, ops, rest) = parse_prog toks in
      (match rest, run_prog all_remembered (bstate_init order) ops with
       | "S" :: target :: nsm :: ws, Some st ->
         let p = List.nth st.bpool (ios target) in
         let s = smooth_m (var_at st.bord) p (nat_of_int (ios nsm)) in
         let wa = Array.of_list (List.map n_of_string ws) in
         let wlo v = let i = 2 * int_of_n v in if i < Array.length wa then wa.(i) else N0 in
         let whi v = let i = 2 * int_of_n v + 1 in if i < Array.length wa then wa.(i) else N0 in
         let buf = Buffer.create 256 in
         Buffer.add_string buf id; Buffer.add_char buf ' ';
         bdd_str buf s;
         Buffer.add_string buf (" wmc=" ^ string_of_n (wmc_N wlo whi s));
         Buffer.add_string buf (" mc=" ^ string_of_n (wmc_N (fun _ -> n_of_int 1) (fun _ -> n_of_int 1) s));
         print_endline (Buffer.contents buf)
       | _ -> print_endline (id ^ " NONE"))
    | [] -> ()) (read_lines ())
