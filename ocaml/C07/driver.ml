(* C07 driver: counts of one pool entry (or its negation) with the model's fold over N:
   finite fields = count over N with residues as weights, reduced mod P at the end (the ring
   homomorphism); integer weights; Boolean evaluation. *)
let big s = n_of_string s
let golden = big "210306068529402873165736369884012333109"  (* 0x9E3779B97F4A7C15F39CC0605CEDC835 *)
let hi_of_code code p =
  let one = n_of_int 1 and two = n_of_int 2 in
  match code with
  | 0 -> N0 | 1 -> one | 2 -> N.modulo two p
  | 3 -> N.sub p one | 4 -> N.sub p two
  | 5 -> N.div (N.sub p one) two | 6 -> N.div (N.add p one) two
  | c -> N.modulo (N.mul (n_of_int c) (N.modulo golden p)) p

let () =
  List.iter (fun line ->
    match split_ws line with
    | id :: toks ->
      let (order, ops, rest) = parse_prog toks in
      (match rest, run_prog all_remembered (bstate_init order) ops with
       | "W" :: target :: ng :: ws, Some st ->
         let total = List.length st.bord in
         let p0 = List.nth st.bpool (ios target) in
         let p = if ng <> "0" then neg p0 else p0 in
         let wa = Array.of_list ws in
         let code v = ios wa.(int_of_n v) in
         let buf = Buffer.create 256 in
         Buffer.add_string buf id;
         List.iteri (fun i pr ->
           let whi v = hi_of_code (code v) pr in
           let wlo v = N.modulo (N.sub (N.add pr (n_of_int 1)) (whi v)) pr in
           let r = N.modulo (wmc_N wlo whi p) pr in
           Buffer.add_string buf (Printf.sprintf " ff%d=%s" i (string_of_n r))) exported_primes;
         let ilo v = n_of_int (ios wa.(total + 2 * int_of_n v)) and ihi v = n_of_int (ios wa.(total + 2 * int_of_n v + 1)) in
         Buffer.add_string buf (" int=" ^ string_of_n (wmc_N ilo ihi p));
         let a v = wa.(3 * total + int_of_n v) <> "0" in
         Buffer.add_string buf (" ev=" ^ (if evaluate_m p a then "1" else "0"));
         print_endline (Buffer.contents buf)
       | _ -> print_endline (id ^ " NONE"))
    | [] -> ()) (read_lines ())
