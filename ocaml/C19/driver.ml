(* C19 driver: the model of the tools' pipelines.  Formula variables are their name ranks
   0..m-1; weight-only variable j gets label m+j (any numbering gives the same counts, theorem
   cli_counts_order_independent). *)
let rec parse_ex = function
  | "L" :: v :: p :: r -> (ELit (n_of_int (ios v), bool_of_tok p), r)
  | "T" :: r -> (ETrue, r)
  | "F" :: r -> (EFalse, r)
  | "N" :: r -> let (a, r) = parse_ex r in (ENot a, r)
  | "A" :: r -> let (a, r) = parse_ex r in let (b, r) = parse_ex r in (EAnd (a, b), r)
  | "O" :: r -> let (a, r) = parse_ex r in let (b, r) = parse_ex r in (EOr (a, b), r)
  | "I" :: r -> let (a, r) = parse_ex r in let (b, r) = parse_ex r in (EIff (a, b), r)
  | "X" :: r -> let (a, r) = parse_ex r in let (b, r) = parse_ex r in (EXor (a, b), r)
  | "K" :: r -> let (a, r) = parse_ex r in let (b, r) = parse_ex r in let (c, r) = parse_ex r in (EIte (a, b, c), r)
  | _ -> failwith "bad expr"

let table_hex (p : bdd) (nv : int) : string =
  let buf = Buffer.create 64 in
  let n = 1 lsl nv in
  let a = ref 0 in
  while !a < n do
    let d = ref 0 in
    for i = 0 to 3 do
      if !a + i < n then begin
        let asg = !a + i in
        if den p (fun v -> (asg lsr (int_of_n v)) land 1 = 1) then d := !d lor (1 lsl i)
      end
    done;
    Buffer.add_string buf (Printf.sprintf "%x" !d);
    a := !a + 4
  done;
  Buffer.contents buf

(* var_to_pos from the list of name indices in position order *)
let order_of (labels_of_name : (int * int) list) (names_in_pos : int list) (n : int) : nat list =
  let pos = Array.make n 0 in
  List.iteri (fun p nm -> pos.(List.assoc nm labels_of_name) <- p) names_in_pos;
  Array.to_list (Array.map nat_of_int pos)
let linear n = List.init n nat_of_int

let () =
  List.iter (fun line ->
    match split_ws line with
    | id :: (("M" | "F") as kind) :: m :: rest ->
      let m = ios m in
      let (fv, rest) = take m rest in
      let (extra, rest) = if kind = "M" then (match rest with k :: r -> take (ios k) r | [] -> ([], [])) else ([], rest) in
      let total = m + List.length extra in
      let labels = List.mapi (fun i nm -> (ios nm, i)) (fv @ extra) in
      (match rest with
       | "E" :: r ->
         let (e, r) = parse_ex r in
         let (wts, r) = if kind = "M" then (match r with "W" :: r -> take (3 * total) r | _ -> ([], r)) else ([], r) in
         let o = (match r with
           | "O" :: "1" :: names -> order_of labels (List.map ios (fst (take total names))) total
           | _ -> linear total) in
         if kind = "M" then begin
           let wa = Array.of_list wts in
           let w k v = let i = int_of_n v in if wa.(3 * i) = "0" then N0 else n_of_string wa.(3 * i + k) in
           match cli_counts o e (w 1) (w 2) with
           | Some (mc, wm) -> print_endline (id ^ " mc=" ^ string_of_n mc ^ " wmc=" ^ string_of_n wm)
           | None -> print_endline (id ^ " NONE")
         end else begin
           match cli_compile o e with
           | Some r -> print_endline (id ^ " " ^ table_hex r m)
           | None -> print_endline (id ^ " NONE")
         end
       | _ -> print_endline (id ^ " NONE"))
    | id :: "C" :: _ok :: nv :: rest ->
      let nv = ios nv in
      (match rest with
       | ncl :: r ->
         let rec clauses k r acc = if k = 0 then List.rev acc else
           (match r with
            | len :: r ->
              let (lits, r) = take (2 * ios len) r in
              let rec pairs = function v :: b :: t -> (n_of_int (ios v), bool_of_tok b) :: pairs t | _ -> [] in
              clauses (k - 1) r (pairs lits :: acc)
            | [] -> failwith "bad cnf") in
         let cnf = clauses (ios ncl) r [] in
         (match cli_compile (linear nv) (cnf_expr cnf) with
          | Some r -> print_endline (id ^ " " ^ table_hex r nv)
          | None -> print_endline (id ^ " NONE"))
       | [] -> print_endline (id ^ " NONE"))
    | _ -> ()) (read_lines ())
