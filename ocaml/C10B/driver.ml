(* C10B driver: runs the queries on the STATEFUL model (one scratch state threaded through all
   queries: bdd_fold, DDNNF fold, count_nodes, decision-DNNF condition) and prints the answers;
   "DIRTY" is appended if some node of a pool entry (or of a result) still has scratch data; "PLAIN?"
   if the stateful bdd_fold differs from the plain recursion (cannot happen: C10B_main).
   case: <BDD program> Q <store> <query>*  (the store only selects whose unique table holds the
   nodes in the implementation; the model's node identity is structural either way)
   queries:  b <ty> <i> <neg> <a> <b> <m> <lo> <hi> | w <i> <neg> (<lo> <hi>)*total | n <i> <neg>
             | d <i> <neg> <var> <val> *)
let () =
  List.iter (fun line ->
    match split_ws line with
    | id :: toks ->
      let (order, ops, rest) = parse_prog toks in
      (match rest, run_prog all_remembered (bstate_init order) ops with
       | "Q" :: _store :: qs, Some st ->
         let total = List.length st.bord in
         let pool = Array.of_list st.bpool in
         let s = ref cempty_N in
         let outs = ref [] in
         let dirty_on p = List.exists (fun n -> !s n <> None) (nodes p) in
         let dirty extra = Array.exists dirty_on pool || List.exists dirty_on extra in
         let push ?(extra = []) a = outs := (if dirty extra then a ^ " DIRTY" else a) :: !outs in
         let get i ng = let p = pool.(ios i) in if bool_of_tok ng then neg p else p in
         let nn x = n_of_int (ios x) in
         let rec go = function
           | "b" :: ty :: i :: ng :: a :: b :: m :: lo :: hi :: r ->
             let f = lin_f (nn a) (nn b) (nn m) in
             let p = get i ng in
             let (x, s') = bfold_public_N (nn ty) f (nn lo) (nn hi) p !s in
             s := s';
             let pl = bfold_plain_N f (nn lo) (nn hi) false p in
             push (string_of_n x ^ (if x = pl then "" else " PLAIN?")); go r
           | "w" :: i :: ng :: r ->
             let (ws, r) = take (2 * total) r in
             let wa = Array.of_list ws in
             let wlo v = n_of_string wa.(2 * int_of_n v) and whi v = n_of_string wa.(2 * int_of_n v + 1) in
             let (x, s') = cfold_public_N (n_of_int 2) wlo whi (get i ng) !s in
             s := s'; push (string_of_n x); go r
           | "n" :: i :: ng :: r ->
             let (k, s') = ccount_public_N (get i ng) !s in
             s := s'; push (string_of_int (int_of_nat k)); go r
           | "d" :: i :: ng :: v :: b :: r ->
             let (res, s') = dnnf_condition_N (get i ng) (nn v) (bool_of_tok b) !s in
             s := s';
             let buf = Buffer.create 64 in bdd_str buf res; push ~extra:[res] (Buffer.contents buf); go r
           | [] -> ()
           | _ -> failwith "bad query" in
         go qs;
         print_endline (id ^ " " ^ String.concat " ; " (List.rev !outs))
       | _ -> print_endline (id ^ " NONE"))
    | [] -> ()) (read_lines ())
