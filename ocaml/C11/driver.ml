(* C11 driver: the Coq model of semantic hashing on the BDDs the model's builder produces for
   the case's program under the three orders, fed with the weights printed in the case.
   Build mode Checked = the harness profile (overflow-checks on); a model panic prints PANIC.
   SDD half: the same program run on the Coq model of the SDD builder (C03, compression on) under
   the case's explicit vtrees (VT and, when present, SV), hashed by Model/SddSemHash.v:
   sdd_hash_m (DDNNFPtr::semantic_hash), sdd_cached_hashes (SddPtr::cached_semantic_hash).
   Semantic half: the same program on the Coq model of SemanticSddBuilder (Model/SddSemBuilder.v). *)
let primes3 = [prime_U32_TINY; prime_U32_SMALL; prime_U64_LARGEST]
let sv = function Some x -> string_of_n x | None -> "PANIC"
let rec drop_until tok = function [] -> [] | x :: r -> if x = tok then r else drop_until tok r
let safe_op = function
  | OConst _ | OVar _ | ONeg _ | OAnd _ | OOr _ | OCond _ | OExists _ | OAndLst _ | OOrLst _ -> true
  | _ -> false

(* the pointer hash handed to the SemanticSddBuilder model: the extracted [semb_hash p w]
   (= shash P w of Model/SddSemBuilder.v), memoised per case on the pointer's unfolding -- the
   model recomputes a pointer's hash at every comparison, the Rust code caches it on the node *)
module SddTbl = Hashtbl.Make (struct
  type t = sdd
  let equal (a : sdd) (b : sdd) = (a = b)
  let hash (a : sdd) = Hashtbl.hash_param 100 400 a
end)
let memo_hash p w =
  let tbl = SddTbl.create 1024 in
  fun (x : sdd) ->
    match SddTbl.find_opt tbl x with
    | Some h -> h
    | None -> let h = semb_hash p w x in SddTbl.add tbl x h; h

(* vtree ::= L <var> | N <vtree> <vtree> *)
let rec parse_vtree = function
  | "L" :: v :: r -> (VLeaf (n_of_int (ios v)), r)
  | "N" :: r -> let (l, r) = parse_vtree r in let (rt, r) = parse_vtree r in (VNode (l, rt), r)
  | _ -> failwith "vtree"

(* the BDD program language on the SDD builder model, as the harness executes it (exec_sdd):
   and_lst / or_lst are left folds of and / or from PtrTrue / PtrFalse; a pool index that is out of
   range reads PtrFalse.  Returns the model program and, per case operation, the index of its
   result in the model's pool. *)
let sdd_prog (ops : bop list) : sop list * int array =
  let out = ref [] and n = ref 0 in
  let push o = out := o :: !out; incr n; !n - 1 in
  let idx = Array.make (List.length ops) 0 in
  List.iteri (fun k o ->
    let g i = let i = int_of_nat i in if i < k then nat_of_int idx.(i) else nat_of_int !n in
    idx.(k) <- (match o with
      | OConst b -> push (if b then so_true else so_false)
      | OVar (v, b) -> push (so_var v b)
      | ONeg i -> push (so_neg (g i))
      | OAnd (i, j) -> let a = g i in let b = g j in push (so_and a b)
      | OOr (i, j) -> let a = g i in let b = g j in push (so_or a b)
      | OXor (i, j) -> let a = g i in let b = g j in push (so_xor a b)
      | OIff (i, j) -> let a = g i in let b = g j in push (so_iff a b)
      | OIte (i, j, l) -> let a = g i in let b = g j in let c = g l in push (so_ite a b c)
      | OCond (i, v, b) -> push (so_cond (g i) v b)
      | OExists (i, v) -> push (so_exists (g i) v)
      | OAndLst l -> let acc = ref (push so_true) in
        List.iter (fun i -> let x = g i in acc := push (so_and (nat_of_int !acc) x)) l; !acc
      | OOrLst l -> let acc = ref (push so_false) in
        List.iter (fun i -> let x = g i in acc := push (so_or (nat_of_int !acc) x)) l; !acc
      | _ -> failwith "operation not in the C11 case language")) ops;
  (List.rev !out, idx)

(* the four SDD fields for one vtree; [None] when the builder model does not return a pool *)
let sdd_fields vt ops target ng (qs : string list) ws =
  let (sops, idx) = sdd_prog ops in
  match sdd_pool_of (sdd_run_prog vt true sops) with
  | None -> None
  | Some mpool ->
    let at i = List.nth mpool idx.(i) in
    let tp = let p = at (ios target) in if ng <> "0" then sneg p else p in
    let rec qlist = function i :: g :: t -> (let p = at (ios i) in if g <> "0" then sneg p else p) :: qlist t | _ -> [] in
    let queries = qlist qs in
    let per f = String.concat "," (List.map2 f primes3 ws) in
    let sh = per (fun p w -> sv (sdd_hash_m Checked p w tp)) in
    let sn = per (fun p w -> sv (sdd_hash_m Checked p w (sneg tp))) in
    let lst = function Some (l, _) -> String.concat "," (List.map string_of_n l) | None -> "PANIC" in
    let sc = String.concat ";" (List.map2 (fun p w -> lst (sdd_cached_hashes Checked p w queries [])) primes3 ws) in
    let all = List.mapi (fun k _ -> at k) ops in
    (* the harness asks the queries first and then every pool entry on the same node caches *)
    let sp = (match sdd_cached_hashes Checked prime_U64_LARGEST (List.nth ws 2) (queries @ all) [] with
      | Some (l, _) ->
        let rec drop k l = if k = 0 then l else drop (k - 1) (List.tl l) in
        String.concat "," (List.map string_of_n (drop (List.length queries) l))
      | None -> "PANIC") in
    Some (sh, sn, sc, sp)

let () =
  List.iter (fun line ->
    match split_ws line with
    (* soak cases (one long-lived hash-identified builder, 10^5 operations) are oracle-only: the
       Coq model of the semantic builder cannot follow them; the harness prints the same token *)
    | id :: "SOAK" :: _ -> print_endline (id ^ " soak=oracle-only")
    | id :: toks ->
      let (order0, ops, rest) = parse_prog toks in
      let nv = List.length order0 in
      (match rest with
       | "H" :: target :: ng :: _cnf :: r ->
         let (o1s, r) = take nv r in
         let (o2s, r) = take nv r in
         let ord l = List.map (fun s -> nat_of_int (ios s)) l in
         let (vt, r) = (match r with "VT" :: r -> parse_vtree r | _ -> failwith "VT expected") in
         let r = drop_until "Q" r in
         (match r with
          | split :: k :: r ->
            let _ = split in
            let (qs, r) = take (2 * ios k) r in
            let r = (match r with "W" :: r -> r | _ -> failwith "W expected") in
            let rec weights r n = if n = 0 then ([], r) else
                match r with l :: h :: t -> let (ws, t') = weights t (n - 1) in ((n_of_string l, n_of_string h) :: ws, t')
                           | _ -> failwith "weights" in
            let (w0, r) = weights r nv in
            let (w1, r) = weights r nv in
            let (w2, r) = weights r nv in
            let ws = [w0; w1; w2] in
            let vts = (match r with "SV" :: r -> [vt; fst (parse_vtree r)] | _ -> [vt]) in
            let pool_of o = match run_prog all_remembered (bstate_init o) ops with Some st -> Some st.bpool | None -> None in
            (match pool_of order0, pool_of (ord o1s), pool_of (ord o2s) with
             | Some pl0, Some pl1, Some pl2 ->
               let tgt pl = let p = List.nth pl (ios target) in if ng <> "0" then neg p else p in
               let buf = Buffer.create 512 in
               Buffer.add_string buf id;
               let ok = List.for_all2 (fun p w -> weights_ok p w) primes3 ws in
               Buffer.add_string buf (if ok then " w=ok h=" else " w=BAD h=");
               List.iteri (fun i (p, w) ->
                 if i > 0 then Buffer.add_char buf ';';
                 Buffer.add_string buf (String.concat "," (List.map (fun pl -> sv (hash_m Checked p w (tgt pl))) [pl0; pl1; pl2])))
                 (List.combine primes3 ws);
               Buffer.add_string buf " n=";
               Buffer.add_string buf (String.concat ";" (List.map2 (fun p w -> sv (hash_m Checked p w (neg (tgt pl0)))) primes3 ws));
               let rec qlist = function i :: g :: t -> (let p = List.nth pl0 (ios i) in if g <> "0" then neg p else p) :: qlist t | _ -> [] in
               let queries = qlist qs in
               let res = List.map2 (fun p w -> cached_hashes Checked p w queries []) primes3 ws in
               Buffer.add_string buf " c=";
               Buffer.add_string buf (String.concat ";" (List.map (function
                 | Some (l, _) -> String.concat "," (List.map string_of_n l) | None -> "PANIC") res));
               Buffer.add_string buf " mis=";
               let nxt i = ((i + 1) mod 3) in
               Buffer.add_string buf (String.concat ";" (List.mapi (fun i r ->
                 match r with
                 | Some (_, s) ->
                   (match cached_hash Checked (List.nth primes3 (nxt i)) (List.nth ws (nxt i)) (tgt pl0) s with
                    | Some (h, _) -> string_of_n h | None -> "PANIC")
                 | None -> "PANIC") res));
               (* sem= / semn=: the Coq model of SemanticSddBuilder (Model/SddSemBuilder.v) run on the
                  same program under the case's vtree VT in the 64-bit field: the hash of every pool
                  entry, the number of stored nodes and of get_or_insert requests *)
               Buffer.add_string buf " sem=";
               if List.for_all safe_op ops then begin
                 let (sops, idx) = sdd_prog ops in
                 let hf = memo_hash prime_U64_LARGEST w2 in
                 match semb_run vt prime_U64_LARGEST hf (nat_of_int 64) sops with
                 | None -> Buffer.add_string buf "NONE semn=*"
                 | Some (mpool, (nn, nr)) ->
                   let at i = List.nth mpool idx.(i) in
                   Buffer.add_string buf (String.concat "," (List.mapi (fun k _ -> string_of_n (semb_hash prime_U64_LARGEST w2 (at k))) ops));
                   ignore (nn, nr); Buffer.add_string buf " semn=*"
               end else Buffer.add_string buf "- semn=*";
               let fs = List.map (fun v -> sdd_fields v ops target ng qs ws) vts in
               let col name f = Buffer.add_string buf (" " ^ name ^ "=" ^ String.concat "|" (List.map (function Some x -> f x | None -> "NONE") fs)) in
               col "sh" (fun (a, _, _, _) -> a); col "sn" (fun (_, b, _, _) -> b);
               col "sc" (fun (_, _, c, _) -> c); col "sp" (fun (_, _, _, d) -> d);
               print_endline (Buffer.contents buf)
             | _ -> print_endline (id ^ " NONE"))
          | _ -> print_endline (id ^ " BADCASE"))
       | _ -> print_endline (id ^ " BADCASE"))
    | [] -> ()) (read_lines ())
