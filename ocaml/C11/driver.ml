(* C11 driver: the Coq model of semantic hashing on the BDDs the model's builder produces for
   the case's program under the three orders, fed with the weights printed in the case.
   Build mode Checked = the harness profile (overflow-checks on); a model panic prints PANIC. *)
let primes3 = [prime_U32_TINY; prime_U32_SMALL; prime_U64_LARGEST]
let sv = function Some x -> string_of_n x | None -> "PANIC"
let rec drop_until tok = function [] -> [] | x :: r -> if x = tok then r else drop_until tok r
let safe_op = function
  | OConst _ | OVar _ | ONeg _ | OAnd _ | OOr _ | OCond _ | OExists _ | OAndLst _ | OOrLst _ -> true
  | _ -> false

let () =
  List.iter (fun line ->
    match split_ws line with
    | id :: toks ->
      let (order0, ops, rest) = parse_prog toks in
      let nv = List.length order0 in
      (match rest with
       | "H" :: target :: ng :: _cnf :: r ->
         let (o1s, r) = take nv r in
         let (o2s, r) = take nv r in
         let ord l = List.map (fun s -> nat_of_int (ios s)) l in
         let r = drop_until "Q" r in
         (match r with
          | split :: k :: r ->
            let _ = split in
            let (qs, r) = take (2 * ios k) r in
            let r = (match r with "W" :: r -> r | _ -> failwith "W expected") in
            let rec weights r n = if n = 0 then ([], r) else
                match r with l :: h :: t -> let (ws, t') = weights t (n - 1) in ((n_of_string l, n_of_string h) :: ws, t')
                           | _ -> failwith "weights" in
            let (w0, r) = weights r nv in
            let (w1, r) = weights r nv in
            let (w2, _) = weights r nv in
            let ws = [w0; w1; w2] in
            let pool_of o = match run_prog all_remembered (bstate_init o) ops with Some st -> Some st.bpool | None -> None in
            (match pool_of order0, pool_of (ord o1s), pool_of (ord o2s) with
             | Some pl0, Some pl1, Some pl2 ->
               let tgt pl = let p = List.nth pl (ios target) in if ng <> "0" then neg p else p in
               let buf = Buffer.create 512 in
               Buffer.add_string buf id;
               let ok = List.for_all2 (fun p w -> weights_ok p w) primes3 ws in
               Buffer.add_string buf (if ok then " w=ok h=" else " w=BAD h=");
               List.iteri (fun i (p, w) ->
                 if i > 0 then Buffer.add_char buf ';';
                 Buffer.add_string buf (String.concat "," (List.map (fun pl -> sv (hash_m Checked p w (tgt pl))) [pl0; pl1; pl2])))
                 (List.combine primes3 ws);
               Buffer.add_string buf " n=";
               Buffer.add_string buf (String.concat ";" (List.map2 (fun p w -> sv (hash_m Checked p w (neg (tgt pl0)))) primes3 ws));
               let rec qlist = function i :: g :: t -> (let p = List.nth pl0 (ios i) in if g <> "0" then neg p else p) :: qlist t | _ -> [] in
               let queries = qlist qs in
               let res = List.map2 (fun p w -> cached_hashes Checked p w queries []) primes3 ws in
               Buffer.add_string buf " c=";
               Buffer.add_string buf (String.concat ";" (List.map (function
                 | Some (l, _) -> String.concat "," (List.map string_of_n l) | None -> "PANIC") res));
               Buffer.add_string buf " mis=";
               let nxt i = ((i + 1) mod 3) in
               Buffer.add_string buf (String.concat ";" (List.mapi (fun i r ->
                 match r with
                 | Some (_, s) ->
                   (match cached_hash Checked (List.nth primes3 (nxt i)) (List.nth ws (nxt i)) (tgt pl0) s with
                    | Some (h, _) -> string_of_n h | None -> "PANIC")
                 | None -> "PANIC") res));
               Buffer.add_string buf " sem=";
               if List.for_all safe_op ops then
                 Buffer.add_string buf (String.concat "," (List.map (fun p -> sv (hash_m Checked prime_U64_LARGEST w2 p)) pl0))
               else Buffer.add_char buf '-';
               print_endline (Buffer.contents buf)
             | _ -> print_endline (id ^ " NONE"))
          | _ -> print_endline (id ^ " BADCASE"))
       | _ -> print_endline (id ^ " BADCASE"))
    | [] -> ()) (read_lines ())
