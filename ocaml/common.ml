(* Hand-written glue shared by every driver (textually appended after the extracted model):
   conversions between OCaml ints / decimal strings and the extracted nat, positive, N. *)
let rec nat_of_int i = if i <= 0 then O else S (nat_of_int (i - 1))
let int_of_nat n = let rec go acc = function O -> acc | S m -> go (acc + 1) m in go 0 n
let rec pos_of_int i =
  if i <= 1 then XH else if i land 1 = 0 then XO (pos_of_int (i lsr 1)) else XI (pos_of_int (i lsr 1))
let n_of_int i = if i <= 0 then N0 else Npos (pos_of_int i)
let rec int_of_pos = function XH -> 1 | XO p -> 2 * int_of_pos p | XI p -> 2 * int_of_pos p + 1
let int_of_n = function N0 -> 0 | Npos p -> int_of_pos p

(* big numbers: decimal string <-> positive, by schoolbook halving / doubling on digit arrays *)
let n_of_string (s : string) : n =
  let d = Array.init (String.length s) (fun i -> Char.code s.[i] - 48) in
  let is_zero () = Array.for_all (fun x -> x = 0) d in
  let halve () = (* d := d / 2, returns remainder *)
    let r = ref 0 in
    Array.iteri (fun i x -> let v = !r * 10 + x in d.(i) <- v / 2; r := v mod 2) d; !r in
  let rec bits () = if is_zero () then [] else let b = halve () in b :: bits () in
  let bl = bits () in
  let rec build = function
    | [] -> None
    | [1] -> Some XH
    | b :: r -> (match build r with
                 | None -> if b = 1 then Some XH else None
                 | Some p -> Some (if b = 1 then XI p else XO p)) in
  match build bl with None -> N0 | Some p -> Npos p

let string_of_n (x : n) : string =
  match x with
  | N0 -> "0"
  | Npos p ->
    (* collect bits msb first *)
    let rec bits acc = function XH -> 1 :: acc | XO q -> bits (0 :: acc) q | XI q -> bits (1 :: acc) q in
    (* bits acc builds lsb-first reversed: we want msb first *)
    let bl = bits [] p in
    let digits = ref [0] in (* little endian decimal *)
    let double_add b =
      let carry = ref b in
      digits := List.map (fun x -> let v = 2 * x + !carry in carry := v / 10; v mod 10) !digits;
      if !carry > 0 then digits := !digits @ [!carry] in
    List.iter double_add bl;
    String.concat "" (List.rev_map string_of_int !digits)

let split_ws (s : string) : string list =
  List.filter (fun x -> x <> "") (String.split_on_char ' ' (String.trim s))

let read_lines () : string list =
  let rec go acc = match input_line stdin with l -> go (l :: acc) | exception End_of_file -> List.rev acc in
  go []

(* per-case evaluation budget for models without sharing (tree layer): [with_budget id f] runs f;
   if it needs more than DRIVER_CASE_SECONDS (default 20) or overflows the stack, the line
   "<id> MODEL_TIMEOUT" is printed instead, which ./check counts as a skipped case *)
exception Case_timeout
let case_budget = try int_of_string (Sys.getenv "DRIVER_CASE_SECONDS") with _ -> 20
let with_budget (id : string) (f : unit -> unit) : unit =
  Sys.set_signal Sys.sigalrm (Sys.Signal_handle (fun _ -> raise Case_timeout));
  ignore (Unix.alarm case_budget);
  (try f (); ignore (Unix.alarm 0) with
   | Case_timeout -> print_endline (id ^ " MODEL_TIMEOUT")
   | Stack_overflow | Out_of_memory -> ignore (Unix.alarm 0); print_endline (id ^ " MODEL_TIMEOUT"))
