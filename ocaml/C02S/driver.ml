(* C02S driver: runs the extracted robin-hood table model (fixed = true: the code as it is now)
   on the case lines written by the harness.
   case:  <id> <cap|D> (i <elem> <hash> | g <hash>)*   |   <id> S <cap> <lo> <hi>
   out:   <id> per call: index of the first call that returned the same arena id (N for a
          get_by_hash that found nothing), then n=<num_nodes> h=<hits> order=<classes of the stored
          ids in slot order>;  PANIC when the model
          reports the u8 psl overflow;  sweep: n=<histories> digest=<fnv1a-64 of the lines> *)
type op = I of n * n | G of n

exception Overflow
exception Fuel

let history (c : nat) (ops : op list) : string =
  let t = ref (new_table c) in
  let buf = Buffer.create 64 in
  let first : (int, int) Hashtbl.t = Hashtbl.create 16 in
  try
    List.iteri (fun k o ->
      match o with
      | I (e, h) ->
        (match get_or_insert_by_hash true !t h e false with
         | Ok (id, t') ->
           t := t';
           let id = int_of_nat id in
           let cls = match Hashtbl.find_opt first id with Some c -> c | None -> Hashtbl.add first id k; k in
           Buffer.add_string buf (Printf.sprintf " %d" cls)
         | PslOverflow -> raise Overflow
         | OutOfFuel -> raise Fuel)
      | G h ->
        (match get_by_hash !t h with
         | Ok (r, t') ->
           t := t';
           (match r with
            | None -> Buffer.add_string buf " N"
            | Some id ->
              (* several distinct elements under this hash so far: which one is met first depends
                 on the slot layout; only "one of them" is compared (see the harness) *)
              let distinct = List.sort_uniq compare (List.filteri (fun j _ -> j < k) (List.filter_map (function I (e, h') when h' = h -> Some e | _ -> None) (List.filteri (fun j _ -> j < k) ops))) in
              if List.length distinct >= 2 then Buffer.add_string buf " A" else
              (match Hashtbl.find_opt first (int_of_nat id) with
               | Some c -> Buffer.add_string buf (Printf.sprintf " %d" c)
               | None -> Buffer.add_string buf " ?"))
         | PslOverflow -> raise Overflow
         | OutOfFuel -> raise Fuel)) ops;
    Buffer.add_string buf (Printf.sprintf " n=%d h=%d order=" (int_of_nat (num_nodes !t)) (int_of_nat (!t).hits));
    let ord = List.filter_map (fun s -> match s.sid with
        | Some id -> Some (match Hashtbl.find_opt first (int_of_nat id) with Some c -> string_of_int c | None -> "?")
        | None -> None) (!t).tbl in
    (* compared as a set: the slot layout is not fixed by the property *)
    let key x = match int_of_string_opt x with Some k -> k | None -> max_int in
    let ord = List.stable_sort (fun a b -> compare (key a) (key b)) ord in
    Buffer.add_string buf (String.concat "," ord);
    String.trim (Buffer.contents buf)
  with Overflow -> "PANIC" | Fuel -> "OUTOFFUEL"

let fnv (d : int64 ref) (s : string) =
  String.iter (fun ch ->
    d := Int64.mul (Int64.logxor !d (Int64.of_int (Char.code ch))) 0x100000001b3L) (s ^ "\n")

let sweep cap lo hi =
  let d = ref 0xcbf29ce484222325L in
  let count = ref 0 in
  let c = nat_of_int cap in
  for code = lo to hi - 1 do
    let hs = Array.init 4 (fun e -> n_of_int ((code lsr (2 * e)) land 3)) in
    for l = 0 to 6 do
      for m = 0 to (1 lsl (2 * l)) - 1 do
        let ins = List.init l (fun j -> let e = (m lsr (2 * j)) land 3 in I (n_of_int e, hs.(e))) in
        let ops = ins @ List.init 4 (fun h -> G (n_of_int h)) in
        fnv d (history c ops);
        incr count
      done
    done
  done;
  Printf.sprintf "n=%d digest=%Lx" !count !d

let () =
  List.iter (fun line ->
    match split_ws line with
    | id :: "S" :: cap :: lo :: hi :: [] ->
      print_endline (id ^ " " ^ sweep (int_of_string cap) (int_of_string lo) (int_of_string hi))
    | id :: cap :: rest ->
      let c = if cap = "D" then nat_of_int (int_of_n default_size) else nat_of_int (int_of_string cap) in
      let rec go acc = function
        | "i" :: e :: h :: r -> go (I (n_of_string e, n_of_string h) :: acc) r
        | "g" :: h :: r -> go (G (n_of_string h) :: acc) r
        | [] -> List.rev acc
        | _ -> failwith "bad case" in
      print_endline (id ^ " " ^ history c (go [] rest))
    | _ -> ()) (read_lines ())
