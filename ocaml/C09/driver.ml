(* C09 driver: runs the extracted SATSolver model on the case lines written by the harness.
   case:  <id> {c <lit>...} {d <lit> | p}        lit = signed 1-based label, as in DIMACS
   out:   <id> NONE                              (SATSolver::new returned None)
        | <id> <state> {<res> <state>}           res = SAT | UNSAT | UNK | PANIC | POP
   state = [<T|F|- per variable>;<difference_iter, sorted>;<is_sat 0|1>;<cur_hash>] *)
let lit_of_tok (t : string) : (nat * bool) =
  let i = int_of_string t in
  if i > 0 then (nat_of_int (i - 1), true) else (nat_of_int (- i - 1), false)

let state_string (s : solver) : string =
  let nv = int_of_nat s.s_nvars in
  let m = (top_state s).ss_model in
  let ms = String.init nv (fun v ->
    match pm_get m (nat_of_int v) with
    | Some true -> 'T' | Some false -> 'F' | None -> '-') in
  (* is_set must agree with the model string (checked, not printed twice) *)
  for v = 0 to nv - 1 do
    if sat_is_set s (nat_of_int v) <> (ms.[v] <> '-') then failwith "is_set/model mismatch"
  done;
  let diff = List.map (fun (v, b) -> let i = int_of_nat v + 1 in if b then i else - i)
      (sat_difference_iter s) in
  let diff = List.sort (fun a b -> compare (abs a, a) (abs b, b)) diff in
  Printf.sprintf "[%s;%s;%d;%s]" ms (String.concat "," (List.map string_of_int diff))
    (if sat_is_sat s then 1 else 0) (string_of_n (sat_cur_hash s))

let () =
  List.iter (fun line ->
    match split_ws line with
    | id :: rest ->
      (* clauses *)
      let rec clauses acc cur = function
        | "c" :: r -> clauses (match cur with None -> acc | Some c -> List.rev c :: acc) (Some []) r
        | (("d" | "p") :: _ | []) as r ->
          (List.rev (match cur with None -> acc | Some c -> List.rev c :: acc), r)
        | t :: r -> (match cur with
                     | Some c -> clauses acc (Some (lit_of_tok t :: c)) r
                     | None -> failwith "bad case") in
      let (raw, ops) = clauses [] None rest in
      let buf = Buffer.create 256 in
      Buffer.add_string buf id;
      (match solver_of_raw false raw with
       | NewOutOfFuel -> Buffer.add_string buf " OUT_OF_FUEL"
       | NewNone -> Buffer.add_string buf " NONE"
       | NewSome s0 ->
         let s = ref s0 in
         Buffer.add_char buf ' '; Buffer.add_string buf (state_string !s);
         let rec go = function
           | "d" :: l :: r ->
             let (s', res) = sat_decide false !s (lit_of_tok l) in
             s := s';
             Buffer.add_string buf (match res with
                 | DSAT -> " SAT " | DUNSAT -> " UNSAT " | DUnknown -> " UNK "
                 | DOutOfFuel -> " OUT_OF_FUEL " | DPanic -> " PANIC ");
             Buffer.add_string buf (state_string !s); go r
           | "p" :: r ->
             s := sat_pop !s;
             Buffer.add_string buf " POP "; Buffer.add_string buf (state_string !s); go r
           | [] -> ()
           | _ -> failwith "bad case" in
         go ops);
      print_endline (Buffer.contents buf)
    | _ -> ()) (read_lines ())
