(* C09 driver: runs the extracted SATSolver model on the case lines written by the harness.
   case:  <id> {c <lit>...} {d <lit> | p}        lit = signed 1-based label, as in DIMACS
   out:   <id> NONE                              (SATSolver::new returned None)
        | <id> <state> {<res> <state>}           res = SAT | UNSAT | UNK | PANIC | POP
   state = [<T|F|- per variable>;<difference_iter, sorted>;<is_sat 0|1>;<cur_hash>]
   LARGE family (272-480 variables), case kind `u`:  <id> u {c ...} {d <lit> | p}
   only the unit-propagation layer of the model is run ([cnf_new], [up_new], [up_decide] with
   [up_fuel], [pm_difference] -- exactly what [sat_new]/[sat_decide]/[sat_pop]/[sat_difference_iter]
   do with them, minus the residual hash and the satisfied set, whose model costs
   O(assigned literals x clauses^2)):
   out:   <id> U NONE | <id> U <state'> {<res'> <state'>}   state' = [<model>;<difference_iter>]
          res' = OK (SAT or UNK) | UNSAT | PANIC | POP *)
let lit_of_tok (t : string) : (nat * bool) =
  let i = int_of_string t in
  if i > 0 then (nat_of_int (i - 1), true) else (nat_of_int (- i - 1), false)

let hash_classes : (string * int) list ref = ref []
let state_string (s : solver) : string =
  let nv = int_of_nat s.s_nvars in
  let m = (top_state s).ss_model in
  let ms = String.init nv (fun v ->
    match pm_get m (nat_of_int v) with
    | Some true -> 'T' | Some false -> 'F' | None -> '-') in
  (* is_set must agree with the model string (checked, not printed twice) *)
  for v = 0 to nv - 1 do
    if sat_is_set s (nat_of_int v) <> (ms.[v] <> '-') then failwith "is_set/model mismatch"
  done;
  let diff = List.map (fun (v, b) -> let i = int_of_nat v + 1 in if b then i else - i)
      (sat_difference_iter s) in
  let diff = List.sort (fun a b -> compare (abs a, a) (abs b, b)) diff in
  (* the hash as an equivalence class within the case (#k = k-th distinct value seen), as the
     harness prints it: the property fixes when hashes are equal, not their values *)
  let h = string_of_n (sat_cur_hash s) in
  let k = (match List.assoc_opt h !hash_classes with
    | Some k -> k
    | None -> let k = List.length !hash_classes in hash_classes := (h, k) :: !hash_classes; k) in
  Printf.sprintf "[%s;%s;%d;#%d]" ms (String.concat "," (List.map string_of_int diff))
    (if sat_is_sat s then 1 else 0) k

let diff_string (d : (nat * bool) list) : string =
  let diff = List.map (fun (v, b) -> let i = int_of_nat v + 1 in if b then i else - i) d in
  let diff = List.sort (fun a b -> compare (abs a, a) (abs b, b)) diff in
  String.concat "," (List.map string_of_int diff)

(* unit-propagation layer only: the stack of partial models is kept here as sat_new / sat_decide /
   sat_pop keep it (new: [state; empty]; decide: push on success, nothing on UNSAT; watches persist) *)
let light_state nv (stack : pmodel list) : string =
  let m = List.hd stack in
  (* the partial model is a list of option bool of length nvars (pm_new / pm_set keep the length);
     read it in one pass instead of nvars calls of pm_get *)
  if List.length m <> nv then failwith "model length";
  let ms = String.concat "" (List.map (function
    | Some true -> "T" | Some false -> "F" | None -> "-") m) in
  let d = match stack with t :: t2 :: _ -> pm_difference t t2 | _ -> [] in
  Printf.sprintf "[%s;%s]" ms (diff_string d)

let run_light id raw ops =
  let buf = Buffer.create 4096 in
  Buffer.add_string buf id; Buffer.add_string buf " U";
  let cls = cnf_new raw in
  let nvars = cnf_num_vars cls in
  let nv = int_of_nat nvars in
  let fuel = up_fuel nvars cls in
  (match up_new false cls nvars fuel with
   | UOutOfFuel -> Buffer.add_string buf " OUT_OF_FUEL"
   | URes (_, None) -> Buffer.add_string buf " NONE"
   | URes (w0, Some state) ->
     let w = ref w0 in
     let stack = ref [state; pm_new nvars] in
     Buffer.add_char buf ' '; Buffer.add_string buf (light_state nv !stack);
     let rec go = function
       | "d" :: l :: r ->
         let a = lit_of_tok l in
         if int_of_nat (fst a) >= nv then Buffer.add_string buf " PANIC "
         else (match up_decide false cls fuel !w (List.hd !stack) a with
             | UOutOfFuel -> Buffer.add_string buf " OUT_OF_FUEL "
             | URes (w', None) -> w := w'; Buffer.add_string buf " UNSAT "
             | URes (w', Some m') -> w := w'; stack := m' :: !stack; Buffer.add_string buf " OK ");
         Buffer.add_string buf (light_state nv !stack); go r
       | "p" :: r ->
         stack := List.tl !stack;
         Buffer.add_string buf " POP "; Buffer.add_string buf (light_state nv !stack); go r
       | [] -> ()
       | _ -> failwith "bad case" in
     go ops);
  print_endline (Buffer.contents buf)

let () =
  List.iter (fun line ->
    match split_ws line with
    | id :: rest ->
      hash_classes := [];
      let light, rest = (match rest with "u" :: r -> (true, r) | r -> (false, r)) in
      (* clauses *)
      let rec clauses acc cur = function
        | "c" :: r -> clauses (match cur with None -> acc | Some c -> List.rev c :: acc) (Some []) r
        | (("d" | "p") :: _ | []) as r ->
          (List.rev (match cur with None -> acc | Some c -> List.rev c :: acc), r)
        | t :: r -> (match cur with
                     | Some c -> clauses acc (Some (lit_of_tok t :: c)) r
                     | None -> failwith "bad case") in
      let (raw, ops) = clauses [] None rest in
      if light then run_light id raw ops else
      let buf = Buffer.create 256 in
      Buffer.add_string buf id;
      (match solver_of_raw false raw with
       | NewOutOfFuel -> Buffer.add_string buf " OUT_OF_FUEL"
       | NewNone -> Buffer.add_string buf " NONE"
       | NewSome s0 ->
         let s = ref s0 in
         Buffer.add_char buf ' '; Buffer.add_string buf (state_string !s);
         let rec go = function
           | "d" :: l :: r ->
             let (s', res) = sat_decide false !s (lit_of_tok l) in
             s := s';
             Buffer.add_string buf (match res with
                 | DSAT -> " SAT " | DUNSAT -> " UNSAT " | DUnknown -> " UNK "
                 | DOutOfFuel -> " OUT_OF_FUEL " | DPanic -> " PANIC ");
             Buffer.add_string buf (state_string !s); go r
           | "p" :: r ->
             s := sat_pop !s;
             Buffer.add_string buf " POP "; Buffer.add_string buf (state_string !s); go r
           | [] -> ()
           | _ -> failwith "bad case" in
         go ops);
      print_endline (Buffer.contents buf)
    | _ -> ()) (read_lines ())
