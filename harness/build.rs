// Generates the property dispatch table from the files present in src/props (cNN.rs), so that
// adding a property needs no edit of a shared file.
use std::io::Write;
fn main() {
    let mut names: Vec<String> = std::fs::read_dir("src/props")
        .unwrap()
        .filter_map(|e| e.ok())
        .filter_map(|e| e.file_name().into_string().ok())
        .filter(|n| n.ends_with(".rs") && n != "mod.rs")
        .map(|n| n.trim_end_matches(".rs").to_string())
        .collect();
    names.sort();
    let out = std::path::Path::new(&std::env::var("OUT_DIR").unwrap()).join("props_gen.rs");
    let mut f = std::fs::File::create(out).unwrap();
    for n in &names {
        writeln!(f, "#[path = \"{}/src/props/{}.rs\"] pub mod {};", env!("CARGO_MANIFEST_DIR"), n, n).unwrap();
    }
    writeln!(f, "pub fn lookup(name: &str) -> Option<Prop> {{ match name.to_lowercase().as_str() {{").unwrap();
    for n in &names {
        writeln!(f, "  \"{n}\" => Some({n}::PROP),").unwrap();
    }
    writeln!(f, "  _ => None }} }}").unwrap();
    println!("cargo:rerun-if-changed=src/props");
}
