//! Shared harness infrastructure: deterministic PRNG, statistics, outcome type.
use std::collections::BTreeMap;

/// splitmix64 / xorshift: every random choice of a run derives from VERIF_SEED.
#[derive(Clone)]
pub struct Rng(pub u64);
impl Rng {
    pub fn new(seed: u64) -> Rng {
        let mut r = Rng(seed ^ 0x9E3779B97F4A7C15);
        r.next();
        r
    }
    pub fn next(&mut self) -> u64 {
        self.0 = self.0.wrapping_add(0x9E3779B97F4A7C15);
        let mut z = self.0;
        z = (z ^ (z >> 30)).wrapping_mul(0xBF58476D1CE4E5B9);
        z = (z ^ (z >> 27)).wrapping_mul(0x94D049BB133111EB);
        z ^ (z >> 31)
    }
    pub fn below(&mut self, n: u64) -> u64 {
        if n == 0 {
            0
        } else {
            self.next() % n
        }
    }
    pub fn range(&mut self, lo: usize, hi: usize) -> usize {
        lo + self.below((hi - lo + 1) as u64) as usize
    }
    pub fn coin(&mut self) -> bool {
        self.next() & 1 == 1
    }
    pub fn chance(&mut self, num: u64, den: u64) -> bool {
        self.below(den) < num
    }
    pub fn pick<'a, T>(&mut self, xs: &'a [T]) -> &'a T {
        &xs[self.below(xs.len() as u64) as usize]
    }
    pub fn shuffle<T>(&mut self, xs: &mut [T]) {
        for i in (1..xs.len()).rev() {
            let j = self.below((i + 1) as u64) as usize;
            xs.swap(i, j);
        }
    }
    pub fn perm(&mut self, n: usize) -> Vec<usize> {
        let mut v: Vec<usize> = (0..n).collect();
        self.shuffle(&mut v);
        v
    }
}

#[derive(Default)]
pub struct Stats(pub BTreeMap<String, u64>);
impl Stats {
    pub fn bump(&mut self, k: &str) {
        *self.0.entry(k.to_string()).or_insert(0) += 1;
    }
    pub fn add(&mut self, k: &str, n: u64) {
        *self.0.entry(k.to_string()).or_insert(0) += n;
    }
}

/// What running one case on the implementation produced.
pub struct Outcome {
    /// canonical observable result (one line, compared with the model's line)
    pub result: String,
    /// oracle violations (independent of the model): non-empty => failing input found
    pub fails: Vec<String>,
    /// did the case reach a non-trivial branch (by the property's stated rule)?
    pub nontrivial: bool,
}

pub fn toks(s: &str) -> Vec<&str> {
    s.split_whitespace().collect()
}
