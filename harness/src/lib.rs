//! Correspondence + oracle harness for neuppl/rsdd (library part; one binary per property in src/bin).  Rebuilt from /repo's working tree on
//! every check.  usage: harness <PROP> gen|replay --seed S --n N --tier quick|thorough --out DIR [--cases FILE]
pub mod bddprog;
pub mod exprs;
pub mod sddprog;
pub mod util;
use std::collections::HashSet;
use std::io::Write;
pub use util::*;

#[derive(Clone, Copy)]
pub struct Prop {
    /// gen(rng, index, total, thorough) -> case text (one line, no id)
    pub gen: fn(&mut Rng, usize, usize, bool) -> String,
    /// run(case, stats) -> canonical result line + oracle verdicts
    pub run: fn(&str, &mut Stats) -> Outcome,
    /// is a panic on this case acceptable (documented guard), i.e. not a violation?
    pub panic_ok: fn(&str) -> bool,
}

pub fn never(_: &str) -> bool {
    false
}

/// optional hook applied to every case read from a corpus / replay file (see run_main)
pub static NORMALISE: std::sync::OnceLock<fn(&str) -> String> = std::sync::OnceLock::new();

pub fn run_main(p: Prop) {
    let args: Vec<String> = std::env::args().collect();
    if args.len() < 3 {
        eprintln!("usage: harness <PROP> gen|replay --seed S --n N --tier T --out DIR [--cases FILE]");
        std::process::exit(2);
    }
    let prop = args[1].clone();
    let mode = args[2].clone();
    let mut seed = 1u64;
    let mut n = 100usize;
    let mut tier = "quick".to_string();
    let mut out = ".".to_string();
    let mut cases_file = None;
    let mut i = 3;
    while i + 1 < args.len() {
        match args[i].as_str() {
            "--seed" => seed = args[i + 1].parse().unwrap(),
            "--n" => n = args[i + 1].parse().unwrap(),
            "--tier" => tier = args[i + 1].clone(),
            "--out" => out = args[i + 1].clone(),
            "--cases" => cases_file = Some(args[i + 1].clone()),
            _ => {}
        }
        i += 2;
    }
    if std::env::var("VERIF_PANIC_VERBOSE").is_err() {
        std::panic::set_hook(Box::new(|_| {}));
    }
    let _ = prop;
    let thorough = tier == "thorough";
    // cases: corpus / replay file first, then generated
    let mut cases: Vec<String> = Vec::new();
    if let Some(f) = &cases_file {
        for l in std::fs::read_to_string(f).unwrap_or_default().lines() {
            let l = l.trim();
            if !l.is_empty() && !l.starts_with('#') {
                // stored cases may carry data that was read off the implementation when they were
                // written (e.g. the pseudo-random hash weights of C11): a property-specific hook
                // refreshes that part, so that a stored case stays a case about the current code
                cases.push(match NORMALISE.get() { Some(f) => f(l), None => l.to_string() });
            }
        }
    }
    let mut gen_panics = 0u64;
    if mode == "gen" {
        let mut rng = Rng::new(seed);
        for k in 0..n {
            // some generators drive the implementation (to keep cases valid or small); if it
            // panics there, draw again instead of losing the whole shard
            let mut tries = 0;
            loop {
                let r = std::panic::catch_unwind(std::panic::AssertUnwindSafe(|| (p.gen)(&mut rng, k, n, thorough)));
                match r {
                    Ok(c) => { cases.push(c); break }
                    Err(_) => {
                        gen_panics += 1;
                        tries += 1;
                        if tries >= 20 { break }
                    }
                }
            }
        }
    }
    std::fs::create_dir_all(&out).unwrap();
    let mut fc = std::io::BufWriter::new(std::fs::File::create(format!("{out}/cases.txt")).unwrap());
    let mut fi = std::io::BufWriter::new(std::fs::File::create(format!("{out}/impl.txt")).unwrap());
    let mut fo = std::io::BufWriter::new(std::fs::File::create(format!("{out}/oracle.txt")).unwrap());
    let mut stats = Stats::default();
    if gen_panics > 0 {
        stats.add("implementation_panicked_inside_the_generator", gen_panics);
    }
    let mut distinct: HashSet<String> = HashSet::new();
    let mut nfail = 0;
    for (k, c) in cases.iter().enumerate() {
        let id = format!("c{k}");
        let r = std::panic::catch_unwind(std::panic::AssertUnwindSafe(|| {
            let mut st = Stats::default();
            let o = (p.run)(c, &mut st);
            (o, st)
        }));
        writeln!(fc, "{id} {c}").unwrap();
        match r {
            Ok((o, st)) => {
                for (kk, v) in st.0 {
                    stats.add(&kk, v);
                }
                writeln!(fi, "{id} {}", o.result).unwrap();
                if o.nontrivial {
                    distinct.insert(c.clone());
                }
                for f in o.fails {
                    nfail += 1;
                    writeln!(fo, "FAIL {id} {f}").unwrap();
                }
            }
            Err(_) => {
                stats.bump("panics");
                writeln!(fi, "{id} PANIC").unwrap();
                if !(p.panic_ok)(c) {
                    nfail += 1;
                    writeln!(fo, "FAIL {id} implementation panicked").unwrap();
                }
            }
        }
    }
    let mut js = serde_json::Map::new();
    js.insert("evaluations".into(), serde_json::json!(cases.len()));
    js.insert("distinct_nontrivial".into(), serde_json::json!(distinct.len()));
    js.insert("oracle_failures".into(), serde_json::json!(nfail));
    js.insert("distribution".into(), serde_json::json!(stats.0));
    std::fs::write(format!("{out}/stats.json"), serde_json::to_string_pretty(&js).unwrap()).unwrap();
}
