//! Shared formula helpers: expression ASTs (prefix token syntax), raw CNFs, generators,
//! independent evaluators, conversions to the library's LogicalExpr / BottomUpPlan / Cnf.
use crate::util::*;
use rsdd::plan::BottomUpPlan;
use rsdd::repr::{Cnf, Literal, LogicalExpr, VarLabel};

#[derive(Clone, Debug)]
pub enum Ex { L(u64, bool), T, F, N(Box<Ex>), A(Box<Ex>, Box<Ex>), O(Box<Ex>, Box<Ex>), I(Box<Ex>, Box<Ex>), X(Box<Ex>, Box<Ex>), K(Box<Ex>, Box<Ex>, Box<Ex>) }

pub fn ex_str(e: &Ex, s: &mut String) {
    match e {
        Ex::L(v, p) => s.push_str(&format!(" L {v} {}", *p as u8)),
        Ex::T => s.push_str(" T"),
        Ex::F => s.push_str(" F"),
        Ex::N(a) => { s.push_str(" N"); ex_str(a, s) }
        Ex::A(a, b) => { s.push_str(" A"); ex_str(a, s); ex_str(b, s) }
        Ex::O(a, b) => { s.push_str(" O"); ex_str(a, s); ex_str(b, s) }
        Ex::I(a, b) => { s.push_str(" I"); ex_str(a, s); ex_str(b, s) }
        Ex::X(a, b) => { s.push_str(" X"); ex_str(a, s); ex_str(b, s) }
        Ex::K(a, b, c) => { s.push_str(" K"); ex_str(a, s); ex_str(b, s); ex_str(c, s) }
    }
}
pub fn ex_parse(t: &[&str], i: &mut usize) -> Ex {
    let k = t[*i];
    *i += 1;
    match k {
        "L" => { let v = t[*i].parse().unwrap(); let p = t[*i + 1] != "0"; *i += 2; Ex::L(v, p) }
        "T" => Ex::T,
        "F" => Ex::F,
        "N" => Ex::N(Box::new(ex_parse(t, i))),
        "A" => { let a = ex_parse(t, i); let b = ex_parse(t, i); Ex::A(Box::new(a), Box::new(b)) }
        "O" => { let a = ex_parse(t, i); let b = ex_parse(t, i); Ex::O(Box::new(a), Box::new(b)) }
        "I" => { let a = ex_parse(t, i); let b = ex_parse(t, i); Ex::I(Box::new(a), Box::new(b)) }
        "X" => { let a = ex_parse(t, i); let b = ex_parse(t, i); Ex::X(Box::new(a), Box::new(b)) }
        "K" => { let a = ex_parse(t, i); let b = ex_parse(t, i); let c = ex_parse(t, i); Ex::K(Box::new(a), Box::new(b), Box::new(c)) }
        _ => panic!("bad expr"),
    }
}
pub fn ex_eval(e: &Ex, a: usize) -> bool {
    match e {
        Ex::L(v, p) => ((a >> v) & 1 == 1) == *p,
        Ex::T => true,
        Ex::F => false,
        Ex::N(x) => !ex_eval(x, a),
        Ex::A(x, y) => ex_eval(x, a) && ex_eval(y, a),
        Ex::O(x, y) => ex_eval(x, a) || ex_eval(y, a),
        Ex::I(x, y) => ex_eval(x, a) == ex_eval(y, a),
        Ex::X(x, y) => ex_eval(x, a) != ex_eval(y, a),
        Ex::K(g, t, e) => if ex_eval(g, a) { ex_eval(t, a) } else { ex_eval(e, a) },
    }
}
pub fn to_logical(e: &Ex) -> LogicalExpr {
    match e {
        Ex::L(v, p) => LogicalExpr::Literal(*v as usize, *p),
        Ex::N(a) => LogicalExpr::Not(Box::new(to_logical(a))),
        Ex::A(a, b) => LogicalExpr::And(Box::new(to_logical(a)), Box::new(to_logical(b))),
        Ex::O(a, b) => LogicalExpr::Or(Box::new(to_logical(a)), Box::new(to_logical(b))),
        Ex::I(a, b) => LogicalExpr::Iff(Box::new(to_logical(a)), Box::new(to_logical(b))),
        Ex::X(a, b) => LogicalExpr::Xor(Box::new(to_logical(a)), Box::new(to_logical(b))),
        Ex::K(g, t, e) => LogicalExpr::Ite { guard: Box::new(to_logical(g)), thn: Box::new(to_logical(t)), els: Box::new(to_logical(e)) },
        Ex::T | Ex::F => panic!("LogicalExpr has no constants"),
    }
}
pub fn to_plan(e: &Ex) -> BottomUpPlan {
    match e {
        Ex::L(v, p) => BottomUpPlan::literal(VarLabel::new(*v), *p),
        Ex::T => BottomUpPlan::ConstTrue,
        Ex::F => BottomUpPlan::ConstFalse,
        Ex::N(a) => BottomUpPlan::not(to_plan(a)),
        Ex::A(a, b) => BottomUpPlan::and(to_plan(a), to_plan(b)),
        Ex::O(a, b) => BottomUpPlan::or(to_plan(a), to_plan(b)),
        Ex::I(a, b) => BottomUpPlan::iff(to_plan(a), to_plan(b)),
        Ex::K(g, t, e) => BottomUpPlan::ite(to_plan(g), to_plan(t), to_plan(e)),
        Ex::X(_, _) => panic!("BottomUpPlan has no xor"),
    }
}
pub fn of_plan(p: &BottomUpPlan) -> Ex {
    match p {
        BottomUpPlan::Literal(v, b) => Ex::L(v.value(), *b),
        BottomUpPlan::ConstTrue => Ex::T,
        BottomUpPlan::ConstFalse => Ex::F,
        BottomUpPlan::Not(a) => Ex::N(Box::new(of_plan(a))),
        BottomUpPlan::And(a, b) => Ex::A(Box::new(of_plan(a)), Box::new(of_plan(b))),
        BottomUpPlan::Or(a, b) => Ex::O(Box::new(of_plan(a)), Box::new(of_plan(b))),
        BottomUpPlan::Iff(a, b) => Ex::I(Box::new(of_plan(a)), Box::new(of_plan(b))),
        BottomUpPlan::Ite(a, b, c) => Ex::K(Box::new(of_plan(a)), Box::new(of_plan(b)), Box::new(of_plan(c))),
    }
}

pub fn gen_ex(rng: &mut Rng, nv: usize, depth: usize, consts: bool, xor: bool) -> Ex {
    if depth == 0 || rng.chance(1, 5) {
        if consts && rng.chance(1, 10) { return if rng.coin() { Ex::T } else { Ex::F }; }
        // constant-valued sub-formulas without constants: x & !x, x | !x (they drive the
        // short-circuit / absorption paths of a compiler)
        if rng.chance(1, 8) {
            let (v, p) = (rng.below(nv as u64), rng.coin());
            let (a, b) = (Box::new(Ex::L(v, p)), Box::new(Ex::L(v, !p)));
            return if rng.coin() { Ex::A(a, b) } else { Ex::O(a, b) };
        }
        return Ex::L(rng.below(nv as u64), rng.coin());
    }
    // left-deep and right-deep chains of mixed and/or (what from_dimacs-like producers emit)
    if depth >= 2 && rng.chance(1, 6) {
        let left = rng.coin();
        let mut acc = gen_ex(rng, nv, depth.saturating_sub(2), consts, xor);
        // mixed and/or chains, or a chain of ONE connective (and / or / iff / xor: what a flattening
        // compiler treats as one n-ary node), sometimes with an operand repeated next to itself
        let uniform = rng.below(6); // 0,1: mixed; 2: and; 3: or; 4: iff; 5: xor
        let mut prev: Option<Ex> = None;
        for _ in 0..rng.range(2, 6) {
            let o = match &prev {
                Some(p) if rng.chance(1, 4) => p.clone(),
                _ => gen_ex(rng, nv, depth.saturating_sub(2), consts, xor),
            };
            prev = Some(o.clone());
            let other = Box::new(o);
            let (l, r) = if left { (Box::new(acc), other) } else { (other, Box::new(acc)) };
            acc = match uniform {
                2 => Ex::A(l, r),
                3 => Ex::O(l, r),
                4 => Ex::I(l, r),
                5 if xor => Ex::X(l, r),
                5 => Ex::I(l, r),
                _ => if rng.coin() { Ex::A(l, r) } else { Ex::O(l, r) },
            };
        }
        return acc;
    }
    let mut sub = |rng: &mut Rng| Box::new(gen_ex(rng, nv, depth - 1, consts, xor));
    match rng.below(7) {
        0 => Ex::N(sub(rng)),
        1 => Ex::A(sub(rng), sub(rng)),
        2 => Ex::O(sub(rng), sub(rng)),
        3 => Ex::I(sub(rng), sub(rng)),
        4 => if xor { Ex::X(sub(rng), sub(rng)) } else { Ex::A(sub(rng), sub(rng)) },
        5 => Ex::K(sub(rng), sub(rng), sub(rng)),
        _ => Ex::O(sub(rng), sub(rng)),
    }
}

pub type RawCnf = Vec<Vec<(u64, bool)>>;
pub fn gen_cnf(rng: &mut Rng, nv: usize, size: usize, nonempty: bool) -> RawCnf {
    let edge = rng.chance(1, 4);
    let ncl = if edge && !nonempty && rng.chance(1, 6) { 0 } else { 1 + rng.range(0, size) };
    (0..ncl).map(|_| {
        let len = if edge { *rng.pick(&[0usize, 1, 1, 2, 3, 4]) } else { rng.range(1, 4) };
        let len = if nonempty { len.max(1) } else { len };
        let mut c: Vec<(u64, bool)> = (0..len).map(|_| (rng.below(nv as u64), rng.coin())).collect();
        if edge && len >= 2 && rng.chance(1, 3) { c[1] = (c[0].0, !c[0].1); } // complementary
        if edge && len >= 2 && rng.chance(1, 3) { c[len - 1] = c[0]; }       // repeated
        c
    }).collect()
}
pub fn cnf_str(c: &RawCnf, s: &mut String) {
    s.push_str(&format!(" {}", c.len()));
    for cl in c {
        s.push_str(&format!(" {}", cl.len()));
        for (v, p) in cl { s.push_str(&format!(" {v} {}", *p as u8)); }
    }
}
pub fn cnf_parse(t: &[&str], i: &mut usize) -> RawCnf {
    let ncl: usize = t[*i].parse().unwrap();
    *i += 1;
    (0..ncl).map(|_| {
        let len: usize = t[*i].parse().unwrap();
        *i += 1;
        (0..len).map(|_| { let v = t[*i].parse().unwrap(); let p = t[*i + 1] != "0"; *i += 2; (v, p) }).collect()
    }).collect()
}
pub fn to_cnf(c: &RawCnf) -> Cnf {
    let v: Vec<Vec<Literal>> = c.iter().map(|cl| cl.iter().map(|(v, p)| Literal::new(VarLabel::new(*v), *p)).collect()).collect();
    Cnf::new(&v)
}
pub fn cnf_eval(c: &RawCnf, a: usize) -> bool {
    c.iter().all(|cl| cl.iter().any(|(v, p)| ((a >> v) & 1 == 1) == *p))
}

/// evaluation under an arbitrary valuation (labels beyond the width of a machine word)
pub fn cnf_eval_f(c: &RawCnf, val: &dyn Fn(u64) -> bool) -> bool {
    c.iter().all(|cl| cl.iter().any(|(v, p)| val(*v) == *p))
}
pub fn ex_eval_f(e: &Ex, val: &dyn Fn(u64) -> bool) -> bool {
    match e {
        Ex::L(v, p) => val(*v) == *p,
        Ex::T => true,
        Ex::F => false,
        Ex::N(a) => !ex_eval_f(a, val),
        Ex::A(a, b) => ex_eval_f(a, val) && ex_eval_f(b, val),
        Ex::O(a, b) => ex_eval_f(a, val) || ex_eval_f(b, val),
        Ex::I(a, b) => ex_eval_f(a, val) == ex_eval_f(b, val),
        Ex::X(a, b) => ex_eval_f(a, val) != ex_eval_f(b, val),
        Ex::K(a, b, c) => if ex_eval_f(a, val) { ex_eval_f(b, val) } else { ex_eval_f(c, val) },
    }
}
pub fn ex_vars(e: &Ex, out: &mut Vec<u64>) {
    match e {
        Ex::L(v, _) => out.push(*v),
        Ex::T | Ex::F => (),
        Ex::N(a) => ex_vars(a, out),
        Ex::A(a, b) | Ex::O(a, b) | Ex::I(a, b) | Ex::X(a, b) => { ex_vars(a, out); ex_vars(b, out) }
        Ex::K(a, b, c) => { ex_vars(a, out); ex_vars(b, out); ex_vars(c, out) }
    }
}
