//! SDD side of the BDD program language: the same operation programs executed on the
//! CompressionSddBuilder under a given vtree, and an independent evaluator of SddPtr.
use crate::bddprog::{Op, Prog};
use crate::util::*;
use rsdd::builder::sdd::CompressionSddBuilder;
use rsdd::builder::BottomUpBuilder;
use rsdd::repr::{DDNNFPtr, SddPtr, VTree, VarLabel};

pub fn rand_vtree(rng: &mut Rng, vars: &[usize]) -> VTree {
    if vars.len() == 1 {
        return VTree::new_leaf(VarLabel::new(vars[0] as u64));
    }
    let k = rng.range(1, vars.len() - 1);
    VTree::new_node(Box::new(rand_vtree(rng, &vars[..k])), Box::new(rand_vtree(rng, &vars[k..])))
}
pub fn exec_sdd<'a>(b: &'a CompressionSddBuilder<'a>, prog: &Prog) -> Option<Vec<SddPtr<'a>>> {
    let mut pool: Vec<SddPtr<'a>> = vec![];
    for op in &prog.ops {
        let g = |i: &usize| -> SddPtr<'a> { *pool.get(*i).unwrap_or(&SddPtr::PtrFalse) };
        let r = match op {
            Op::Const(c) => if *c { SddPtr::PtrTrue } else { SddPtr::PtrFalse },
            Op::Var(v, p) => b.var(VarLabel::new(*v), *p),
            Op::Neg(i) => b.negate(g(i)),
            Op::And(i, j) => b.and(g(i), g(j)),
            Op::Or(i, j) => b.or(g(i), g(j)),
            Op::Xor(i, j) => b.xor(g(i), g(j)),
            Op::Iff(i, j) => b.iff(g(i), g(j)),
            Op::Ite(i, j, k) => b.ite(g(i), g(j), g(k)),
            Op::Cond(i, v, val) => b.condition(g(i), VarLabel::new(*v), *val),
            Op::CondModel(i, lits) => lits.iter().fold(g(i), |acc, (v, val)| b.condition(acc, VarLabel::new(*v), *val)),
            Op::Exists(i, v) => b.exists(g(i), VarLabel::new(*v)),
            Op::Compose(i, v, j) => b.compose(g(i), VarLabel::new(*v), g(j)),
            Op::AndLst(l) => l.iter().fold(SddPtr::PtrTrue, |acc, i| b.and(acc, g(i))),
            Op::OrLst(l) => l.iter().fold(SddPtr::PtrFalse, |acc, i| b.or(acc, g(i))),
            Op::NewVar(_) => return None,
        };
        pool.push(r);
    }
    Some(pool)
}
pub fn sdd_eval(p: SddPtr, a: usize) -> bool {
    match p {
        SddPtr::PtrTrue => true,
        SddPtr::PtrFalse => false,
        SddPtr::Var(l, b) => ((a >> l.value()) & 1 == 1) == b,
        SddPtr::BDD(n) | SddPtr::ComplBDD(n) => {
            let x = if (a >> n.label().value()) & 1 == 1 { sdd_eval(n.high(), a) } else { sdd_eval(n.low(), a) };
            x != matches!(p, SddPtr::ComplBDD(_))
        }
        SddPtr::Reg(o) | SddPtr::Compl(o) => {
            let x = o.iter().any(|e| sdd_eval(e.prime(), a) && sdd_eval(e.sub(), a));
            x != matches!(p, SddPtr::Compl(_))
        }
    }
}

/// every operation executed twice in a row on one builder: the second execution answers from
/// the apply / ite caches; returns (first results, second results)
pub fn exec_sdd_twice<'a>(b: &'a CompressionSddBuilder<'a>, prog: &Prog) -> Option<(Vec<SddPtr<'a>>, Vec<SddPtr<'a>>)> {
    let mut pool: Vec<SddPtr<'a>> = vec![];
    let mut again: Vec<SddPtr<'a>> = vec![];
    for op in &prog.ops {
        let mut one = |pool: &Vec<SddPtr<'a>>| -> Option<SddPtr<'a>> {
            let g = |i: &usize| -> SddPtr<'a> { *pool.get(*i).unwrap_or(&SddPtr::PtrFalse) };
            Some(match op {
                Op::Const(c) => if *c { SddPtr::PtrTrue } else { SddPtr::PtrFalse },
                Op::Var(v, p) => b.var(VarLabel::new(*v), *p),
                Op::Neg(i) => b.negate(g(i)),
                Op::And(i, j) => b.and(g(i), g(j)),
                Op::Or(i, j) => b.or(g(i), g(j)),
                Op::Xor(i, j) => b.xor(g(i), g(j)),
                Op::Iff(i, j) => b.iff(g(i), g(j)),
                Op::Ite(i, j, k) => b.ite(g(i), g(j), g(k)),
                Op::Cond(i, v, val) => b.condition(g(i), VarLabel::new(*v), *val),
                Op::CondModel(i, lits) => lits.iter().fold(g(i), |acc, (v, val)| b.condition(acc, VarLabel::new(*v), *val)),
                Op::Exists(i, v) => b.exists(g(i), VarLabel::new(*v)),
                Op::Compose(i, v, j) => b.compose(g(i), VarLabel::new(*v), g(j)),
                Op::AndLst(l) => l.iter().fold(SddPtr::PtrTrue, |acc, i| b.and(acc, g(i))),
                Op::OrLst(l) => l.iter().fold(SddPtr::PtrFalse, |acc, i| b.or(acc, g(i))),
                Op::NewVar(_) => return None,
            })
        };
        let r1 = one(&pool)?;
        let r2 = one(&pool)?;
        pool.push(r1);
        again.push(r2);
    }
    Some((pool, again))
}
