//! BDD operation programs: the case language shared by C01/C02/C05/C07/C08/C10/C16/C18,
//! its generator, its execution on the real RobddBuilder (both apply-cache kinds, hook
//! capacities), canonical printers and the independent truth-table oracle.
//!
//! case:  <nvars> <var_to_pos>*nvars <cache: a | l<cap>> <tblcap (0 = shipped)> <op>*
//! ops:   t | f | v <var> <pol> | n <i> | a <i> <j> | o <i> <j> | x <i> <j> | e <i> <j>
//!        | i <i> <j> <k> | c <i> <var> <b> | m <i> <k> (<var> <b>)*k | q <i> <var>
//!        | p <i> <var> <j> | A <k> <i>*k | O <k> <i>*k | N <pol>
use crate::util::*;
use rsdd::builder::bdd::{BddBuilder, RobddBuilder};
use rsdd::builder::cache::{AllIteTable, LruIteTable};
use rsdd::builder::BottomUpBuilder;
use rsdd::repr::{BddPtr, DDNNFPtr, PartialModel, VarLabel, VarOrder};

#[derive(Clone, Debug)]
pub enum Op {
    Const(bool),
    Var(u64, bool),
    Neg(usize),
    And(usize, usize),
    Or(usize, usize),
    Xor(usize, usize),
    Iff(usize, usize),
    Ite(usize, usize, usize),
    Cond(usize, u64, bool),
    CondModel(usize, Vec<(u64, bool)>),
    Exists(usize, u64),
    Compose(usize, u64, usize),
    AndLst(Vec<usize>),
    OrLst(Vec<usize>),
    NewVar(bool),
}

#[derive(Clone, Debug)]
pub struct Prog {
    pub nvars: usize,
    pub var_to_pos: Vec<usize>,
    pub lru: Option<usize>,
    pub tblcap: usize,
    pub ops: Vec<Op>,
    /// tokens after the last operation (property-specific tail)
    pub rest: Vec<String>,
}

impl Prog {
    pub fn total_vars(&self) -> usize {
        self.nvars + self.ops.iter().filter(|o| matches!(o, Op::NewVar(_))).count()
    }
    pub fn pos_to_var(&self) -> Vec<usize> {
        let mut p = vec![0; self.nvars];
        for (v, &pos) in self.var_to_pos.iter().enumerate() {
            p[pos] = v;
        }
        p
    }
}

pub fn parse(case: &str) -> Prog {
    let t = toks(case);
    let nvars: usize = t[0].parse().unwrap();
    let var_to_pos: Vec<usize> = t[1..1 + nvars].iter().map(|s| s.parse().unwrap()).collect();
    let mut i = 1 + nvars;
    let lru = if t[i] == "a" { None } else { Some(t[i][1..].parse().unwrap()) };
    let tblcap: usize = t[i + 1].parse().unwrap();
    i += 2;
    let mut ops = vec![];
    let u = |s: &str| -> usize { s.parse().unwrap() };
    let b = |s: &str| -> bool { s != "0" };
    while i < t.len() {
        match t[i] {
            "t" => { ops.push(Op::Const(true)); i += 1 }
            "f" => { ops.push(Op::Const(false)); i += 1 }
            "v" => { ops.push(Op::Var(u(t[i + 1]) as u64, b(t[i + 2]))); i += 3 }
            "n" => { ops.push(Op::Neg(u(t[i + 1]))); i += 2 }
            "a" => { ops.push(Op::And(u(t[i + 1]), u(t[i + 2]))); i += 3 }
            "o" => { ops.push(Op::Or(u(t[i + 1]), u(t[i + 2]))); i += 3 }
            "x" => { ops.push(Op::Xor(u(t[i + 1]), u(t[i + 2]))); i += 3 }
            "e" => { ops.push(Op::Iff(u(t[i + 1]), u(t[i + 2]))); i += 3 }
            "i" => { ops.push(Op::Ite(u(t[i + 1]), u(t[i + 2]), u(t[i + 3]))); i += 4 }
            "c" => { ops.push(Op::Cond(u(t[i + 1]), u(t[i + 2]) as u64, b(t[i + 3]))); i += 4 }
            "m" => {
                let k = u(t[i + 2]);
                let lits = (0..k).map(|j| (u(t[i + 3 + 2 * j]) as u64, b(t[i + 4 + 2 * j]))).collect();
                ops.push(Op::CondModel(u(t[i + 1]), lits));
                i += 3 + 2 * k
            }
            "q" => { ops.push(Op::Exists(u(t[i + 1]), u(t[i + 2]) as u64)); i += 3 }
            "p" => { ops.push(Op::Compose(u(t[i + 1]), u(t[i + 2]) as u64, u(t[i + 3]))); i += 4 }
            "A" | "O" => {
                let k = u(t[i + 1]);
                let l: Vec<usize> = (0..k).map(|j| u(t[i + 2 + j])).collect();
                ops.push(if t[i] == "A" { Op::AndLst(l) } else { Op::OrLst(l) });
                i += 2 + k
            }
            "N" => { ops.push(Op::NewVar(b(t[i + 1]))); i += 2 }
            _ => break,
        }
    }
    Prog { nvars, var_to_pos, lru, tblcap, ops, rest: t[i..].iter().map(|s| s.to_string()).collect() }
}

pub struct GenOpts {
    pub max_vars: usize,
    pub max_ops: usize,
    pub new_vars: bool,
    pub small_tables: bool,
}

/// structured generator: literals first, then operations over the pool; a separate edge
/// stream (constants as arguments, equal arguments, g = not h, complemented roots)
pub fn gen_prog(rng: &mut Rng, idx: usize, n: usize, o: &GenOpts) -> String {
    let frac = (idx * 100) / n.max(1);
    let nvars = 1 + (frac * (o.max_vars - 1)) / 100 + if rng.chance(1, 4) { 1 } else { 0 };
    let nvars = nvars.min(o.max_vars).max(1);
    // every permutation of <= 4 variables is reached quickly by random choice; beyond, random
    let perm = if rng.chance(1, 5) { (0..nvars).collect::<Vec<_>>() } else { rng.perm(nvars) };
    let cache = if rng.coin() { "a".to_string() } else { format!("l{}", rng.range(0, 4)) };
    let tblcap = if o.small_tables && rng.chance(2, 3) { *rng.pick(&[1usize, 2, 3, 4, 8, 16]) } else { 0 };
    let mut s = format!("{nvars}");
    for p in &perm {
        s.push_str(&format!(" {p}"));
    }
    s.push_str(&format!(" {cache} {tblcap}"));
    let nops = 3 + (frac * o.max_ops) / 100 + rng.range(0, 4);
    let mut pool = 0usize;
    let mut cur_vars = nvars;
    // dense family (a quarter of the cases with >= 4 variables): a random truth table built by
    // Shannon expansion with ite over a palette of random two-variable functions, in an expansion
    // order unrelated to the builder's order.  Random functions have heavy sharing, nodes reached
    // in both polarities and collapsing cofactors, which hand-sized and/or programs rarely have.
    if nvars >= 4 && rng.chance(1, 4) {
        let ex = rng.perm(nvars); // expansion order
        for v in 0..nvars {
            s.push_str(&format!(" v {v} 1"));
        }
        pool = nvars; // entry v = positive literal of v
        let (ya, yb) = (ex[nvars - 1], ex[nvars - 2]);
        let mut palette = vec![];
        for _ in 0..rng.range(3, 6) {
            match rng.below(4) {
                0 => s.push_str(&format!(" a {ya} {yb}")),
                1 => s.push_str(&format!(" x {ya} {yb}")),
                2 => s.push_str(&format!(" o {ya} {yb}")),
                _ => s.push_str(&format!(" n {}", if rng.coin() { ya } else { yb })),
            }
            palette.push(pool);
            pool += 1;
            if rng.coin() {
                s.push_str(&format!(" n {}", pool - 1));
                palette.push(pool);
                pool += 1;
            }
        }
        palette.push(ya);
        palette.push(yb);
        // levels nvars-3 .. 0 of the expansion order; each level halves the number of entries
        let depth = (nvars - 2).min(4);
        let mut layer: Vec<usize> = (0..(1usize << depth)).map(|_| *rng.pick(&palette)).collect();
        for d in (0..depth).rev() {
            let x = ex[d];
            let mut next = vec![];
            for pair in layer.chunks(2) {
                s.push_str(&format!(" i {x} {} {}", pair[0], pair[1]));
                next.push(pool);
                pool += 1;
            }
            layer = next;
        }
    }
    let mut new_left = if o.new_vars { rng.range(0, 2) } else { 0 };
    let edge = rng.chance(1, 6);
    for k in 0..nops {
        let pick = |rng: &mut Rng, pool: usize| -> usize {
            // bias towards recent entries so that diagrams grow
            if rng.chance(1, 2) && pool > 3 { pool - 1 - rng.range(0, 2) } else { rng.below(pool as u64) as usize }
        };
        if pool < 2 || (k < nvars + 1 && rng.chance(2, 3)) {
            s.push_str(&format!(" v {} {}", rng.below(cur_vars as u64), rng.coin() as u8));
            pool += 1;
            continue;
        }
        let r = rng.below(100);
        if edge && r < 15 {
            // edge stream: constants, equal arguments, complementary arguments
            match rng.below(5) {
                0 => s.push_str(" t"),
                1 => s.push_str(" f"),
                2 => { let a = pick(rng, pool); s.push_str(&format!(" a {a} {a}")) }
                3 => { let a = pick(rng, pool); s.push_str(&format!(" n {a}")); pool += 1; s.push_str(&format!(" i {} {} {}", pick(rng, pool), a, pool - 1)) }
                _ => { let a = pick(rng, pool); s.push_str(&format!(" x {a} {a}")) }
            }
            pool += 1;
            continue;
        }
        match r {
            0..=7 => s.push_str(&format!(" v {} {}", rng.below(cur_vars as u64), rng.coin() as u8)),
            8..=15 => s.push_str(&format!(" n {}", pick(rng, pool))),
            16..=30 => s.push_str(&format!(" a {} {}", pick(rng, pool), pick(rng, pool))),
            31..=43 => s.push_str(&format!(" o {} {}", pick(rng, pool), pick(rng, pool))),
            44..=50 => s.push_str(&format!(" x {} {}", pick(rng, pool), pick(rng, pool))),
            51..=57 => s.push_str(&format!(" e {} {}", pick(rng, pool), pick(rng, pool))),
            58..=69 => s.push_str(&format!(" i {} {} {}", pick(rng, pool), pick(rng, pool), pick(rng, pool))),
            70..=76 => s.push_str(&format!(" c {} {} {}", pick(rng, pool), rng.below(cur_vars as u64), rng.coin() as u8)),
            77..=80 => {
                let k = rng.range(0, cur_vars.min(3));
                let mut vs = rng.perm(cur_vars);
                vs.truncate(k);
                s.push_str(&format!(" m {} {k}", pick(rng, pool)));
                for v in vs {
                    s.push_str(&format!(" {v} {}", rng.coin() as u8));
                }
            }
            81..=86 => s.push_str(&format!(" q {} {}", pick(rng, pool), rng.below(cur_vars as u64))),
            87..=91 => s.push_str(&format!(" p {} {} {}", pick(rng, pool), rng.below(cur_vars as u64), pick(rng, pool))),
            92..=97 => {
                // list operations: usually short; one in four long (up to 12 elements, repeated
                // entries and an entry together with its negation are then likely), and half of
                // the long ones over the first entries of the pool only (mostly literals)
                let long = rng.chance(1, 4);
                let k = if long { rng.range(5, 12) } else { rng.range(0, 4) };
                s.push_str(&format!(" {} {k}", if r <= 94 { "A" } else { "O" }));
                let lits_only = long && rng.coin();
                for _ in 0..k {
                    let i = if lits_only { rng.below(pool.min(2 * cur_vars + 2) as u64) as usize } else { pick(rng, pool) };
                    s.push_str(&format!(" {i}"));
                }
            }
            _ => {
                if new_left > 0 {
                    new_left -= 1;
                    cur_vars += 1;
                    s.push_str(&format!(" N {}", rng.coin() as u8));
                } else {
                    s.push_str(&format!(" n {}", pick(rng, pool)));
                }
            }
        }
        pool += 1;
    }
    s
}

// ---------------------------------------------------------------- execution on the real builder

pub enum AnyBuilder<'a> {
    All(RobddBuilder<'a, AllIteTable<BddPtr<'a>>>),
    Lru(RobddBuilder<'a, LruIteTable<BddPtr<'a>>>),
}

macro_rules! dispatch {
    ($self:expr, $b:ident => $e:expr) => {
        match $self {
            AnyBuilder::All($b) => $e,
            AnyBuilder::Lru($b) => $e,
        }
    };
}

impl<'a> AnyBuilder<'a> {
    /// builds a builder with the program's order, cache kind and hook capacities
    pub fn new(prog: &Prog) -> AnyBuilder<'a> {
        let order: Vec<VarLabel> = prog.pos_to_var().iter().map(|v| VarLabel::new(*v as u64)).collect();
        let order = VarOrder::new(&order);
        rsdd::verif::TABLE_CAPACITY.with(|c| c.set(if prog.tblcap == 0 { None } else { Some(prog.tblcap) }));
        rsdd::verif::LRU_CAPACITY.with(|c| c.set(prog.lru));
        let b = match prog.lru {
            None => AnyBuilder::All(RobddBuilder::new(order)),
            Some(_) => AnyBuilder::Lru(RobddBuilder::new(order)),
        };
        rsdd::verif::TABLE_CAPACITY.with(|c| c.set(None));
        rsdd::verif::LRU_CAPACITY.with(|c| c.set(None));
        b
    }
    pub fn var(&'a self, v: u64, pol: bool) -> BddPtr<'a> { dispatch!(self, b => b.var(VarLabel::new(v), pol)) }
    pub fn and(&'a self, f: BddPtr<'a>, g: BddPtr<'a>) -> BddPtr<'a> { dispatch!(self, b => b.and(f, g)) }
    pub fn or(&'a self, f: BddPtr<'a>, g: BddPtr<'a>) -> BddPtr<'a> { dispatch!(self, b => b.or(f, g)) }
    pub fn xor(&'a self, f: BddPtr<'a>, g: BddPtr<'a>) -> BddPtr<'a> { dispatch!(self, b => b.xor(f, g)) }
    pub fn iff(&'a self, f: BddPtr<'a>, g: BddPtr<'a>) -> BddPtr<'a> { dispatch!(self, b => b.iff(f, g)) }
    pub fn negate(&'a self, f: BddPtr<'a>) -> BddPtr<'a> { dispatch!(self, b => b.negate(f)) }
    pub fn ite(&'a self, f: BddPtr<'a>, g: BddPtr<'a>, h: BddPtr<'a>) -> BddPtr<'a> { dispatch!(self, b => b.ite(f, g, h)) }
    pub fn condition(&'a self, f: BddPtr<'a>, v: u64, val: bool) -> BddPtr<'a> { dispatch!(self, b => b.condition(f, VarLabel::new(v), val)) }
    pub fn condition_model(&'a self, f: BddPtr<'a>, m: &PartialModel) -> BddPtr<'a> { dispatch!(self, b => b.condition_model(f, m)) }
    pub fn exists(&'a self, f: BddPtr<'a>, v: u64) -> BddPtr<'a> { dispatch!(self, b => b.exists(f, VarLabel::new(v))) }
    pub fn compose(&'a self, f: BddPtr<'a>, v: u64, g: BddPtr<'a>) -> BddPtr<'a> { dispatch!(self, b => b.compose(f, VarLabel::new(v), g)) }
    pub fn and_lst(&'a self, l: &[BddPtr<'a>]) -> BddPtr<'a> { dispatch!(self, b => b.and_lst(l)) }
    pub fn or_lst(&'a self, l: &[BddPtr<'a>]) -> BddPtr<'a> { dispatch!(self, b => b.or_lst(l)) }
    pub fn new_var(&'a self, pol: bool) -> (VarLabel, BddPtr<'a>) { dispatch!(self, b => b.new_var(pol)) }
    pub fn eq(&'a self, f: BddPtr<'a>, g: BddPtr<'a>) -> bool { dispatch!(self, b => b.eq(f, g)) }
    pub fn smooth(&'a self, f: BddPtr<'a>, n: usize) -> BddPtr<'a> { dispatch!(self, b => b.smooth(f, n)) }
    pub fn num_vars(&self) -> usize { dispatch!(self, b => b.num_vars()) }
    pub fn level(&self, v: u64) -> usize { dispatch!(self, b => b.order().get(VarLabel::new(v))) }
    pub fn var_at_level(&self, l: usize) -> u64 { dispatch!(self, b => b.order().var_at_level(l).value()) }
    pub fn compile_cnf(&'a self, c: &rsdd::repr::Cnf) -> BddPtr<'a> { dispatch!(self, b => b.compile_cnf(c)) }
    pub fn compile_cnf_with_assignments(&'a self, c: &rsdd::repr::Cnf, m: &PartialModel) -> BddPtr<'a> { dispatch!(self, b => b.compile_cnf_with_assignments(c, m)) }
    pub fn compile_logical_expr(&'a self, e: &rsdd::repr::LogicalExpr) -> BddPtr<'a> { dispatch!(self, b => b.compile_logical_expr(e)) }
    pub fn compile_plan(&'a self, e: &rsdd::plan::BottomUpPlan) -> BddPtr<'a> { dispatch!(self, b => b.compile_plan(e)) }
}

pub fn exec<'a>(b: &'a AnyBuilder<'a>, prog: &Prog, st: &mut Stats) -> Vec<BddPtr<'a>> {
    let mut pool: Vec<BddPtr<'a>> = vec![];
    let g = |pool: &Vec<BddPtr<'a>>, i: usize| -> BddPtr<'a> { *pool.get(i).unwrap_or(&BddPtr::PtrFalse) };
    for op in &prog.ops {
        let r = match op {
            Op::Const(c) => { st.bump("op_const"); if *c { BddPtr::PtrTrue } else { BddPtr::PtrFalse } }
            Op::Var(v, p) => { st.bump("op_var"); b.var(*v, *p) }
            Op::Neg(i) => { st.bump("op_neg"); b.negate(g(&pool, *i)) }
            Op::And(i, j) => { st.bump("op_and"); b.and(g(&pool, *i), g(&pool, *j)) }
            Op::Or(i, j) => { st.bump("op_or"); b.or(g(&pool, *i), g(&pool, *j)) }
            Op::Xor(i, j) => { st.bump("op_xor"); b.xor(g(&pool, *i), g(&pool, *j)) }
            Op::Iff(i, j) => { st.bump("op_iff"); b.iff(g(&pool, *i), g(&pool, *j)) }
            Op::Ite(i, j, k) => { st.bump("op_ite"); b.ite(g(&pool, *i), g(&pool, *j), g(&pool, *k)) }
            Op::Cond(i, v, val) => { st.bump("op_cond"); b.condition(g(&pool, *i), *v, *val) }
            Op::CondModel(i, lits) => {
                st.bump("op_cond_model");
                let n = b.num_vars();
                let mut m = PartialModel::new(n);
                for (v, val) in lits {
                    m.set(VarLabel::new(*v), *val);
                }
                b.condition_model(g(&pool, *i), &m)
            }
            Op::Exists(i, v) => { st.bump("op_exists"); b.exists(g(&pool, *i), *v) }
            Op::Compose(i, v, j) => { st.bump("op_compose"); b.compose(g(&pool, *i), *v, g(&pool, *j)) }
            Op::AndLst(l) => { st.bump("op_and_lst"); let v: Vec<_> = l.iter().map(|i| g(&pool, *i)).collect(); b.and_lst(&v) }
            Op::OrLst(l) => { st.bump("op_or_lst"); let v: Vec<_> = l.iter().map(|i| g(&pool, *i)).collect(); b.or_lst(&v) }
            Op::NewVar(p) => { st.bump("op_new_var"); b.new_var(*p).1 }
        };
        pool.push(r);
    }
    pool
}

/// PartialModel::assignment_iter order (false assignments ascending, then true ones): the
/// order in which condition_model applies the literals; the case must list them that way
pub fn cond_model_iter_order(lits: &[(u64, bool)]) -> Vec<(u64, bool)> {
    let mut f: Vec<(u64, bool)> = lits.iter().filter(|l| !l.1).cloned().collect();
    let mut t: Vec<(u64, bool)> = lits.iter().filter(|l| l.1).cloned().collect();
    f.sort();
    t.sort();
    f.extend(t);
    f
}

// ---------------------------------------------------------------- canonical printers / oracle

/// canonical unfolding: T, F, (v lo hi), complement mark !
pub fn unfold(p: BddPtr, out: &mut String) {
    match p {
        BddPtr::PtrTrue => out.push('T'),
        BddPtr::PtrFalse => out.push('F'),
        BddPtr::Reg(n) | BddPtr::Compl(n) => {
            if matches!(p, BddPtr::Compl(_)) {
                out.push('!');
            }
            out.push('(');
            out.push_str(&n.var.value().to_string());
            out.push(' ');
            unfold(n.low, out);
            out.push(' ');
            unfold(n.high, out);
            out.push(')');
        }
    }
}

pub fn pool_line(pool: &[BddPtr]) -> String {
    let mut s = String::new();
    for (k, p) in pool.iter().enumerate() {
        if k > 0 {
            s.push_str(" | ");
        }
        unfold(*p, &mut s);
    }
    s
}

/// independent evaluator: walks the nodes, never calls the library's evaluate/fold
pub fn eval_ptr(p: BddPtr, a: usize) -> bool {
    match p {
        BddPtr::PtrTrue => true,
        BddPtr::PtrFalse => false,
        BddPtr::Reg(n) => if (a >> n.var.value()) & 1 == 1 { eval_ptr(n.high, a) } else { eval_ptr(n.low, a) },
        BddPtr::Compl(n) => !(if (a >> n.var.value()) & 1 == 1 { eval_ptr(n.high, a) } else { eval_ptr(n.low, a) }),
    }
}

pub type Table = Vec<bool>;
pub fn table_of(p: BddPtr, nv: usize) -> Table {
    (0..1usize << nv).map(|a| eval_ptr(p, a)).collect()
}

fn upd(a: usize, v: u64, b: bool) -> usize {
    if b { a | (1 << v) } else { a & !(1 << v) }
}

/// the specification program on truth tables (assignment a: bit v = value of variable v)
pub fn spec_tables(prog: &Prog) -> Vec<Table> {
    let nv = prog.total_vars();
    let sz = 1usize << nv;
    let mut pool: Vec<Table> = vec![];
    let mut cur = prog.nvars as u64;
    let zero: Table = vec![false; sz];
    let g = |pool: &Vec<Table>, i: usize| -> Table { pool.get(i).cloned().unwrap_or(zero.clone()) };
    for op in &prog.ops {
        let t: Table = match op {
            Op::Const(c) => vec![*c; sz],
            Op::Var(v, p) => (0..sz).map(|a| ((a >> v) & 1 == 1) == *p).collect(),
            Op::Neg(i) => g(&pool, *i).iter().map(|x| !x).collect(),
            Op::And(i, j) => { let (x, y) = (g(&pool, *i), g(&pool, *j)); (0..sz).map(|a| x[a] && y[a]).collect() }
            Op::Or(i, j) => { let (x, y) = (g(&pool, *i), g(&pool, *j)); (0..sz).map(|a| x[a] || y[a]).collect() }
            Op::Xor(i, j) => { let (x, y) = (g(&pool, *i), g(&pool, *j)); (0..sz).map(|a| x[a] != y[a]).collect() }
            Op::Iff(i, j) => { let (x, y) = (g(&pool, *i), g(&pool, *j)); (0..sz).map(|a| x[a] == y[a]).collect() }
            Op::Ite(i, j, k) => { let (x, y, z) = (g(&pool, *i), g(&pool, *j), g(&pool, *k)); (0..sz).map(|a| if x[a] { y[a] } else { z[a] }).collect() }
            Op::Cond(i, v, b) => { let x = g(&pool, *i); (0..sz).map(|a| x[upd(a, *v, *b)]).collect() }
            Op::CondModel(i, lits) => {
                let x = g(&pool, *i);
                (0..sz).map(|a| { let mut aa = a; for (v, b) in lits { aa = upd(aa, *v, *b); } x[aa] }).collect()
            }
            Op::Exists(i, v) => { let x = g(&pool, *i); (0..sz).map(|a| x[upd(a, *v, true)] || x[upd(a, *v, false)]).collect() }
            Op::Compose(i, v, j) => {
                // documented: exists v. (v <=> g) /\ f
                let (f, gg) = (g(&pool, *i), g(&pool, *j));
                (0..sz).map(|a| [true, false].iter().any(|b| { let aa = upd(a, *v, *b); (*b == gg[aa]) && f[aa] })).collect()
            }
            Op::AndLst(l) => (0..sz).map(|a| l.iter().all(|i| g(&pool, *i)[a])).collect(),
            Op::OrLst(l) => (0..sz).map(|a| l.iter().any(|i| g(&pool, *i)[a])).collect(),
            Op::NewVar(p) => { let v = cur; cur += 1; (0..sz).map(|a| ((a >> v) & 1 == 1) == *p).collect() }
        };
        pool.push(t);
    }
    pool
}

/// C02's shape clauses on one diagram: ordered on every path, reduced, regular non-false high edge
pub fn shape_violation(b: &AnyBuilder, p: BddPtr, above: Option<usize>) -> Option<String> {
    match p {
        BddPtr::PtrTrue | BddPtr::PtrFalse => None,
        BddPtr::Reg(n) | BddPtr::Compl(n) => {
            let lv = b.level(n.var.value());
            if let Some(a) = above {
                if lv <= a {
                    return Some(format!("variable {} at level {lv} below a node at level {a}", n.var.value()));
                }
            }
            if n.low == n.high {
                return Some(format!("node on variable {} has identical children", n.var.value()));
            }
            if n.high.is_neg() || n.high.is_false() {
                return Some(format!("node on variable {} has a complemented or false high edge", n.var.value()));
            }
            shape_violation(b, n.low, Some(lv)).or_else(|| shape_violation(b, n.high, Some(lv)))
        }
    }
}

// ---------------------------------------------------------------- sparse, large variable labels

/// text of a program (inverse of `parse`, without the tail)
pub fn prog_text(p: &Prog) -> String {
    let mut s = format!("{}", p.nvars);
    for x in &p.var_to_pos { s.push_str(&format!(" {x}")); }
    s.push_str(&match p.lru { None => " a".to_string(), Some(c) => format!(" l{c}") });
    s.push_str(&format!(" {}", p.tblcap));
    for op in &p.ops {
        match op {
            Op::Const(true) => s.push_str(" t"),
            Op::Const(false) => s.push_str(" f"),
            Op::Var(v, b) => s.push_str(&format!(" v {v} {}", *b as u8)),
            Op::Neg(i) => s.push_str(&format!(" n {i}")),
            Op::And(i, j) => s.push_str(&format!(" a {i} {j}")),
            Op::Or(i, j) => s.push_str(&format!(" o {i} {j}")),
            Op::Xor(i, j) => s.push_str(&format!(" x {i} {j}")),
            Op::Iff(i, j) => s.push_str(&format!(" e {i} {j}")),
            Op::Ite(i, j, k) => s.push_str(&format!(" i {i} {j} {k}")),
            Op::Cond(i, v, b) => s.push_str(&format!(" c {i} {v} {}", *b as u8)),
            Op::CondModel(i, l) => { s.push_str(&format!(" m {i} {}", l.len())); for (v, b) in l { s.push_str(&format!(" {v} {}", *b as u8)); } }
            Op::Exists(i, v) => s.push_str(&format!(" q {i} {v}")),
            Op::Compose(i, v, j) => s.push_str(&format!(" p {i} {v} {j}")),
            Op::AndLst(l) => { s.push_str(&format!(" A {}", l.len())); for i in l { s.push_str(&format!(" {i}")); } }
            Op::OrLst(l) => { s.push_str(&format!(" O {}", l.len())); for i in l { s.push_str(&format!(" {i}")); } }
            Op::NewVar(b) => s.push_str(&format!(" N {}", *b as u8)),
        }
    }
    s
}

/// the same program with every initial variable v renamed to f(v) (run-time variables keep their
/// position after the initial ones)
pub fn relabel_prog(p: &Prog, nvars: usize, var_to_pos: Vec<usize>, f: &dyn Fn(u64) -> u64) -> Prog {
    let old_n = p.nvars as u64;
    let g = |v: u64| if v < old_n { f(v) } else { nvars as u64 + (v - old_n) };
    let ops = p.ops.iter().map(|op| match op {
        Op::Var(v, b) => Op::Var(g(*v), *b),
        Op::Cond(i, v, b) => Op::Cond(*i, g(*v), *b),
        Op::CondModel(i, l) => Op::CondModel(*i, l.iter().map(|(v, b)| (g(*v), *b)).collect()),
        Op::Exists(i, v) => Op::Exists(*i, g(*v)),
        Op::Compose(i, v, j) => Op::Compose(*i, g(*v), *j),
        o => o.clone(),
    }).collect();
    Prog { nvars, var_to_pos, lru: p.lru, tblcap: p.tblcap, ops, rest: p.rest.clone() }
}

/// sparse family: a small program whose 2..5 variables carry large labels around the word-size
/// boundaries (31/32, 63/64, 127/128), several of them congruent modulo 32 / 64, in a builder over
/// max label + 1 (+ a few) variables, identity or random order
pub fn gen_sparse_prog(rng: &mut Rng, max_ops: usize) -> String {
    const SPECIAL: [u64; 16] = [0, 1, 2, 3, 30, 31, 32, 33, 62, 63, 64, 65, 66, 67, 128, 129];
    let k = rng.range(2, 5);
    let mut labels: Vec<u64> = vec![];
    while labels.len() < k {
        let l = if !labels.is_empty() && rng.chance(1, 2) {
            let base = *rng.pick(&labels);
            let m = if rng.chance(3, 4) { 64 } else { 32 };
            if base >= m && rng.coin() { base - m } else { base + m }
        } else {
            *rng.pick(&SPECIAL)
        };
        if l <= 131 && !labels.contains(&l) {
            labels.push(l);
        }
    }
    let o = GenOpts { max_vars: k, max_ops, new_vars: true, small_tables: false };
    let small = parse(&gen_prog(rng, 95, 100, &o));
    let k = small.nvars; // gen_prog may have chosen fewer variables
    let nvars = (*labels[..k].iter().max().unwrap() + 1) as usize + rng.range(0, 2);
    let perm = if rng.coin() { (0..nvars).collect::<Vec<_>>() } else { rng.perm(nvars) };
    let big = relabel_prog(&small, nvars, perm, &|v| labels[v as usize]);
    prog_text(&big)
}

/// labels a (sparse) program mentions, in increasing order; run-time variables included
pub fn used_labels(p: &Prog) -> Vec<u64> {
    let mut u: Vec<u64> = vec![];
    let mut cur = p.nvars as u64;
    for op in &p.ops {
        match op {
            Op::Var(v, _) | Op::Cond(_, v, _) | Op::Exists(_, v) | Op::Compose(_, v, _) => u.push(*v),
            Op::CondModel(_, l) => u.extend(l.iter().map(|x| x.0)),
            Op::NewVar(_) => { u.push(cur); cur += 1 }
            _ => (),
        }
    }
    u.sort();
    u.dedup();
    u
}

/// oracle for sparse programs: specification tables over the used labels only (bit i = i-th used
/// label) and the diagram's table under the same numbering; Err if a diagram tests another label
pub fn sparse_tables(p: &Prog, pool: &[BddPtr]) -> Result<(Vec<Table>, Vec<Table>), String> {
    let used = used_labels(p);
    let initial: Vec<u64> = used.iter().cloned().filter(|l| (*l as usize) < p.nvars).collect();
    let bit = |l: u64| used.iter().position(|u| *u == l);
    // compressed program: initial labels -> 0..k-1 (run-time variables follow, in the same order)
    let small = relabel_prog_inv(p, &initial);
    let spec = spec_tables(&small);
    fn eval(q: BddPtr, a: usize, bit: &dyn Fn(u64) -> Option<usize>) -> Result<bool, String> {
        match q {
            BddPtr::PtrTrue => Ok(true),
            BddPtr::PtrFalse => Ok(false),
            BddPtr::Reg(n) | BddPtr::Compl(n) => {
                let b = bit(n.var.value()).ok_or(format!("a node tests variable {}, which the program never mentions", n.var.value()))?;
                let r = if (a >> b) & 1 == 1 { eval(n.high, a, bit)? } else { eval(n.low, a, bit)? };
                Ok(if matches!(q, BddPtr::Compl(_)) { !r } else { r })
            }
        }
    }
    let k = used.len();
    let mut got = vec![];
    for q in pool {
        let mut t = vec![];
        for a in 0..(1usize << k) {
            t.push(eval(*q, a, &bit)?);
        }
        got.push(t);
    }
    Ok((spec, got))
}

fn relabel_prog_inv(p: &Prog, initial: &[u64]) -> Prog {
    let k = initial.len();
    let n = p.nvars as u64;
    let g = |v: u64| if v < n { initial.iter().position(|u| *u == v).unwrap() as u64 } else { k as u64 + (v - n) };
    let ops = p.ops.iter().map(|op| match op {
        Op::Var(v, b) => Op::Var(g(*v), *b),
        Op::Cond(i, v, b) => Op::Cond(*i, g(*v), *b),
        Op::CondModel(i, l) => Op::CondModel(*i, l.iter().map(|(v, b)| (g(*v), *b)).collect()),
        Op::Exists(i, v) => Op::Exists(*i, g(*v)),
        Op::Compose(i, v, j) => Op::Compose(*i, g(*v), *j),
        o => o.clone(),
    }).collect();
    Prog { nvars: k, var_to_pos: (0..k).collect(), lru: p.lru, tblcap: p.tblcap, ops, rest: vec![] }
}
