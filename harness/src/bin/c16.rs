//! C16 store layer: drive rsdd::util::lru::Lru directly with explicit (colliding) hashes.
//! case:  <cap> (i <k> <v> <h> | g <k> <h>)*
//! out:   (N | <v>)* util=<occupied/len reduced>
//! soak:  K <cap> <nkeys> <nops> <seed>   one long history (regenerated from the seed by `run_soak`)
//!        on a table that grows past 2^16 slots; ORACLE-ONLY (out: the fixed token "soak")
use rsdd_verif_harness::*;
use rsdd::util::lru::Lru;
use std::collections::HashMap;

pub const PROP: Prop = Prop { gen, run, panic_ok: never };

fn main() {
    run_main(PROP)
}

pub fn gen(rng: &mut Rng, idx: usize, n: usize, thorough: bool) -> String {
    // soak: a few very long histories per shard on tables that start at 2^14..2^16 slots and grow
    // past 2^16 / 2^17 (the sizes the shipped ITE cache actually has); the case text is only the
    // parameters + a seed
    if idx % (if thorough { 2000 } else { 5000 }) == (if thorough { 1999 } else { 4999 }) {
        let cap = *rng.pick(&[14usize, 15, 16, 16, 16]);
        let nkeys = rng.range(100_000, 200_000);
        let nops = rng.range(900_000, 1_100_000);
        return format!("K {cap} {nkeys} {nops} {}", rng.below(1 << 32));
    }
    // SDD apply / ite caches: a program whose every operation is executed twice in a row
    if idx % 6 == 1 {
        use rsdd_verif_harness::bddprog::*;
        let o = GenOpts { max_vars: if thorough { 6 } else { 5 }, max_ops: if thorough { 24 } else { 14 }, new_vars: false, small_tables: false };
        return format!("S {}", gen_prog(rng, idx, n, &o));
    }
    // builder level: every third case is a BDD program, run under every cache configuration
    if idx % 3 == 2 {
        use rsdd_verif_harness::bddprog::*;
        let o = GenOpts { max_vars: if thorough { 8 } else { 6 }, max_ops: if thorough { 60 } else { 28 }, new_vars: true, small_tables: true };
        return format!("P {}", gen_prog(rng, idx, n, &o));
    }
    // sizes grow with the index so that the first failing case tends to be small
    let frac = (idx * 100) / n.max(1);
    let cap = if frac < 40 { rng.range(0, 1) } else if frac < 80 { rng.range(0, 3) } else { rng.range(0, 5) };
    let maxops = if thorough { 400 } else { 120 };
    let nops = 2 + (frac * maxops) / 100 + rng.range(0, 6);
    let nkeys = rng.range(1, 3 + (1usize << cap.min(4)) * 2) as u64;
    // hash function of the key: ranges chosen so that homes collide and wrap
    let hrange: u64 = *rng.pick(&[1u64, 2, 4, 8, 64, 1 << 40, u64::MAX]);
    let inconsistent = rng.chance(1, 10); // separate malformed stream: hashes not a function of the key
    let hashes: Vec<u64> = (0..nkeys).map(|_| rng.below(hrange)).collect();
    let mut s = format!("{cap}");
    let mut vctr = 0u64;
    for _ in 0..nops {
        let k = rng.below(nkeys);
        let h = if inconsistent && rng.chance(1, 3) { rng.below(hrange) } else { hashes[k as usize] };
        if rng.chance(3, 5) {
            vctr += 1;
            s.push_str(&format!(" i {k} {} {h}", 1000 + vctr));
        } else {
            s.push_str(&format!(" g {k} {h}"));
        }
    }
    s
}

/// the same program under AllIteTable and LruIteTable at hook capacities 2^0..2^4 must give
/// pointer-identical shapes (compared through the canonical unfolding) and the right functions
fn run_builder_level(case: &str, st: &mut Stats) -> Outcome {
    use rsdd_verif_harness::bddprog::*;
    let base = parse(case);
    let spec = spec_tables(&base);
    let nv = base.total_vars();
    let mut lines: Vec<(String, String)> = vec![];
    let mut fails = vec![];
    for lru in [None, Some(0usize), Some(1), Some(2), Some(4), Some(16)] {
        let mut prog = base.clone();
        prog.lru = lru;
        let b = AnyBuilder::new(&prog);
        let mut dummy = Stats::default();
        let pool = exec(&b, &prog, &mut dummy);
        for (k, p) in pool.iter().enumerate() {
            if table_of(*p, nv) != spec[k] {
                fails.push(format!("cache {:?}: pool entry {k} denotes the wrong function", lru));
            }
        }
        lines.push((format!("{:?}", lru), pool_line(&pool)));
    }
    for (name, l) in &lines[1..] {
        if *l != lines[0].1 {
            fails.push(format!("apply cache {name} changes a result: {} vs cache-everything {}", l, lines[0].1));
        }
    }
    st.bump("builder_level_programs");
    Outcome { result: lines[0].1.clone(), fails, nontrivial: base.ops.len() > 6 }
}

/// SDD builder: executing an operation a second time (answered from the apply / ite caches) must
/// return the pointer-equal result, and both must denote the specified function
fn run_sdd_level(case: &str, st: &mut Stats) -> Outcome {
    use rsdd::builder::sdd::CompressionSddBuilder;
    use rsdd::builder::BottomUpBuilder;
    use rsdd_verif_harness::bddprog::*;
    use rsdd_verif_harness::sddprog::*;
    let prog = parse(case);
    let spec = spec_tables(&prog);
    let total = prog.total_vars();
    let mut lrng = Rng::new(case.len() as u64 * 31 + total as u64);
    let mut fails = vec![];
    for round in 0..2 {
        let vars = if round == 0 { (0..total).collect::<Vec<_>>() } else { lrng.perm(total) };
        let vt = if round == 0 { rsdd::repr::VTree::right_linear(&vars.iter().map(|v| rsdd::repr::VarLabel::new(*v as u64)).collect::<Vec<_>>()) } else { rand_vtree(&mut lrng, &vars) };
        let b = CompressionSddBuilder::new(vt);
        if let Some((first, again)) = exec_sdd_twice(&b, &prog) {
            for k in 0..first.len() {
                if !b.eq(first[k], again[k]) {
                    fails.push(format!("SDD operation {k} ({:?}) repeated on the same builder (answered from the caches) returns a different diagram", prog.ops[k]));
                }
                for (which, p) in [("first", first[k]), ("repeated", again[k])] {
                    if (0..(1usize << total)).any(|a| sdd_eval(p, a) != spec[k][a]) {
                        fails.push(format!("SDD operation {k} ({:?}), {which} execution, denotes the wrong function", prog.ops[k]));
                    }
                }
            }
        }
    }
    st.bump("sdd_cache_programs");
    Outcome { result: "sdd".to_string(), fails, nontrivial: prog.ops.len() > 6 }
}

/// Soak: ONE long model-based history on one `Lru<u64, u64>`, described by (cap, nkeys, nops, seed).
/// Keys are 0..nkeys, created one after the other; the hash of a key is fixed when the key is created:
/// random 64 bits, or (one key in five) the low L bits of the hash of an already existing key
/// (L in {cap, 15, 16, 17, 18, 20}) under random high bits -- a *collider* that shares the home of its
/// partner in every table of at most 2^L slots.  Operations (value = running insert counter, so every
/// inserted value is unique and identifies the insert that wrote it):
///   * insert of a fresh key (until nkeys exist; spread over the first ~60% of the history),
///   * re-insert of an existing key under a NEW value,
///   * the directed triple  insert(a, new); insert(b, new); get(a); get(b)  on a collider pair (a, b),
///   * get of an existing key (half of them among the 1000 most recently created keys).
/// Oracle (independent of the Coq model, which is list based and cannot follow 2^17 slots): the latest
/// value per key; a get answers None or exactly that value -- never a superseded value of the key and
/// never a value inserted under another key.
fn run_soak(case: &str, st: &mut Stats) -> Outcome {
    let t = toks(case);
    let p = |i: usize| -> u64 { t[i].parse().unwrap() };
    let (cap, nkeys, nops, seed) = (p(0) as usize, p(1) as usize, p(2) as usize, p(3));
    let mut r = Rng::new(seed ^ 0x50AC);
    let mut lru: Lru<u64, u64> = Lru::new(cap);
    let mut hashes: Vec<u64> = Vec::with_capacity(nkeys);
    let mut latest: Vec<u64> = Vec::with_capacity(nkeys); // key -> latest value (every created key has been inserted)
    let mut val_key: Vec<u32> = vec![0]; // value -> key it was inserted under (values start at 1)
    let mut pairs: Vec<(u32, u32)> = vec![];
    let mut low16 = vec![false; 1 << 16];
    let mut distinct_low16 = 0usize;
    let mut fails: Vec<String> = vec![];
    let (mut hits, mut misses, mut inserts, mut stale, mut foreign, mut triples) = (0u64, 0u64, 0u64, 0u64, 0u64, 0u64);
    let pf = ((100 * nkeys) / (nops * 6 / 10).max(1)).clamp(5, 60) as u64;
    macro_rules! ins {
        ($k:expr) => {{
            let k: usize = $k;
            let v = val_key.len() as u64;
            val_key.push(k as u32);
            lru.insert(k as u64, v, hashes[k]);
            latest[k] = v;
            inserts += 1;
        }};
    }
    macro_rules! get {
        ($k:expr, $step:expr) => {{
            let k: usize = $k;
            match lru.get(k as u64, hashes[k]) {
                None => misses += 1,
                Some(v) => {
                    hits += 1;
                    if v != latest[k] {
                        let owner = val_key.get(v as usize).copied();
                        let msg = if owner == Some(k as u32) {
                            stale += 1;
                            format!("soak step {}: get({k}) returned {v}, a value that was superseded: the value most recently inserted under that key is {} ({} keys exist, {inserts} inserts so far)", $step, latest[k], hashes.len())
                        } else {
                            foreign += 1;
                            format!("soak step {}: get({k}) returned {v}, which was never inserted under that key (it belongs to key {owner:?})", $step)
                        };
                        if fails.len() < 3 {
                            fails.push(msg);
                        }
                    }
                }
            }
        }};
    }
    for step in 0..nops {
        let x = r.below(100);
        let created = hashes.len();
        if created == 0 || (x < pf && created < nkeys) {
            // fresh key, one in five a collider of an existing key
            let h = if created > 0 && r.chance(1, 5) {
                let partner = if r.coin() { r.below(created as u64) as usize } else { created - 1 - r.below(created.min(1000) as u64) as usize };
                let l = *r.pick(&[cap, 15, 16, 17, 18, 20]);
                pairs.push((partner as u32, created as u32));
                (hashes[partner] & ((1u64 << l) - 1)) | (r.next() << l)
            } else {
                r.next()
            };
            hashes.push(h);
            latest.push(0);
            if !low16[(h & 0xFFFF) as usize] {
                low16[(h & 0xFFFF) as usize] = true;
                distinct_low16 += 1;
            }
            ins!(created);
        } else if x < pf + 15 {
            ins!(r.below(created as u64) as usize);
        } else if x < pf + 20 && !pairs.is_empty() {
            let (a, b) = pairs[r.below(pairs.len() as u64) as usize];
            let (a, b) = if r.coin() { (a, b) } else { (b, a) };
            ins!(a as usize);
            ins!(b as usize);
            get!(a as usize, step);
            get!(b as usize, step);
            triples += 1;
        } else {
            let k = if r.coin() { r.below(created as u64) as usize } else { created - 1 - r.below(created.min(1000) as u64) as usize };
            get!(k, step);
        }
    }
    if stale + foreign > fails.len() as u64 {
        fails.push(format!("soak: {stale} gets returned a superseded value and {foreign} a value of another key, out of {hits} hits"));
    }
    // more than 0.7 * 2^16 distinct homes modulo 2^16: a table that started with 2^16 slots necessarily
    // grew to 2^17 (one started smaller: unless it lost that many entries by overwrites before reaching 2^16)
    let crossed = cap <= 16 && distinct_low16 > 45_876;
    st.bump("soak_cases");
    st.bump(&format!("soak_cap={cap}"));
    st.add("soak_gets_hit", hits);
    st.add("soak_gets_miss", misses);
    st.add("soak_inserts", inserts);
    st.add("soak_collider_pairs", pairs.len() as u64);
    st.add("soak_collider_triples", triples);
    st.add("soak_keys", hashes.len() as u64);
    if crossed {
        st.bump("soak_more_than_0.7*2^16_distinct_homes_mod_2^16");
    }
    Outcome { result: "soak".to_string(), fails, nontrivial: hits > 0 && crossed }
}

pub fn run(case: &str, st: &mut Stats) -> Outcome {
    if let Some(rest) = case.strip_prefix("K ") {
        return run_soak(rest, st);
    }
    if let Some(rest) = case.strip_prefix("S ") {
        return run_sdd_level(rest, st);
    }
    if let Some(rest) = case.strip_prefix("P ") {
        return run_builder_level(rest, st);
    }
    let t = toks(case);
    let cap: usize = t[0].parse().unwrap();
    let mut lru: Lru<u64, u64> = Lru::new(cap);
    let mut out = String::new();
    let mut fails = vec![];
    // oracle: map with permitted forgetting (valid when hashes are a function of the key)
    let mut latest: HashMap<u64, u64> = HashMap::new();
    let mut hash_of: HashMap<u64, u64> = HashMap::new();
    let mut ever: HashMap<u64, std::collections::HashSet<u64>> = HashMap::new();
    let mut consistent = true;
    let mut i = 1;
    let (mut hits, mut misses, mut inserts) = (0, 0, 0);
    while i < t.len() {
        match t[i] {
            "i" => {
                let (k, v, h): (u64, u64, u64) = (t[i + 1].parse().unwrap(), t[i + 2].parse().unwrap(), t[i + 3].parse().unwrap());
                if *hash_of.entry(k).or_insert(h) != h {
                    consistent = false;
                }
                lru.insert(k, v, h);
                latest.insert(k, v);
                ever.entry(k).or_default().insert(v);
                inserts += 1;
                i += 4;
            }
            "g" => {
                let (k, h): (u64, u64) = (t[i + 1].parse().unwrap(), t[i + 2].parse().unwrap());
                if *hash_of.entry(k).or_insert(h) != h {
                    consistent = false;
                }
                match lru.get(k, h) {
                    None => {
                        misses += 1;
                        out.push_str(" N")
                    }
                    Some(v) => {
                        hits += 1;
                        out.push_str(&format!(" {v}"));
                        if consistent && latest.get(&k) != Some(&v) {
                            fails.push(format!("get({k}) returned {v}, latest insert under that key is {:?}", latest.get(&k)));
                        }
                        // whatever the hashes: never a value stored for a different key
                        if !ever.get(&k).map_or(false, |s| s.contains(&v)) {
                            fails.push(format!("get({k}) returned {v}, which was never inserted under that key"));
                        }
                    }
                }
                i += 3;
            }
            _ => panic!("bad case"),
        }
    }
    // utilization = occupied / len, both exact in f64 (len a power of two): print it reduced
    let stats = lru._get_stats();
    let mut den = 1u64;
    let mut num = stats.utilization;
    while num.fract() != 0.0 && den < (1 << 40) {
        num *= 2.0;
        den *= 2;
    }
    out.push_str(&format!(" util={}/{}", num as u64, den));
    st.add("gets_hit", hits);
    st.add("gets_miss", misses);
    st.add("inserts", inserts as u64);
    st.bump(&format!("cap={cap}"));
    if !consistent {
        st.bump("inconsistent_hash_stream");
    }
    Outcome { result: out.trim().to_string(), fails, nontrivial: hits > 0 && inserts > (1 << cap) }
}
