//! C12: marginal MAP, MEU and the generic branch and bound return true optima.
//! case:  <BDD program> Q <pool index> <neg 0|1> <k> <q>*k R (<lo8> <hi8>)*total E (<pl8> <ul> <ph8> <uh>)*total
//!   q: the query / decision / join variables in the order given to the algorithm (a duplicate-free
//!      selection: empty, all, variables the function ignores, any order);
//!   R: real weights, numerators over 8 (lo+hi = 8 on non-query variables, arbitrary 0..8 on query
//!      variables);
//!   E: expected-utility weights (probability numerator over 8, integer utility) for low and high:
//!      decisions (8 0 8 0) = ExpectedUtility::one() on both sides (the encoding of tests/test.rs `meu`
//!      and tests/network_example.rs) or, in a separate stream, (p,0) with p in [0,1]; chance
//!      variables (8-p 0 p 0); reward variables (8 0 8 u) and arbitrary non-negative weights only
//!      on variables ordered after every decision variable.
//!   All values are dyadic with small numerators, so every f64 operation of the code is exact.
//! out:   mm=<value> bbr=<value> meu=<prob>,<utility> bbe=<prob>,<utility>   (returned models: oracle only)
//!   values as reduced fractions decoded from the f64 bit pattern, models as one character per
//!   variable (1, 0, - = unset).
//! oracle (independent: truth table + exact integer / dyadic arithmetic): for each of the four
//!   results the returned model sets exactly the query variables, the returned value is the
//!   objective of the returned model, and no assignment of the query variables has a larger objective
//!   (larger utility component for the expected-utility runs, the order `choose` uses).
//!   objective, real: sum over the models that agree with the query assignment of the product of
//!   all literal weights; expected utility: the dependency-restricted sum (recursion over the
//!   order, branching only on variables the restricted function depends on, = unsmoothed count of
//!   its ROBDD, what tests/test.rs compares with), for bb multiplied by the decision weights.
use rsdd::repr::{BddPtr, DDNNFPtr, PartialModel, VarLabel, WmcParams};
use rsdd::util::semirings::{ExpectedUtility, RealSemiring};
use rsdd_verif_harness::bddprog::*;
use rsdd_verif_harness::*;
use std::collections::HashMap;

pub const PROP: Prop = Prop { gen, run, panic_ok: never };

fn main() {
    run_main(PROP)
}

fn level_of(prog: &Prog, v: usize) -> usize {
    if v < prog.nvars { prog.var_to_pos[v] } else { v }
}

/// MEU family with exact bound ties: decisions d1 (level 0) and d2 (level 2), a chance variable p
/// between them and a reward variable u below; f = ite(d1, ite(p, T_a, T_b), T_c) (or mirrored)
/// with T in { d2&u, !d2&u, u, d2|u, !d2|u }.  The bound of the d1 branch containing p is loose
/// (the later decision d2 is maximised below the chance variable), the other is tight.
fn gen_meu_family(rng: &mut Rng) -> String {
    // pool: 0 d1, 1 p, 2 d2, 3 u, 4 d2&u, 5 !d2, 6 !d2&u, 7 d2|u, 8 !d2|u
    let mut s = String::from("4 0 1 2 3 a 0 v 0 1 v 1 1 v 2 1 v 3 1 a 2 3 n 2 a 5 3 o 2 3 o 5 3");
    let terms = [4usize, 6, 3, 7, 8];
    let (ta, tb, tc) = (*rng.pick(&terms), *rng.pick(&terms), *rng.pick(&terms));
    s.push_str(&format!(" i 1 {ta} {tb}")); // 9
    let target = if rng.coin() {
        s.push_str(&format!(" i 0 9 {tc}")); // 10
        10
    } else {
        s.push_str(&format!(" i 0 {tc} 9")); // 10
        10
    };
    let q = if rng.coin() { "0 2" } else { "2 0" };
    s.push_str(&format!(" Q {target} 0 2 {q} R 8 8 4 4 8 8 4 4 E 8 0 8 0"));
    let h = *rng.pick(&[2u64, 4, 4, 6]);
    s.push_str(&format!(" {} 0 {h} 0 8 0 8 0", 8 - h));
    let r = 1 + rng.below(4);
    if rng.coin() { s.push_str(&format!(" 4 0 4 {r}")) } else { s.push_str(&format!(" 8 0 8 {r}")) }
    s
}

pub fn gen(rng: &mut Rng, idx: usize, n: usize, thorough: bool) -> String {
    if idx % 9 == 4 {
        return gen_meu_family(rng);
    }
    let o = GenOpts { max_vars: if thorough { 9 } else { 7 }, max_ops: if thorough { 40 } else { 24 }, new_vars: true, small_tables: false };
    let p = gen_prog(rng, idx, n, &o);
    let prog = parse(&p);
    let total = prog.total_vars();
    let npool = prog.ops.len();
    // target: usually a pool entry whose function depends on many variables (found by running the
    // program), sometimes any entry (constants, literals)
    let supports: Vec<Vec<usize>> = {
        let b = AnyBuilder::new(&prog);
        let mut dummy = Stats::default();
        let pool = exec(&b, &prog, &mut dummy);
        pool.iter().map(|f| { let t = table_of(*f, total); (0..total).filter(|v| (0..(1usize << total)).any(|a| t[a] != t[a ^ (1 << v)])).collect() }).collect()
    };
    let sizes: Vec<usize> = supports.iter().map(|s| s.len()).collect();
    let best = *sizes.iter().max().unwrap();
    let target = match rng.below(8) {
        0 => rng.below(npool as u64) as usize,
        1 | 2 => { let c: Vec<usize> = (0..npool).filter(|i| sizes[*i] > 0).collect(); if c.is_empty() { npool - 1 } else { *rng.pick(&c) } }
        _ => { let c: Vec<usize> = (0..npool).filter(|i| sizes[*i] == best).collect(); *rng.pick(&c) }
    };
    // query variables: empty, all, or a random selection in random order (may be ignored by the function)
    let maxq = if thorough { 7 } else { 6 };
    // half of the cases are shaped for MEU: few decisions, early in the order, in the support
    let meu_shaped = rng.chance(1, 2);
    let k = if meu_shaped {
        rng.range(1, total.min(2))
    } else {
        match rng.below(10) {
            0 => 0,
            1 => total.min(maxq + 1),
            // deep searches (>= 4 query variables): pruning decisions several levels apart interact
            2..=5 => rng.range(total.min(4), total.min(maxq)),
            _ => rng.range(1, total.min(maxq)),
        }
    };
    let mut q = rng.perm(total);
    match if meu_shaped { 3 } else { rng.below(4) } {
        // prefer variables the function depends on
        1 => q.sort_by_key(|v| !supports[target].contains(v)),
        // ... and among them those early in the order (so that chance / reward variables follow)
        2 | 3 => q.sort_by_key(|v| (!supports[target].contains(v), level_of(&prog, *v))),
        _ => {}
    }
    q.truncate(k);
    rng.shuffle(&mut q);
    if rng.chance(1, 4) {
        q.sort();
    }
    // small-magnitude stream: conjoin a fresh variable s (added at run time, so it sits at the
    // bottom of the order) with hi weight 2^-m and lo weight 1 - 2^-m: every path to true passes
    // through s, so every value and bound is an exact multiple of 2^-m and differences between
    // candidate optima drop far below 2^-52 in absolute terms while staying exact in f64
    let scaled = rng.chance(1, 8);
    // one or two scaling variables (2^-30, 2^-40, or 2^-30 * 2^-30 = 2^-60 < 2^-52)
    let tinies: Vec<u32> = if !scaled { vec![] } else { match rng.below(4) { 0 => vec![30], 1 => vec![40], _ => vec![30, 30] } };
    let otarget = target;
    let negflag = if scaled { 0u8 } else { rng.coin() as u8 };
    let (mut p, mut target) = (p, target);
    for (j, _) in tinies.iter().enumerate() {
        // pool: N at index npool + 2j, the conjunction at npool + 2j + 1
        p = format!("{p} N 1 a {target} {}", npool + 2 * j);
        target = npool + 2 * j + 1;
    }
    let mut s = format!("{p} Q {target} {negflag} {k}");
    for v in &q {
        s.push_str(&format!(" {v}"));
    }
    // real weights; a coarse stream (0, 4, 8 only) makes ties between branches frequent
    let coarse = rng.chance(1, 4);
    let w8 = |rng: &mut Rng| -> u64 { if coarse { *rng.pick(&[0u64, 4, 4, 8, 8]) } else { rng.below(9) } };
    s.push_str(" R");
    for v in 0..total {
        if q.contains(&v) {
            let (a, b) = (w8(rng), w8(rng));
            s.push_str(&format!(" {a} {b}"));
        } else {
            let h = w8(rng);
            s.push_str(&format!(" {} {h}", 8 - h));
        }
    }
    for tiny in &tinies {
        s.push_str(&format!(" {}@{tiny} 1@{tiny}", (1u64 << tiny) - 1));
    }
    // expected-utility weights
    let last_dec = q.iter().map(|v| level_of(&prog, *v)).max();
    let frac_dec = rng.chance(1, 5);
    s.push_str(" E");
    for v in 0..total {
        if q.contains(&v) {
            if frac_dec {
                let (a, b) = (w8(rng), w8(rng));
                s.push_str(&format!(" {a} 0 {b} 0"));
            } else {
                s.push_str(" 8 0 8 0");
            }
        } else if last_dec.map_or(true, |l| level_of(&prog, v) > l) {
            match if supports[otarget].contains(&v) && rng.chance(1, 2) { 0 } else { rng.below(6) } {
                0 | 1 | 2 => s.push_str(&format!(" 8 0 8 {}", 1 + rng.below(5))),
                3 => { let h = w8(rng); s.push_str(&format!(" {} 0 {h} 0", 8 - h)) }
                4 => { let h = w8(rng); s.push_str(&format!(" {} {} {h} {}", 8 - h, rng.below(3), rng.below(4))) }
                _ => s.push_str(&format!(" {} {} {} {}", w8(rng), rng.below(3), w8(rng), rng.below(4))),
            }
        } else {
            let h = w8(rng);
            s.push_str(&format!(" {} 0 {h} 0", 8 - h));
        }
    }
    for _ in &tinies {
        s.push_str(" 4 0 4 0");
    }
    s
}

// ------------------------------------------------------------------ exact dyadic arithmetic
/// n / 2^k
#[derive(Clone, Copy, Debug)]
struct D {
    n: i128,
    k: u32,
}
impl D {
    fn int(n: i128) -> D { D { n, k: 0 } }
    fn eighth(n: i128) -> D { D { n, k: 3 }.norm() }
    fn norm(mut self) -> D {
        if self.n == 0 {
            return D { n: 0, k: 0 };
        }
        while self.k > 0 && self.n % 2 == 0 {
            self.n /= 2;
            self.k -= 1;
        }
        self
    }
    fn add(self, o: D) -> D {
        let k = self.k.max(o.k);
        D { n: (self.n << (k - self.k)) + (o.n << (k - o.k)), k }.norm()
    }
    fn mul(self, o: D) -> D { D { n: self.n * o.n, k: self.k + o.k }.norm() }
    fn cmp(self, o: D) -> std::cmp::Ordering {
        let k = self.k.max(o.k);
        (self.n << (k - self.k)).cmp(&(o.n << (k - o.k)))
    }
    fn eq(self, o: D) -> bool { self.cmp(o) == std::cmp::Ordering::Equal }
    /// exact value of a finite f64, from its bit pattern
    fn of_f64(x: f64) -> D {
        assert!(x.is_finite());
        let bits = x.to_bits();
        let neg = bits >> 63 == 1;
        let e = ((bits >> 52) & 0x7ff) as i64;
        let frac = bits & ((1u64 << 52) - 1);
        let (mut m, mut ex) = if e == 0 { (frac, -1074i64) } else { (frac | (1u64 << 52), e - 1075) };
        if m == 0 {
            return D { n: 0, k: 0 };
        }
        let tz = m.trailing_zeros();
        m >>= tz;
        ex += tz as i64;
        let n = if neg { -(m as i128) } else { m as i128 };
        if ex >= 0 {
            assert!(ex < 60);
            D { n: n << ex, k: 0 }
        } else {
            assert!(ex > -120);
            D { n, k: (-ex) as u32 }
        }
    }
    fn show(self) -> String {
        let d = self.norm();
        format!("{}/{}", d.n, 1u128 << d.k)
    }
}
type Eu = (D, D);
fn eu_add(a: Eu, b: Eu) -> Eu { (a.0.add(b.0), a.1.add(b.1)) }
fn eu_mul(a: Eu, b: Eu) -> Eu { (a.0.mul(b.0), a.0.mul(b.1).add(a.1.mul(b.0))) }

/// dependency-restricted sum of g (a truth table over all variables) with expected-utility weights:
/// recursion over the order, branching only on variables the sub-function depends on
fn dep_sum(g: &dyn Fn(usize) -> bool, levels: &[usize], k: usize, fixed: usize, w: &[(Eu, Eu)]) -> Eu {
    if k == levels.len() {
        return if g(fixed) { (D::int(1), D::int(0)) } else { (D::int(0), D::int(0)) };
    }
    let v = levels[k];
    let rest = &levels[k + 1..];
    let mut depends = false;
    for m in 0..(1usize << rest.len()) {
        let mut a = fixed & !(1 << v);
        for (j, u) in rest.iter().enumerate() {
            if (m >> j) & 1 == 1 { a |= 1 << u } else { a &= !(1 << u) }
        }
        if g(a) != g(a | (1 << v)) {
            depends = true;
            break;
        }
    }
    if depends {
        eu_add(eu_mul(w[v].0, dep_sum(g, levels, k + 1, fixed & !(1 << v), w)), eu_mul(w[v].1, dep_sum(g, levels, k + 1, fixed | (1 << v), w)))
    } else {
        dep_sum(g, levels, k + 1, fixed & !(1 << v), w)
    }
}

fn pm_str(m: &PartialModel, total: usize) -> String {
    (0..total).map(|v| match m.get(VarLabel::new(v as u64)) { Some(true) => '1', Some(false) => '0', None => '-' }).collect()
}

/// the assignment of the query variables encoded in a returned model, if it sets exactly them
fn query_bits(m: &PartialModel, q: &[usize], total: usize, what: &str, fails: &mut Vec<String>) -> Option<usize> {
    let mut a = 0usize;
    for v in 0..total {
        match (m.get(VarLabel::new(v as u64)), q.contains(&v)) {
            (Some(b), true) => { if b { a |= 1 << v } }
            (None, false) => {}
            (None, true) => { fails.push(format!("{what}: the returned model leaves query variable {v} unset")); return None; }
            (Some(_), false) => { fails.push(format!("{what}: the returned model sets variable {v}, which is not a query variable")); return None; }
        }
    }
    Some(a)
}

pub fn run(case: &str, st: &mut Stats) -> Outcome {
    let prog = parse(case);
    let tail = &prog.rest;
    assert!(tail[0] == "Q");
    let target: usize = tail[1].parse().unwrap();
    let neg = tail[2] != "0";
    let k: usize = tail[3].parse().unwrap();
    let q: Vec<usize> = (0..k).map(|i| tail[4 + i].parse().unwrap()).collect();
    let total = prog.total_vars();
    let mut i = 4 + k;
    assert!(tail[i] == "R");
    i += 1;
    // a real weight token is n (= n/8) or n@k (= n/2^k); both literals of a variable share k
    let wtok = |s: &str| -> (i128, u32) { match s.split_once('@') { Some((n, k)) => (n.parse().unwrap(), k.parse().unwrap()), None => (s.parse().unwrap(), 3) } };
    let rexp: Vec<u32> = (0..total).map(|v| wtok(&tail[i + 2 * v]).1).collect();
    let rw: Vec<(i128, i128)> = (0..total).map(|v| (wtok(&tail[i + 2 * v]).0, wtok(&tail[i + 2 * v + 1]).0)).collect();
    let rf = |n: i128, k: u32| -> f64 { n as f64 / 2f64.powi(k as i32) };
    i += 2 * total;
    assert!(tail[i] == "E");
    i += 1;
    let ew: Vec<[i128; 4]> = (0..total).map(|v| [tail[i + 4 * v].parse().unwrap(), tail[i + 4 * v + 1].parse().unwrap(), tail[i + 4 * v + 2].parse().unwrap(), tail[i + 4 * v + 3].parse().unwrap()]).collect();

    let b = AnyBuilder::new(&prog);
    let mut dummy = Stats::default();
    let pool = exec(&b, &prog, &mut dummy);
    let p: BddPtr = if neg { pool[target].neg() } else { pool[target] };
    let t = table_of(p, total);
    let nv = b.num_vars();
    assert!(nv == total);
    let qv: Vec<VarLabel> = q.iter().map(|v| VarLabel::new(*v as u64)).collect();
    let mut fails = vec![];

    // ---- implementation
    let real: WmcParams<RealSemiring> = WmcParams::new(HashMap::from_iter((0..total).map(|v| (VarLabel::new(v as u64), (RealSemiring(rf(rw[v].0, rexp[v])), RealSemiring(rf(rw[v].1, rexp[v])))))));
    let eu: WmcParams<ExpectedUtility> = WmcParams::new(HashMap::from_iter((0..total).map(|v| {
        (VarLabel::new(v as u64), (ExpectedUtility(ew[v][0] as f64 / 8.0, ew[v][1] as f64), ExpectedUtility(ew[v][2] as f64 / 8.0, ew[v][3] as f64)))
    })));
    let (mm_v, mm_m) = p.marginal_map(&qv, nv, &real);
    let (bbr_v, bbr_m) = p.bb(&qv, nv, &real);
    let (meu_v, meu_m) = p.meu(&qv, nv, &eu);
    let (bbe_v, bbe_m) = p.bb(&qv, nv, &eu);
    // compared with the model: the optimal VALUES.  Which of several optimal assignments is
    // returned is not fixed by the property (any assignment attaining the maximum will do): the
    // returned assignments are judged by the oracle below, not by the correspondence
    let _ = pm_str;
    let line = format!(
        "mm={} bbr={} meu={},{} bbe={},{}",
        D::of_f64(mm_v).show(),
        D::of_f64(bbr_v.0).show(),
        D::of_f64(meu_v.0).show(), D::of_f64(meu_v.1).show(),
        D::of_f64(bbe_v.0).show(), D::of_f64(bbe_v.1).show()
    );

    // ---- oracle: exhaustive maximisation over the assignments of the query variables
    let qmask: usize = q.iter().fold(0, |m, v| m | (1 << v));
    // all assignments of the query variables, as bit masks within qmask
    let mut qasg: Vec<usize> = vec![];
    let mut sub = qmask;
    loop {
        qasg.push(sub);
        if sub == 0 { break; }
        sub = (sub - 1) & qmask;
    }
    // real objective: numerator over the product of the per-variable denominators 2^k
    let real_obj = |pi: usize| -> i128 {
        let mut s = 0i128;
        for a in 0..(1usize << total) {
            if a & qmask == pi && t[a] {
                let mut prod = 1i128;
                for v in 0..total {
                    prod *= if (a >> v) & 1 == 1 { rw[v].1 } else { rw[v].0 };
                }
                s += prod;
            }
        }
        s
    };
    let den = D { n: 1, k: rexp.iter().sum::<u32>() };
    let real_best = qasg.iter().map(|pi| real_obj(*pi)).max().unwrap();
    for (what, v, m) in [("marginal_map", mm_v, &mm_m), ("bb<RealSemiring>", bbr_v.0, &bbr_m)] {
        if let Some(pi) = query_bits(m, &q, total, what, &mut fails) {
            let got = D::of_f64(v);
            let own = D::int(real_obj(pi)).mul(den);
            if !got.eq(own) {
                fails.push(format!("{what}: returned value {} but the returned assignment {} has weighted count {}", got.show(), pm_str(m, total), own.show()));
            }
            let best = D::int(real_best).mul(den);
            if got.cmp(best) == std::cmp::Ordering::Less {
                let arg = qasg.iter().find(|pi| real_obj(**pi) == real_best).unwrap();
                fails.push(format!("{what}: returned value {} but the query assignment with bits {arg:#b} has weighted count {}", got.show(), best.show()));
            }
        }
    }
    // expected-utility objective
    let levels: Vec<usize> = (0..total).map(|l| b.var_at_level(l) as usize).collect();
    let euw: Vec<(Eu, Eu)> = (0..total).map(|v| ((D::eighth(ew[v][0]), D::int(ew[v][1])), (D::eighth(ew[v][2]), D::int(ew[v][3])))).collect();
    let eu_obj = |pi: usize, with_decisions: bool| -> Eu {
        let g = |a: usize| t[(a & !qmask) | pi];
        let mut r = dep_sum(&g, &levels, 0, 0, &euw);
        if with_decisions {
            for v in &q {
                r = eu_mul(if (pi >> v) & 1 == 1 { euw[*v].1 } else { euw[*v].0 }, r);
            }
        }
        r
    };
    for (what, v, m, wd) in [("meu", meu_v, &meu_m, false), ("bb<ExpectedUtility>", bbe_v, &bbe_m, true)] {
        if let Some(pi) = query_bits(m, &q, total, what, &mut fails) {
            let got = (D::of_f64(v.0), D::of_f64(v.1));
            let own = eu_obj(pi, wd);
            if !(got.0.eq(own.0) && got.1.eq(own.1)) {
                fails.push(format!("{what}: returned ({}, {}) but the returned assignment {} has value ({}, {})", got.0.show(), got.1.show(), pm_str(m, total), own.0.show(), own.1.show()));
            }
            for pi2 in &qasg {
                let other = eu_obj(*pi2, wd);
                if other.1.cmp(got.1) == std::cmp::Ordering::Greater {
                    fails.push(format!("{what}: returned utility {} but the decision assignment with bits {pi2:#b} has utility {}", got.1.show(), other.1.show()));
                    break;
                }
            }
        }
    }
    let real_opt = qasg.iter().filter(|pi| real_obj(**pi) == real_best).count();
    if real_best == 0 { st.bump("real_optimum_is_zero"); }
    if real_opt > 1 && real_best > 0 { st.bump("real_several_optimal_assignments"); }
    if D::of_f64(meu_v.1).n > 0 { st.bump("meu_utility_positive"); }
    {
        let best_u = qasg.iter().map(|pi| eu_obj(*pi, false).1).fold(D::int(0), |m, x| if x.cmp(m) == std::cmp::Ordering::Greater { x } else { m });
        let cnt = qasg.iter().filter(|pi| eu_obj(**pi, false).1.eq(best_u)).count();
        if cnt > 1 && best_u.n > 0 { st.bump("meu_several_optimal_assignments"); }
        let worst_differs = qasg.iter().any(|pi| !eu_obj(*pi, false).1.eq(best_u));
        if worst_differs { st.bump("meu_assignments_differ_in_utility"); }
    }
    if qasg.iter().any(|pi| real_obj(*pi) != real_best) { st.bump("real_assignments_differ_in_value"); }
    st.bump(&format!("query_vars={k}"));
    st.bump(&format!("total_vars={total}"));
    st.bump(if neg { "complemented_root" } else { "regular_root" });
    let support: usize = (0..total).filter(|v| (0..(1usize << total)).any(|a| t[a] != t[a ^ (1 << v)])).fold(0, |m, v| m | (1 << v));
    if q.iter().any(|v| (support >> v) & 1 == 0) { st.bump("some_query_var_ignored_by_function"); }
    if pm_str(&mm_m, total) != pm_str(&bbr_m, total) { st.bump("mm_and_bb_real_models_differ"); }
    if pm_str(&meu_m, total) != pm_str(&bbe_m, total) { st.bump("meu_and_bb_eu_models_differ"); }
    if q.iter().any(|v| ew[*v] != [8, 0, 8, 0]) { st.bump("non_unit_decision_weights"); }
    let nontrivial = matches!(p, BddPtr::Reg(_) | BddPtr::Compl(_)) && total >= 2 && k >= 1;
    Outcome { result: line, fails, nontrivial }
}
