//! C01: BDD operations compute exactly the Boolean function they name.
//! case: a BDD program (see bddprog.rs).  out: unfolding of every pool entry, re-walked after
//! the last operation ("keeps denoting").  oracle: truth table of every pool entry (independent
//! evaluator) vs the specification program on truth tables.
use rsdd_verif_harness::bddprog::*;
use rsdd_verif_harness::*;

pub const PROP: Prop = Prop { gen, run, panic_ok: never };

fn main() {
    run_main(PROP)
}

pub fn gen(rng: &mut Rng, idx: usize, n: usize, thorough: bool) -> String {
    let o = GenOpts { max_vars: if thorough { 8 } else { 6 }, max_ops: if thorough { 60 } else { 28 }, new_vars: true, small_tables: true };
    if idx % 16 == 15 {
        // few variables with large labels (word-size boundaries) in a builder over > 64 variables
        return gen_sparse_prog(rng, if thorough { 30 } else { 18 });
    }
    gen_prog(rng, idx, n, &o)
}

fn run_sparse(prog: &Prog, st: &mut Stats) -> Outcome {
    let b = AnyBuilder::new(prog);
    let pool = exec(&b, prog, st);
    let mut fails = vec![];
    match sparse_tables(prog, &pool) {
        Err(e) => fails.push(e),
        Ok((spec, got)) => {
            for k in 0..pool.len() {
                if spec[k] != got[k] {
                    let a = (0..spec[k].len()).find(|a| spec[k][*a] != got[k][*a]).unwrap();
                    fails.push(format!("pool entry {k} ({:?}) evaluates to {} where the used variables {:?} have the values {a:#b} (others false), the operation's definition gives {}", prog.ops[k], got[k][a], used_labels(prog), spec[k][a]));
                }
            }
        }
    }
    st.bump("sparse_large_labels");
    st.bump(if prog.lru.is_some() { "cache_lru" } else { "cache_all" });
    Outcome { result: pool_line(&pool), fails, nontrivial: pool.iter().any(|p| !p.is_const()) }
}

pub fn run(case: &str, st: &mut Stats) -> Outcome {
    let prog = parse(case);
    if prog.nvars > 16 {
        return run_sparse(&prog, st);
    }
    let b = AnyBuilder::new(&prog);
    let pool = exec(&b, &prog, st);
    let nv = prog.total_vars();
    let spec = spec_tables(&prog);
    let mut fails = vec![];
    let mut nontrivial = false;
    for (k, p) in pool.iter().enumerate() {
        let t = table_of(*p, nv);
        if t != spec[k] {
            let a = (0..t.len()).find(|a| t[*a] != spec[k][*a]).unwrap();
            fails.push(format!("pool entry {k} ({:?}) evaluates to {} on assignment {a:#b}, the operation's definition gives {}", prog.ops[k], t[a], spec[k][a]));
        }
        // the same walk through the public complement-edge accessors (low()/high() push the
        // complement to the children, var(), is_neg(), neg()): they must describe the same function
        fn eval_acc(p: BddPtr, a: usize) -> bool {
            match p {
                BddPtr::PtrTrue => true,
                BddPtr::PtrFalse => false,
                _ => if (a >> p.var_safe().unwrap().value()) & 1 == 1 { eval_acc(p.high(), a) } else { eval_acc(p.low(), a) },
            }
        }
        if let Some(a) = (0..t.len()).find(|a| eval_acc(*p, *a) != t[*a] || eval_acc(p.neg(), *a) == t[*a]) {
            fails.push(format!("pool entry {k}: walking with low()/high()/neg() disagrees with walking the raw node fields on assignment {a:#b}"));
        }
        if let BddPtr::Reg(n) | BddPtr::Compl(n) = p {
            if p.is_neg() != matches!(p, BddPtr::Compl(_)) || p.low_raw() != n.low || p.high_raw() != n.high || p.neg().neg() != *p {
                fails.push(format!("pool entry {k}: is_neg / low_raw / high_raw / neg do not describe the pointer"));
            }
            if !n.low.is_const() || !n.high.is_const() {
                nontrivial = true;
            }
        }
    }
    st.bump(if prog.lru.is_some() { "cache_lru" } else { "cache_all" });
    st.bump(&format!("nvars={}", prog.nvars));
    st.bump(if prog.tblcap == 0 { "table_shipped" } else { "table_small" });
    Outcome { result: pool_line(&pool), fails, nontrivial }
}

use rsdd::repr::{BddPtr, DDNNFPtr};
