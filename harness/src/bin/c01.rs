//! C01: BDD operations compute exactly the Boolean function they name.
//! case: a BDD program (see bddprog.rs).  out: unfolding of every pool entry, re-walked after
//! the last operation ("keeps denoting").  oracle: truth table of every pool entry (independent
//! evaluator) vs the specification program on truth tables.
use rsdd_verif_harness::bddprog::*;
use rsdd_verif_harness::*;

pub const PROP: Prop = Prop { gen, run, panic_ok: never };

fn main() {
    run_main(PROP)
}

pub fn gen(rng: &mut Rng, idx: usize, n: usize, thorough: bool) -> String {
    let o = GenOpts { max_vars: if thorough { 8 } else { 6 }, max_ops: if thorough { 60 } else { 28 }, new_vars: true, small_tables: true };
    gen_prog(rng, idx, n, &o)
}

pub fn run(case: &str, st: &mut Stats) -> Outcome {
    let prog = parse(case);
    let b = AnyBuilder::new(&prog);
    let pool = exec(&b, &prog, st);
    let nv = prog.total_vars();
    let spec = spec_tables(&prog);
    let mut fails = vec![];
    let mut nontrivial = false;
    for (k, p) in pool.iter().enumerate() {
        let t = table_of(*p, nv);
        if t != spec[k] {
            let a = (0..t.len()).find(|a| t[*a] != spec[k][*a]).unwrap();
            fails.push(format!("pool entry {k} ({:?}) evaluates to {} on assignment {a:#b}, the operation's definition gives {}", prog.ops[k], t[a], spec[k][a]));
        }
        if let BddPtr::Reg(n) | BddPtr::Compl(n) = p {
            if !n.low.is_const() || !n.high.is_const() {
                nontrivial = true;
            }
        }
    }
    st.bump(if prog.lru.is_some() { "cache_lru" } else { "cache_all" });
    st.bump(&format!("nvars={}", prog.nvars));
    st.bump(if prog.tblcap == 0 { "table_shipped" } else { "table_small" });
    Outcome { result: pool_line(&pool), fails, nontrivial }
}

use rsdd::repr::BddPtr;
