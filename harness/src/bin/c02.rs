//! C02: equal functions are the same BDD node; shape of results; unique-table growth.
//! case kinds:
//!   a BDD program (see bddprog.rs)          -> out: identity class of every pool entry
//!                                              (index of the first pointer-equal entry)
//!   G <offset> <count> <stride>             -> the real builder at the SHIPPED table capacity:
//!        insert <count> distinct literal nodes (labels offset + k*stride), re-request every one
//!        and report how many came back as a different pointer -> out: dups=0 nodes=<count>
//! oracle: pointer-equal <=> equal truth tables over the whole pool; every result ordered,
//! reduced, with regular non-false high edges; G: no duplicate, num distinct pointers = count.
use rsdd::builder::cache::AllIteTable;
use rsdd::builder::bdd::RobddBuilder;
use rsdd::builder::BottomUpBuilder;
use rsdd::repr::{BddPtr, VarLabel};
use rsdd_verif_harness::bddprog::*;
use rsdd_verif_harness::*;

pub const PROP: Prop = Prop { gen, run, panic_ok: never };

fn main() {
    run_main(PROP)
}

pub fn gen(rng: &mut Rng, idx: usize, n: usize, thorough: bool) -> String {
    // a few growth cases at the shipped capacity (one growth needs > 91750 nodes, two > 183500)
    // the last case of every shard (and a few more in the thorough tier) is a growth case
    if idx + 1 == n || (thorough && idx % 500 == 499) {
        let count = if thorough && rng.coin() { 190_000 + rng.below(20_000) } else { 91_760 + rng.below(9_000) };
        return format!("G {} {} {}", 1_000_003 + rng.below(1 << 20), count, 1 + rng.below(3));
    }
    let o = GenOpts { max_vars: if thorough { 8 } else { 6 }, max_ops: if thorough { 70 } else { 30 }, new_vars: true, small_tables: true };
    gen_prog(rng, idx, n, &o)
}

fn growth_case(t: &[&str], st: &mut Stats) -> Outcome {
    let (offset, count, stride): (u64, u64, u64) = (t[1].parse().unwrap(), t[2].parse().unwrap(), t[3].parse().unwrap());
    let b = RobddBuilder::<AllIteTable<BddPtr>>::new_with_linear_order(4);
    let mut first: Vec<BddPtr> = Vec::with_capacity(count as usize);
    for k in 0..count {
        first.push(b.var(VarLabel::new(offset + k * stride), true));
    }
    let mut dups = 0u64;
    let mut fails = vec![];
    for k in 0..count {
        let again = b.var(VarLabel::new(offset + k * stride), true);
        if again != first[k as usize] {
            dups += 1;
            if fails.len() < 3 {
                fails.push(format!("literal {} requested again after {} inserts came back as a different node (unique table lost it)", offset + k * stride, count));
            }
        }
    }
    st.bump("growth_cases");
    st.add("growth_nodes", count);
    Outcome { result: format!("dups={dups} nodes={count}"), fails, nontrivial: count > 91_750 }
}

pub fn run(case: &str, st: &mut Stats) -> Outcome {
    let t = toks(case);
    if t[0] == "G" {
        return growth_case(&t, st);
    }
    let prog = parse(case);
    let b = AnyBuilder::new(&prog);
    let pool = exec(&b, &prog, st);
    let nv = prog.total_vars();
    let tables: Vec<Table> = pool.iter().map(|p| table_of(*p, nv)).collect();
    let mut fails = vec![];
    let mut classes = vec![];
    let mut distinct = 0;
    for i in 0..pool.len() {
        let mut cls = i;
        for j in 0..i {
            let ptr_eq = b.eq(pool[i], pool[j]);
            let sem_eq = tables[i] == tables[j];
            if ptr_eq != sem_eq {
                fails.push(format!("pool entries {j} and {i}: pointer-equal = {ptr_eq} but same function = {sem_eq}"));
            }
            if ptr_eq && cls == i {
                cls = j;
            }
        }
        if cls == i {
            distinct += 1;
        }
        classes.push(cls.to_string());
        if let Some(v) = shape_violation(&b, pool[i], None) {
            fails.push(format!("pool entry {i} ({:?}): {v}", prog.ops[i]));
        }
    }
    // node identity must survive the observers: after weighted counts, node counts and cached
    // semantic hashes on every pool entry, building the same program again in the same builder
    // (up to the first run-time variable) must give the very same pointers
    {
        use rsdd::repr::{create_semantic_hash_map, DDNNFPtr, VarLabel, VarOrder, WmcParams};
        use rsdd::util::semirings::RealSemiring;
        use std::collections::HashMap;
        let order = VarOrder::new(&prog.pos_to_var().iter().map(|v| VarLabel::new(*v as u64)).collect::<Vec<_>>());
        let map = create_semantic_hash_map::<{ rsdd::constants::primes::U64_LARGEST }>(nv);
        let real: WmcParams<RealSemiring> = WmcParams::new(HashMap::from_iter((0..nv).map(|v| (VarLabel::new(v as u64), (RealSemiring(1.0), RealSemiring(2.0))))));
        let cut = prog.ops.iter().position(|o| matches!(o, Op::NewVar(_))).unwrap_or(prog.ops.len());
        for p in pool.iter().take(cut) {
            let _ = p.unsmoothed_wmc(&real);
            let _ = p.count_nodes();
            if cut == prog.ops.len() {
                let _ = p.cached_semantic_hash(&order, &map);
            }
            let _ = p.semantic_hash(&map);
        }
        let mut pre = prog.clone();
        pre.ops.truncate(cut);
        let mut dummy = Stats::default();
        let again = exec(&b, &pre, &mut dummy);
        for i in 0..cut {
            if again[i] != pool[i] || !b.eq(again[i], pool[i]) {
                fails.push(format!("pool entry {i} ({:?}) built again after counts / hashes on the pool is a different pointer than the first time", prog.ops[i]));
            }
        }
    }
    st.bump(if prog.lru.is_some() { "cache_lru" } else { "cache_all" });
    st.bump(if prog.tblcap == 0 { "table_shipped" } else { "table_small" });
    st.add("pool_pairs", (pool.len() * pool.len().saturating_sub(1) / 2) as u64);
    Outcome { result: classes.join(" "), fails, nontrivial: distinct >= 4 }
}
