//! C07: weighted model counts equal the semiring sum over models.
//! case:  <BDD program> W <pool index> <neg 0|1> (<code_v>)*total (<ilo_v> <ihi_v>)*total (<bit_v>)*total
//!   code_v selects a normalised finite-field weight for variable v (hi from boundary residues or
//!   a pseudo-random residue, lo = 1 - hi); ilo/ihi are arbitrary small integer weights; bit_v an
//!   assignment for Boolean evaluation.
//! out:   ff<i>=<count in the i-th exported prime field>* int=<count with integer weights> ev=<0|1>
//! oracle (independent, from the truth table): brute-force sum over all assignments of all
//! variables (normalised weights: finite fields, expected utility, complex, polynomial);
//! dependency-restricted sum for arbitrary integer weights; truth-table lookup for evaluate.
use rsdd::constants::primes;
use rsdd::builder::decision_nnf::{DecisionNNFBuilder, StandardDecisionNNFBuilder};
use rsdd::builder::sdd::{CompressionSddBuilder, SddBuilder};
use rsdd::builder::BottomUpBuilder;
use rsdd::repr::{BddPtr, Cnf, DDNNFPtr, Literal, SddPtr, VTree, VarLabel, VarOrder, WmcParams};
use rsdd::util::semirings::{Complex, ExpectedUtility, FiniteField, Polynomial, RationalSemiring, RealSemiring, Semiring};
use rsdd_verif_harness::bddprog::*;
use rsdd_verif_harness::sddprog::*;
use rsdd_verif_harness::*;
use std::collections::HashMap;

pub const PROP: Prop = Prop { gen, run, panic_ok: never };

fn main() {
    run_main(PROP)
}

pub const PRIMES: [u128; 7] = [primes::U32_TINY, primes::U32_SMALL, primes::U64_LARGEST, primes::U128_LARGE_1, primes::U128_LARGE_2, primes::U128_LARGE_3, primes::U128_LARGE_4];

pub fn gen(rng: &mut Rng, idx: usize, n: usize, thorough: bool) -> String {
    let o = GenOpts { max_vars: if thorough { 8 } else { 6 }, max_ops: if thorough { 40 } else { 18 }, new_vars: true, small_tables: false };
    // every other case is drawn from the upper end of the size range (>= 5 variables): general SDD
    // decision nodes with two-variable primes and larger subs need them
    let idx2 = if idx % 2 == 1 { (n * 4) / 5 + idx / 5 } else { idx };
    let p = gen_prog(rng, idx2.min(n.saturating_sub(1)), n, &o);
    let prog = parse(&p);
    let total = prog.total_vars();
    let npool = prog.ops.len();
    let target = if rng.chance(3, 4) { npool - 1 } else { rng.below(npool as u64) as usize };
    let mut s = format!("{p} W {target} {}", rng.coin() as u8);
    for _ in 0..total {
        s.push_str(&format!(" {}", rng.below(24)));
    }
    for _ in 0..total {
        s.push_str(&format!(" {} {}", rng.below(10), rng.below(10)));
    }
    for _ in 0..total {
        s.push_str(&format!(" {}", rng.coin() as u8));
    }
    s
}

// independent modular arithmetic (no FiniteField): double-and-add, valid for p < 2^127
fn addmod(a: u128, b: u128, p: u128) -> u128 { let s = a + b; if s >= p { s - p } else { s } }
fn mulmod(mut a: u128, mut b: u128, p: u128) -> u128 {
    let mut acc = 0u128;
    a %= p;
    while b > 0 {
        if b & 1 == 1 { acc = addmod(acc, a, p); }
        a = addmod(a, a, p);
        b >>= 1;
    }
    acc
}
/// the normalised weight selected by a code: hi residue; lo = 1 - hi (mod p)
pub fn hi_of_code(code: u64, p: u128) -> u128 {
    match code {
        0 => 0,
        1 => 1,
        2 => 2 % p,
        3 => p - 1,
        4 => p - 2,
        5 => (p - 1) / 2,
        6 => (p + 1) / 2,
        c => mulmod(c as u128, 0x9E37_79B9_7F4A_7C15_F39C_C060_5CED_C835u128 % p, p),
    }
}

fn ff_count<const P: u128>(p: BddPtr, codes: &[u64]) -> u128 {
    let params: WmcParams<FiniteField<P>> = WmcParams::new(HashMap::from_iter(codes.iter().enumerate().map(|(v, c)| {
        let hi = hi_of_code(*c, P);
        let lo = (P + 1 - hi) % P;
        (VarLabel::new(v as u64), (FiniteField::new(lo), FiniteField::new(hi)))
    })));
    p.unsmoothed_wmc(&params).value()
}

/// dependency-restricted sum for arbitrary weights: recursion over the order, branching only
/// on variables the (sub-)function depends on
fn dep_sum(t: &Table, levels: &[usize], k: usize, fixed: usize, w: &[(i128, i128)]) -> i128 {
    // t restricted by `fixed` on variables levels[0..k]
    if k == levels.len() {
        return if t[fixed] { 1 } else { 0 };
    }
    let v = levels[k];
    // does the restricted function depend on v?
    let rest: Vec<usize> = levels[k + 1..].to_vec();
    let mut depends = false;
    for m in 0..(1usize << rest.len()) {
        let mut a = fixed & !(1 << v);
        for (j, u) in rest.iter().enumerate() {
            if (m >> j) & 1 == 1 { a |= 1 << u } else { a &= !(1 << u) }
        }
        if t[a] != t[a | (1 << v)] { depends = true; break; }
    }
    if depends {
        w[v].0 * dep_sum(t, levels, k + 1, fixed & !(1 << v), w) + w[v].1 * dep_sum(t, levels, k + 1, fixed | (1 << v), w)
    } else {
        dep_sum(t, levels, k + 1, fixed & !(1 << v), w)
    }
}

// ---- the same function as an SDD (random vtrees) and as a decision-DNNF: the counts with
// normalised weights must be the same sums (independence of representation)
fn ff_count_any<'a, const P: u128, D: DDNNFPtr<'a>>(p: D, codes: &[u64]) -> u128 {
    let params: WmcParams<FiniteField<P>> = WmcParams::new(HashMap::from_iter(codes.iter().enumerate().map(|(v, c)| {
        let hi = hi_of_code(*c, P);
        (VarLabel::new(v as u64), (FiniteField::new((P + 1 - hi) % P), FiniteField::new(hi)))
    })));
    p.unsmoothed_wmc(&params).value()
}
/// all normalised-weight counts of one diagram of any kind, as one comparable string
fn counts_any<'a, D: DDNNFPtr<'a>>(p: D, codes: &[u64], total: usize) -> String {
    let pr8 = |c: u64| (c % 9) as f64 / 8.0;
    let ut = |c: u64| [-2.0f64, -1.0, 1.0, 2.0, 0.0][((c / 3) % 5) as usize % if c % 7 == 0 { 5 } else { 4 }];
    let eu: WmcParams<ExpectedUtility> = WmcParams::new(HashMap::from_iter((0..total).map(|v| (VarLabel::new(v as u64), (ExpectedUtility(1.0 - pr8(codes[v]), -ut(codes[v])), ExpectedUtility(pr8(codes[v]), ut(codes[v])))))));
    let cx: WmcParams<Complex> = WmcParams::new(HashMap::from_iter((0..total).map(|v| (VarLabel::new(v as u64), (Complex { re: 1.0 - pr8(codes[v]), im: -ut(codes[v]) }, Complex { re: pr8(codes[v]), im: ut(codes[v]) })))));
    let mk_poly = |a: f64, bb: f64| { let mut q = Polynomial::<RealSemiring>::zero(); q.coefficients[0] = RealSemiring(a); q.coefficients[1] = RealSemiring(bb); q.len = 2; q };
    let pl: WmcParams<Polynomial<RealSemiring>> = WmcParams::new(HashMap::from_iter((0..total).map(|v| (VarLabel::new(v as u64), (mk_poly(1.0 - pr8(codes[v]), -ut(codes[v])), mk_poly(pr8(codes[v]), ut(codes[v])))))));
    let e = p.unsmoothed_wmc(&eu);
    let c = p.unsmoothed_wmc(&cx);
    let q = p.unsmoothed_wmc(&pl);
    // x + 0.0 turns -0.0 into 0.0: the two zeros are the same number
    let coeffs: Vec<String> = (0..=total.min(31)).map(|i| format!("{}", q.coefficients[i].0 + 0.0)).collect();
    format!("ff1={} ff2={} ff3={} eu=({},{}) cx=({},{}) poly=[{}]",
        ff_count_any::<{ PRIMES[1] }, D>(p, codes), ff_count_any::<{ PRIMES[2] }, D>(p, codes), ff_count_any::<{ PRIMES[3] }, D>(p, codes),
        e.0 + 0.0, e.1 + 0.0, c.re + 0.0, c.im + 0.0, coeffs.join(","))
}

fn levels_of(b: &AnyBuilder, total: usize) -> Vec<usize> {
    (0..total).map(|l| b.var_at_level(l) as usize).collect()
}

pub fn run(case: &str, st: &mut Stats) -> Outcome {
    let prog = parse(case);
    let tail = &prog.rest;
    assert!(tail[0] == "W");
    let target: usize = tail[1].parse().unwrap();
    let neg = tail[2] != "0";
    let total = prog.total_vars();
    let codes: Vec<u64> = (0..total).map(|v| tail[3 + v].parse().unwrap()).collect();
    let iw: Vec<(i128, i128)> = (0..total).map(|v| (tail[3 + total + 2 * v].parse().unwrap(), tail[4 + total + 2 * v].parse().unwrap())).collect();
    let asg: Vec<bool> = (0..total).map(|v| tail[3 + 3 * total + v] != "0").collect();
    let b = AnyBuilder::new(&prog);
    let mut dummy = Stats::default();
    let pool = exec(&b, &prog, &mut dummy);
    let p = if neg { pool[target].neg() } else { pool[target] };
    let t = table_of(p, total);
    let mut fails = vec![];
    let mut line = String::new();
    // --- finite fields, normalised weights, every exported prime
    let ffs = [ff_count::<{ PRIMES[0] }>(p, &codes), ff_count::<{ PRIMES[1] }>(p, &codes), ff_count::<{ PRIMES[2] }>(p, &codes), ff_count::<{ PRIMES[3] }>(p, &codes),
               ff_count::<{ PRIMES[4] }>(p, &codes), ff_count::<{ PRIMES[5] }>(p, &codes), ff_count::<{ PRIMES[6] }>(p, &codes)];
    for (i, pr) in PRIMES.iter().enumerate() {
        let mut brute = 0u128;
        for a in 0..(1usize << total) {
            if t[a] {
                let mut prod = 1u128 % pr;
                for v in 0..total {
                    let hi = hi_of_code(codes[v], *pr);
                    let lo = (pr + 1 - hi) % pr;
                    prod = mulmod(prod, if (a >> v) & 1 == 1 { hi } else { lo }, *pr);
                }
                brute = addmod(brute, prod, *pr);
            }
        }
        if ffs[i] != brute {
            fails.push(format!("finite field {pr}: count {} but the sum over models is {brute}", ffs[i]));
        }
        line.push_str(&format!("ff{i}={} ", ffs[i]));
    }
    // --- arbitrary integer weights on the ROBDD: dependency-restricted sum
    let real: WmcParams<RealSemiring> = WmcParams::new(HashMap::from_iter((0..total).map(|v| (VarLabel::new(v as u64), (RealSemiring(iw[v].0 as f64), RealSemiring(iw[v].1 as f64))))));
    let ri = p.unsmoothed_wmc(&real).0;
    let levels: Vec<usize> = (0..total).map(|l| b.var_at_level(l) as usize).collect();
    let dep = dep_sum(&t, &levels, 0, 0, &iw);
    if ri.fract() != 0.0 || ri as i128 != dep {
        fails.push(format!("integer weights: count {ri} but the sum over the variables each sub-function depends on is {dep}"));
    }
    line.push_str(&format!("int={} ", ri as i128));
    // the same diagram counted again in the same weight type with other weights (oracle only): a
    // value memoised by the first count must not leak into the second
    let iw2: Vec<(i128, i128)> = iw.iter().enumerate().map(|(v, (l, h))| (h + 1 + (v as i128 % 3), l + 2)).collect();
    let real2: WmcParams<RealSemiring> = WmcParams::new(HashMap::from_iter((0..total).map(|v| (VarLabel::new(v as u64), (RealSemiring(iw2[v].0 as f64), RealSemiring(iw2[v].1 as f64))))));
    let ri2 = p.unsmoothed_wmc(&real2).0;
    let dep2 = dep_sum(&t, &levels_of(&b, total), 0, 0, &iw2);
    if ri2.fract() != 0.0 || ri2 as i128 != dep2 {
        fails.push(format!("integer weights, second count on the same diagram with other weights: count {ri2} but the sum is {dep2}"));
    }
    let ri3 = p.unsmoothed_wmc(&real).0;
    if ri3 != ri {
        fails.push(format!("integer weights, third count with the first weights again: {ri3} after {ri}"));
    }
    // --- Boolean evaluation
    let ev = p.evaluate(&asg);
    let a_idx = (0..total).fold(0usize, |acc, v| acc | ((asg[v] as usize) << v));
    if ev != t[a_idx] {
        fails.push(format!("evaluate({asg:?}) = {ev} but the diagram denotes {}", t[a_idx]));
    }
    line.push_str(&format!("ev={}", ev as u8));
    // evaluate on every assignment, one after the other on the same diagram (oracle only)
    if total <= 8 {
        for a in 0..(1usize << total) {
            let asg2: Vec<bool> = (0..total).map(|v| (a >> v) & 1 == 1).collect();
            if p.evaluate(&asg2) != t[a] {
                fails.push(format!("evaluate({asg2:?}) = {} but the diagram denotes {} (after evaluations of other assignments)", !t[a], t[a]));
                break;
            }
        }
    }
    // --- normalised weights in the other shipped semirings (oracle only): probabilities k/8,
    // utilities / imaginary parts / linear coefficients cancelling between low and high
    let pr8 = |c: u64| (c % 9) as f64 / 8.0;
    let ut = |c: u64| [-2.0f64, -1.0, 1.0, 2.0, 0.0][((c / 3) % 5) as usize % if c % 7 == 0 { 5 } else { 4 }];
    let eu: WmcParams<ExpectedUtility> = WmcParams::new(HashMap::from_iter((0..total).map(|v| (VarLabel::new(v as u64), (ExpectedUtility(1.0 - pr8(codes[v]), -ut(codes[v])), ExpectedUtility(pr8(codes[v]), ut(codes[v])))))));
    let cx: WmcParams<Complex> = WmcParams::new(HashMap::from_iter((0..total).map(|v| (VarLabel::new(v as u64), (Complex { re: 1.0 - pr8(codes[v]), im: -ut(codes[v]) }, Complex { re: pr8(codes[v]), im: ut(codes[v]) })))));
    let mk_poly = |a: f64, bb: f64| { let mut q = Polynomial::<RealSemiring>::zero(); q.coefficients[0] = RealSemiring(a); q.coefficients[1] = RealSemiring(bb); q.len = 2; q };
    let pl: WmcParams<Polynomial<RealSemiring>> = WmcParams::new(HashMap::from_iter((0..total).map(|v| (VarLabel::new(v as u64), (mk_poly(1.0 - pr8(codes[v]), -ut(codes[v])), mk_poly(pr8(codes[v]), ut(codes[v])))))));
    let r_eu = p.unsmoothed_wmc(&eu);
    let r_cx = p.unsmoothed_wmc(&cx);
    let r_pl = p.unsmoothed_wmc(&pl);
    // brute force in f64: all values are dyadic with small numerators, every operation exact
    let (mut b_eu, mut b_cx) = ((0.0f64, 0.0f64), (0.0f64, 0.0f64));
    let mut b_pl = vec![0.0f64; total + 1];
    for a in 0..(1usize << total) {
        if t[a] {
            let (mut e, mut c) = ((1.0f64, 0.0f64), (1.0f64, 0.0f64));
            let mut q = vec![0.0f64; total + 1];
            q[0] = 1.0;
            for v in 0..total {
                let hi = (a >> v) & 1 == 1;
                let (pw, uw) = if hi { (pr8(codes[v]), ut(codes[v])) } else { (1.0 - pr8(codes[v]), -ut(codes[v])) };
                e = (e.0 * pw, e.0 * uw + e.1 * pw);
                c = (c.0 * pw - c.1 * uw, c.0 * uw + c.1 * pw);
                let mut nq = vec![0.0f64; total + 1];
                for i in 0..=total {
                    nq[i] += q[i] * pw;
                    if i + 1 <= total { nq[i + 1] += q[i] * uw; }
                }
                q = nq;
            }
            b_eu = (b_eu.0 + e.0, b_eu.1 + e.1);
            b_cx = (b_cx.0 + c.0, b_cx.1 + c.1);
            for i in 0..=total { b_pl[i] += q[i]; }
        }
    }
    if (r_eu.0, r_eu.1) != b_eu {
        fails.push(format!("expected utility: count ({}, {}) but the sum over models is {:?}", r_eu.0, r_eu.1, b_eu));
    }
    if (r_cx.re, r_cx.im) != b_cx {
        fails.push(format!("complex: count ({}, {}) but the sum over models is {:?}", r_cx.re, r_cx.im, b_cx));
    }
    for i in 0..=total.min(31) {
        if r_pl.coefficients[i].0 != b_pl[i] {
            fails.push(format!("polynomial: coefficient {i} is {} but the sum over models gives {}", r_pl.coefficients[i].0, b_pl[i]));
            break;
        }
    }
    // rational semiring: 0/1 weights (the only normalised ones constructible through its API)
    let rt: WmcParams<RationalSemiring> = WmcParams::new(HashMap::from_iter((0..total).map(|v| (VarLabel::new(v as u64), if asg[v] { (RationalSemiring::zero(), RationalSemiring::one()) } else { (RationalSemiring::one(), RationalSemiring::zero()) }))));
    let r_rt = p.unsmoothed_wmc(&rt);
    if (r_rt == RationalSemiring::one()) != t[a_idx] || (r_rt == RationalSemiring::zero()) == t[a_idx] {
        fails.push(format!("rational semiring with indicator weights: {r_rt} but the diagram denotes {}", t[a_idx]));
    }
    // --- the same function as SDDs under two random vtrees and as a top-down decision-DNNF:
    // every normalised count must coincide with the BDD's (already checked against brute force)
    let reference = counts_any(p, &codes, total);
    let mut lrng = Rng::new(case.len() as u64 * 7919 + codes.iter().sum::<u64>());
    if !prog.ops.iter().any(|o| matches!(o, Op::NewVar(_))) {
        for round in 0..3 {
            let vars = lrng.perm(total);
            // round 0: a root whose prime side has two variables and whose sub side has more (general
            // decision nodes with non-literal primes: products of counts of unequal, longer lengths)
            let vt = if round == 0 && total >= 5 {
                VTree::new_node(Box::new(rand_vtree(&mut lrng, &vars[..2])), Box::new(rand_vtree(&mut lrng, &vars[2..])))
            } else {
                rand_vtree(&mut lrng, &vars)
            };
            let sb = CompressionSddBuilder::new(vt);
            if let Some(spool) = exec_sdd(&sb, &prog) {
                let sp = if neg { spool[target].neg() } else { spool[target] };
                if (0..(1usize << total)).any(|a| sdd_eval(sp, a) != t[a]) {
                    fails.push("the SDD built by the same program denotes a different function (see C03)".to_string());
                } else {
                    let got = counts_any(sp, &codes, total);
                    if got != reference {
                        fails.push(format!("SDD counts {got} differ from the BDD counts {reference} of the same function (vtree over {vars:?})"));
                    }
                    st.bump("sdd_counts_compared");
                    // every other pool entry too: the SDD and the BDD built by the same operations
                    for k in 0..spool.len().min(pool.len()) {
                        if k != target && matches!(spool[k], SddPtr::Reg(_) | SddPtr::Compl(_)) {
                            let (gs, gb) = (counts_any(spool[k], &codes, total), counts_any(pool[k], &codes, total));
                            if gs != gb {
                                fails.push(format!("pool entry {k}: SDD counts {gs} differ from the BDD counts {gb} of the same function (vtree over {vars:?})"));
                            }
                            st.bump("sdd_general_nodes_counted");
                        }
                    }
                    if matches!(sp, SddPtr::Reg(_) | SddPtr::Compl(_)) { st.bump("sdd_general_node_root"); }
                }
            }
        }
    }
    if total <= 5 {
        // canonical CNF of the function: one clause per falsifying assignment
        let clauses: Vec<Vec<Literal>> = (0..(1usize << total)).filter(|a| !t[*a]).map(|a| (0..total).map(|v| Literal::new(VarLabel::new(v as u64), (a >> v) & 1 == 0)).collect()).collect();
        if !clauses.is_empty() && total >= 1 {
            let cnf = Cnf::new(&clauses);
            let order: Vec<VarLabel> = lrng.perm(total).iter().map(|v| VarLabel::new(*v as u64)).collect();
            let db = StandardDecisionNNFBuilder::new(VarOrder::new(&order));
            let d = db.compile_cnf_topdown(&cnf);
            if (0..(1usize << total)).any(|a| eval_ptr(d, a) != t[a]) {
                fails.push("the top-down decision-DNNF of the function's CNF denotes a different function (see C06)".to_string());
            } else {
                let got = counts_any(d, &codes, total);
                if got != reference {
                    fails.push(format!("decision-DNNF counts {got} differ from the BDD counts {reference} of the same function"));
                }
                st.bump("dnnf_counts_compared");
                // the complemented root (a negated decision-DNNF is counted through complemented
                // pointers into nodes with constant children) against the BDD of the complement
                let (gn, rn) = (counts_any(d.neg(), &codes, total), counts_any(p.neg(), &codes, total));
                if gn != rn {
                    fails.push(format!("negated decision-DNNF counts {gn} differ from the BDD counts {rn} of the complement"));
                }
            }
            // the hash-identified top-down builder stores nodes unnormalised (complemented high
            // edges): same function, same counts, root and negated root
            let mb = rsdd::builder::decision_nnf::SemanticDecisionNNFBuilder::<{ primes::U64_LARGEST }>::new(VarOrder::new(&order));
            let d2 = mb.compile_cnf_topdown(&cnf);
            if (0..(1usize << total)).any(|a| eval_ptr(d2, a) != t[a]) {
                fails.push("the semantic top-down decision-DNNF of the function's CNF denotes a different function (see C06 / C11)".to_string());
            } else {
                for (what, q, r) in [("", d2, reference.clone()), ("negated ", d2.neg(), counts_any(p.neg(), &codes, total))] {
                    let got = counts_any(q, &codes, total);
                    if got != r {
                        fails.push(format!("{what}semantic decision-DNNF counts {got} differ from the BDD counts {r} of the same function"));
                    }
                }
                st.bump("semantic_dnnf_counts_compared");
            }
        }
    }
    st.bump(if neg { "complemented_root" } else { "regular_root" });
    st.bump(&format!("total_vars={total}"));
    let nontrivial = matches!(p, BddPtr::Reg(_) | BddPtr::Compl(_)) && total >= 2;
    Outcome { result: line, fails, nontrivial }
}
