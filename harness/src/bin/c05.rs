//! C05: bottom-up compilation of CNFs, expressions and dtree plans is exact.
//! case:  <nvars> <var_to_pos>*nvars <cache> <tblcap> <kind> ...
//!   C <ncl> (<len> (<var> <pol>)*len)*ncl A <k> (<var> <b>)*k     compile_cnf, and compile_cnf_with_assignments under the k literals
//!   E <expr>                                                      compile_logical_expr (no constants)
//!   P <expr>                                                      compile_plan (no xor)
//!   D <elim 0|1|2> <ncl> (<len> (<var> <pol>)*len)*ncl P <expr>    plan from_dtree(from_cnf(cnf, linear|min-fill|force order)); the
//!                                                                 expression is the plan the library produced at generation time
//!   expr (prefix): L <var> <pol> | T | F | N e | A e e | O e e | I e e | X e e | K e e e
//! out:   unfolding of the compiled diagram(s)
//! oracle: truth table of the result vs independent evaluation of the input formula;
//!         compile_cnf_with_assignments pointer-equal to condition_model(compile_cnf)
use rsdd::plan::BottomUpPlan;
use rsdd::repr::{BddPtr, Cnf, DTree, Literal, LogicalExpr, PartialModel, VarLabel, VarOrder};
use rsdd_verif_harness::bddprog::*;
use rsdd_verif_harness::exprs::*;
use rsdd_verif_harness::*;

pub const PROP: Prop = Prop { gen, run, panic_ok: never };

fn main() {
    run_main(PROP)
}

fn elim_order(cnf: &Cnf, kind: u64) -> VarOrder {
    match kind { 0 => cnf.linear_order(), 1 => cnf.min_fill_order(), _ => cnf.force_order() }
}

pub fn gen(rng: &mut Rng, idx: usize, n: usize, thorough: bool) -> String {
    let frac = (idx * 100) / n.max(1);
    let maxv = if thorough { 8 } else { 6 };
    let nvars = (1 + (frac * (maxv - 1)) / 100 + rng.range(0, 1)).min(maxv);
    let perm = if rng.chance(1, 5) { (0..nvars).collect::<Vec<_>>() } else { rng.perm(nvars) };
    let cache = if rng.coin() { "a".to_string() } else { format!("l{}", rng.range(0, 4)) };
    let tblcap = if rng.chance(1, 2) { *rng.pick(&[1usize, 2, 4, 8, 16]) } else { 0 };
    let mut s = format!("{nvars}");
    for p in &perm { s.push_str(&format!(" {p}")); }
    s.push_str(&format!(" {cache} {tblcap}"));
    match rng.below(10) {
        0..=3 => {
            s.push_str(" C");
            let c = gen_cnf(rng, nvars, 2 + frac / 12, false);
            cnf_str(&c, &mut s);
            let k = rng.range(0, nvars.min(4));
            let mut vs = rng.perm(nvars);
            vs.truncate(k);
            s.push_str(&format!(" A {k}"));
            for v in vs { s.push_str(&format!(" {v} {}", rng.coin() as u8)); }
        }
        4..=5 => { s.push_str(" E"); ex_str(&gen_ex(rng, nvars, 2 + frac / 30, false, true), &mut s) }
        6..=7 => { s.push_str(" P"); ex_str(&gen_ex(rng, nvars, 2 + frac / 30, true, false), &mut s) }
        _ => {
            // dtree plan: needs a non-empty clause list with non-empty clauses covering... (from_cnf / force_order guards)
            let c = gen_cnf(rng, nvars, 2 + frac / 15, true);
            let kind = rng.below(3);
            let cnf = to_cnf(&c);
            let order = elim_order(&cnf, kind);
            let plan = BottomUpPlan::from_dtree(&DTree::from_cnf(&cnf, &order));
            s.push_str(&format!(" D {kind}"));
            cnf_str(&c, &mut s);
            s.push_str(" P");
            ex_str(&of_plan(&plan), &mut s);
        }
    }
    s
}

pub fn run(case: &str, st: &mut Stats) -> Outcome {
    let t = toks(case);
    let nvars: usize = t[0].parse().unwrap();
    // reuse the program parser for the header (no operations follow)
    let header: Vec<&str> = t[..nvars + 3].to_vec();
    let prog = parse(&header.join(" "));
    let b = AnyBuilder::new(&prog);
    let mut i = nvars + 3;
    let kind = t[i];
    i += 1;
    let mut fails = vec![];
    let mut line = String::new();
    let sz = 1usize << nvars;
    let mut check = |name: &str, p: BddPtr, f: &dyn Fn(usize) -> bool, fails: &mut Vec<String>| {
        let tb = table_of(p, nvars);
        if let Some(a) = (0..sz).find(|a| tb[*a] != f(*a)) {
            fails.push(format!("{name}: the diagram evaluates to {} on assignment {a:#b}, the input formula to {}", tb[a], f(a)));
        }
    };
    let nontrivial;
    match kind {
        "C" => {
            let raw = cnf_parse(&t, &mut i);
            assert!(t[i] == "A");
            let k: usize = t[i + 1].parse().unwrap();
            let lits: Vec<(u64, bool)> = (0..k).map(|j| (t[i + 2 + 2 * j].parse().unwrap(), t[i + 3 + 2 * j] != "0")).collect();
            let cnf = to_cnf(&raw);
            let r = b.compile_cnf(&cnf);
            check("compile_cnf", r, &|a| cnf_eval(&raw, a), &mut fails);
            let lv: Vec<Literal> = lits.iter().map(|(v, p)| Literal::new(VarLabel::new(*v), *p)).collect();
            let m = PartialModel::from_litvec(&lv, nvars);
            let ra = b.compile_cnf_with_assignments(&cnf, &m);
            let over = |a: usize| { let mut aa = a; for (v, p) in &lits { if *p { aa |= 1 << v } else { aa &= !(1 << v) } } aa };
            check("compile_cnf_with_assignments", ra, &|a| cnf_eval(&raw, over(a)), &mut fails);
            let rc = b.condition_model(r, &m);
            if !b.eq(ra, rc) {
                fails.push("compile_cnf_with_assignments differs from compile_cnf followed by condition_model".to_string());
            }
            unfold(r, &mut line);
            line.push_str(" | ");
            unfold(ra, &mut line);
            st.bump("kind_cnf");
            st.add("clauses", raw.len() as u64);
            if raw.is_empty() { st.bump("empty_formula"); }
            if raw.iter().any(|c| c.is_empty()) { st.bump("has_empty_clause"); }
            nontrivial = raw.len() >= 2 && !raw.iter().any(|c| c.is_empty());
        }
        "E" | "P" => {
            let e = ex_parse(&t, &mut i);
            let r = if kind == "E" { b.compile_logical_expr(&to_logical(&e)) } else { b.compile_plan(&to_plan(&e)) };
            check(if kind == "E" { "compile_logical_expr" } else { "compile_plan" }, r, &|a| ex_eval(&e, a), &mut fails);
            unfold(r, &mut line);
            st.bump(if kind == "E" { "kind_expr" } else { "kind_plan" });
            nontrivial = !matches!(e, Ex::L(_, _) | Ex::T | Ex::F);
        }
        "D" => {
            let ek: u64 = t[i].parse().unwrap();
            i += 1;
            let raw = cnf_parse(&t, &mut i);
            let cnf = to_cnf(&raw);
            let order = elim_order(&cnf, ek);
            let plan = BottomUpPlan::from_dtree(&DTree::from_cnf(&cnf, &order));
            let r = b.compile_plan(&plan);
            check("compile_plan(from_dtree)", r, &|a| cnf_eval(&raw, a), &mut fails);
            let r2 = b.compile_cnf(&cnf);
            if !b.eq(r, r2) {
                fails.push("the dtree plan and compile_cnf give different diagrams for one CNF".to_string());
            }
            unfold(r, &mut line);
            st.bump(&format!("kind_dtree_elim{ek}"));
            nontrivial = raw.len() >= 2;
        }
        _ => panic!("bad kind"),
    }
    st.bump(&format!("nvars={nvars}"));
    Outcome { result: line, fails, nontrivial }
}
