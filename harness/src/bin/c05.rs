//! C05: bottom-up compilation of CNFs, expressions and dtree plans is exact.
//! case:  <nvars> <var_to_pos>*nvars <cache> <tblcap> <kind> ...
//!   C <ncl> (<len> (<var> <pol>)*len)*ncl A <k> (<var> <b>)*k     compile_cnf, and compile_cnf_with_assignments under the k literals
//!   E <expr>                                                      compile_logical_expr (no constants)
//!   P <expr>                                                      compile_plan (no xor)
//!   D <elim 0|1|2> <ncl> (<len> (<var> <pol>)*len)*ncl P <expr>    plan from_dtree(from_cnf(cnf, linear|min-fill|force order)); the
//!                                                                 expression is the plan the library produced at generation time
//!   expr (prefix): L <var> <pol> | T | F | N e | A e e | O e e | I e e | X e e | K e e e
//! out:   unfolding of the compiled diagram(s)
//! oracle: truth table of the result vs independent evaluation of the input formula;
//!         compile_cnf_with_assignments pointer-equal to condition_model(compile_cnf)
use rsdd::plan::BottomUpPlan;
use rsdd::repr::{BddPtr, Cnf, DTree, Literal, LogicalExpr, PartialModel, VarLabel, VarOrder};
use rsdd_verif_harness::bddprog::*;
use rsdd_verif_harness::exprs::*;
use rsdd_verif_harness::*;

pub const PROP: Prop = Prop { gen, run, panic_ok: never };

fn main() {
    run_main(PROP)
}

fn elim_order(cnf: &Cnf, kind: u64) -> VarOrder {
    match kind { 0 => cnf.linear_order(), 1 => cnf.min_fill_order(), _ => cnf.force_order() }
}

/// sparse family: few variables with large labels around the word-size boundaries (31/32, 63/64,
/// 127/128), several of them congruent modulo 32 / 64, in a builder over max label + 1 variables
fn gen_sparse(rng: &mut Rng, thorough: bool) -> String {
    const SPECIAL: [u64; 16] = [0, 1, 2, 3, 30, 31, 32, 33, 62, 63, 64, 65, 66, 67, 128, 129];
    let k = rng.range(2, if thorough { 6 } else { 5 });
    let mut labels: Vec<u64> = vec![];
    while labels.len() < k {
        let l = if !labels.is_empty() && rng.chance(1, 2) {
            // a label congruent to an earlier one modulo 64 (or 32)
            let base = *rng.pick(&labels);
            let m = if rng.chance(3, 4) { 64 } else { 32 };
            if base >= m && rng.coin() { base - m } else { base + m }
        } else {
            *rng.pick(&SPECIAL)
        };
        if l <= 131 && !labels.contains(&l) {
            labels.push(l);
        }
    }
    let nvars = (*labels.iter().max().unwrap() + 1 + rng.range(0, 2) as u64) as usize;
    let perm = if rng.chance(1, 2) { (0..nvars).collect::<Vec<_>>() } else { rng.perm(nvars) };
    let cache = if rng.coin() { "a".to_string() } else { format!("l{}", rng.range(0, 4)) };
    let mut s = format!("{nvars}");
    for p in &perm { s.push_str(&format!(" {p}")); }
    s.push_str(&format!(" {cache} 0"));
    let pickl = |rng: &mut Rng| *rng.pick(&labels);
    if rng.chance(2, 3) {
        let ncl = rng.range(1, 5);
        let c: RawCnf = (0..ncl).map(|_| (0..rng.range(1, 3)).map(|_| (pickl(rng), rng.coin())).collect()).collect();
        s.push_str(" C");
        cnf_str(&c, &mut s);
        let kk = rng.range(0, 2.min(labels.len()));
        s.push_str(&format!(" A {kk}"));
        let mut ls = labels.clone();
        rng.shuffle(&mut ls);
        for v in ls.iter().take(kk) { s.push_str(&format!(" {v} {}", rng.coin() as u8)); }
    } else {
        fn relabel(e: &Ex, labels: &[u64]) -> Ex {
            let b = |x: &Ex| Box::new(relabel(x, labels));
            match e {
                Ex::L(v, p) => Ex::L(labels[*v as usize % labels.len()], *p),
                Ex::T => Ex::T,
                Ex::F => Ex::F,
                Ex::N(a) => Ex::N(b(a)),
                Ex::A(a, c) => Ex::A(b(a), b(c)),
                Ex::O(a, c) => Ex::O(b(a), b(c)),
                Ex::I(a, c) => Ex::I(b(a), b(c)),
                Ex::X(a, c) => Ex::X(b(a), b(c)),
                Ex::K(a, c, d) => Ex::K(b(a), b(c), b(d)),
            }
        }
        let e = relabel(&gen_ex(rng, labels.len(), 3, false, true), &labels);
        s.push_str(" E");
        ex_str(&e, &mut s);
    }
    s
}

/// sparse cases: truth table over the used variables only (all others false), plus "no node
/// tests an unused variable"
fn check_sparse(name: &str, p: BddPtr, used: &[u64], f: &dyn Fn(&dyn Fn(u64) -> bool) -> bool, fails: &mut Vec<String>) {
    fn eval(p: BddPtr, val: &dyn Fn(u64) -> bool) -> bool {
        match p {
            BddPtr::PtrTrue => true,
            BddPtr::PtrFalse => false,
            BddPtr::Reg(n) => if val(n.var.value()) { eval(n.high, val) } else { eval(n.low, val) },
            BddPtr::Compl(n) => !(if val(n.var.value()) { eval(n.high, val) } else { eval(n.low, val) }),
        }
    }
    fn tested(p: BddPtr, out: &mut Vec<u64>) {
        if let BddPtr::Reg(n) | BddPtr::Compl(n) = p {
            out.push(n.var.value());
            tested(n.low, out);
            tested(n.high, out);
        }
    }
    let mut t = vec![];
    tested(p, &mut t);
    if let Some(v) = t.iter().find(|v| !used.contains(v)) {
        fails.push(format!("{name}: the diagram tests variable {v}, which the formula does not mention"));
    }
    for a in 0..(1usize << used.len()) {
        let val = |v: u64| used.iter().position(|u| *u == v).map_or(false, |i| (a >> i) & 1 == 1);
        let (d, e) = (eval(p, &val), f(&val));
        if d != e {
            fails.push(format!("{name}: the diagram evaluates to {d} where the variables {used:?} have the values {a:#b} (others false), the input formula to {e}"));
            break;
        }
    }
}

pub fn gen(rng: &mut Rng, idx: usize, n: usize, thorough: bool) -> String {
    if idx % 12 == 11 {
        return gen_sparse(rng, thorough);
    }
    let frac = (idx * 100) / n.max(1);
    let maxv = if thorough { 8 } else { 6 };
    let nvars = (1 + (frac * (maxv - 1)) / 100 + rng.range(0, 1)).min(maxv);
    let perm = if rng.chance(1, 5) { (0..nvars).collect::<Vec<_>>() } else { rng.perm(nvars) };
    let cache = if rng.coin() { "a".to_string() } else { format!("l{}", rng.range(0, 4)) };
    let tblcap = if rng.chance(1, 2) { *rng.pick(&[1usize, 2, 4, 8, 16]) } else { 0 };
    let mut s = format!("{nvars}");
    for p in &perm { s.push_str(&format!(" {p}")); }
    s.push_str(&format!(" {cache} {tblcap}"));
    match rng.below(10) {
        0..=3 => {
            s.push_str(" C");
            let c = gen_cnf(rng, nvars, 2 + frac / 12, false);
            cnf_str(&c, &mut s);
            let k = rng.range(0, nvars.min(4));
            let mut vs = rng.perm(nvars);
            vs.truncate(k);
            s.push_str(&format!(" A {k}"));
            for v in vs { s.push_str(&format!(" {v} {}", rng.coin() as u8)); }
        }
        4..=5 => { s.push_str(" E"); ex_str(&gen_ex(rng, nvars, 2 + frac / 30, false, true), &mut s) }
        6..=7 => { s.push_str(" P"); ex_str(&gen_ex(rng, nvars, 2 + frac / 30, true, false), &mut s) }
        _ => {
            // dtree plan: needs a non-empty clause list with non-empty clauses covering... (from_cnf / force_order guards)
            let mut c = gen_cnf(rng, nvars, 2 + frac / 15, true);
            let mut kind = rng.below(3);
            // an empty clause among the others (the formula is unsatisfiable); FORCE's average-span
            // heuristic underflows on an empty clause (recorded in DESIGN section 0), so not with it
            if rng.chance(1, 6) {
                let at = rng.below(c.len() as u64 + 1) as usize;
                c.insert(at, vec![]);
                kind = rng.below(2);
            }
            let cnf = to_cnf(&c);
            let order = elim_order(&cnf, kind);
            let plan = BottomUpPlan::from_dtree(&DTree::from_cnf(&cnf, &order));
            s.push_str(&format!(" D {kind}"));
            cnf_str(&c, &mut s);
            s.push_str(" P");
            ex_str(&of_plan(&plan), &mut s);
        }
    }
    s
}

pub fn run(case: &str, st: &mut Stats) -> Outcome {
    let t = toks(case);
    let nvars: usize = t[0].parse().unwrap();
    // reuse the program parser for the header (no operations follow)
    let header: Vec<&str> = t[..nvars + 3].to_vec();
    let prog = parse(&header.join(" "));
    let b = AnyBuilder::new(&prog);
    let mut i = nvars + 3;
    let kind = t[i];
    i += 1;
    let mut fails = vec![];
    let mut line = String::new();
    if nvars > 16 {
        // sparse family
        st.bump("kind_sparse_large_labels");
        match kind {
            "C" => {
                let raw = cnf_parse(&t, &mut i);
                assert!(t[i] == "A");
                let k: usize = t[i + 1].parse().unwrap();
                let lits: Vec<(u64, bool)> = (0..k).map(|j| (t[i + 2 + 2 * j].parse().unwrap(), t[i + 3 + 2 * j] != "0")).collect();
                let mut used: Vec<u64> = raw.iter().flatten().map(|l| l.0).collect();
                used.sort();
                used.dedup();
                let cnf = to_cnf(&raw);
                let r = b.compile_cnf(&cnf);
                check_sparse("compile_cnf", r, &used, &|val| cnf_eval_f(&raw, val), &mut fails);
                let lv: Vec<Literal> = lits.iter().map(|(v, p)| Literal::new(VarLabel::new(*v), *p)).collect();
                let m = PartialModel::from_litvec(&lv, nvars);
                let ra = b.compile_cnf_with_assignments(&cnf, &m);
                check_sparse("compile_cnf_with_assignments", ra, &used, &|val| cnf_eval_f(&raw, &|v| lits.iter().find(|(u, _)| *u == v).map_or(val(v), |(_, p)| *p)), &mut fails);
                let rc = b.condition_model(r, &m);
                if !b.eq(ra, rc) {
                    fails.push("compile_cnf_with_assignments differs from compile_cnf followed by condition_model".to_string());
                }
                unfold(r, &mut line);
                line.push_str(" | ");
                unfold(ra, &mut line);
                return Outcome { result: line, fails, nontrivial: used.len() >= 2 };
            }
            _ => {
                let e = ex_parse(&t, &mut i);
                let mut used = vec![];
                ex_vars(&e, &mut used);
                used.sort();
                used.dedup();
                let r = b.compile_logical_expr(&to_logical(&e));
                check_sparse("compile_logical_expr", r, &used, &|val| ex_eval_f(&e, val), &mut fails);
                unfold(r, &mut line);
                return Outcome { result: line, fails, nontrivial: used.len() >= 2 };
            }
        }
    }
    let sz = 1usize << nvars;
    let mut check = |name: &str, p: BddPtr, f: &dyn Fn(usize) -> bool, fails: &mut Vec<String>| {
        let tb = table_of(p, nvars);
        if let Some(a) = (0..sz).find(|a| tb[*a] != f(*a)) {
            fails.push(format!("{name}: the diagram evaluates to {} on assignment {a:#b}, the input formula to {}", tb[a], f(a)));
        }
    };
    let nontrivial;
    match kind {
        "C" => {
            let raw = cnf_parse(&t, &mut i);
            assert!(t[i] == "A");
            let k: usize = t[i + 1].parse().unwrap();
            let lits: Vec<(u64, bool)> = (0..k).map(|j| (t[i + 2 + 2 * j].parse().unwrap(), t[i + 3 + 2 * j] != "0")).collect();
            let cnf = to_cnf(&raw);
            let r = b.compile_cnf(&cnf);
            check("compile_cnf", r, &|a| cnf_eval(&raw, a), &mut fails);
            let lv: Vec<Literal> = lits.iter().map(|(v, p)| Literal::new(VarLabel::new(*v), *p)).collect();
            let m = PartialModel::from_litvec(&lv, nvars);
            let ra = b.compile_cnf_with_assignments(&cnf, &m);
            let over = |a: usize| { let mut aa = a; for (v, p) in &lits { if *p { aa |= 1 << v } else { aa &= !(1 << v) } } aa };
            check("compile_cnf_with_assignments", ra, &|a| cnf_eval(&raw, over(a)), &mut fails);
            let rc = b.condition_model(r, &m);
            if !b.eq(ra, rc) {
                fails.push("compile_cnf_with_assignments differs from compile_cnf followed by condition_model".to_string());
            }
            unfold(r, &mut line);
            line.push_str(" | ");
            unfold(ra, &mut line);
            st.bump("kind_cnf");
            st.add("clauses", raw.len() as u64);
            if raw.is_empty() { st.bump("empty_formula"); }
            if raw.iter().any(|c| c.is_empty()) { st.bump("has_empty_clause"); }
            nontrivial = raw.len() >= 2 && !raw.iter().any(|c| c.is_empty());
        }
        "E" | "P" => {
            let e = ex_parse(&t, &mut i);
            let r = if kind == "E" { b.compile_logical_expr(&to_logical(&e)) } else { b.compile_plan(&to_plan(&e)) };
            check(if kind == "E" { "compile_logical_expr" } else { "compile_plan" }, r, &|a| ex_eval(&e, a), &mut fails);
            unfold(r, &mut line);
            st.bump(if kind == "E" { "kind_expr" } else { "kind_plan" });
            nontrivial = !matches!(e, Ex::L(_, _) | Ex::T | Ex::F);
        }
        "D" => {
            let ek: u64 = t[i].parse().unwrap();
            i += 1;
            let raw = cnf_parse(&t, &mut i);
            let cnf = to_cnf(&raw);
            let order = elim_order(&cnf, ek);
            let plan = BottomUpPlan::from_dtree(&DTree::from_cnf(&cnf, &order));
            let r = b.compile_plan(&plan);
            check("compile_plan(from_dtree)", r, &|a| cnf_eval(&raw, a), &mut fails);
            let r2 = b.compile_cnf(&cnf);
            if !b.eq(r, r2) {
                fails.push("the dtree plan and compile_cnf give different diagrams for one CNF".to_string());
            }
            unfold(r, &mut line);
            st.bump(&format!("kind_dtree_elim{ek}"));
            nontrivial = raw.len() >= 2;
        }
        _ => panic!("bad kind"),
    }
    st.bump(&format!("nvars={nvars}"));
    Outcome { result: line, fails, nontrivial }
}
