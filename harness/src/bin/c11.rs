//! C11: semantic hashing is denotational; hash-identified builders stay correct.
//!
//! case:  <BDD program without new_var / compose / cond_model> H <target> <neg 0|1> <cnf 0|1>
//!        <order1: var_to_pos * nvars> <order2: var_to_pos * nvars> VT <vtree>
//!        Q <split> <k> (<pool index> <neg 0|1>)*k  W (<lo_v> <hi_v>)*nvars  for each of the 3 primes
//!        [SV <vtree>]      (optional second random vtree for the SDD half of the correspondence)
//!   vtree ::= L <var> | N <vtree> <vtree>.   cnf = 1: the program has the shape literals, one
//!   or_lst per clause, one final and_lst, and the harness additionally compiles the CNF.
//!   The leaves of VT / SV are the labels the program uses: all of 0..nvars-1, or (a quarter of
//!   the generated cases) a subset with gaps containing nvars-1, or the 1-based labels 1..nvars-1.
//!   The BDD half and the weights always range over all nvars labels.
//! second case kind: SOAK S | D | X ...  (one long-lived hash-identified builder, oracle only; see
//!   the section "soak cases" below; result line = the fixed token soak=oracle-only).
//!   The weights are the real ones (create_semantic_hash_map, ChaCha8-seeded), printed into the
//!   case at generation time; `run` re-reads them from the implementation and compares.
//!
//! out (compared with the Coq model fed with the same weights):
//!   w=ok  h=<per prime: hash of the target's BDD under order0,order1,order2>
//!   n=<per prime: hash of the negated target (order0)>
//!   c=<per prime: the k cached hashes, split queries issued before the rest of the program ran>
//!   mis=<per prime i: cached hash of the target asked with prime i+1 on the node caches left by prime i>
//!   sem=<cached hash in U64_LARGEST of every pool entry of the SemanticSddBuilder> (or - when the
//!        program uses xor/iff/ite, which are todo!() there)
//!   semn=<nodes stored in bdd_tbl + sdd_tbl>/<get_or_insert_bdd + get_or_insert_sdd calls> of that
//!        builder after the program (both compared with the Coq model of the builder,
//!        Model/SddSemBuilder.v, run on the same program under the same vtree and weights)
//!   SDD half (compared with the Coq SDD builder model of C03 run on the same program under the same
//!   vtrees and hashed by Model/SddSemHash.v; groups separated by | = the vtree of VT, then of SV;
//!   one CompressionSddBuilder per vtree and prime):
//!   sh=<per vtree: DDNNFPtr::semantic_hash of the target pointer in the 3 fields>
//!   sn=<per vtree: the same for the negated pointer>
//!   sc=<per vtree; per prime: SddPtr::cached_semantic_hash answers to the k queries, the first
//!        `split` of them asked when only a prefix of the program has run on that builder>
//!   sp=<per vtree: cached_semantic_hash in U64_LARGEST of every pool entry>
//!
//! oracle (independent of the model and of the code under test: truth tables by walking nodes,
//! spec program on truth tables, own double-and-add modular arithmetic):
//!   * every representation (BDD x 3 orders, CompressionSddBuilder x 4 vtrees, for CNF cases also
//!     compile_cnf and StandardDecisionNNFBuilder x 2 orders) denotes the spec function and its
//!     semantic hash in U32_TINY / U32_SMALL / U64_LARGEST equals sum_{models} prod weights;
//!   * the hash of the negation equals 1 - hash; negate() agrees;
//!   * cached hash = recomputed hash = defining sum, for BDD and SDD pointers sharing structure,
//!     interleaved with further builder operations (one prime per builder: "fixed field and map");
//!   * exploration half (U64_LARGEST): SemanticSddBuilder pool truth tables vs spec, eq() vs
//!     truth-table equality on all pairs, compile_cnf (also over the vtree derived from the CNF's own
//!     dtree); SemanticDecisionNNFBuilder compile + condition;
//!   * hashing is an observer: a RobddBuilder re-derives pointer-equal results (whole program, every
//!     literal) after cached_semantic_hash has filled the per-node memos;
//!   * soak cases: every result of 10^5 operations on one hash-identified builder against the
//!     closed-form defining sum of its defining structure.
use rsdd::builder::decision_nnf::{DecisionNNFBuilder, SemanticDecisionNNFBuilder, StandardDecisionNNFBuilder};
use rsdd::builder::sdd::{CompressionSddBuilder, SddBuilder, SemanticSddBuilder};
use rsdd::builder::{BottomUpBuilder, TopDownBuilder};
use rsdd::constants::primes;
use rsdd::repr::{create_semantic_hash_map, BddNode, BddPtr, Cnf, DDNNFPtr, DTree, Literal, SddPtr, VTree, VarLabel, VarOrder};
use rsdd_verif_harness::bddprog::*;
use rsdd_verif_harness::*;
use std::collections::{HashMap, HashSet};

pub const PROP: Prop = Prop { gen, run, panic_ok: never };

fn main() {
    let _ = NORMALISE.set(refresh_weights);
    run_main(PROP)
}

/// the weight section of a stored H case (after the last "W": 3 fields x nv (low, high) pairs) is
/// whatever create_semantic_hash_map produced when the case was written; the property fixes that
/// low + high = 1 and that the map is a fixed function of the variable, not the values: a stored
/// case is re-read with the weights the implementation produces now
fn refresh_weights(case: &str) -> String {
    let t = toks(case);
    if t.first() == Some(&"SOAK") {
        return case.to_string();
    }
    let Some(w) = t.iter().rposition(|x| *x == "W") else { return case.to_string() };
    let prog = parse(case);
    let nv = prog.total_vars();
    if w + 1 + 6 * nv > t.len() {
        return case.to_string();
    }
    let real = all_real_weights(nv);
    let mut out: Vec<String> = t[..=w].iter().map(|x| x.to_string()).collect();
    for f in real.iter() {
        for (lo, hi) in f {
            out.push(lo.to_string());
            out.push(hi.to_string());
        }
    }
    out.extend(t[w + 1 + 6 * nv..].iter().map(|x| x.to_string()));
    out.join(" ")
}

const P0: u128 = primes::U32_TINY;
const P1: u128 = primes::U32_SMALL;
const P2: u128 = primes::U64_LARGEST;
const PS: [u128; 3] = [P0, P1, P2];
const NV: usize = 7;
type TT = u128;

// ---------------------------------------------------------------- independent arithmetic
fn addmod(a: u128, b: u128, p: u128) -> u128 {
    let s = a + b;
    if s >= p { s - p } else { s }
}
fn mulmod(mut a: u128, mut b: u128, p: u128) -> u128 {
    let mut acc = 0u128;
    a %= p;
    while b > 0 {
        if b & 1 == 1 {
            acc = addmod(acc, a, p);
        }
        a = addmod(a, a, p);
        b >>= 1;
    }
    acc
}
/// the defining sum: sum over the models (rows of the table over variables 0..nv-1) of the product
/// of the chosen literal weights, mod p
fn defining_sum(t: TT, nv: usize, w: &[(u128, u128)], p: u128) -> u128 {
    let mut s = 0u128;
    for a in 0..(1usize << nv) {
        if (t >> a) & 1 == 1 {
            let mut prod = 1u128 % p;
            for v in 0..nv {
                prod = mulmod(prod, if (a >> v) & 1 == 1 { w[v].1 } else { w[v].0 }, p);
            }
            s = addmod(s, prod, p);
        }
    }
    s
}
fn one_minus(x: u128, p: u128) -> u128 {
    (1 + p - x % p) % p
}

// ---------------------------------------------------------------- truth tables
fn var_mask(v: usize) -> TT {
    let mut m: TT = 0;
    for row in 0..(1usize << NV) {
        if (row >> v) & 1 == 1 {
            m |= 1u128 << row;
        }
    }
    m
}
fn full(nv: usize) -> TT {
    if nv >= 7 { !0 } else { (1u128 << (1usize << nv)) - 1 }
}
fn tt_of_table(t: &Table) -> TT {
    let mut x: TT = 0;
    for (a, b) in t.iter().enumerate() {
        if *b {
            x |= 1u128 << a;
        }
    }
    x
}
fn deps_of(t: TT, nv: usize) -> usize {
    let t = t & full(nv);
    (0..nv).filter(|v| { let m = var_mask(*v); let sh = 1usize << v; ((t & m) >> sh) != (t & !m & full(nv)) }).count()
}
fn tt_bdd(p: BddPtr, nv: usize) -> TT {
    tt_of_table(&table_of(p, nv))
}
fn sdd_addr(p: SddPtr) -> (u8, usize) {
    match p {
        SddPtr::PtrTrue => (0, 0),
        SddPtr::PtrFalse => (1, 0),
        SddPtr::Var(l, b) => (2, (l.value() as usize) * 2 + b as usize),
        SddPtr::BDD(b) => (3, b as *const _ as usize),
        SddPtr::ComplBDD(b) => (4, b as *const _ as usize),
        SddPtr::Reg(o) => (5, o as *const _ as usize),
        SddPtr::Compl(o) => (6, o as *const _ as usize),
    }
}
/// walks the nodes (elements, complement marks); never calls the library's evaluation
fn tt_sdd(p: SddPtr, memo: &mut HashMap<(u8, usize), TT>) -> TT {
    if let Some(x) = memo.get(&sdd_addr(p)) {
        return *x;
    }
    let r = match p {
        SddPtr::PtrTrue => !0,
        SddPtr::PtrFalse => 0,
        SddPtr::Var(l, b) => {
            let m = var_mask(l.value() as usize);
            if b { m } else { !m }
        }
        SddPtr::BDD(b) | SddPtr::ComplBDD(b) => {
            let m = var_mask(b.label().value() as usize);
            let lo = tt_sdd(b.low(), memo);
            let hi = tt_sdd(b.high(), memo);
            let x = (m & hi) | (!m & lo);
            if matches!(p, SddPtr::ComplBDD(_)) { !x } else { x }
        }
        SddPtr::Reg(o) | SddPtr::Compl(o) => {
            let mut x: TT = 0;
            for a in o.iter() {
                x |= tt_sdd(a.prime(), memo) & tt_sdd(a.sub(), memo);
            }
            if matches!(p, SddPtr::Compl(_)) { !x } else { x }
        }
    };
    memo.insert(sdd_addr(p), r);
    r
}

// ---------------------------------------------------------------- vtrees
#[derive(Clone, Debug)]
enum VT {
    L(u64),
    N(Box<VT>, Box<VT>),
}
fn vt_text(t: &VT) -> String {
    match t {
        VT::L(v) => format!("L {v}"),
        VT::N(l, r) => format!("N {} {}", vt_text(l), vt_text(r)),
    }
}
fn vt_parse(t: &[String], i: &mut usize) -> VT {
    match t[*i].as_str() {
        "L" => {
            let v = t[*i + 1].parse().unwrap();
            *i += 2;
            VT::L(v)
        }
        "N" => {
            *i += 1;
            let l = vt_parse(t, i);
            let r = vt_parse(t, i);
            VT::N(Box::new(l), Box::new(r))
        }
        _ => panic!("bad vtree"),
    }
}
fn vt_rsdd(t: &VT) -> VTree {
    match t {
        VT::L(v) => VTree::new_leaf(VarLabel::new(*v)),
        VT::N(l, r) => VTree::new_node(Box::new(vt_rsdd(l)), Box::new(vt_rsdd(r))),
    }
}
fn vt_leaves(t: &VT, out: &mut Vec<u64>) {
    match t {
        VT::L(v) => out.push(*v),
        VT::N(l, r) => {
            vt_leaves(l, out);
            vt_leaves(r, out);
        }
    }
}
fn vt_random(rng: &mut Rng, labels: &[u64]) -> VT {
    if labels.len() == 1 {
        return VT::L(labels[0]);
    }
    let k = rng.range(1, labels.len() - 1);
    VT::N(Box::new(vt_random(rng, &labels[..k])), Box::new(vt_random(rng, &labels[k..])))
}

// ---------------------------------------------------------------- the real weights
fn real_weights<const P: u128>(nv: usize) -> Vec<(u128, u128)> {
    let m = create_semantic_hash_map::<P>(nv);
    (0..nv).map(|v| { let (l, h) = m.var_weight(VarLabel::new(v as u64)); (l.value(), h.value()) }).collect()
}
fn all_real_weights(nv: usize) -> [Vec<(u128, u128)>; 3] {
    [real_weights::<P0>(nv), real_weights::<P1>(nv), real_weights::<P2>(nv)]
}

// ---------------------------------------------------------------- generator
fn semantic_safe(prog: &Prog) -> bool {
    prog.ops.iter().all(|o| matches!(o, Op::Const(_) | Op::Var(..) | Op::Neg(_) | Op::And(..) | Op::Or(..) | Op::Cond(..) | Op::Exists(..) | Op::AndLst(_) | Op::OrLst(_)))
}

pub fn gen(rng: &mut Rng, idx: usize, n: usize, thorough: bool) -> String {
    if let Some(c) = gen_soak(rng, idx, n, thorough) {
        return c;
    }
    let frac = (idx * 100) / n.max(1);
    let maxv = if thorough { 7 } else { 6 };
    let nv = (1 + (frac * (maxv - 1)) / 60 + if rng.chance(1, 4) { 1 } else { 0 }).clamp(1, maxv);
    // label set of the vtrees (and of the program): in a quarter of the cases NOT 0..nv-1 but a
    // set with gaps (always containing nv-1) or the 1-based labels 1..nv-1.  The BDD half still
    // runs over all nv variables (the function ignores the absent ones), the vtrees VT / SV have
    // leaves for the present labels only, so `largest label + 1` differs from `number of leaves`.
    let present: Vec<usize> = if nv >= 2 && rng.chance(1, 4) {
        if rng.chance(1, 3) {
            (1..nv).collect()
        } else {
            let mut p: Vec<usize> = (0..nv - 1).filter(|_| rng.coin()).collect();
            if p.len() == nv - 1 {
                p.remove(rng.below((nv - 1) as u64) as usize);
            }
            p.push(nv - 1);
            p
        }
    } else {
        (0..nv).collect()
    };
    let np = present.len();
    let perm0 = if rng.chance(1, 5) { (0..nv).collect::<Vec<_>>() } else { rng.perm(nv) };
    let mut s = format!("{nv}");
    for p in &perm0 {
        s.push_str(&format!(" {p}"));
    }
    s.push_str(" a 0");
    let cnf = rng.chance(2, 5);
    let mut pool = 0usize;
    let target;
    if cnf {
        // literals of every present variable in both polarities first: pool index of
        // (present[k], pol) = 2k + pol
        for v in &present {
            s.push_str(&format!(" v {v} 0 v {v} 1"));
        }
        pool += 2 * np;
        let ncl = 1 + rng.range(0, 1 + (frac * (if thorough { 9 } else { 6 })) / 100);
        let mut clause_idx = vec![];
        for c in 0..ncl {
            let k = if rng.chance(1, 8) { 1 } else { rng.range(1, 3.min(np)) };
            let mut vs = rng.perm(np); // positions in `present`; the last position is label nv-1
            vs.truncate(k);
            if c == 0 && !vs.contains(&(np - 1)) {
                vs[0] = np - 1; // the CNF mentions the last variable, so Cnf::num_vars = nv
            }
            s.push_str(&format!(" O {}", vs.len()));
            for v in vs {
                s.push_str(&format!(" {}", 2 * v + rng.coin() as usize));
            }
            clause_idx.push(pool);
            pool += 1;
        }
        s.push_str(&format!(" A {}", clause_idx.len()));
        for c in &clause_idx {
            s.push_str(&format!(" {c}"));
        }
        pool += 1;
        target = pool - 1;
    } else {
        let rich = rng.coin(); // xor / iff / ite as well (then the semantic SDD builder is skipped)
        let nops = 3 + (frac * (if thorough { 30 } else { 16 })) / 100 + rng.range(0, 4);
        let edge = rng.chance(1, 6);
        for k in 0..nops {
            let pick = |rng: &mut Rng, pool: usize| -> usize {
                if rng.chance(1, 2) && pool > 3 { pool - 1 - rng.range(0, 2) } else { rng.below(pool as u64) as usize }
            };
            if pool < 2 || (k < np + 1 && rng.chance(2, 3)) {
                s.push_str(&format!(" v {} {}", present[rng.below(np as u64) as usize], rng.coin() as u8));
                pool += 1;
                continue;
            }
            let r = rng.below(100);
            if edge && r < 15 {
                match rng.below(4) {
                    0 => s.push_str(" t"),
                    1 => s.push_str(" f"),
                    2 => { let a = pick(rng, pool); s.push_str(&format!(" a {a} {a}")) }
                    _ => { let a = pick(rng, pool); s.push_str(&format!(" n {a}")); pool += 1; s.push_str(&format!(" o {} {a}", pool - 1)) }
                }
                pool += 1;
                continue;
            }
            match r {
                0..=7 => s.push_str(&format!(" v {} {}", present[rng.below(np as u64) as usize], rng.coin() as u8)),
                8..=17 => s.push_str(&format!(" n {}", pick(rng, pool))),
                18..=40 => s.push_str(&format!(" a {} {}", pick(rng, pool), pick(rng, pool))),
                41..=60 => s.push_str(&format!(" o {} {}", pick(rng, pool), pick(rng, pool))),
                61..=70 => s.push_str(&format!(" c {} {} {}", pick(rng, pool), present[rng.below(np as u64) as usize], rng.coin() as u8)),
                71..=78 => s.push_str(&format!(" q {} {}", pick(rng, pool), present[rng.below(np as u64) as usize])),
                79..=85 if rich => s.push_str(&format!(" x {} {}", pick(rng, pool), pick(rng, pool))),
                86..=91 if rich => s.push_str(&format!(" e {} {}", pick(rng, pool), pick(rng, pool))),
                92..=99 if rich => s.push_str(&format!(" i {} {} {}", pick(rng, pool), pick(rng, pool), pick(rng, pool))),
                79..=89 => {
                    let k = rng.range(0, 3);
                    s.push_str(&format!(" A {k}"));
                    for _ in 0..k { s.push_str(&format!(" {}", pick(rng, pool))); }
                }
                _ => {
                    let k = rng.range(0, 3);
                    s.push_str(&format!(" O {k}"));
                    for _ in 0..k { s.push_str(&format!(" {}", pick(rng, pool))); }
                }
            }
            pool += 1;
        }
        // target: mostly the pool entry whose function depends on the most variables (oracle-side
        // truth tables; ties -> the latest), otherwise any entry
        let tabs: Vec<TT> = spec_tables(&parse(&s)).iter().map(tt_of_table).collect();
        let best = (0..pool).max_by_key(|i| (deps_of(tabs[*i], nv), *i)).unwrap();
        target = if rng.chance(3, 4) { best } else { rng.below(pool as u64) as usize };
    }
    s.push_str(&format!(" H {target} {} {}", rng.coin() as u8, cnf as u8));
    // order1: reverse of order0; order2: random
    for p in &perm0 {
        s.push_str(&format!(" {}", nv - 1 - p));
    }
    for p in rng.perm(nv) {
        s.push_str(&format!(" {p}"));
    }
    let labels: Vec<u64> = rng.perm(np).into_iter().map(|x| present[x] as u64).collect();
    s.push_str(&format!(" VT {}", vt_text(&vt_random(rng, &labels))));
    // cached-hash queries: `split` of them are asked when only a prefix of the program has run
    let k = rng.range(1, 6);
    let split = rng.range(0, k);
    let prefix = if cnf { pool } else { (pool / 2).max(1) };
    s.push_str(&format!(" Q {split} {k}"));
    for j in 0..k {
        let lim = if j < split { prefix } else { pool };
        let i = if rng.chance(1, 3) && j >= split { target } else { rng.below(lim as u64) as usize };
        s.push_str(&format!(" {i} {}", rng.coin() as u8));
    }
    s.push_str(" W");
    for w in all_real_weights(nv).iter() {
        for (l, h) in w {
            s.push_str(&format!(" {l} {h}"));
        }
    }
    // a second random vtree for the SDD half of the correspondence (the first is VT)
    let labels2: Vec<u64> = rng.perm(np).into_iter().map(|x| present[x] as u64).collect();
    s.push_str(&format!(" SV {}", vt_text(&vt_random(rng, &labels2))));
    s
}

// ---------------------------------------------------------------- running the program on SDD builders
fn exec_sdd<'a, B: SddBuilder<'a>>(b: &'a B, prog: &Prog, upto: usize) -> Vec<SddPtr<'a>> {
    let mut pool: Vec<SddPtr<'a>> = vec![];
    let g = |pool: &Vec<SddPtr<'a>>, i: usize| -> SddPtr<'a> { *pool.get(i).unwrap_or(&SddPtr::PtrFalse) };
    for op in prog.ops.iter().take(upto) {
        let r = match op {
            Op::Const(c) => if *c { SddPtr::PtrTrue } else { SddPtr::PtrFalse },
            Op::Var(v, p) => BottomUpBuilder::var(b, VarLabel::new(*v), *p),
            Op::Neg(i) => b.negate(g(&pool, *i)),
            Op::And(i, j) => b.and(g(&pool, *i), g(&pool, *j)),
            Op::Or(i, j) => b.or(g(&pool, *i), g(&pool, *j)),
            Op::Xor(i, j) => b.xor(g(&pool, *i), g(&pool, *j)),
            Op::Iff(i, j) => b.iff(g(&pool, *i), g(&pool, *j)),
            Op::Ite(i, j, k) => b.ite(g(&pool, *i), g(&pool, *j), g(&pool, *k)),
            Op::Cond(i, v, val) => BottomUpBuilder::condition(b, g(&pool, *i), VarLabel::new(*v), *val),
            Op::Exists(i, v) => b.exists(g(&pool, *i), VarLabel::new(*v)),
            Op::AndLst(l) => l.iter().fold(SddPtr::PtrTrue, |acc, i| b.and(acc, g(&pool, *i))),
            Op::OrLst(l) => l.iter().fold(SddPtr::PtrFalse, |acc, i| b.or(acc, g(&pool, *i))),
            _ => panic!("operation not in the C11 case language"),
        };
        pool.push(r);
    }
    pool
}

fn cnf_of(prog: &Prog) -> Cnf {
    let mut clauses = vec![];
    for op in &prog.ops {
        if let Op::OrLst(l) = op {
            let c: Vec<Literal> = l.iter().map(|i| match &prog.ops[*i] { Op::Var(v, p) => Literal::new(VarLabel::new(*v), *p), _ => panic!("clause refers to a non-literal") }).collect();
            clauses.push(c);
        }
    }
    Cnf::new(&clauses)
}

fn order_of(var_to_pos: &[usize]) -> VarOrder {
    let mut p = vec![0usize; var_to_pos.len()];
    for (v, &pos) in var_to_pos.iter().enumerate() {
        p[pos] = v;
    }
    VarOrder::new(&p.iter().map(|v| VarLabel::new(*v as u64)).collect::<Vec<_>>())
}

// ---------------------------------------------------------------- checks generic in the prime
struct Ctx<'c> {
    nv: usize,
    w: &'c [Vec<(u128, u128)>; 3],
    fails: Vec<String>,
}
impl<'c> Ctx<'c> {
    fn pidx(p: u128) -> usize {
        PS.iter().position(|x| *x == p).unwrap()
    }
    /// hash of a pointer of any kind against the defining sum of the table it must denote
    fn check_hash<'a, const P: u128, T: DDNNFPtr<'a>>(&mut self, what: &str, ptr: T, t: TT) -> u128 {
        let map = create_semantic_hash_map::<P>(self.nv);
        let w = &self.w[Self::pidx(P)];
        let h = ptr.semantic_hash(&map).value();
        let want = defining_sum(t & full(self.nv), self.nv, w, P);
        if h != want {
            self.fails.push(format!("{what}: semantic hash {h} in field {P} but the sum over the models of the function is {want}"));
        }
        let hn = ptr.neg().semantic_hash(&map);
        if hn.value() != one_minus(want, P) {
            self.fails.push(format!("{what}: the negation hashes to {} in field {P}, expected 1 - {want} = {}", hn.value(), one_minus(want, P)));
        }
        if ptr.semantic_hash(&map).negate().value() != one_minus(want, P) {
            self.fails.push(format!("{what}: negate({h}) in field {P} is not {}", one_minus(want, P)));
        }
        h
    }
    fn check_all<'a, T: DDNNFPtr<'a>>(&mut self, what: &str, ptr: T, t: TT) -> [u128; 3] {
        [self.check_hash::<P0, T>(what, ptr, t), self.check_hash::<P1, T>(what, ptr, t), self.check_hash::<P2, T>(what, ptr, t)]
    }
}

/// order0, one prime: cached hashes interleaved with building; then the misuse query with prime Pn
fn bdd_cached<const P: u128, const PN: u128>(prog: &Prog, queries: &[(usize, bool)], split: usize, prefix: usize, target: usize, neg: bool, spec: &[TT], cx: &mut Ctx) -> (Vec<u128>, u128) {
    let nv = cx.nv;
    let b = AnyBuilder::new(prog);
    let order = order_of(&prog.var_to_pos);
    let map = create_semantic_hash_map::<P>(nv);
    let mut dummy = Stats::default();
    let mut pre = prog.clone();
    pre.ops.truncate(prefix);
    let pool_pre = exec(&b, &pre, &mut dummy);
    let mut out = vec![];
    let w = &cx.w[Ctx::pidx(P)];
    let ask = |pool: &Vec<BddPtr>, i: usize, ng: bool, cx: &mut Ctx, out: &mut Vec<u128>| {
        let p = if ng { pool[i].neg() } else { pool[i] };
        let h = p.cached_semantic_hash(&order, &map).value();
        let t = if ng { !spec[i] } else { spec[i] } & full(nv);
        let want = defining_sum(t, nv, w, P);
        if h != want {
            cx.fails.push(format!("BDD cached hash of pool entry {i}{} in field {P} is {h} but the sum over the models is {want}", if ng { " (negated)" } else { "" }));
        }
        let re = p.semantic_hash(&map).value();
        if re != h {
            cx.fails.push(format!("BDD pool entry {i}: cached hash {h} differs from the recomputed hash {re} in field {P}"));
        }
        out.push(h);
    };
    for (i, ng) in &queries[..split] {
        ask(&pool_pre, *i, *ng, cx, &mut out);
    }
    let pool = exec(&b, prog, &mut dummy);
    // hashing is an observer: re-deriving the prefix after hash queries (which fill the per-node
    // memo of every node below the queried roots) returns the very same nodes
    for (i, (p, q)) in pool_pre.iter().zip(pool.iter()).enumerate() {
        if p != q {
            cx.fails.push(format!("BDD pool entry {i} re-derived after cached_semantic_hash queries (field {P}) is a different node than before the queries: canonicity lost (pointer equality fails for one function)"));
            break;
        }
    }
    for (i, ng) in &queries[split..] {
        ask(&pool, *i, *ng, cx, &mut out);
    }
    // outside the property ("for a fixed field and weight map"): the same node caches asked with
    // another prime; compared with the model only
    let mapn = create_semantic_hash_map::<PN>(nv);
    let p = if neg { pool[target].neg() } else { pool[target] };
    let mis = p.cached_semantic_hash(&order, &mapn).value();
    // after the misuse query (its answer depends on which memos are filled): every pool entry is
    // hashed, which fills the memo of every node the program reaches; then the program once more
    // and every literal once more: same pointers
    for p in pool.iter() {
        let _ = p.cached_semantic_hash(&order, &map);
    }
    let pool_again = exec(&b, prog, &mut dummy);
    for (i, (p, q)) in pool.iter().zip(pool_again.iter()).enumerate() {
        if p != q {
            cx.fails.push(format!("BDD pool entry {i} re-derived after every pool entry was hashed with cached_semantic_hash (field {P}) is a different node: canonicity lost"));
            break;
        }
    }
    for (i, op) in prog.ops.iter().enumerate() {
        if let Op::Var(v, pol) = op {
            let l = b.var(*v, *pol);
            if l != pool[i] || !b.eq(l, pool[i]) {
                cx.fails.push(format!("var({v}, {pol}) after cached_semantic_hash on that literal (field {P}) is not pointer-equal to the literal fetched before"));
                break;
            }
        }
    }
    // with every node's memo filled in field P: the UNcached hash (a fold with the weights it is
    // given) of every pool entry in the other field, and in field P with other weights (1 - w), must
    // still be the defining sum under those weights -- the memo belongs to cached_semantic_hash only
    let wn = cx.w[Ctx::pidx(PN)].clone();
    let flipped: rsdd::repr::WmcParams<rsdd::util::semirings::FiniteField<P>> = rsdd::repr::WmcParams::new(HashMap::from_iter((0..nv).map(|v| {
        let (lo, hi) = cx.w[Ctx::pidx(P)][v];
        (VarLabel::new(v as u64), (rsdd::util::semirings::FiniteField::new(hi), rsdd::util::semirings::FiniteField::new(lo)))
    })));
    let wflip: Vec<(u128, u128)> = cx.w[Ctx::pidx(P)].iter().map(|(lo, hi)| (*hi, *lo)).collect();
    for (i, q) in pool.iter().enumerate() {
        let t = spec[i] & full(nv);
        let h = q.semantic_hash(&mapn).value();
        let want = defining_sum(t, nv, &wn, PN);
        if h != want {
            cx.fails.push(format!("BDD pool entry {i}: semantic_hash in field {PN} after cached hashes in field {P} is {h}, the sum over the models is {want}"));
            break;
        }
        let h2 = q.semantic_hash(&flipped).value();
        let want2 = defining_sum(t, nv, &wflip, P);
        if h2 != want2 {
            cx.fails.push(format!("BDD pool entry {i}: semantic_hash in field {P} with swapped weights after cached hashes is {h2}, the sum over the models is {want2}"));
            break;
        }
    }
    (out, mis)
}

/// one CompressionSddBuilder under one vtree, cached hashes in one prime
fn sdd_rep<const P: u128>(name: &str, vt: VTree, prog: &Prog, prefix: usize, target: usize, neg: bool, is_cnf: bool, spec: &[TT], cx: &mut Ctx, st: &mut Stats) {
    let nv = cx.nv;
    let b = CompressionSddBuilder::new(vt);
    let map = create_semantic_hash_map::<P>(nv);
    let w = cx.w[Ctx::pidx(P)].clone();
    let pre = exec_sdd(&b, prog, prefix);
    // cached hashes of the prefix, before the rest of the program runs
    for (i, p) in pre.iter().enumerate() {
        let h = p.cached_semantic_hash(b.vtree_manager(), &map).value();
        let want = defining_sum(spec[i] & full(nv), nv, &w, P);
        if h != want {
            cx.fails.push(format!("SDD[{name}] cached hash of pool entry {i} (prefix) in field {P} is {h} but the sum over the models is {want}"));
        }
    }
    let pool = exec_sdd(&b, prog, prog.ops.len());
    if target % 2 == 1 {
        let _ = b.stats();
    }
    let mut memo = HashMap::new();
    for (i, p) in pool.iter().enumerate() {
        for q in [*p, p.neg()] {
            let t = tt_sdd(q, &mut memo) & full(nv);
            let sp = if q == *p { spec[i] } else { !spec[i] } & full(nv);
            if t != sp {
                cx.fails.push(format!("SDD[{name}] pool entry {i} denotes table {t:x}, the program says {sp:x}"));
            }
            let h = q.cached_semantic_hash(b.vtree_manager(), &map).value();
            let re = q.semantic_hash(&map).value();
            let want = defining_sum(sp, nv, &w, P);
            if h != re {
                cx.fails.push(format!("SDD[{name}] pool entry {i}: cached hash {h} differs from the recomputed hash {re} in field {P}"));
            }
            if h != want {
                cx.fails.push(format!("SDD[{name}] cached hash of pool entry {i} in field {P} is {h} but the sum over the models is {want}"));
            }
        }
    }
    let p = if neg { pool[target].neg() } else { pool[target] };
    let t = if neg { !spec[target] } else { spec[target] };
    cx.check_all(&format!("SDD[{name}] target"), p, t);
    match p {
        SddPtr::BDD(_) | SddPtr::ComplBDD(_) => st.bump("sdd_target_binary_node"),
        SddPtr::Reg(_) | SddPtr::Compl(_) => st.bump("sdd_target_general_node"),
        _ => st.bump("sdd_target_terminal_or_literal"),
    }
    if is_cnf {
        let c = b.compile_cnf(&cnf_of(prog));
        let tc = tt_sdd(c, &mut memo) & full(nv);
        if tc != spec[target] & full(nv) {
            cx.fails.push(format!("SDD[{name}] compile_cnf denotes table {tc:x}, the CNF says {:x}", spec[target] & full(nv)));
        }
        cx.check_all(&format!("SDD[{name}] compile_cnf"), c, spec[target]);
    }
}

/// SDD half of the correspondence: one CompressionSddBuilder under one explicit vtree, one prime.
/// Returns (hash of the target, hash of its negation, cached answers to the queries, cached hash
/// of every pool entry); every value is also checked against the defining sum of the spec table.
#[allow(clippy::too_many_arguments)]
fn sdd_corr<const P: u128>(name: &str, vt: &VT, prog: &Prog, queries: &[(usize, bool)], split: usize, prefix: usize, target: usize, neg: bool, spec: &[TT], cx: &mut Ctx, st: &mut Stats) -> (u128, u128, Vec<u128>, Vec<u128>) {
    let nv = cx.nv;
    let b = CompressionSddBuilder::new(vt_rsdd(vt));
    let map = create_semantic_hash_map::<P>(nv);
    let w = cx.w[Ctx::pidx(P)].clone();
    let mut memo = HashMap::new();
    let mut sc = vec![];
    let pre = exec_sdd(&b, prog, prefix);
    let mut asked: Vec<(SddPtr, TT, String)> = vec![];
    for (i, ng) in &queries[..split] {
        let q = if *ng { pre[*i].neg() } else { pre[*i] };
        asked.push((q, if *ng { !spec[*i] } else { spec[*i] } & full(nv), format!("query on prefix pool entry {i}{}", if *ng { " (negated)" } else { "" })));
    }
    let check = |q: SddPtr, t: TT, what: &str, cx: &mut Ctx, memo: &mut HashMap<(u8, usize), TT>| -> u128 {
        let tq = tt_sdd(q, memo) & full(nv);
        if tq != t {
            cx.fails.push(format!("SDD-corr[{name}] {what} denotes table {tq:x}, the program says {t:x}"));
        }
        let h = q.cached_semantic_hash(b.vtree_manager(), &map).value();
        let want = defining_sum(t, nv, &w, P);
        if h != want {
            cx.fails.push(format!("SDD-corr[{name}] {what}: cached hash {h} in field {P} but the sum over the models is {want}"));
        }
        let re = q.semantic_hash(&map).value();
        if re != want {
            cx.fails.push(format!("SDD-corr[{name}] {what}: semantic_hash {re} in field {P} but the sum over the models is {want}"));
        }
        h
    };
    for (q, t, what) in &asked {
        sc.push(check(*q, *t, what, cx, &mut memo));
    }
    let pool = exec_sdd(&b, prog, prog.ops.len());
    for (i, ng) in &queries[split..] {
        let q = if *ng { pool[*i].neg() } else { pool[*i] };
        let t = if *ng { !spec[*i] } else { spec[*i] } & full(nv);
        sc.push(check(q, t, &format!("query on pool entry {i}{}", if *ng { " (negated)" } else { "" }), cx, &mut memo));
    }
    let tp = if neg { pool[target].neg() } else { pool[target] };
    let tt = if neg { !spec[target] } else { spec[target] } & full(nv);
    let want = defining_sum(tt, nv, &w, P);
    let sh = tp.semantic_hash(&map).value();
    if sh != want {
        cx.fails.push(format!("SDD-corr[{name}] target: semantic_hash {sh} in field {P} but the sum over the models is {want}"));
    }
    let sn = tp.neg().semantic_hash(&map).value();
    if sn != one_minus(want, P) {
        cx.fails.push(format!("SDD-corr[{name}] target: the negation hashes to {sn} in field {P}, expected 1 - {want} = {}", one_minus(want, P)));
    }
    let mut sp = vec![];
    for (i, q) in pool.iter().enumerate() {
        sp.push(check(*q, spec[i] & full(nv), &format!("pool entry {i}"), cx, &mut memo));
    }
    if P == P2 {
        match tp {
            SddPtr::BDD(_) => st.bump("sddcorr_target_binary_node_regular"),
            SddPtr::ComplBDD(_) => st.bump("sddcorr_target_binary_node_complemented"),
            SddPtr::Reg(_) => st.bump("sddcorr_target_general_node_regular"),
            SddPtr::Compl(_) => st.bump("sddcorr_target_general_node_complemented"),
            _ => st.bump("sddcorr_target_terminal_or_literal"),
        }
    }
    (sh, sn, sc, sp)
}

pub fn run(case: &str, st: &mut Stats) -> Outcome {
    if case.starts_with("SOAK") {
        return run_soak(case, st);
    }
    let prog = parse(case);
    let nv = prog.nvars;
    let tail = &prog.rest;
    assert!(tail[0] == "H");
    let target: usize = tail[1].parse().unwrap();
    let neg = tail[2] != "0";
    let is_cnf = tail[3] != "0";
    let mut i = 4;
    let o1: Vec<usize> = (0..nv).map(|k| tail[i + k].parse().unwrap()).collect();
    i += nv;
    let o2: Vec<usize> = (0..nv).map(|k| tail[i + k].parse().unwrap()).collect();
    i += nv;
    assert!(tail[i] == "VT");
    i += 1;
    let vt = vt_parse(tail, &mut i);
    assert!(tail[i] == "Q");
    let split: usize = tail[i + 1].parse().unwrap();
    let k: usize = tail[i + 2].parse().unwrap();
    i += 3;
    let queries: Vec<(usize, bool)> = (0..k).map(|j| (tail[i + 2 * j].parse().unwrap(), tail[i + 2 * j + 1] != "0")).collect();
    i += 2 * k;
    assert!(tail[i] == "W");
    i += 1;
    let mut cw: [Vec<(u128, u128)>; 3] = [vec![], vec![], vec![]];
    for w in cw.iter_mut() {
        for _ in 0..nv {
            w.push((tail[i].parse().unwrap(), tail[i + 1].parse().unwrap()));
            i += 2;
        }
    }
    let sv: Option<VT> = if i < tail.len() && tail[i] == "SV" {
        i += 1;
        Some(vt_parse(tail, &mut i))
    } else {
        None
    };
    let mut fails = vec![];
    let real = all_real_weights(nv);
    if real != cw {
        fails.push("the weights in the case are not the ones create_semantic_hash_map produces now".to_string());
    }
    // what the source promises about the weights (independent check)
    for (pi, p) in PS.iter().enumerate() {
        for (v, (l, h)) in real[pi].iter().enumerate() {
            if !(*h >= 2 && *h < *p && *l == (*p - *h + 1) % *p && addmod(*l % *p, *h % *p, *p) == 1) {
                fails.push(format!("weights of variable {v} in field {p}: low {l}, high {h} are not 2 <= high < P, low = P - high + 1"));
            }
        }
    }
    let spec: Vec<TT> = spec_tables(&prog).iter().map(tt_of_table).collect();
    let tgt_t = if neg { !spec[target] } else { spec[target] } & full(nv);
    let prefix = if is_cnf { prog.ops.len() } else { (prog.ops.len() / 2).max(1) };
    let mut cx = Ctx { nv, w: &real, fails };
    rsdd::verif::TABLE_CAPACITY.with(|c| c.set(Some(64)));
    let mut prog = prog;
    prog.tblcap = 64;
    let mut line = String::from("w=ok h=");

    // ---- BDDs under three orders
    let mut hs: Vec<[u128; 3]> = vec![];
    for (oi, ord) in [prog.var_to_pos.clone(), o1.clone(), o2.clone()].iter().enumerate() {
        let mut pr = prog.clone();
        pr.var_to_pos = ord.clone();
        let b = AnyBuilder::new(&pr);
        let mut dummy = Stats::default();
        let pool = exec(&b, &pr, if oi == 0 { st } else { &mut dummy });
        let p = if neg { pool[target].neg() } else { pool[target] };
        let t = tt_bdd(p, nv);
        if t != tgt_t {
            cx.fails.push(format!("BDD[order{oi}] target denotes table {t:x}, the program says {tgt_t:x}"));
        }
        hs.push(cx.check_all(&format!("BDD[order{oi}]"), p, tgt_t));
        if is_cnf {
            let c = b.compile_cnf(&cnf_of(&pr));
            if tt_bdd(c, nv) != spec[target] & full(nv) {
                cx.fails.push(format!("BDD[order{oi}] compile_cnf denotes a different function than the CNF"));
            }
            cx.check_all(&format!("BDD[order{oi}] compile_cnf"), c, spec[target]);
        }
        if oi == 0 {
            match p {
                BddPtr::Compl(_) => st.bump("bdd_target_complemented"),
                BddPtr::Reg(_) => st.bump("bdd_target_regular"),
                _ => st.bump("bdd_target_constant"),
            }
        }
    }
    for pi in 0..3 {
        line.push_str(&format!("{}{},{},{}", if pi > 0 { ";" } else { "" }, hs[0][pi], hs[1][pi], hs[2][pi]));
    }
    // ---- negation (order0), as printed by the implementation
    {
        let b = AnyBuilder::new(&prog);
        let mut dummy = Stats::default();
        let pool = exec(&b, &prog, &mut dummy);
        let p = if neg { pool[target] } else { pool[target].neg() };
        let n0 = p.semantic_hash(&create_semantic_hash_map::<P0>(nv)).value();
        let n1 = p.semantic_hash(&create_semantic_hash_map::<P1>(nv)).value();
        let n2 = p.semantic_hash(&create_semantic_hash_map::<P2>(nv)).value();
        line.push_str(&format!(" n={n0};{n1};{n2}"));
    }
    // ---- cached hashes, one builder per prime
    let (c0, m0) = bdd_cached::<P0, P1>(&prog, &queries, split, prefix, target, neg, &spec, &mut cx);
    let (c1, m1) = bdd_cached::<P1, P2>(&prog, &queries, split, prefix, target, neg, &spec, &mut cx);
    let (c2, m2) = bdd_cached::<P2, P0>(&prog, &queries, split, prefix, target, neg, &spec, &mut cx);
    let j = |v: &Vec<u128>| v.iter().map(|x| x.to_string()).collect::<Vec<_>>().join(",");
    line.push_str(&format!(" c={};{};{} mis={m0};{m1};{m2}", j(&c0), j(&c1), j(&c2)));
    // stale answers really occur (so the model's account of the untyped cache is exercised)
    if m0 != defining_sum(tgt_t, nv, &real[1], P1) || m1 != defining_sum(tgt_t, nv, &real[2], P2) || m2 != defining_sum(tgt_t, nv, &real[0], P0) {
        st.bump("misuse_stale_answer_observed");
    }

    // ---- SDDs under four vtrees
    // right-linear over all nv labels; left-linear and even-split over the labels present in VT
    // (all of them unless the case has a label set with gaps)
    let lin: Vec<VarLabel> = prog.pos_to_var().iter().map(|v| VarLabel::new(*v as u64)).collect();
    let mut present = vec![];
    vt_leaves(&vt, &mut present);
    let gapped = present.len() != nv;
    st.bump(if !gapped { "labels_dense_0..n-1" } else if !present.contains(&0) && present.len() == nv - 1 { "labels_one_based" } else { "labels_with_gaps" });
    let linp: Vec<VarLabel> = lin.iter().copied().filter(|l| present.contains(&l.value())).collect();
    let npres = linp.len();
    sdd_rep::<P0>("right-linear", VTree::right_linear(&lin), &prog, prefix, target, neg, is_cnf, &spec, &mut cx, st);
    sdd_rep::<P1>("left-linear", VTree::left_linear(&linp), &prog, prefix, target, neg, is_cnf, &spec, &mut cx, st);
    sdd_rep::<P2>("even-split", VTree::even_split(&linp, if npres >= 4 { 2 } else if npres >= 2 { 1 } else { 0 }), &prog, prefix, target, neg, is_cnf, &spec, &mut cx, st);
    sdd_rep::<P2>("random", vt_rsdd(&vt), &prog, prefix, target, neg, is_cnf, &spec, &mut cx, st);

    // ---- top-down (decision-DNNF) under two orders
    if is_cnf {
        let cnf = cnf_of(&prog);
        for (oi, ord) in [prog.var_to_pos.clone(), o1.clone()].iter().enumerate() {
            let b = StandardDecisionNNFBuilder::new(order_of(ord));
            let r = b.compile_cnf_topdown(&cnf);
            // statistics queries are observers: asking for them (here, under one order, before any
            // hash is cached) must not change what the hash queries answer afterwards
            if oi == target % 2 {
                let _ = b.num_logically_redundant();
                st.bump("topdown_stats_query_before_hashes");
            }
            let t = tt_bdd(r, nv);
            if t != spec[target] & full(nv) {
                cx.fails.push(format!("top-down[order{oi}] denotes table {t:x}, the CNF says {:x}", spec[target] & full(nv)));
            }
            cx.check_all(&format!("top-down[order{oi}]"), r, spec[target]);
            // the per-node cache of a top-down result, one field and one map throughout
            {
                let map = create_semantic_hash_map::<P2>(nv);
                let ord_rs = order_of(ord);
                let want = defining_sum(spec[target] & full(nv), nv, &cx.w[Ctx::pidx(P2)].clone(), P2);
                for q in [r, r.neg()] {
                    let h = q.cached_semantic_hash(&ord_rs, &map).value();
                    let w = if q == r { want } else { one_minus(want, P2) };
                    if h != w {
                        cx.fails.push(format!("top-down[order{oi}]: cached hash {h} in field {P2} but the sum over the models is {w}"));
                    }
                }
            }
            st.bump("topdown_compilations");
        }
    }

    // ---- exploration half: hash-identified builders over U64_LARGEST
    let mut sem = String::from("-");
    let mut semn = String::from("-");
    if semantic_safe(&prog) {
        st.bump("semantic_sdd_runs");
        let b = SemanticSddBuilder::<P2>::new(vt_rsdd(&vt));
        let pool = exec_sdd(&b, &prog, prog.ops.len());
        // number of stored nodes / number of get_or_insert requests, compared with the Coq model of the
        // builder; taken before the observers below for even targets and after them for odd ones
        let stats_of = |b: &SemanticSddBuilder<P2>| { let s = b.stats(); format!("{}/{}", s.app_cache_size, s.num_get_or_insert_bdd + s.num_get_or_insert_sdd) };
        if target % 2 == 0 {
            semn = stats_of(&b);
        }
        let mut memo = HashMap::new();
        let tts: Vec<TT> = pool.iter().map(|p| tt_sdd(*p, &mut memo) & full(nv)).collect();
        let mut hv = vec![];
        for (i, p) in pool.iter().enumerate() {
            if tts[i] != spec[i] & full(nv) {
                cx.fails.push(format!("SemanticSddBuilder pool entry {i} denotes table {:x}, the program says {:x}", tts[i], spec[i] & full(nv)));
            }
            let h = b.cached_semantic_hash(*p).value();
            let want = defining_sum(spec[i] & full(nv), nv, &real[2], P2);
            if h != want {
                cx.fails.push(format!("SemanticSddBuilder pool entry {i}: cached hash {h} but the sum over the models of the program's function is {want}"));
            }
            hv.push(h.to_string());
        }
        sem = hv.join(",");
        let m = pool.len().min(14);
        for a in 0..m {
            for c in 0..m {
                let e = b.eq(pool[a], pool[c]);
                let same = spec[a] & full(nv) == spec[c] & full(nv);
                if same && !e {
                    cx.fails.push(format!("SemanticSddBuilder::eq judges pool entries {a} and {c} different although they denote the same function"));
                }
                if !same && e {
                    cx.fails.push(format!("SemanticSddBuilder::eq identifies pool entries {a} and {c}, which denote different functions (hash collision)"));
                }
                if same && a != c { st.bump("semantic_eq_pairs_equal"); } else if !same { st.bump("semantic_eq_pairs_different"); }
            }
        }
        if target % 2 != 0 {
            semn = stats_of(&b);
        }
        if is_cnf {
            let c = b.compile_cnf(&cnf_of(&prog));
            let tc = tt_sdd(c, &mut memo) & full(nv);
            if tc != spec[target] & full(nv) {
                cx.fails.push(format!("SemanticSddBuilder::compile_cnf denotes table {tc:x}, the CNF says {:x}", spec[target] & full(nv)));
            }
            if !b.eq(c, pool[target]) {
                cx.fails.push("SemanticSddBuilder: compile_cnf and the clause-by-clause program are judged different".to_string());
            }
        }
    } else {
        st.bump("semantic_sdd_skipped_unsupported_ops");
    }
    // the vtree a user would derive from the CNF itself (dtree of the min-fill order): its leaves are
    // the variables that occur in some clause, in general a label set with gaps
    if is_cnf {
        let cnf = cnf_of(&prog);
        if let Some(dv) = VTree::from_dtree(&DTree::from_cnf(&cnf, &cnf.min_fill_order())) {
            let span = dv.num_vars(); // largest label + 1; the builder's num_vars() is the number of leaves
            let b = SemanticSddBuilder::<P2>::new(dv);
            st.bump(if b.num_vars() == span { "semantic_sdd_dtree_vtree_dense_labels" } else { "semantic_sdd_dtree_vtree_labels_with_gaps" });
            let c = b.compile_cnf(&cnf);
            let mut memo = HashMap::new();
            let tc = tt_sdd(c, &mut memo) & full(nv);
            if tc != spec[target] & full(nv) {
                cx.fails.push(format!("SemanticSddBuilder over the CNF's dtree vtree: compile_cnf denotes table {tc:x}, the CNF says {:x}", spec[target] & full(nv)));
            }
            let h = b.cached_semantic_hash(c).value();
            let want = defining_sum(spec[target] & full(nv), nv, &real[2], P2);
            if h != want {
                cx.fails.push(format!("SemanticSddBuilder over the CNF's dtree vtree: cached hash {h} but the sum over the models of the CNF is {want}"));
            }
        }
    }
    if is_cnf {
        let cnf = cnf_of(&prog);
        for (oi, ord) in [prog.var_to_pos.clone(), o2.clone()].iter().enumerate() {
            let b = SemanticDecisionNNFBuilder::<P2>::new(order_of(ord));
            let r = b.compile_cnf_topdown(&cnf);
            if oi != target % 2 {
                let _ = b.num_logically_redundant();
            }
            let t = tt_bdd(r, nv);
            if t != spec[target] & full(nv) {
                cx.fails.push(format!("SemanticDecisionNNFBuilder[order{oi}] denotes table {t:x}, the CNF says {:x}", spec[target] & full(nv)));
            }
            let h = r.semantic_hash(&create_semantic_hash_map::<P2>(nv)).value();
            let want = defining_sum(spec[target] & full(nv), nv, &real[2], P2);
            if h != want {
                cx.fails.push(format!("SemanticDecisionNNFBuilder[order{oi}]: hash {h} but the sum over the models of the CNF is {want}"));
            }
            // conditioning of the result and of its negation
            for v in 0..nv {
                for val in [false, true] {
                    for ng in [false, true] {
                        let arg = if ng { r.neg() } else { r };
                        let c = TopDownBuilder::condition(&b, arg, VarLabel::new(v as u64), val);
                        let tc = tt_bdd(c, nv);
                        let base = if ng { !spec[target] } else { spec[target] } & full(nv);
                        let m = var_mask(v);
                        let sh = 1usize << v;
                        let want = if val { let hi = base & m; hi | (hi >> sh) } else { let lo = base & !m; lo | (lo << sh) } & full(nv);
                        if tc != want {
                            cx.fails.push(format!("SemanticDecisionNNFBuilder[order{oi}]: condition({}result, x{v}={val}) denotes table {tc:x}, expected {want:x}", if ng { "not " } else { "" }));
                        }
                    }
                }
            }
            st.bump("semantic_topdown_compilations");
        }
    }
    // semn (stored nodes / get_or_insert requests of the semantic builder) depends on the shape of
    // its uncompressed diagrams, which no property fixes: reported in the statistics, not compared
    let _ = &semn;
    line.push_str(&format!(" sem={sem} semn=*"));

    // ---- SDD half of the correspondence: the case's explicit vtrees, one builder per prime
    {
        let mut vts: Vec<(&str, &VT)> = vec![("VT", &vt)];
        if let Some(v2) = &sv {
            vts.push(("SV", v2));
        }
        let (mut sh, mut sn, mut sc, mut sp) = (vec![], vec![], vec![], vec![]);
        let j = |v: &Vec<u128>| v.iter().map(|x| x.to_string()).collect::<Vec<_>>().join(",");
        for (name, v) in vts {
            let r0 = sdd_corr::<P0>(name, v, &prog, &queries, split, prefix, target, neg, &spec, &mut cx, st);
            let r1 = sdd_corr::<P1>(name, v, &prog, &queries, split, prefix, target, neg, &spec, &mut cx, st);
            let r2 = sdd_corr::<P2>(name, v, &prog, &queries, split, prefix, target, neg, &spec, &mut cx, st);
            sh.push(format!("{},{},{}", r0.0, r1.0, r2.0));
            sn.push(format!("{},{},{}", r0.1, r1.1, r2.1));
            sc.push(format!("{};{};{}", j(&r0.2), j(&r1.2), j(&r2.2)));
            sp.push(j(&r2.3));
            st.bump("sddcorr_vtrees");
        }
        line.push_str(&format!(" sh={} sn={} sc={} sp={}", sh.join("|"), sn.join("|"), sc.join("|"), sp.join("|")));
    }
    rsdd::verif::TABLE_CAPACITY.with(|c| c.set(None));

    st.bump(if is_cnf { "kind_cnf" } else { "kind_program" });
    st.bump(&format!("nvars={nv}"));
    let deps = deps_of(tgt_t, nv);
    st.bump(&format!("target_depends_on={deps}"));
    let nontrivial = deps >= 2;
    Outcome { result: line, fails: cx.fails, nontrivial }
}

// ================================================================ soak cases (oracle only)
//
// case:  SOAK S <seed> <nv> <nops> <maxc> <bin%> VT <vtree>   one long-lived SemanticSddBuilder<U64_LARGEST>
//           <maxc> in 1..4: and / or results with more cubes are not built; <bin%> <= 45: share of and / or
//           operations on earlier results (uncompressed SDDs of DNFs are slow under non-linear vtrees)
//        SOAK D <seed> <nv> <nops> <var_to_pos>*nv       one long-lived SemanticDecisionNNFBuilder<U64_LARGEST>
//        SOAK X <nv> VT <vtree> (C|K <k> <dimacs lit>*k)*  an explicit list of cubes (C) / clauses (K)
//                                                        built one after the other in one builder of each kind
// The operation stream of S / D is drawn from <seed> by the harness's own generator at run time
// (a 200k-operation program does not fit a case line); the first <nops> operations are run, so a
// failing case is minimised by lowering <nops> (the failure message names the operation).
//
// Every function built is represented on the oracle side by its DEFINING STRUCTURE, never by a
// table: S -- a DNF of at most 4 cubes or the negation of one (cubes, clauses, small CNFs/DNFs and
// their combinations under and / or / negate / condition / exists), whose defining sum
// sum_{models} prod weights is computed exactly by inclusion-exclusion over the cubes (a cube's sum
// is the product of its literal weights since low + high = 1 for the unmentioned variables);
// D -- a decision node (var, low, high) over earlier nodes of strictly deeper levels, whose defining
// sum is low_w * sum(low) + high_w * sum(high) (Shannon expansion, children do not mention var), or
// a CNF of at most 3 clauses.  Checked after EVERY operation: the cached semantic hash of the
// returned diagram equals the defining sum; the diagram (walked node by node) agrees with the
// defining structure on a random assignment, on a model of one of its cubes and on a neighbour of that
// model; eq / pointer identity with the first earlier result of equal (or complemented) defining
// sum holds, eq with a random earlier result holds iff the sums are equal, and whenever two sums are
// equal the two functions agree on 256 fixed assignments (otherwise: a genuine 64-bit collision).
// These cases have no Coq-model counterpart: the driver prints the same fixed token.
const SOAK_LINE: &str = "soak=oracle-only";
type Sig = [u64; 4];

/// a, b < P2 < 2^64, so the product is exact in u128
fn mm(a: u128, b: u128) -> u128 {
    (a * b) % P2
}

#[derive(Clone, Copy, PartialEq, Eq, PartialOrd, Ord, Debug)]
struct Cube {
    m: u32, // mentioned variables
    v: u32, // their values (subset of m)
}
impl Cube {
    fn and(self, o: Cube) -> Option<Cube> {
        if (self.m & o.m) & (self.v ^ o.v) != 0 { None } else { Some(Cube { m: self.m | o.m, v: self.v | o.v }) }
    }
    fn holds(self, a: u32) -> bool {
        a & self.m == self.v
    }
}
/// neg XOR (OR of the first n cubes)
#[derive(Clone, Copy, Debug)]
struct Fun {
    neg: bool,
    n: usize,
    c: [Cube; 4],
}
impl Fun {
    fn konst(b: bool) -> Fun {
        Fun { neg: false, n: b as usize, c: [Cube { m: 0, v: 0 }; 4] }
    }
    /// normal form: sorted, no duplicate and no subsumed cube; None if more than 4 cubes remain
    fn of(neg: bool, mut v: Vec<Cube>) -> Option<Fun> {
        v.sort();
        v.dedup();
        let mut keep: Vec<Cube> = vec![];
        for (i, c) in v.iter().enumerate() {
            let subsumed = v.iter().enumerate().any(|(j, d)| j != i && d.m & c.m == d.m && c.v & d.m == d.v && (d.m != c.m || j < i));
            if !subsumed {
                keep.push(*c);
            }
        }
        if keep.len() > 4 {
            return None;
        }
        let mut f = Fun { neg, n: keep.len(), c: [Cube { m: 0, v: 0 }; 4] };
        f.c[..keep.len()].copy_from_slice(&keep);
        Some(f)
    }
    fn cubes(&self) -> &[Cube] {
        &self.c[..self.n]
    }
    fn eval(&self, a: u32) -> bool {
        self.cubes().iter().any(|c| c.holds(a)) != self.neg
    }
    fn not(&self) -> Fun {
        Fun { neg: !self.neg, ..*self }
    }
    fn product(a: &Fun, b: &Fun) -> Vec<Cube> {
        let mut v = vec![];
        for x in a.cubes() {
            for y in b.cubes() {
                if let Some(z) = x.and(*y) {
                    v.push(z);
                }
            }
        }
        v
    }
    fn union(a: &Fun, b: &Fun) -> Vec<Cube> {
        a.cubes().iter().chain(b.cubes().iter()).copied().collect()
    }
    /// and / or of two functions of the same polarity (De Morgan for the negated family)
    fn combine(is_and: bool, a: &Fun, b: &Fun) -> Option<Fun> {
        if a.neg != b.neg {
            return None;
        }
        let cubes = if is_and != a.neg { Fun::product(a, b) } else { Fun::union(a, b) };
        Fun::of(a.neg, cubes)
    }
    fn condition(&self, v: usize, val: bool) -> Fun {
        let bit = 1u32 << v;
        let cubes: Vec<Cube> = self.cubes().iter().filter(|c| c.m & bit == 0 || (c.v & bit != 0) == val).map(|c| Cube { m: c.m & !bit, v: c.v & !bit }).collect();
        Fun::of(self.neg, cubes).unwrap()
    }
    /// only for the positive family
    fn exists(&self, v: usize) -> Fun {
        let bit = 1u32 << v;
        Fun::of(false, self.cubes().iter().map(|c| Cube { m: c.m & !bit, v: c.v & !bit }).collect()).unwrap()
    }
    fn text(&self) -> String {
        let cube = |c: &Cube| -> String {
            if c.m == 0 {
                return "true".to_string();
            }
            (0..32).filter(|v| c.m >> v & 1 == 1).map(|v| format!("{}x{v}", if c.v >> v & 1 == 1 { "" } else { "!" })).collect::<Vec<_>>().join("&")
        };
        let body = if self.n == 0 { "false".to_string() } else { self.cubes().iter().map(cube).collect::<Vec<_>>().join(" | ") };
        if self.neg { format!("!({body})") } else { format!("({body})") }
    }
    /// as an item of a SOAK X case, when the function is a single cube or a single clause
    fn as_item(&self) -> Option<String> {
        if self.n != 1 || self.c[0].m == 0 {
            return None;
        }
        let c = self.c[0];
        let lits: Vec<String> = (0..32).filter(|v| c.m >> v & 1 == 1).map(|v| { let pos = (c.v >> v & 1 == 1) != self.neg; format!("{}{}", if pos { "" } else { "-" }, v + 1) }).collect();
        Some(format!("{} {} {}", if self.neg { "K" } else { "C" }, lits.len(), lits.join(" ")))
    }
}
fn cube_sum(c: Cube, w: &[(u128, u128)]) -> u128 {
    let mut p = 1u128;
    let mut m = c.m;
    while m != 0 {
        let v = m.trailing_zeros() as usize;
        p = mm(p, if c.v >> v & 1 == 1 { w[v].1 } else { w[v].0 });
        m &= m - 1;
    }
    p
}
/// the defining sum of the function by inclusion-exclusion over its cubes
fn fun_sum(f: &Fun, w: &[(u128, u128)]) -> u128 {
    let mut s = 0u128;
    for mask in 1u32..(1u32 << f.n) {
        let mut c = Some(Cube { m: 0, v: 0 });
        for i in 0..f.n {
            if mask >> i & 1 == 1 {
                c = c.and_then(|x| x.and(f.c[i]));
            }
        }
        if let Some(c) = c {
            let h = cube_sum(c, w);
            s = addmod(s, if mask.count_ones() % 2 == 1 { h } else { (P2 - h) % P2 }, P2);
        }
    }
    if f.neg { one_minus(s, P2) } else { s }
}
fn sig_not(a: Sig) -> Sig {
    [!a[0], !a[1], !a[2], !a[3]]
}
fn fun_sig(f: &Fun, vs: &[Sig]) -> Sig {
    let mut r: Sig = [0; 4];
    for c in f.cubes() {
        let mut x: Sig = [!0; 4];
        let mut m = c.m;
        while m != 0 {
            let v = m.trailing_zeros() as usize;
            for k in 0..4 {
                x[k] &= if c.v >> v & 1 == 1 { vs[v][k] } else { !vs[v][k] };
            }
            m &= m - 1;
        }
        for k in 0..4 {
            r[k] |= x[k];
        }
    }
    if f.neg { sig_not(r) } else { r }
}
/// 256 fixed assignments: per variable the 256-bit column, and the assignments as bit vectors
fn soak_assignments(rng: &mut Rng, nv: usize) -> (Vec<Sig>, Vec<u32>) {
    let vs: Vec<Sig> = (0..nv).map(|_| [rng.next(), rng.next(), rng.next(), rng.next()]).collect();
    let asgs = (0..256).map(|a| (0..nv).fold(0u32, |acc, v| acc | (((vs[v][a / 64] >> (a % 64)) & 1) as u32) << v)).collect();
    (vs, asgs)
}
/// one assignment, walking nodes / elements / complement marks (memo on node addresses)
fn ev_sdd(p: SddPtr, a: u32, memo: &mut HashMap<usize, bool>) -> bool {
    match p {
        SddPtr::PtrTrue => true,
        SddPtr::PtrFalse => false,
        SddPtr::Var(l, b) => (a >> l.value() & 1 == 1) == b,
        SddPtr::BDD(n) | SddPtr::ComplBDD(n) => {
            let key = n as *const _ as usize;
            let x = match memo.get(&key) {
                Some(x) => *x,
                None => {
                    let x = if a >> n.label().value() & 1 == 1 { ev_sdd(n.high(), a, memo) } else { ev_sdd(n.low(), a, memo) };
                    memo.insert(key, x);
                    x
                }
            };
            x != matches!(p, SddPtr::ComplBDD(_))
        }
        SddPtr::Reg(o) | SddPtr::Compl(o) => {
            let key = o as *const _ as usize;
            let x = match memo.get(&key) {
                Some(x) => *x,
                None => {
                    let mut x = false;
                    for e in o.iter() {
                        if ev_sdd(e.prime(), a, memo) && ev_sdd(e.sub(), a, memo) {
                            x = true;
                            break;
                        }
                    }
                    memo.insert(key, x);
                    x
                }
            };
            x != matches!(p, SddPtr::Compl(_))
        }
    }
}

struct SddSoak<'a> {
    b: &'a SemanticSddBuilder<'a, P2>,
    nv: usize,
    w: Vec<(u128, u128)>,
    vs: Vec<Sig>,
    asgs: Vec<u32>,
    /// defining sum -> (first result with that sum, its signature, its description, operation number)
    seen: HashMap<u128, (SddPtr<'a>, Sig, Fun, usize)>,
    pool: Vec<(SddPtr<'a>, Fun, u128)>,
    fails: Vec<String>,
    rng: Rng,
    memo: HashMap<usize, bool>,
    opno: usize,
    vtree: String,
    /// results of and / or with more cubes than this are not built (uncompressed SDDs of wider DNFs are slow under non-linear vtrees)
    maxc: usize,
    /// percentage of and / or operations on earlier results (at most 45; the rest of that share goes to literal folds)
    binpct: u64,
    /// time per operation kind (reported under VERIF_SOAK_VERBOSE only)
    tm: HashMap<&'static str, (u64, u64)>,
    last: &'static str,
}
impl<'a> SddSoak<'a> {
    fn new(b: &'a SemanticSddBuilder<'a, P2>, nv: usize, seed: u64, vtree: String) -> SddSoak<'a> {
        let mut rng = Rng::new(seed);
        let (vs, asgs) = soak_assignments(&mut rng, nv);
        let w = real_weights::<P2>(nv);
        let mut fails = vec![];
        for (v, wv) in w.iter().enumerate() {
            let (l, h) = b.map().var_weight(VarLabel::new(v as u64));
            if (l.value(), h.value()) != *wv {
                fails.push(format!("soak-sdd: the builder's weight of variable {v} is not the one of create_semantic_hash_map"));
            }
        }
        let mut seen = HashMap::new();
        seen.insert(1u128, (SddPtr::PtrTrue, [!0u64; 4], Fun::konst(true), 0));
        SddSoak { b, nv, w, vs, asgs, seen, pool: vec![], fails, rng, memo: HashMap::new(), opno: 0, vtree, maxc: 4, binpct: 45, tm: HashMap::new(), last: "" }
    }
    fn replay_hint(&self, earlier: &Fun, now: &Fun) -> String {
        match (earlier.as_item(), now.as_item()) {
            (Some(a), Some(b)) => format!(" [minimal replay: SOAK X {} VT {} {a} {b}]", self.nv, self.vtree),
            _ => String::new(),
        }
    }
    /// all checks on one operation result; returns the defining sum
    fn check(&mut self, what: &'static str, r: SddPtr<'a>, f: &Fun) -> u128 {
        let b = self.b;
        self.last = what;
        let want = fun_sum(f, &self.w);
        let got = b.cached_semantic_hash(r).value();
        let k = self.opno;
        if got != want {
            let culprit = match (self.seen.get(&got), self.seen.get(&one_minus(got, P2))) {
                (Some((_, _, g, j)), _) => format!("; {got} is the sum of {} built at operation {j}{}", g.text(), self.replay_hint(g, f)),
                (_, Some((_, _, g, j))) => format!("; {got} is the sum of the negation of {} built at operation {j}{}", g.text(), self.replay_hint(g, f)),
                _ => String::new(),
            };
            self.fails.push(format!("soak-sdd operation {k} ({what}): the diagram returned for {} has cached semantic hash {got}, the defining sum of that function is {want}{culprit}", f.text()));
        }
        // the diagram against the defining structure: a random assignment, a model of one cube, a neighbour
        let a0 = self.asgs[self.rng.below(256) as usize];
        let mut tests = [a0, a0, a0];
        if f.n > 0 {
            let c = f.c[self.rng.below(f.n as u64) as usize];
            let base = ((self.rng.next() as u32 & !c.m) | c.v) & ((1u32 << self.nv) - 1);
            tests[1] = base;
            if c.m != 0 {
                let bits: Vec<u32> = (0..32).filter(|v| c.m >> v & 1 == 1).collect();
                tests[2] = base ^ (1 << *self.rng.pick(&bits));
            }
        }
        for t in tests {
            if self.memo.capacity() > 512 {
                self.memo = HashMap::new();
            } else {
                self.memo.clear();
            }
            let e = ev_sdd(r, t, &mut self.memo);
            if e != f.eval(t) {
                self.fails.push(format!("soak-sdd operation {k} ({what}): the diagram returned for {} evaluates to {e} on the assignment {t:#b} (bit v = variable v), the function is {}", f.text(), !e));
                break;
            }
        }
        // eq with the first earlier result of equal / complemented sum
        let sig = fun_sig(f, &self.vs);
        if let Some((p0, s0, g, j)) = self.seen.get(&want) {
            if !b.eq(r, *p0) {
                self.fails.push(format!("soak-sdd operation {k} ({what}): eq judges {} different from {} (operation {j}) although both have defining sum {want}", f.text(), g.text()));
            }
            if *s0 != sig {
                self.fails.push(format!("soak-sdd operation {k}: {} and {} (operation {j}) are different functions with the same defining sum {want}: a genuine collision in the 64-bit field", f.text(), g.text()));
            }
        } else if let Some((p0, s0, g, j)) = self.seen.get(&one_minus(want, P2)) {
            if !b.eq(r, p0.neg()) {
                self.fails.push(format!("soak-sdd operation {k} ({what}): eq judges {} different from the negation of {} (operation {j}) although the defining sums are {want} and 1 - {want}", f.text(), g.text()));
            }
            if sig_not(*s0) != sig {
                self.fails.push(format!("soak-sdd operation {k}: {} and the negation of {} (operation {j}) are different functions with the same defining sum {want}: a genuine collision in the 64-bit field", f.text(), g.text()));
            }
        } else {
            self.seen.insert(want, (r, sig, *f, k));
        }
        // eq with a random earlier result
        if !self.pool.is_empty() {
            let (p, g, hg) = self.pool[self.rng.below(self.pool.len() as u64) as usize];
            let e = b.eq(r, p);
            if e != (hg == want) {
                self.fails.push(format!("soak-sdd operation {k} ({what}): eq({}, {}) = {e} but the defining sums are {want} and {hg}", f.text(), g.text()));
            }
            if hg == want && fun_sig(&g, &self.vs) != sig {
                self.fails.push(format!("soak-sdd operation {k}: {} and {} are different functions with the same defining sum {want}: a genuine collision in the 64-bit field", f.text(), g.text()));
            }
        }
        want
    }
    fn keep(&mut self, r: SddPtr<'a>, f: Fun, h: u128) {
        if f.n == 0 || (f.n == 1 && f.c[0].m == 0) {
            return; // constants are useless operands
        }
        if self.pool.len() < 4096 {
            self.pool.push((r, f, h));
        } else {
            let i = self.rng.below(4096) as usize;
            self.pool[i] = (r, f, h);
        }
    }
    /// a cube (and-fold of the literals) or a clause (or-fold); lits = (variable, polarity)
    fn build_lits(&mut self, lits: &[(usize, bool)], clause: bool) -> (SddPtr<'a>, Fun) {
        let b = self.b;
        let mut p = if clause { SddPtr::PtrFalse } else { SddPtr::PtrTrue };
        for (v, pol) in lits {
            let l = BottomUpBuilder::var(b, VarLabel::new(*v as u64), *pol);
            p = if clause { b.or(p, l) } else { b.and(p, l) };
        }
        let f = lits_fun(lits, clause);
        (p, f)
    }
    fn random_lits(&mut self, k: usize) -> Vec<(usize, bool)> {
        let mut vars = self.rng.perm(self.nv);
        vars.truncate(k.min(self.nv));
        vars.into_iter().map(|v| (v, self.rng.coin())).collect()
    }
    fn pick(&mut self) -> usize {
        let n = self.pool.len();
        if self.rng.coin() { n - 1 - self.rng.below(n.min(64) as u64) as usize } else { self.rng.below(n as u64) as usize }
    }
    fn step(&mut self, st: &mut Stats) {
        let t0 = std::time::Instant::now();
        self.last = "skipped";
        self.step1(st);
        let e = self.tm.entry(self.last).or_insert((0, 0));
        e.0 += 1;
        e.1 += t0.elapsed().as_nanos() as u64;
    }
    fn step1(&mut self, st: &mut Stats) {
        let b = self.b;
        self.opno += 1;
        let r = self.rng.below(100);
        if self.pool.len() < 8 || r < 45 || (r < 90 && r >= 45 + self.binpct) {
            let clause = r % 3 == 0;
            let k = match self.rng.below(10) { 0 => self.rng.range(1, 2), 1 => self.rng.range(7, 9), _ => self.rng.range(3, 6) };
            let lits = self.random_lits(k);
            let (p, f) = self.build_lits(&lits, clause);
            let h = self.check(if clause { "or-fold of literals" } else { "and-fold of literals" }, p, &f);
            self.keep(p, f, h);
            st.bump(if clause { "soak_sdd_op_clause" } else { "soak_sdd_op_cube" });
        } else if r < 90 {
            for _ in 0..6 {
                let (i, j) = (self.pick(), self.rng.below(self.pool.len() as u64) as usize);
                let (pa, fa, _) = self.pool[i];
                let (mut pb, mut fb, _) = self.pool[j];
                if fa.neg != fb.neg {
                    pb = b.negate(pb);
                    fb = fb.not();
                }
                // mostly the operation that concatenates (or on DNFs, and on CNFs): its results are rarely constant
                let concat = self.rng.chance(7, 10);
                let is_and = if fa.neg { concat } else { !concat };
                if let Some(f) = Fun::combine(is_and, &fa, &fb).filter(|f| f.n <= self.maxc) {
                    let p = if is_and { b.and(pa, pb) } else { b.or(pa, pb) };
                    let h = self.check(if is_and { "and" } else { "or" }, p, &f);
                    self.keep(p, f, h);
                    st.bump(if is_and { "soak_sdd_op_and" } else { "soak_sdd_op_or" });
                    return;
                }
            }
            st.bump("soak_sdd_op_skipped_not_representable");
        } else if r < 94 {
            let i = self.pick();
            let (p, f, _) = self.pool[i];
            let (q, g) = (b.negate(p), f.not());
            let h = self.check("negate", q, &g);
            self.keep(q, g, h);
            st.bump("soak_sdd_op_negate");
        } else {
            let i = self.pick();
            let (p, f, _) = self.pool[i];
            let mentioned: Vec<usize> = (0..self.nv).filter(|v| f.cubes().iter().any(|c| c.m >> v & 1 == 1)).collect();
            let v = if !mentioned.is_empty() && self.rng.chance(4, 5) { *self.rng.pick(&mentioned) } else { self.rng.below(self.nv as u64) as usize };
            if f.neg || self.rng.coin() {
                let val = self.rng.coin();
                let q = BottomUpBuilder::condition(b, p, VarLabel::new(v as u64), val);
                let g = f.condition(v, val);
                let h = self.check("condition", q, &g);
                self.keep(q, g, h);
                st.bump("soak_sdd_op_condition");
            } else {
                let q = b.exists(p, VarLabel::new(v as u64));
                let g = f.exists(v);
                let h = self.check("exists", q, &g);
                self.keep(q, g, h);
                st.bump("soak_sdd_op_exists");
            }
        }
    }
}

fn soak_sdd(seed: u64, nv: usize, nops: usize, maxc: usize, binpct: u64, vt: &VT, st: &mut Stats) -> Vec<String> {
    let b = SemanticSddBuilder::<P2>::new(vt_rsdd(vt));
    let mut s = SddSoak::new(&b, nv, seed, vt_text(vt));
    s.maxc = maxc;
    s.binpct = binpct.min(45);
    let t0 = std::time::Instant::now();
    while s.opno < nops && s.fails.is_empty() {
        s.step(st);
    }
    let stats = b.stats();
    st.add("soak_sdd_operations", s.opno as u64);
    st.add("soak_sdd_distinct_functions_(defining_sums)", s.seen.len() as u64);
    st.add("soak_sdd_nodes_stored_in_the_builder", stats.app_cache_size as u64);
    if std::env::var("VERIF_SOAK_VERBOSE").is_ok() {
        eprintln!("soak S: nv {nv} ops {} distinct {} nodes {} in {:?}, fails {}", s.opno, s.seen.len(), stats.app_cache_size, t0.elapsed(), s.fails.len());
        for (k, (n, ns)) in &s.tm {
            eprintln!("   {k}: {n} operations, {} ns each", ns / n.max(&1));
        }
    }
    s.fails.truncate(5);
    s.fails
}

/// one long-lived top-down builder: decision nodes requested directly through get_or_insert
/// (children = earlier nodes of strictly deeper levels, either polarity, or constants) and small
/// CNFs through compile_cnf_topdown
fn soak_dnnf(seed: u64, nv: usize, nops: usize, var_to_pos: &[usize], st: &mut Stats) -> Vec<String> {
    struct ON<'a> {
        h: u128,
        sig: Sig,
        ptr: BddPtr<'a>,
    }
    let mut rng = Rng::new(seed);
    let (vs, asgs) = soak_assignments(&mut rng, nv);
    let w = real_weights::<P2>(nv);
    let order = order_of(var_to_pos);
    rsdd::verif::TABLE_CAPACITY.with(|c| c.set(Some(1024)));
    let b = SemanticDecisionNNFBuilder::<P2>::new(order_of(var_to_pos));
    rsdd::verif::TABLE_CAPACITY.with(|c| c.set(None));
    let map = create_semantic_hash_map::<P2>(nv);
    let mut pos_to_var = vec![0usize; nv];
    for (v, p) in var_to_pos.iter().enumerate() {
        pos_to_var[*p] = v;
    }
    let mut fails: Vec<String> = vec![];
    let mut nodes: Vec<ON> = vec![ON { h: 1, sig: [!0; 4], ptr: BddPtr::PtrTrue }];
    let mut by_level: Vec<Vec<usize>> = vec![vec![]; nv];
    let mut seen: HashMap<u128, usize> = HashMap::new();
    seen.insert(1, 0);
    let mut addrs: HashSet<usize> = HashSet::new();
    let t0 = std::time::Instant::now();
    let mut k = 0usize;
    let (mut n_new, mut n_old, mut n_cnf, mut n_internal, mut t_cnf) = (0u64, 0u64, 0u64, 0u64, 0u64);
    while k < nops && fails.is_empty() {
        k += 1;
        if rng.chance(1, 400) {
            // a small CNF (mentions the last variable, so Cnf::num_vars = nv = the order's)
            let ncl = rng.range(1, 3);
            let mut clauses = vec![];
            let mut cubes = vec![];
            for c in 0..ncl {
                let kk = rng.range(2, 5);
                let mut vars = rng.perm(nv);
                vars.truncate(kk);
                if c == 0 && !vars.contains(&(nv - 1)) {
                    vars[0] = nv - 1;
                }
                let lits: Vec<(usize, bool)> = vars.into_iter().map(|v| (v, rng.coin())).collect();
                clauses.push(lits.iter().map(|(v, p)| Literal::new(VarLabel::new(*v as u64), *p)).collect::<Vec<_>>());
                cubes.push(lits.iter().fold(Cube { m: 0, v: 0 }, |c, (v, p)| Cube { m: c.m | 1 << v, v: c.v | if *p { 0 } else { 1 << v } }));
            }
            let f = Fun::of(true, cubes).unwrap();
            let tq = std::time::Instant::now();
            let r = b.compile_cnf_topdown(&Cnf::new(&clauses));
            t_cnf += tq.elapsed().as_nanos() as u64;
            let want = fun_sum(&f, &w);
            let got = r.cached_semantic_hash(&order, &map).value();
            if got != want {
                fails.push(format!("soak-dnnf operation {k}: compile_cnf_topdown of the CNF {} returns a diagram with cached semantic hash {got}, the defining sum is {want}", f.text()));
            }
            let c = f.c[rng.below(f.n as u64) as usize];
            let base = ((rng.next() as u32 & !c.m) | c.v) & ((1u32 << nv) - 1);
            let bits: Vec<u32> = (0..32).filter(|v| c.m >> v & 1 == 1).collect();
            for t in [asgs[rng.below(256) as usize], base, base ^ (1 << *rng.pick(&bits))] {
                let e = eval_ptr(r, t as usize);
                if e != f.eval(t) {
                    fails.push(format!("soak-dnnf operation {k}: compile_cnf_topdown of the CNF {} evaluates to {e} on the assignment {t:#b}", f.text()));
                    break;
                }
            }
            n_cnf += 1;
            continue;
        }
        let level = rng.below(nv as u64) as usize;
        let var = pos_to_var[level];
        let child = |rng: &mut Rng| -> (usize, bool) {
            let mut l2 = level + 1 + rng.below(4) as usize;
            while l2 < nv && by_level[l2].is_empty() {
                l2 += 1;
            }
            if l2 >= nv || rng.chance(1, 12) { (0, rng.coin()) } else { (*rng.pick(&by_level[l2]), rng.coin()) }
        };
        let (lo, hi) = (child(&mut rng), child(&mut rng));
        let val = |x: (usize, bool)| -> (u128, Sig, BddPtr) {
            let n = &nodes[x.0];
            if x.1 { (one_minus(n.h, P2), sig_not(n.sig), n.ptr.neg()) } else { (n.h, n.sig, n.ptr) }
        };
        let (hl, sl, pl) = val(lo);
        let (hh, sh, ph) = val(hi);
        if hl == hh {
            continue; // a redundant test
        }
        let want = addmod(mm(w[var].0, hl), mm(w[var].1, hh), P2);
        let mut sig: Sig = [0; 4];
        for q in 0..4 {
            sig[q] = (vs[var][q] & sh[q]) | (!vs[var][q] & sl[q]);
        }
        let r = b.get_or_insert(BddNode::new(VarLabel::new(var as u64), pl, ph));
        let got = r.cached_semantic_hash(&order, &map).value();
        let descr = || format!("the decision node (x{var} ? node {}{} : node {}{})", if hi.1 { "!" } else { "" }, hi.0, if lo.1 { "!" } else { "" }, lo.0);
        if got != want {
            let culprit = match (seen.get(&got), seen.get(&one_minus(got, P2))) {
                (Some(j), _) => format!("; {got} is the sum of node {j}"),
                (_, Some(j)) => format!("; {got} is the sum of the negation of node {j}"),
                _ => String::new(),
            };
            fails.push(format!("soak-dnnf operation {k}: get_or_insert of {} (node {}) returns a diagram with cached semantic hash {got}, the defining sum low_w*sum(low) + high_w*sum(high) is {want}{culprit}", descr(), nodes.len()));
        }
        for _ in 0..2 {
            let a = rng.below(256) as usize;
            let e = eval_ptr(r, asgs[a] as usize);
            if e != (sig[a / 64] >> (a % 64) & 1 == 1) {
                fails.push(format!("soak-dnnf operation {k}: the diagram returned for {} evaluates to {e} on the assignment {:#b}", descr(), asgs[a]));
                break;
            }
        }
        if let Some(j) = seen.get(&want) {
            if r != nodes[*j].ptr {
                fails.push(format!("soak-dnnf operation {k}: {} has the defining sum of node {j} but get_or_insert returns a different pointer", descr()));
            }
            if sig != nodes[*j].sig {
                fails.push(format!("soak-dnnf operation {k}: {} and node {j} are different functions with the same defining sum {want}: a genuine collision in the 64-bit field", descr()));
            }
            n_old += 1;
        } else if let Some(j) = seen.get(&one_minus(want, P2)) {
            if r != nodes[*j].ptr.neg() {
                fails.push(format!("soak-dnnf operation {k}: {} has the defining sum of the negation of node {j} but get_or_insert does not return that node complemented", descr()));
            }
            if sig != sig_not(nodes[*j].sig) {
                fails.push(format!("soak-dnnf operation {k}: {} and the negation of node {j} are different functions with the same defining sum {want}: a genuine collision in the 64-bit field", descr()));
            }
            n_old += 1;
        } else {
            // a function not requested before through this loop; it may still be stored already (the
            // CNF compilations insert nodes of their own), so an old address is only counted
            let fresh = match r {
                BddPtr::Reg(n) => addrs.insert(n as *const _ as usize),
                BddPtr::Compl(n) => addrs.insert(n as *const _ as usize),
                _ => false,
            };
            if !fresh {
                n_internal += 1;
            }
            seen.insert(want, nodes.len());
            by_level[level].push(nodes.len());
            nodes.push(ON { h: want, sig, ptr: r });
            n_new += 1;
        }
    }
    st.add("soak_dnnf_operations", k as u64);
    st.add("soak_dnnf_new_nodes", n_new);
    st.add("soak_dnnf_requests_for_known_functions", n_old);
    st.add("soak_dnnf_cnf_compilations", n_cnf);
    st.add("soak_dnnf_new_functions_found_stored_by_a_cnf_compilation", n_internal);
    st.add("soak_dnnf_nodes_stored_in_the_builder", b.stats().num_nodes_alloc as u64);
    if std::env::var("VERIF_SOAK_VERBOSE").is_ok() {
        eprintln!("soak D: nv {nv} ops {k} new {n_new} known {n_old} cnf {n_cnf} stored {} in {:?} (of which CNF compilation {} ms), fails {}", b.stats().num_nodes_alloc, t0.elapsed(), t_cnf / 1_000_000, fails.len());
    }
    fails.truncate(5);
    fails
}

/// the function of a literal list read as a cube / as a clause (a clause is the negation of the
/// cube of the complemented literals)
fn lits_fun(lits: &[(usize, bool)], clause: bool) -> Fun {
    let mut c = Some(Cube { m: 0, v: 0 });
    for (v, pol) in lits {
        c = c.and_then(|x| x.and(Cube { m: 1 << v, v: if *pol != clause { 1 << v } else { 0 } }));
    }
    match c {
        Some(c) => Fun::of(clause, vec![c]).unwrap(),
        None => Fun::konst(clause), // complementary literals: the cube is false, the clause true
    }
}
fn lits_cnf(lits: &[(usize, bool)], clause: bool) -> Cnf {
    let lit = |(v, p): &(usize, bool)| Literal::new(VarLabel::new(*v as u64), *p);
    let cl: Vec<Vec<Literal>> = if clause { vec![lits.iter().map(lit).collect()] } else { lits.iter().map(|l| vec![lit(l)]).collect() };
    Cnf::new(&cl)
}

/// explicit cubes / clauses one after the other in one builder of each kind
fn soak_explicit(nv: usize, vt: &VT, items: &[(bool, Vec<(usize, bool)>)], st: &mut Stats) -> Vec<String> {
    let b = SemanticSddBuilder::<P2>::new(vt_rsdd(vt));
    let mut s = SddSoak::new(&b, nv, 1, vt_text(vt));
    for (clause, lits) in items {
        s.opno += 1;
        let (p, f) = s.build_lits(lits, *clause);
        let h = s.check(if *clause { "or-fold of literals" } else { "and-fold of literals" }, p, &f);
        s.keep(p, f, h);
        // the same function through compile_cnf (a cube = unit clauses)
        let c = b.compile_cnf(&lits_cnf(lits, *clause));
        s.check("compile_cnf", c, &f);
    }
    let mut fails = s.fails.clone();
    // top-down builder under the linear order: the items whose CNF mentions the last variable
    // (Cnf::num_vars = nv = the order's number of variables)
    let w = real_weights::<P2>(nv);
    let lin: Vec<usize> = (0..nv).collect();
    let order = order_of(&lin);
    let d = SemanticDecisionNNFBuilder::<P2>::new(order_of(&lin));
    let map = create_semantic_hash_map::<P2>(nv);
    let mut rng = Rng::new(7);
    for (k, (clause, lits)) in items.iter().enumerate() {
        let f = lits_fun(lits, *clause);
        let cnf = lits_cnf(lits, *clause);
        if cnf.num_vars() != nv {
            continue;
        }
        let r = d.compile_cnf_topdown(&cnf);
        let want = fun_sum(&f, &w);
        let got = r.cached_semantic_hash(&order, &map).value();
        if got != want {
            fails.push(format!("soak-explicit item {k}: compile_cnf_topdown of {} returns a diagram with cached semantic hash {got}, the defining sum is {want}", f.text()));
        }
        for j in 0..4 {
            let mut t = rng.next() as u32 & ((1u32 << nv) - 1);
            if j == 0 && f.n > 0 {
                t = (t & !f.c[0].m) | f.c[0].v;
            }
            if eval_ptr(r, t as usize) != f.eval(t) {
                fails.push(format!("soak-explicit item {k}: compile_cnf_topdown of {} is wrong on the assignment {t:#b}", f.text()));
                break;
            }
        }
        st.bump("soak_explicit_topdown_items");
    }
    st.add("soak_explicit_items", items.len() as u64);
    fails
}

/// the soak cases of a shard of n cases: two short ones in the middle, three long ones at the end
/// (quick tier, measured on the development machine: S non-linear 80k operations = about 140k stored
/// nodes in 1-1.5 s; D 400k operations = about 390k stored nodes in 2.5 s; S right-linear 60k
/// operations = about 260k stored nodes in 0.8 s)
fn gen_soak(rng: &mut Rng, idx: usize, n: usize, thorough: bool) -> Option<String> {
    if n < 100 || !(idx == n / 2 || idx == n / 2 + 1 || idx + 3 >= n) {
        return None;
    }
    let scale = if thorough { 4 } else { 1 };
    let nv = rng.range(14, 18);
    let seed = rng.next() & 0xFFFF_FFFF_FFFF;
    let labels: Vec<u64> = rng.perm(nv).into_iter().map(|x| x as u64).collect();
    let lv: Vec<VarLabel> = labels.iter().map(|l| VarLabel::new(*l)).collect();
    let nonlinear = |rng: &mut Rng| -> String {
        match rng.below(3) {
            0 => vt_text(&vt_of_rsdd(&VTree::even_split(&lv, 2))),
            1 => vt_text(&vt_of_rsdd(&VTree::even_split(&lv, 4))),
            _ => vt_text(&vt_random(rng, &labels)),
        }
    };
    let perm = |rng: &mut Rng| -> String { rng.perm(nv).iter().map(|p| p.to_string()).collect::<Vec<_>>().join(" ") };
    if idx == n / 2 {
        return Some(format!("SOAK S {seed} {nv} {} 2 2 VT {}", 20_000 * scale, nonlinear(rng)));
    }
    if idx == n / 2 + 1 {
        return Some(format!("SOAK D {seed} {nv} {} {}", 50_000 * scale, perm(rng)));
    }
    if idx + 3 == n {
        return Some(format!("SOAK S {seed} {nv} {} 2 2 VT {}", 80_000 * scale, nonlinear(rng)));
    }
    if idx + 2 == n {
        return Some(format!("SOAK D {seed} {nv} {} {}", 400_000 * scale, perm(rng)));
    }
    if idx + 1 == n {
        return Some(format!("SOAK S {seed} {nv} {} 4 45 VT {}", 60_000 * scale, vt_text(&vt_of_rsdd(&VTree::right_linear(&lv)))));
    }
    None
}

fn vt_of_rsdd(t: &VTree) -> VT {
    match t {
        VTree::Leaf(v) => VT::L(v.value()),
        VTree::Node((), l, r) => VT::N(Box::new(vt_of_rsdd(l)), Box::new(vt_of_rsdd(r))),
    }
}

fn run_soak(case: &str, st: &mut Stats) -> Outcome {
    let t: Vec<String> = toks(case).iter().map(|s| s.to_string()).collect();
    let u = |s: &String| -> usize { s.parse().unwrap() };
    let fails = match t[1].as_str() {
        "S" => {
            let (seed, nv, nops) = (t[2].parse::<u64>().unwrap(), u(&t[3]), u(&t[4]));
            let (maxc, binpct) = (u(&t[5]), u(&t[6]) as u64);
            assert!(t[7] == "VT" && nv <= 24 && (1..=4).contains(&maxc));
            let mut i = 8;
            let vt = vt_parse(&t, &mut i);
            st.bump("kind_soak_semantic_sdd_builder");
            soak_sdd(seed, nv, nops, maxc, binpct, &vt, st)
        }
        "D" => {
            let (seed, nv, nops) = (t[2].parse::<u64>().unwrap(), u(&t[3]), u(&t[4]));
            assert!(nv <= 24);
            let var_to_pos: Vec<usize> = (0..nv).map(|k| u(&t[5 + k])).collect();
            st.bump("kind_soak_semantic_decision_dnnf_builder");
            soak_dnnf(seed, nv, nops, &var_to_pos, st)
        }
        "X" => {
            let nv = u(&t[2]);
            assert!(t[3] == "VT" && nv <= 24);
            let mut i = 4;
            let vt = vt_parse(&t, &mut i);
            let mut items = vec![];
            while i < t.len() {
                let clause = t[i] == "K";
                let k = u(&t[i + 1]);
                let lits: Vec<(usize, bool)> = (0..k).map(|j| { let d: i64 = t[i + 2 + j].parse().unwrap(); ((d.unsigned_abs() - 1) as usize, d > 0) }).collect();
                items.push((clause, lits));
                i += 2 + k;
            }
            st.bump("kind_soak_explicit");
            soak_explicit(nv, &vt, &items, st)
        }
        _ => panic!("bad soak case"),
    };
    Outcome { result: SOAK_LINE.to_string(), fails, nontrivial: true }
}
