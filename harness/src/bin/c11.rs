//! C11: semantic hashing is denotational; hash-identified builders stay correct.
//!
//! case:  <BDD program without new_var / compose / cond_model> H <target> <neg 0|1> <cnf 0|1>
//!        <order1: var_to_pos * nvars> <order2: var_to_pos * nvars> VT <vtree>
//!        Q <split> <k> (<pool index> <neg 0|1>)*k  W (<lo_v> <hi_v>)*nvars  for each of the 3 primes
//!        [SV <vtree>]      (optional second random vtree for the SDD half of the correspondence)
//!   vtree ::= L <var> | N <vtree> <vtree>.   cnf = 1: the program has the shape literals, one
//!   or_lst per clause, one final and_lst, and the harness additionally compiles the CNF.
//!   The weights are the real ones (create_semantic_hash_map, ChaCha8-seeded), printed into the
//!   case at generation time; `run` re-reads them from the implementation and compares.
//!
//! out (compared with the Coq model fed with the same weights):
//!   w=ok  h=<per prime: hash of the target's BDD under order0,order1,order2>
//!   n=<per prime: hash of the negated target (order0)>
//!   c=<per prime: the k cached hashes, split queries issued before the rest of the program ran>
//!   mis=<per prime i: cached hash of the target asked with prime i+1 on the node caches left by prime i>
//!   sem=<cached hash in U64_LARGEST of every pool entry of the SemanticSddBuilder> (or - when the
//!        program uses xor/iff/ite, which are todo!() there)
//!   semn=<nodes stored in bdd_tbl + sdd_tbl>/<get_or_insert_bdd + get_or_insert_sdd calls> of that
//!        builder after the program (both compared with the Coq model of the builder,
//!        Model/SddSemBuilder.v, run on the same program under the same vtree and weights)
//!   SDD half (compared with the Coq SDD builder model of C03 run on the same program under the same
//!   vtrees and hashed by Model/SddSemHash.v; groups separated by | = the vtree of VT, then of SV;
//!   one CompressionSddBuilder per vtree and prime):
//!   sh=<per vtree: DDNNFPtr::semantic_hash of the target pointer in the 3 fields>
//!   sn=<per vtree: the same for the negated pointer>
//!   sc=<per vtree; per prime: SddPtr::cached_semantic_hash answers to the k queries, the first
//!        `split` of them asked when only a prefix of the program has run on that builder>
//!   sp=<per vtree: cached_semantic_hash in U64_LARGEST of every pool entry>
//!
//! oracle (independent of the model and of the code under test: truth tables by walking nodes,
//! spec program on truth tables, own double-and-add modular arithmetic):
//!   * every representation (BDD x 3 orders, CompressionSddBuilder x 4 vtrees, for CNF cases also
//!     compile_cnf and StandardDecisionNNFBuilder x 2 orders) denotes the spec function and its
//!     semantic hash in U32_TINY / U32_SMALL / U64_LARGEST equals sum_{models} prod weights;
//!   * the hash of the negation equals 1 - hash; negate() agrees;
//!   * cached hash = recomputed hash = defining sum, for BDD and SDD pointers sharing structure,
//!     interleaved with further builder operations (one prime per builder: "fixed field and map");
//!   * exploration half (U64_LARGEST): SemanticSddBuilder pool truth tables vs spec, eq() vs
//!     truth-table equality on all pairs, compile_cnf; SemanticDecisionNNFBuilder compile + condition.
use rsdd::builder::decision_nnf::{DecisionNNFBuilder, SemanticDecisionNNFBuilder, StandardDecisionNNFBuilder};
use rsdd::builder::sdd::{CompressionSddBuilder, SddBuilder, SemanticSddBuilder};
use rsdd::builder::{BottomUpBuilder, TopDownBuilder};
use rsdd::constants::primes;
use rsdd::repr::{create_semantic_hash_map, BddPtr, Cnf, DDNNFPtr, Literal, SddPtr, VTree, VarLabel, VarOrder};
use rsdd_verif_harness::bddprog::*;
use rsdd_verif_harness::*;
use std::collections::HashMap;

pub const PROP: Prop = Prop { gen, run, panic_ok: never };

fn main() {
    run_main(PROP)
}

const P0: u128 = primes::U32_TINY;
const P1: u128 = primes::U32_SMALL;
const P2: u128 = primes::U64_LARGEST;
const PS: [u128; 3] = [P0, P1, P2];
const NV: usize = 7;
type TT = u128;

// ---------------------------------------------------------------- independent arithmetic
fn addmod(a: u128, b: u128, p: u128) -> u128 {
    let s = a + b;
    if s >= p { s - p } else { s }
}
fn mulmod(mut a: u128, mut b: u128, p: u128) -> u128 {
    let mut acc = 0u128;
    a %= p;
    while b > 0 {
        if b & 1 == 1 {
            acc = addmod(acc, a, p);
        }
        a = addmod(a, a, p);
        b >>= 1;
    }
    acc
}
/// the defining sum: sum over the models (rows of the table over variables 0..nv-1) of the product
/// of the chosen literal weights, mod p
fn defining_sum(t: TT, nv: usize, w: &[(u128, u128)], p: u128) -> u128 {
    let mut s = 0u128;
    for a in 0..(1usize << nv) {
        if (t >> a) & 1 == 1 {
            let mut prod = 1u128 % p;
            for v in 0..nv {
                prod = mulmod(prod, if (a >> v) & 1 == 1 { w[v].1 } else { w[v].0 }, p);
            }
            s = addmod(s, prod, p);
        }
    }
    s
}
fn one_minus(x: u128, p: u128) -> u128 {
    (1 + p - x % p) % p
}

// ---------------------------------------------------------------- truth tables
fn var_mask(v: usize) -> TT {
    let mut m: TT = 0;
    for row in 0..(1usize << NV) {
        if (row >> v) & 1 == 1 {
            m |= 1u128 << row;
        }
    }
    m
}
fn full(nv: usize) -> TT {
    if nv >= 7 { !0 } else { (1u128 << (1usize << nv)) - 1 }
}
fn tt_of_table(t: &Table) -> TT {
    let mut x: TT = 0;
    for (a, b) in t.iter().enumerate() {
        if *b {
            x |= 1u128 << a;
        }
    }
    x
}
fn deps_of(t: TT, nv: usize) -> usize {
    let t = t & full(nv);
    (0..nv).filter(|v| { let m = var_mask(*v); let sh = 1usize << v; ((t & m) >> sh) != (t & !m & full(nv)) }).count()
}
fn tt_bdd(p: BddPtr, nv: usize) -> TT {
    tt_of_table(&table_of(p, nv))
}
fn sdd_addr(p: SddPtr) -> (u8, usize) {
    match p {
        SddPtr::PtrTrue => (0, 0),
        SddPtr::PtrFalse => (1, 0),
        SddPtr::Var(l, b) => (2, (l.value() as usize) * 2 + b as usize),
        SddPtr::BDD(b) => (3, b as *const _ as usize),
        SddPtr::ComplBDD(b) => (4, b as *const _ as usize),
        SddPtr::Reg(o) => (5, o as *const _ as usize),
        SddPtr::Compl(o) => (6, o as *const _ as usize),
    }
}
/// walks the nodes (elements, complement marks); never calls the library's evaluation
fn tt_sdd(p: SddPtr, memo: &mut HashMap<(u8, usize), TT>) -> TT {
    if let Some(x) = memo.get(&sdd_addr(p)) {
        return *x;
    }
    let r = match p {
        SddPtr::PtrTrue => !0,
        SddPtr::PtrFalse => 0,
        SddPtr::Var(l, b) => {
            let m = var_mask(l.value() as usize);
            if b { m } else { !m }
        }
        SddPtr::BDD(b) | SddPtr::ComplBDD(b) => {
            let m = var_mask(b.label().value() as usize);
            let lo = tt_sdd(b.low(), memo);
            let hi = tt_sdd(b.high(), memo);
            let x = (m & hi) | (!m & lo);
            if matches!(p, SddPtr::ComplBDD(_)) { !x } else { x }
        }
        SddPtr::Reg(o) | SddPtr::Compl(o) => {
            let mut x: TT = 0;
            for a in o.iter() {
                x |= tt_sdd(a.prime(), memo) & tt_sdd(a.sub(), memo);
            }
            if matches!(p, SddPtr::Compl(_)) { !x } else { x }
        }
    };
    memo.insert(sdd_addr(p), r);
    r
}

// ---------------------------------------------------------------- vtrees
#[derive(Clone, Debug)]
enum VT {
    L(u64),
    N(Box<VT>, Box<VT>),
}
fn vt_text(t: &VT) -> String {
    match t {
        VT::L(v) => format!("L {v}"),
        VT::N(l, r) => format!("N {} {}", vt_text(l), vt_text(r)),
    }
}
fn vt_parse(t: &[String], i: &mut usize) -> VT {
    match t[*i].as_str() {
        "L" => {
            let v = t[*i + 1].parse().unwrap();
            *i += 2;
            VT::L(v)
        }
        "N" => {
            *i += 1;
            let l = vt_parse(t, i);
            let r = vt_parse(t, i);
            VT::N(Box::new(l), Box::new(r))
        }
        _ => panic!("bad vtree"),
    }
}
fn vt_rsdd(t: &VT) -> VTree {
    match t {
        VT::L(v) => VTree::new_leaf(VarLabel::new(*v)),
        VT::N(l, r) => VTree::new_node(Box::new(vt_rsdd(l)), Box::new(vt_rsdd(r))),
    }
}
fn vt_random(rng: &mut Rng, labels: &[u64]) -> VT {
    if labels.len() == 1 {
        return VT::L(labels[0]);
    }
    let k = rng.range(1, labels.len() - 1);
    VT::N(Box::new(vt_random(rng, &labels[..k])), Box::new(vt_random(rng, &labels[k..])))
}

// ---------------------------------------------------------------- the real weights
fn real_weights<const P: u128>(nv: usize) -> Vec<(u128, u128)> {
    let m = create_semantic_hash_map::<P>(nv);
    (0..nv).map(|v| { let (l, h) = m.var_weight(VarLabel::new(v as u64)); (l.value(), h.value()) }).collect()
}
fn all_real_weights(nv: usize) -> [Vec<(u128, u128)>; 3] {
    [real_weights::<P0>(nv), real_weights::<P1>(nv), real_weights::<P2>(nv)]
}

// ---------------------------------------------------------------- generator
fn semantic_safe(prog: &Prog) -> bool {
    prog.ops.iter().all(|o| matches!(o, Op::Const(_) | Op::Var(..) | Op::Neg(_) | Op::And(..) | Op::Or(..) | Op::Cond(..) | Op::Exists(..) | Op::AndLst(_) | Op::OrLst(_)))
}

pub fn gen(rng: &mut Rng, idx: usize, n: usize, thorough: bool) -> String {
    let frac = (idx * 100) / n.max(1);
    let maxv = if thorough { 7 } else { 6 };
    let nv = (1 + (frac * (maxv - 1)) / 60 + if rng.chance(1, 4) { 1 } else { 0 }).clamp(1, maxv);
    let perm0 = if rng.chance(1, 5) { (0..nv).collect::<Vec<_>>() } else { rng.perm(nv) };
    let mut s = format!("{nv}");
    for p in &perm0 {
        s.push_str(&format!(" {p}"));
    }
    s.push_str(" a 0");
    let cnf = rng.chance(2, 5);
    let mut pool = 0usize;
    let target;
    if cnf {
        // literals of every variable in both polarities first: pool index of (v, pol) = 2v + pol
        for v in 0..nv {
            s.push_str(&format!(" v {v} 0 v {v} 1"));
        }
        pool += 2 * nv;
        let ncl = 1 + rng.range(0, 1 + (frac * (if thorough { 9 } else { 6 })) / 100);
        let mut clause_idx = vec![];
        for c in 0..ncl {
            let k = if rng.chance(1, 8) { 1 } else { rng.range(1, 3.min(nv)) };
            let mut vs = rng.perm(nv);
            vs.truncate(k);
            if c == 0 && !vs.contains(&(nv - 1)) {
                vs[0] = nv - 1; // the CNF mentions the last variable, so Cnf::num_vars = nv
            }
            s.push_str(&format!(" O {}", vs.len()));
            for v in vs {
                s.push_str(&format!(" {}", 2 * v + rng.coin() as usize));
            }
            clause_idx.push(pool);
            pool += 1;
        }
        s.push_str(&format!(" A {}", clause_idx.len()));
        for c in &clause_idx {
            s.push_str(&format!(" {c}"));
        }
        pool += 1;
        target = pool - 1;
    } else {
        let rich = rng.coin(); // xor / iff / ite as well (then the semantic SDD builder is skipped)
        let nops = 3 + (frac * (if thorough { 30 } else { 16 })) / 100 + rng.range(0, 4);
        let edge = rng.chance(1, 6);
        for k in 0..nops {
            let pick = |rng: &mut Rng, pool: usize| -> usize {
                if rng.chance(1, 2) && pool > 3 { pool - 1 - rng.range(0, 2) } else { rng.below(pool as u64) as usize }
            };
            if pool < 2 || (k < nv + 1 && rng.chance(2, 3)) {
                s.push_str(&format!(" v {} {}", rng.below(nv as u64), rng.coin() as u8));
                pool += 1;
                continue;
            }
            let r = rng.below(100);
            if edge && r < 15 {
                match rng.below(4) {
                    0 => s.push_str(" t"),
                    1 => s.push_str(" f"),
                    2 => { let a = pick(rng, pool); s.push_str(&format!(" a {a} {a}")) }
                    _ => { let a = pick(rng, pool); s.push_str(&format!(" n {a}")); pool += 1; s.push_str(&format!(" o {} {a}", pool - 1)) }
                }
                pool += 1;
                continue;
            }
            match r {
                0..=7 => s.push_str(&format!(" v {} {}", rng.below(nv as u64), rng.coin() as u8)),
                8..=17 => s.push_str(&format!(" n {}", pick(rng, pool))),
                18..=40 => s.push_str(&format!(" a {} {}", pick(rng, pool), pick(rng, pool))),
                41..=60 => s.push_str(&format!(" o {} {}", pick(rng, pool), pick(rng, pool))),
                61..=70 => s.push_str(&format!(" c {} {} {}", pick(rng, pool), rng.below(nv as u64), rng.coin() as u8)),
                71..=78 => s.push_str(&format!(" q {} {}", pick(rng, pool), rng.below(nv as u64))),
                79..=85 if rich => s.push_str(&format!(" x {} {}", pick(rng, pool), pick(rng, pool))),
                86..=91 if rich => s.push_str(&format!(" e {} {}", pick(rng, pool), pick(rng, pool))),
                92..=99 if rich => s.push_str(&format!(" i {} {} {}", pick(rng, pool), pick(rng, pool), pick(rng, pool))),
                79..=89 => {
                    let k = rng.range(0, 3);
                    s.push_str(&format!(" A {k}"));
                    for _ in 0..k { s.push_str(&format!(" {}", pick(rng, pool))); }
                }
                _ => {
                    let k = rng.range(0, 3);
                    s.push_str(&format!(" O {k}"));
                    for _ in 0..k { s.push_str(&format!(" {}", pick(rng, pool))); }
                }
            }
            pool += 1;
        }
        // target: mostly the pool entry whose function depends on the most variables (oracle-side
        // truth tables; ties -> the latest), otherwise any entry
        let tabs: Vec<TT> = spec_tables(&parse(&s)).iter().map(tt_of_table).collect();
        let best = (0..pool).max_by_key(|i| (deps_of(tabs[*i], nv), *i)).unwrap();
        target = if rng.chance(3, 4) { best } else { rng.below(pool as u64) as usize };
    }
    s.push_str(&format!(" H {target} {} {}", rng.coin() as u8, cnf as u8));
    // order1: reverse of order0; order2: random
    for p in &perm0 {
        s.push_str(&format!(" {}", nv - 1 - p));
    }
    for p in rng.perm(nv) {
        s.push_str(&format!(" {p}"));
    }
    let labels: Vec<u64> = rng.perm(nv).into_iter().map(|x| x as u64).collect();
    s.push_str(&format!(" VT {}", vt_text(&vt_random(rng, &labels))));
    // cached-hash queries: `split` of them are asked when only a prefix of the program has run
    let k = rng.range(1, 6);
    let split = rng.range(0, k);
    let prefix = if cnf { pool } else { (pool / 2).max(1) };
    s.push_str(&format!(" Q {split} {k}"));
    for j in 0..k {
        let lim = if j < split { prefix } else { pool };
        let i = if rng.chance(1, 3) && j >= split { target } else { rng.below(lim as u64) as usize };
        s.push_str(&format!(" {i} {}", rng.coin() as u8));
    }
    s.push_str(" W");
    for w in all_real_weights(nv).iter() {
        for (l, h) in w {
            s.push_str(&format!(" {l} {h}"));
        }
    }
    // a second random vtree for the SDD half of the correspondence (the first is VT)
    let labels2: Vec<u64> = rng.perm(nv).into_iter().map(|x| x as u64).collect();
    s.push_str(&format!(" SV {}", vt_text(&vt_random(rng, &labels2))));
    s
}

// ---------------------------------------------------------------- running the program on SDD builders
fn exec_sdd<'a, B: SddBuilder<'a>>(b: &'a B, prog: &Prog, upto: usize) -> Vec<SddPtr<'a>> {
    let mut pool: Vec<SddPtr<'a>> = vec![];
    let g = |pool: &Vec<SddPtr<'a>>, i: usize| -> SddPtr<'a> { *pool.get(i).unwrap_or(&SddPtr::PtrFalse) };
    for op in prog.ops.iter().take(upto) {
        let r = match op {
            Op::Const(c) => if *c { SddPtr::PtrTrue } else { SddPtr::PtrFalse },
            Op::Var(v, p) => BottomUpBuilder::var(b, VarLabel::new(*v), *p),
            Op::Neg(i) => b.negate(g(&pool, *i)),
            Op::And(i, j) => b.and(g(&pool, *i), g(&pool, *j)),
            Op::Or(i, j) => b.or(g(&pool, *i), g(&pool, *j)),
            Op::Xor(i, j) => b.xor(g(&pool, *i), g(&pool, *j)),
            Op::Iff(i, j) => b.iff(g(&pool, *i), g(&pool, *j)),
            Op::Ite(i, j, k) => b.ite(g(&pool, *i), g(&pool, *j), g(&pool, *k)),
            Op::Cond(i, v, val) => BottomUpBuilder::condition(b, g(&pool, *i), VarLabel::new(*v), *val),
            Op::Exists(i, v) => b.exists(g(&pool, *i), VarLabel::new(*v)),
            Op::AndLst(l) => l.iter().fold(SddPtr::PtrTrue, |acc, i| b.and(acc, g(&pool, *i))),
            Op::OrLst(l) => l.iter().fold(SddPtr::PtrFalse, |acc, i| b.or(acc, g(&pool, *i))),
            _ => panic!("operation not in the C11 case language"),
        };
        pool.push(r);
    }
    pool
}

fn cnf_of(prog: &Prog) -> Cnf {
    let mut clauses = vec![];
    for op in &prog.ops {
        if let Op::OrLst(l) = op {
            let c: Vec<Literal> = l.iter().map(|i| match &prog.ops[*i] { Op::Var(v, p) => Literal::new(VarLabel::new(*v), *p), _ => panic!("clause refers to a non-literal") }).collect();
            clauses.push(c);
        }
    }
    Cnf::new(&clauses)
}

fn order_of(var_to_pos: &[usize]) -> VarOrder {
    let mut p = vec![0usize; var_to_pos.len()];
    for (v, &pos) in var_to_pos.iter().enumerate() {
        p[pos] = v;
    }
    VarOrder::new(&p.iter().map(|v| VarLabel::new(*v as u64)).collect::<Vec<_>>())
}

// ---------------------------------------------------------------- checks generic in the prime
struct Ctx<'c> {
    nv: usize,
    w: &'c [Vec<(u128, u128)>; 3],
    fails: Vec<String>,
}
impl<'c> Ctx<'c> {
    fn pidx(p: u128) -> usize {
        PS.iter().position(|x| *x == p).unwrap()
    }
    /// hash of a pointer of any kind against the defining sum of the table it must denote
    fn check_hash<'a, const P: u128, T: DDNNFPtr<'a>>(&mut self, what: &str, ptr: T, t: TT) -> u128 {
        let map = create_semantic_hash_map::<P>(self.nv);
        let w = &self.w[Self::pidx(P)];
        let h = ptr.semantic_hash(&map).value();
        let want = defining_sum(t & full(self.nv), self.nv, w, P);
        if h != want {
            self.fails.push(format!("{what}: semantic hash {h} in field {P} but the sum over the models of the function is {want}"));
        }
        let hn = ptr.neg().semantic_hash(&map);
        if hn.value() != one_minus(want, P) {
            self.fails.push(format!("{what}: the negation hashes to {} in field {P}, expected 1 - {want} = {}", hn.value(), one_minus(want, P)));
        }
        if ptr.semantic_hash(&map).negate().value() != one_minus(want, P) {
            self.fails.push(format!("{what}: negate({h}) in field {P} is not {}", one_minus(want, P)));
        }
        h
    }
    fn check_all<'a, T: DDNNFPtr<'a>>(&mut self, what: &str, ptr: T, t: TT) -> [u128; 3] {
        [self.check_hash::<P0, T>(what, ptr, t), self.check_hash::<P1, T>(what, ptr, t), self.check_hash::<P2, T>(what, ptr, t)]
    }
}

/// order0, one prime: cached hashes interleaved with building; then the misuse query with prime Pn
fn bdd_cached<const P: u128, const PN: u128>(prog: &Prog, queries: &[(usize, bool)], split: usize, prefix: usize, target: usize, neg: bool, spec: &[TT], cx: &mut Ctx) -> (Vec<u128>, u128) {
    let nv = cx.nv;
    let b = AnyBuilder::new(prog);
    let order = order_of(&prog.var_to_pos);
    let map = create_semantic_hash_map::<P>(nv);
    let mut dummy = Stats::default();
    let mut pre = prog.clone();
    pre.ops.truncate(prefix);
    let pool_pre = exec(&b, &pre, &mut dummy);
    let mut out = vec![];
    let w = &cx.w[Ctx::pidx(P)];
    let ask = |pool: &Vec<BddPtr>, i: usize, ng: bool, cx: &mut Ctx, out: &mut Vec<u128>| {
        let p = if ng { pool[i].neg() } else { pool[i] };
        let h = p.cached_semantic_hash(&order, &map).value();
        let t = if ng { !spec[i] } else { spec[i] } & full(nv);
        let want = defining_sum(t, nv, w, P);
        if h != want {
            cx.fails.push(format!("BDD cached hash of pool entry {i}{} in field {P} is {h} but the sum over the models is {want}", if ng { " (negated)" } else { "" }));
        }
        let re = p.semantic_hash(&map).value();
        if re != h {
            cx.fails.push(format!("BDD pool entry {i}: cached hash {h} differs from the recomputed hash {re} in field {P}"));
        }
        out.push(h);
    };
    for (i, ng) in &queries[..split] {
        ask(&pool_pre, *i, *ng, cx, &mut out);
    }
    let pool = exec(&b, prog, &mut dummy);
    for (i, ng) in &queries[split..] {
        ask(&pool, *i, *ng, cx, &mut out);
    }
    // outside the property ("for a fixed field and weight map"): the same node caches asked with
    // another prime; compared with the model only
    let mapn = create_semantic_hash_map::<PN>(nv);
    let p = if neg { pool[target].neg() } else { pool[target] };
    let mis = p.cached_semantic_hash(&order, &mapn).value();
    (out, mis)
}

/// one CompressionSddBuilder under one vtree, cached hashes in one prime
fn sdd_rep<const P: u128>(name: &str, vt: VTree, prog: &Prog, prefix: usize, target: usize, neg: bool, is_cnf: bool, spec: &[TT], cx: &mut Ctx, st: &mut Stats) {
    let nv = cx.nv;
    let b = CompressionSddBuilder::new(vt);
    let map = create_semantic_hash_map::<P>(nv);
    let w = cx.w[Ctx::pidx(P)].clone();
    let pre = exec_sdd(&b, prog, prefix);
    // cached hashes of the prefix, before the rest of the program runs
    for (i, p) in pre.iter().enumerate() {
        let h = p.cached_semantic_hash(b.vtree_manager(), &map).value();
        let want = defining_sum(spec[i] & full(nv), nv, &w, P);
        if h != want {
            cx.fails.push(format!("SDD[{name}] cached hash of pool entry {i} (prefix) in field {P} is {h} but the sum over the models is {want}"));
        }
    }
    let pool = exec_sdd(&b, prog, prog.ops.len());
    if target % 2 == 1 {
        let _ = b.stats();
    }
    let mut memo = HashMap::new();
    for (i, p) in pool.iter().enumerate() {
        for q in [*p, p.neg()] {
            let t = tt_sdd(q, &mut memo) & full(nv);
            let sp = if q == *p { spec[i] } else { !spec[i] } & full(nv);
            if t != sp {
                cx.fails.push(format!("SDD[{name}] pool entry {i} denotes table {t:x}, the program says {sp:x}"));
            }
            let h = q.cached_semantic_hash(b.vtree_manager(), &map).value();
            let re = q.semantic_hash(&map).value();
            let want = defining_sum(sp, nv, &w, P);
            if h != re {
                cx.fails.push(format!("SDD[{name}] pool entry {i}: cached hash {h} differs from the recomputed hash {re} in field {P}"));
            }
            if h != want {
                cx.fails.push(format!("SDD[{name}] cached hash of pool entry {i} in field {P} is {h} but the sum over the models is {want}"));
            }
        }
    }
    let p = if neg { pool[target].neg() } else { pool[target] };
    let t = if neg { !spec[target] } else { spec[target] };
    cx.check_all(&format!("SDD[{name}] target"), p, t);
    match p {
        SddPtr::BDD(_) | SddPtr::ComplBDD(_) => st.bump("sdd_target_binary_node"),
        SddPtr::Reg(_) | SddPtr::Compl(_) => st.bump("sdd_target_general_node"),
        _ => st.bump("sdd_target_terminal_or_literal"),
    }
    if is_cnf {
        let c = b.compile_cnf(&cnf_of(prog));
        let tc = tt_sdd(c, &mut memo) & full(nv);
        if tc != spec[target] & full(nv) {
            cx.fails.push(format!("SDD[{name}] compile_cnf denotes table {tc:x}, the CNF says {:x}", spec[target] & full(nv)));
        }
        cx.check_all(&format!("SDD[{name}] compile_cnf"), c, spec[target]);
    }
}

/// SDD half of the correspondence: one CompressionSddBuilder under one explicit vtree, one prime.
/// Returns (hash of the target, hash of its negation, cached answers to the queries, cached hash
/// of every pool entry); every value is also checked against the defining sum of the spec table.
#[allow(clippy::too_many_arguments)]
fn sdd_corr<const P: u128>(name: &str, vt: &VT, prog: &Prog, queries: &[(usize, bool)], split: usize, prefix: usize, target: usize, neg: bool, spec: &[TT], cx: &mut Ctx, st: &mut Stats) -> (u128, u128, Vec<u128>, Vec<u128>) {
    let nv = cx.nv;
    let b = CompressionSddBuilder::new(vt_rsdd(vt));
    let map = create_semantic_hash_map::<P>(nv);
    let w = cx.w[Ctx::pidx(P)].clone();
    let mut memo = HashMap::new();
    let mut sc = vec![];
    let pre = exec_sdd(&b, prog, prefix);
    let mut asked: Vec<(SddPtr, TT, String)> = vec![];
    for (i, ng) in &queries[..split] {
        let q = if *ng { pre[*i].neg() } else { pre[*i] };
        asked.push((q, if *ng { !spec[*i] } else { spec[*i] } & full(nv), format!("query on prefix pool entry {i}{}", if *ng { " (negated)" } else { "" })));
    }
    let check = |q: SddPtr, t: TT, what: &str, cx: &mut Ctx, memo: &mut HashMap<(u8, usize), TT>| -> u128 {
        let tq = tt_sdd(q, memo) & full(nv);
        if tq != t {
            cx.fails.push(format!("SDD-corr[{name}] {what} denotes table {tq:x}, the program says {t:x}"));
        }
        let h = q.cached_semantic_hash(b.vtree_manager(), &map).value();
        let want = defining_sum(t, nv, &w, P);
        if h != want {
            cx.fails.push(format!("SDD-corr[{name}] {what}: cached hash {h} in field {P} but the sum over the models is {want}"));
        }
        let re = q.semantic_hash(&map).value();
        if re != want {
            cx.fails.push(format!("SDD-corr[{name}] {what}: semantic_hash {re} in field {P} but the sum over the models is {want}"));
        }
        h
    };
    for (q, t, what) in &asked {
        sc.push(check(*q, *t, what, cx, &mut memo));
    }
    let pool = exec_sdd(&b, prog, prog.ops.len());
    for (i, ng) in &queries[split..] {
        let q = if *ng { pool[*i].neg() } else { pool[*i] };
        let t = if *ng { !spec[*i] } else { spec[*i] } & full(nv);
        sc.push(check(q, t, &format!("query on pool entry {i}{}", if *ng { " (negated)" } else { "" }), cx, &mut memo));
    }
    let tp = if neg { pool[target].neg() } else { pool[target] };
    let tt = if neg { !spec[target] } else { spec[target] } & full(nv);
    let want = defining_sum(tt, nv, &w, P);
    let sh = tp.semantic_hash(&map).value();
    if sh != want {
        cx.fails.push(format!("SDD-corr[{name}] target: semantic_hash {sh} in field {P} but the sum over the models is {want}"));
    }
    let sn = tp.neg().semantic_hash(&map).value();
    if sn != one_minus(want, P) {
        cx.fails.push(format!("SDD-corr[{name}] target: the negation hashes to {sn} in field {P}, expected 1 - {want} = {}", one_minus(want, P)));
    }
    let mut sp = vec![];
    for (i, q) in pool.iter().enumerate() {
        sp.push(check(*q, spec[i] & full(nv), &format!("pool entry {i}"), cx, &mut memo));
    }
    if P == P2 {
        match tp {
            SddPtr::BDD(_) => st.bump("sddcorr_target_binary_node_regular"),
            SddPtr::ComplBDD(_) => st.bump("sddcorr_target_binary_node_complemented"),
            SddPtr::Reg(_) => st.bump("sddcorr_target_general_node_regular"),
            SddPtr::Compl(_) => st.bump("sddcorr_target_general_node_complemented"),
            _ => st.bump("sddcorr_target_terminal_or_literal"),
        }
    }
    (sh, sn, sc, sp)
}

pub fn run(case: &str, st: &mut Stats) -> Outcome {
    let prog = parse(case);
    let nv = prog.nvars;
    let tail = &prog.rest;
    assert!(tail[0] == "H");
    let target: usize = tail[1].parse().unwrap();
    let neg = tail[2] != "0";
    let is_cnf = tail[3] != "0";
    let mut i = 4;
    let o1: Vec<usize> = (0..nv).map(|k| tail[i + k].parse().unwrap()).collect();
    i += nv;
    let o2: Vec<usize> = (0..nv).map(|k| tail[i + k].parse().unwrap()).collect();
    i += nv;
    assert!(tail[i] == "VT");
    i += 1;
    let vt = vt_parse(tail, &mut i);
    assert!(tail[i] == "Q");
    let split: usize = tail[i + 1].parse().unwrap();
    let k: usize = tail[i + 2].parse().unwrap();
    i += 3;
    let queries: Vec<(usize, bool)> = (0..k).map(|j| (tail[i + 2 * j].parse().unwrap(), tail[i + 2 * j + 1] != "0")).collect();
    i += 2 * k;
    assert!(tail[i] == "W");
    i += 1;
    let mut cw: [Vec<(u128, u128)>; 3] = [vec![], vec![], vec![]];
    for w in cw.iter_mut() {
        for _ in 0..nv {
            w.push((tail[i].parse().unwrap(), tail[i + 1].parse().unwrap()));
            i += 2;
        }
    }
    let sv: Option<VT> = if i < tail.len() && tail[i] == "SV" {
        i += 1;
        Some(vt_parse(tail, &mut i))
    } else {
        None
    };
    let mut fails = vec![];
    let real = all_real_weights(nv);
    if real != cw {
        fails.push("the weights in the case are not the ones create_semantic_hash_map produces now".to_string());
    }
    // what the source promises about the weights (independent check)
    for (pi, p) in PS.iter().enumerate() {
        for (v, (l, h)) in real[pi].iter().enumerate() {
            if !(*h >= 2 && *h < *p && *l == (*p - *h + 1) % *p && addmod(*l % *p, *h % *p, *p) == 1) {
                fails.push(format!("weights of variable {v} in field {p}: low {l}, high {h} are not 2 <= high < P, low = P - high + 1"));
            }
        }
    }
    let spec: Vec<TT> = spec_tables(&prog).iter().map(tt_of_table).collect();
    let tgt_t = if neg { !spec[target] } else { spec[target] } & full(nv);
    let prefix = if is_cnf { prog.ops.len() } else { (prog.ops.len() / 2).max(1) };
    let mut cx = Ctx { nv, w: &real, fails };
    rsdd::verif::TABLE_CAPACITY.with(|c| c.set(Some(64)));
    let mut prog = prog;
    prog.tblcap = 64;
    let mut line = String::from("w=ok h=");

    // ---- BDDs under three orders
    let mut hs: Vec<[u128; 3]> = vec![];
    for (oi, ord) in [prog.var_to_pos.clone(), o1.clone(), o2.clone()].iter().enumerate() {
        let mut pr = prog.clone();
        pr.var_to_pos = ord.clone();
        let b = AnyBuilder::new(&pr);
        let mut dummy = Stats::default();
        let pool = exec(&b, &pr, if oi == 0 { st } else { &mut dummy });
        let p = if neg { pool[target].neg() } else { pool[target] };
        let t = tt_bdd(p, nv);
        if t != tgt_t {
            cx.fails.push(format!("BDD[order{oi}] target denotes table {t:x}, the program says {tgt_t:x}"));
        }
        hs.push(cx.check_all(&format!("BDD[order{oi}]"), p, tgt_t));
        if is_cnf {
            let c = b.compile_cnf(&cnf_of(&pr));
            if tt_bdd(c, nv) != spec[target] & full(nv) {
                cx.fails.push(format!("BDD[order{oi}] compile_cnf denotes a different function than the CNF"));
            }
            cx.check_all(&format!("BDD[order{oi}] compile_cnf"), c, spec[target]);
        }
        if oi == 0 {
            match p {
                BddPtr::Compl(_) => st.bump("bdd_target_complemented"),
                BddPtr::Reg(_) => st.bump("bdd_target_regular"),
                _ => st.bump("bdd_target_constant"),
            }
        }
    }
    for pi in 0..3 {
        line.push_str(&format!("{}{},{},{}", if pi > 0 { ";" } else { "" }, hs[0][pi], hs[1][pi], hs[2][pi]));
    }
    // ---- negation (order0), as printed by the implementation
    {
        let b = AnyBuilder::new(&prog);
        let mut dummy = Stats::default();
        let pool = exec(&b, &prog, &mut dummy);
        let p = if neg { pool[target] } else { pool[target].neg() };
        let n0 = p.semantic_hash(&create_semantic_hash_map::<P0>(nv)).value();
        let n1 = p.semantic_hash(&create_semantic_hash_map::<P1>(nv)).value();
        let n2 = p.semantic_hash(&create_semantic_hash_map::<P2>(nv)).value();
        line.push_str(&format!(" n={n0};{n1};{n2}"));
    }
    // ---- cached hashes, one builder per prime
    let (c0, m0) = bdd_cached::<P0, P1>(&prog, &queries, split, prefix, target, neg, &spec, &mut cx);
    let (c1, m1) = bdd_cached::<P1, P2>(&prog, &queries, split, prefix, target, neg, &spec, &mut cx);
    let (c2, m2) = bdd_cached::<P2, P0>(&prog, &queries, split, prefix, target, neg, &spec, &mut cx);
    let j = |v: &Vec<u128>| v.iter().map(|x| x.to_string()).collect::<Vec<_>>().join(",");
    line.push_str(&format!(" c={};{};{} mis={m0};{m1};{m2}", j(&c0), j(&c1), j(&c2)));
    // stale answers really occur (so the model's account of the untyped cache is exercised)
    if m0 != defining_sum(tgt_t, nv, &real[1], P1) || m1 != defining_sum(tgt_t, nv, &real[2], P2) || m2 != defining_sum(tgt_t, nv, &real[0], P0) {
        st.bump("misuse_stale_answer_observed");
    }

    // ---- SDDs under four vtrees
    let lin: Vec<VarLabel> = prog.pos_to_var().iter().map(|v| VarLabel::new(*v as u64)).collect();
    sdd_rep::<P0>("right-linear", VTree::right_linear(&lin), &prog, prefix, target, neg, is_cnf, &spec, &mut cx, st);
    sdd_rep::<P1>("left-linear", VTree::left_linear(&lin), &prog, prefix, target, neg, is_cnf, &spec, &mut cx, st);
    sdd_rep::<P2>("even-split", VTree::even_split(&lin, if nv >= 4 { 2 } else if nv >= 2 { 1 } else { 0 }), &prog, prefix, target, neg, is_cnf, &spec, &mut cx, st);
    sdd_rep::<P2>("random", vt_rsdd(&vt), &prog, prefix, target, neg, is_cnf, &spec, &mut cx, st);

    // ---- top-down (decision-DNNF) under two orders
    if is_cnf {
        let cnf = cnf_of(&prog);
        for (oi, ord) in [prog.var_to_pos.clone(), o1.clone()].iter().enumerate() {
            let b = StandardDecisionNNFBuilder::new(order_of(ord));
            let r = b.compile_cnf_topdown(&cnf);
            // statistics queries are observers: asking for them (here, under one order, before any
            // hash is cached) must not change what the hash queries answer afterwards
            if oi == target % 2 {
                let _ = b.num_logically_redundant();
                st.bump("topdown_stats_query_before_hashes");
            }
            let t = tt_bdd(r, nv);
            if t != spec[target] & full(nv) {
                cx.fails.push(format!("top-down[order{oi}] denotes table {t:x}, the CNF says {:x}", spec[target] & full(nv)));
            }
            cx.check_all(&format!("top-down[order{oi}]"), r, spec[target]);
            // the per-node cache of a top-down result, one field and one map throughout
            {
                let map = create_semantic_hash_map::<P2>(nv);
                let ord_rs = order_of(ord);
                let want = defining_sum(spec[target] & full(nv), nv, &cx.w[Ctx::pidx(P2)].clone(), P2);
                for q in [r, r.neg()] {
                    let h = q.cached_semantic_hash(&ord_rs, &map).value();
                    let w = if q == r { want } else { one_minus(want, P2) };
                    if h != w {
                        cx.fails.push(format!("top-down[order{oi}]: cached hash {h} in field {P2} but the sum over the models is {w}"));
                    }
                }
            }
            st.bump("topdown_compilations");
        }
    }

    // ---- exploration half: hash-identified builders over U64_LARGEST
    let mut sem = String::from("-");
    let mut semn = String::from("-");
    if semantic_safe(&prog) {
        st.bump("semantic_sdd_runs");
        let b = SemanticSddBuilder::<P2>::new(vt_rsdd(&vt));
        let pool = exec_sdd(&b, &prog, prog.ops.len());
        // number of stored nodes / number of get_or_insert requests, compared with the Coq model of the
        // builder; taken before the observers below for even targets and after them for odd ones
        let stats_of = |b: &SemanticSddBuilder<P2>| { let s = b.stats(); format!("{}/{}", s.app_cache_size, s.num_get_or_insert_bdd + s.num_get_or_insert_sdd) };
        if target % 2 == 0 {
            semn = stats_of(&b);
        }
        let mut memo = HashMap::new();
        let tts: Vec<TT> = pool.iter().map(|p| tt_sdd(*p, &mut memo) & full(nv)).collect();
        let mut hv = vec![];
        for (i, p) in pool.iter().enumerate() {
            if tts[i] != spec[i] & full(nv) {
                cx.fails.push(format!("SemanticSddBuilder pool entry {i} denotes table {:x}, the program says {:x}", tts[i], spec[i] & full(nv)));
            }
            let h = b.cached_semantic_hash(*p).value();
            let want = defining_sum(spec[i] & full(nv), nv, &real[2], P2);
            if h != want {
                cx.fails.push(format!("SemanticSddBuilder pool entry {i}: cached hash {h} but the sum over the models of the program's function is {want}"));
            }
            hv.push(h.to_string());
        }
        sem = hv.join(",");
        let m = pool.len().min(14);
        for a in 0..m {
            for c in 0..m {
                let e = b.eq(pool[a], pool[c]);
                let same = spec[a] & full(nv) == spec[c] & full(nv);
                if same && !e {
                    cx.fails.push(format!("SemanticSddBuilder::eq judges pool entries {a} and {c} different although they denote the same function"));
                }
                if !same && e {
                    cx.fails.push(format!("SemanticSddBuilder::eq identifies pool entries {a} and {c}, which denote different functions (hash collision)"));
                }
                if same && a != c { st.bump("semantic_eq_pairs_equal"); } else if !same { st.bump("semantic_eq_pairs_different"); }
            }
        }
        if target % 2 != 0 {
            semn = stats_of(&b);
        }
        if is_cnf {
            let c = b.compile_cnf(&cnf_of(&prog));
            let tc = tt_sdd(c, &mut memo) & full(nv);
            if tc != spec[target] & full(nv) {
                cx.fails.push(format!("SemanticSddBuilder::compile_cnf denotes table {tc:x}, the CNF says {:x}", spec[target] & full(nv)));
            }
            if !b.eq(c, pool[target]) {
                cx.fails.push("SemanticSddBuilder: compile_cnf and the clause-by-clause program are judged different".to_string());
            }
        }
    } else {
        st.bump("semantic_sdd_skipped_unsupported_ops");
    }
    if is_cnf {
        let cnf = cnf_of(&prog);
        for (oi, ord) in [prog.var_to_pos.clone(), o2.clone()].iter().enumerate() {
            let b = SemanticDecisionNNFBuilder::<P2>::new(order_of(ord));
            let r = b.compile_cnf_topdown(&cnf);
            if oi != target % 2 {
                let _ = b.num_logically_redundant();
            }
            let t = tt_bdd(r, nv);
            if t != spec[target] & full(nv) {
                cx.fails.push(format!("SemanticDecisionNNFBuilder[order{oi}] denotes table {t:x}, the CNF says {:x}", spec[target] & full(nv)));
            }
            let h = r.semantic_hash(&create_semantic_hash_map::<P2>(nv)).value();
            let want = defining_sum(spec[target] & full(nv), nv, &real[2], P2);
            if h != want {
                cx.fails.push(format!("SemanticDecisionNNFBuilder[order{oi}]: hash {h} but the sum over the models of the CNF is {want}"));
            }
            // conditioning of the result and of its negation
            for v in 0..nv {
                for val in [false, true] {
                    for ng in [false, true] {
                        let arg = if ng { r.neg() } else { r };
                        let c = TopDownBuilder::condition(&b, arg, VarLabel::new(v as u64), val);
                        let tc = tt_bdd(c, nv);
                        let base = if ng { !spec[target] } else { spec[target] } & full(nv);
                        let m = var_mask(v);
                        let sh = 1usize << v;
                        let want = if val { let hi = base & m; hi | (hi >> sh) } else { let lo = base & !m; lo | (lo << sh) } & full(nv);
                        if tc != want {
                            cx.fails.push(format!("SemanticDecisionNNFBuilder[order{oi}]: condition({}result, x{v}={val}) denotes table {tc:x}, expected {want:x}", if ng { "not " } else { "" }));
                        }
                    }
                }
            }
            st.bump("semantic_topdown_compilations");
        }
    }
    line.push_str(&format!(" sem={sem} semn={semn}"));

    // ---- SDD half of the correspondence: the case's explicit vtrees, one builder per prime
    {
        let mut vts: Vec<(&str, &VT)> = vec![("VT", &vt)];
        if let Some(v2) = &sv {
            vts.push(("SV", v2));
        }
        let (mut sh, mut sn, mut sc, mut sp) = (vec![], vec![], vec![], vec![]);
        let j = |v: &Vec<u128>| v.iter().map(|x| x.to_string()).collect::<Vec<_>>().join(",");
        for (name, v) in vts {
            let r0 = sdd_corr::<P0>(name, v, &prog, &queries, split, prefix, target, neg, &spec, &mut cx, st);
            let r1 = sdd_corr::<P1>(name, v, &prog, &queries, split, prefix, target, neg, &spec, &mut cx, st);
            let r2 = sdd_corr::<P2>(name, v, &prog, &queries, split, prefix, target, neg, &spec, &mut cx, st);
            sh.push(format!("{},{},{}", r0.0, r1.0, r2.0));
            sn.push(format!("{},{},{}", r0.1, r1.1, r2.1));
            sc.push(format!("{};{};{}", j(&r0.2), j(&r1.2), j(&r2.2)));
            sp.push(j(&r2.3));
            st.bump("sddcorr_vtrees");
        }
        line.push_str(&format!(" sh={} sn={} sc={} sp={}", sh.join("|"), sn.join("|"), sc.join("|"), sp.join("|")));
    }
    rsdd::verif::TABLE_CAPACITY.with(|c| c.set(None));

    st.bump(if is_cnf { "kind_cnf" } else { "kind_program" });
    st.bump(&format!("nvars={nv}"));
    let deps = deps_of(tgt_t, nv);
    st.bump(&format!("target_depends_on={deps}"));
    let nontrivial = deps >= 2;
    Outcome { result: line, fails: cx.fails, nontrivial }
}
