//! C07S (SDD half of C07, SDD scratch half of C10): the queries of `impl DDNNFPtr for SddPtr` that go
//! through the per-node scratch slot -- unsmoothed_wmc in two finite fields, evaluate, count_nodes --
//! on the results of random SDD programs under random vtrees, compression on and off.
//! case:  <compress 0|1> <vtree> ; <ops> W <k> (<code_v>)*7 A <m> ((<bit_v>)*7)*m
//!   vtree ::= L <var> | N <vtree> <vtree>
//!   ops   ::= t | f | v <var> <pol> | n <i> | a <i> <j> | o <i> <j> | x <i> <j> | q <i> <j>
//!           | i <i> <j> <k> | c <i> <var> <0|1> | e <i> <var> | m <i> <var> <j>      (i,j,k: pool indices)
//!   k = number of targets (the last k pool entries, each also negated); code_v selects the
//!   normalised finite-field weight of variable v (hi from boundary residues or a pseudo-random
//!   residue, lo = 1 - hi); m assignments for Boolean evaluation.
//! out:   per target and polarity, in query order:  <idx><+|->:L=<count mod U64_LARGEST>,S=<count mod
//!        U32_SMALL>,ev=<bits>,cn=<count_nodes>   then  clr=<1 iff every reachable scratch slot was
//!        empty after every query>
//! oracle (independent of the model and of fold): truth table of the queried pointer by walking the
//!   nodes (elements, complement bits); brute-force sum over all 2^7 assignments with own modular
//!   arithmetic; truth-table lookup for evaluate; count_nodes = 2 per distinct BinarySDD + number of
//!   elements per distinct SddOr (address sets); is_scratch_cleared on every node reachable from the
//!   whole pool after every query; every query is repeated after the others (interleaved with
//!   queries on pointers sharing nodes) and must give the same answer.
use rsdd::builder::sdd::{CompressionSddBuilder, SddBuilder};
use rsdd::builder::BottomUpBuilder;
use rsdd::constants::primes;
use rsdd::repr::{DDNNFPtr, SddPtr, VTree, VarLabel, WmcParams};
use rsdd::util::semirings::FiniteField;
use rsdd_verif_harness::*;
use std::collections::{HashMap, HashSet};

pub const PROP: Prop = Prop { gen, run, panic_ok: never };

fn main() {
    run_main(PROP)
}

const NV: usize = 7; // truth tables / weights / assignments range over variables 0..6
type TT = u128;
const PL: u128 = primes::U64_LARGEST;
const PS: u128 = primes::U32_SMALL;

fn var_mask(v: usize) -> TT {
    let mut m: TT = 0;
    for row in 0..(1usize << NV) {
        if (row >> v) & 1 == 1 {
            m |= 1u128 << row;
        }
    }
    m
}

// ---------- vtrees ----------
#[derive(Clone, Debug)]
enum VT {
    L(u64),
    N(Box<VT>, Box<VT>),
}
fn vt_text(t: &VT) -> String {
    match t {
        VT::L(v) => format!("L {v}"),
        VT::N(l, r) => format!("N {} {}", vt_text(l), vt_text(r)),
    }
}
fn vt_parse(t: &[&str], i: &mut usize) -> VT {
    match t[*i] {
        "L" => {
            let v = t[*i + 1].parse().unwrap();
            *i += 2;
            VT::L(v)
        }
        "N" => {
            *i += 1;
            let l = vt_parse(t, i);
            let r = vt_parse(t, i);
            VT::N(Box::new(l), Box::new(r))
        }
        _ => panic!("bad vtree"),
    }
}
fn vt_rsdd(t: &VT) -> VTree {
    match t {
        VT::L(v) => VTree::new_leaf(VarLabel::new(*v)),
        VT::N(l, r) => VTree::new_node(Box::new(vt_rsdd(l)), Box::new(vt_rsdd(r))),
    }
}
fn vt_random(rng: &mut Rng, labels: &[u64]) -> VT {
    if labels.len() == 1 {
        return VT::L(labels[0]);
    }
    let k = rng.range(1, labels.len() - 1);
    VT::N(Box::new(vt_random(rng, &labels[..k])), Box::new(vt_random(rng, &labels[k..])))
}
fn vt_right(labels: &[u64]) -> VT {
    if labels.len() == 1 {
        VT::L(labels[0])
    } else {
        VT::N(Box::new(VT::L(labels[0])), Box::new(vt_right(&labels[1..])))
    }
}
fn vt_left(labels: &[u64]) -> VT {
    if labels.len() == 1 {
        VT::L(labels[0])
    } else {
        let n = labels.len();
        VT::N(Box::new(vt_left(&labels[..n - 1])), Box::new(VT::L(labels[n - 1])))
    }
}
fn vt_balanced(labels: &[u64]) -> VT {
    if labels.len() == 1 {
        VT::L(labels[0])
    } else {
        let k = labels.len() / 2;
        VT::N(Box::new(vt_balanced(&labels[..k])), Box::new(vt_balanced(&labels[k..])))
    }
}

// ---------- generator ----------
/// The generator runs the program it writes on a builder of its own, so that it can steer: an
/// operation whose result is a constant or a literal is mostly re-drawn, one whose unfolding is too
/// large for the model's exponential walk is always re-drawn.  The case text alone determines the
/// case; nothing of the generator's builder reaches `run`.
pub fn gen(rng: &mut Rng, idx: usize, n: usize, thorough: bool) -> String {
    let frac = (idx * 100) / n.max(1);
    let compress = rng.chance(3, 5);
    let maxleaves = if frac < 8 { 3 } else if frac < 25 { 4 } else if frac < 50 { 5 } else if frac < 75 { 6 } else { 7 };
    let nleaves = rng.range(if frac < 4 { 1 } else if frac < 25 { 2 } else if frac < 50 { 3 } else { 4 }, maxleaves);
    let mut labels: Vec<u64> = rng.perm(NV).into_iter().map(|x| x as u64).collect();
    if rng.coin() {
        labels = (0..NV as u64).collect();
        rng.shuffle(&mut labels[..nleaves.max(1)]);
    }
    labels.truncate(nleaves);
    let mut vt = match rng.below(8) {
        0 => vt_right(&labels),
        1 | 2 => vt_left(&labels),
        3 | 4 => vt_balanced(&labels),
        _ => vt_random(rng, &labels),
    };
    // mixed-shape family: a binary decision (vtree node with a leaf on the left) above a general
    // node (its right child is not right-linear), inside the prime side of the root, with random
    // truth tables over the inner variables: ((a ((b c) d)) rest) and relatives.  Such diagrams
    // fold one BinarySDD in both polarities above an SddOr with three or more elements.
    let mixed = nleaves >= 5 && rng.chance(1, 3);
    let mut inner: Vec<u64> = vec![];
    if mixed {
        let a = labels[0];
        let k = if nleaves >= 6 && rng.coin() { 4 } else { 3 };
        inner = labels[1..1 + k].to_vec();
        let m = if k == 3 {
            if rng.chance(2, 3) {
                VT::N(Box::new(VT::N(Box::new(VT::L(inner[0])), Box::new(VT::L(inner[1])))), Box::new(VT::L(inner[2])))
            } else {
                vt_random(rng, &inner)
            }
        } else if rng.coin() {
            vt_balanced(&inner)
        } else {
            vt_left(&inner)
        };
        let left = VT::N(Box::new(VT::L(a)), Box::new(m));
        let rest = &labels[1 + k..];
        let r = if rest.len() == 1 { VT::L(rest[0]) } else { vt_random(rng, rest) };
        vt = if rng.chance(3, 4) { VT::N(Box::new(left), Box::new(r)) } else { VT::N(Box::new(r), Box::new(left)) };
    }
    let maxops = if thorough { 34 } else { 24 };
    let mut nops = 3 + (frac * maxops) / 100 + rng.range(0, 4);
    if !compress {
        // uncompressed applies can blow up (time, not only size): keep those programs shorter
        nops = nops.min(if thorough { 18 } else { 15 });
    }
    let size_limit: u64 = if thorough { 6000 } else { 2500 };
    let mut builder = CompressionSddBuilder::new(vt_rsdd(&vt));
    if !compress {
        builder.set_compression(false);
    }
    let builder = &builder;
    let mut pool: Vec<SddPtr> = vec![];
    let mut sizes: HashMap<usize, u64> = HashMap::new();
    let mut s = format!("{} {} ;", compress as u8, vt_text(&vt));
    let lit = |rng: &mut Rng| format!("v {} {}", rng.pick(&labels), rng.coin() as u8);
    for _ in 0..rng.range(1, nleaves + 1) {
        let op = lit(rng);
        let (r, _) = exec_op(builder, &pool, &toks(&op));
        pool.push(r);
        s.push(' ');
        s.push_str(&op);
    }
    if mixed {
        // literals of all variables, random truth tables G1, G2 over the inner variables (Shannon
        // expansion with ite), B = a op G, f = B <=> e / B xor e / ite(B, e, G2)
        let base = pool.len();
        macro_rules! emit {
            ($op:expr, $pool:expr, $s:expr) => {{
                let op: String = $op;
                let (r, _) = exec_op(builder, &pool, &toks(&op));
                pool.push(r);
                s.push(' ');
                s.push_str(&op);
                pool.len() - 1
            }};
        }
        for l in &labels {
            emit!(format!("v {l} 1"), pool, s);
        }
        let lit_of = |l: u64| base + labels.iter().position(|x| *x == l).unwrap();
        let last = lit_of(*inner.last().unwrap());
        let nlast = emit!(format!("n {last}"), pool, s);
        let tt = emit!("t".to_string(), pool, s);
        let ff = emit!("f".to_string(), pool, s);
        let mut gs = vec![];
        for _ in 0..2 {
            let depth = inner.len() - 1;
            let mut layer: Vec<usize> = (0..(1usize << depth)).map(|_| *rng.pick(&[last, nlast, tt, ff, last, nlast])).collect();
            for d in (0..depth).rev() {
                let x = lit_of(inner[d]);
                let mut next = vec![];
                for pair in layer.chunks(2) {
                    next.push(emit!(format!("i {x} {} {}", pair[0], pair[1]), pool, s));
                }
                layer = next;
            }
            gs.push(layer[0]);
        }
        let a = lit_of(labels[0]);
        let bnode = match rng.below(3) {
            0 => emit!(format!("a {a} {}", gs[0]), pool, s),
            1 => emit!(format!("o {a} {}", gs[0]), pool, s),
            _ => emit!(format!("i {a} {} {}", gs[0], gs[1]), pool, s),
        };
        let e = lit_of(*labels.last().unwrap());
        match rng.below(3) {
            0 => emit!(format!("q {bnode} {e}"), pool, s),
            1 => emit!(format!("x {bnode} {e}"), pool, s),
            _ => emit!(format!("i {bnode} {e} {}", gs[1]), pool, s),
        };
    }
    // edge stream: a few cases whose targets are constants / literals only
    let tiny = rng.chance(1, 30) && !mixed;
    let nops = if mixed { pool.len() + rng.range(0, 3) } else { nops };
    while pool.len() < nops && !tiny {
        let len = pool.len();
        let mut chosen: Option<(String, SddPtr)> = None;
        for attempt in 0..8 {
            let mut i = rng.below(len as u64) as usize;
            if rng.coin() {
                i = len - 1 - rng.below(len.min(4) as u64) as usize;
            }
            let mut j = rng.below(len as u64) as usize;
            if rng.chance(1, 12) {
                j = i;
            }
            if rng.chance(1, 3) {
                j = len - 1;
            }
            let k = rng.below(len as u64) as usize;
            let v = *rng.pick(&labels);
            let op = match rng.below(100) {
                0..=9 => lit(rng),
                10..=11 => (if rng.coin() { "t" } else { "f" }).to_string(),
                12..=16 => format!("n {i}"),
                17..=38 => format!("a {i} {j}"),
                39..=56 => format!("o {i} {j}"),
                57..=67 => format!("x {i} {j}"),
                68..=76 => format!("q {i} {j}"),
                77..=88 => format!("i {i} {j} {k}"),
                89..=92 => format!("c {i} {v} {}", rng.coin() as u8),
                93..=95 => format!("e {i} {v}"),
                _ => format!("m {i} {v} {j}"),
            };
            let (r, _) = exec_op(builder, &pool, &toks(&op));
            if unfold_size(r, &mut sizes) > size_limit {
                continue;
            }
            let dull = matches!(r, SddPtr::PtrTrue | SddPtr::PtrFalse | SddPtr::Var(..)) && !op.starts_with('v');
            let repeat = pool.iter().any(|q| *q == r || *q == r.neg()) && !op.starts_with('v');
            if (dull || repeat) && attempt < 7 && !rng.chance(1, 6) {
                continue;
            }
            chosen = Some((op, r));
            break;
        }
        let (op, r) = chosen.unwrap_or_else(|| {
            let op = lit(rng);
            let (r, _) = exec_op(builder, &pool, &toks(&op));
            (op, r)
        });
        pool.push(r);
        s.push(' ');
        s.push_str(&op);
    }
    if tiny && rng.coin() {
        s.push_str(if rng.coin() { " t" } else { " f" });
        pool.push(SddPtr::PtrTrue);
    }
    let k = rng.range(1, 3).min(pool.len());
    s.push_str(&format!(" W {k}"));
    // weights: boundary residues (codes 0..6) are frequent
    for _ in 0..NV {
        let c = if rng.chance(1, 3) { rng.below(7) } else { rng.below(24) };
        s.push_str(&format!(" {c}"));
    }
    let m = rng.range(1, 3);
    s.push_str(&format!(" A {m}"));
    for _ in 0..m * NV {
        s.push_str(&format!(" {}", rng.coin() as u8));
    }
    s
}

// ---------- independent modular arithmetic (no FiniteField): double-and-add, valid for p < 2^127 ----------
fn addmod(a: u128, b: u128, p: u128) -> u128 {
    let s = a + b;
    if s >= p { s - p } else { s }
}
fn mulmod(mut a: u128, mut b: u128, p: u128) -> u128 {
    let mut acc = 0u128;
    a %= p;
    while b > 0 {
        if b & 1 == 1 {
            acc = addmod(acc, a, p);
        }
        a = addmod(a, a, p);
        b >>= 1;
    }
    acc
}
/// the normalised weight selected by a code: hi residue; lo = 1 - hi (mod p)
fn hi_of_code(code: u64, p: u128) -> u128 {
    match code {
        0 => 0,
        1 => 1,
        2 => 2 % p,
        3 => p - 1,
        4 => p - 2,
        5 => (p - 1) / 2,
        6 => (p + 1) / 2,
        c => mulmod(c as u128, 0x9E37_79B9_7F4A_7C15_F39C_C060_5CED_C835u128 % p, p),
    }
}
fn ff_count<const P: u128>(p: SddPtr, codes: &[u64]) -> u128 {
    let params: WmcParams<FiniteField<P>> = WmcParams::new(HashMap::from_iter(codes.iter().enumerate().map(|(v, c)| {
        let hi = hi_of_code(*c, P);
        let lo = (P + 1 - hi) % P;
        (VarLabel::new(v as u64), (FiniteField::new(lo), FiniteField::new(hi)))
    })));
    p.unsmoothed_wmc(&params).value()
}
fn brute(tt: TT, codes: &[u64], p: u128) -> u128 {
    let w: Vec<(u128, u128)> = codes.iter().map(|c| { let hi = hi_of_code(*c, p); ((p + 1 - hi) % p, hi) }).collect();
    let mut sum = 0u128;
    for a in 0..(1usize << NV) {
        if (tt >> a) & 1 == 1 {
            let mut prod = 1u128 % p;
            for (v, wv) in w.iter().enumerate() {
                prod = mulmod(prod, if (a >> v) & 1 == 1 { wv.1 } else { wv.0 }, p);
            }
            sum = addmod(sum, prod, p);
        }
    }
    sum
}

// ---------- walking the implementation's nodes ----------
fn addr(p: SddPtr) -> (u8, usize) {
    match p {
        SddPtr::PtrTrue => (0, 0),
        SddPtr::PtrFalse => (1, 0),
        SddPtr::Var(l, b) => (2, (l.value() as usize) * 2 + b as usize),
        SddPtr::BDD(b) => (3, b as *const _ as usize),
        SddPtr::ComplBDD(b) => (4, b as *const _ as usize),
        SddPtr::Reg(o) => (5, o as *const _ as usize),
        SddPtr::Compl(o) => (6, o as *const _ as usize),
    }
}
struct Walk {
    tt: HashMap<(u8, usize), TT>,
    masks: Vec<TT>,
}
impl Walk {
    fn new() -> Walk {
        Walk { tt: HashMap::new(), masks: (0..NV).map(var_mask).collect() }
    }
    fn tt(&mut self, p: SddPtr) -> TT {
        if let Some(x) = self.tt.get(&addr(p)) {
            return *x;
        }
        let r = match p {
            SddPtr::PtrTrue => !0,
            SddPtr::PtrFalse => 0,
            SddPtr::Var(l, b) => {
                let m = self.masks[l.value() as usize];
                if b { m } else { !m }
            }
            SddPtr::BDD(b) | SddPtr::ComplBDD(b) => {
                let m = self.masks[b.label().value() as usize];
                let lo = self.tt(b.low());
                let hi = self.tt(b.high());
                let x = (m & hi) | (!m & lo);
                if matches!(p, SddPtr::ComplBDD(_)) { !x } else { x }
            }
            SddPtr::Reg(o) | SddPtr::Compl(o) => {
                let mut x: TT = 0;
                for a in o.iter() {
                    let pt = self.tt(a.prime());
                    let st = self.tt(a.sub());
                    x |= pt & st;
                }
                if matches!(p, SddPtr::Compl(_)) { !x } else { x }
            }
        };
        self.tt.insert(addr(p), r);
        r
    }
}
/// node addresses (complement bit dropped) reachable from p, with the pointer to look at them
fn reach<'a>(p: SddPtr<'a>, seen: &mut HashMap<usize, SddPtr<'a>>) {
    match p {
        SddPtr::BDD(b) | SddPtr::ComplBDD(b) => {
            if seen.insert(b as *const _ as usize, p).is_none() {
                reach(b.low(), seen);
                reach(b.high(), seen);
            }
        }
        SddPtr::Reg(o) | SddPtr::Compl(o) => {
            if seen.insert(o as *const _ as usize, p).is_none() {
                for a in o.iter() {
                    reach(a.prime(), seen);
                    reach(a.sub(), seen);
                }
            }
        }
        _ => {}
    }
}
/// the oracle's count_nodes: 2 per distinct binary node, number of elements per distinct or-node
fn oracle_count(p: SddPtr) -> (usize, usize, usize) {
    let mut seen = HashMap::new();
    reach(p, &mut seen);
    let (mut c, mut nb, mut ng) = (0, 0, 0);
    for q in seen.values() {
        match q {
            SddPtr::BDD(_) | SddPtr::ComplBDD(_) => {
                c += 2;
                nb += 1
            }
            SddPtr::Reg(o) | SddPtr::Compl(o) => {
                c += o.iter().count();
                ng += 1
            }
            _ => {}
        }
    }
    (c, nb, ng)
}


/// one operation of the program on the real builder: (result, number of tokens consumed)
fn exec_op<'a>(builder: &'a CompressionSddBuilder<'a>, pool: &[SddPtr<'a>], t: &[&str]) -> (SddPtr<'a>, usize) {
    let ix = |s: &str| -> usize { s.parse().unwrap() };
    match t[0] {
        "t" => (SddPtr::PtrTrue, 1),
        "f" => (SddPtr::PtrFalse, 1),
        "v" => (builder.var(VarLabel::new(ix(t[1]) as u64), t[2] == "1"), 3),
        "n" => (builder.negate(pool[ix(t[1])]), 2),
        "a" | "o" | "x" | "q" => {
            let (a, b) = (pool[ix(t[1])], pool[ix(t[2])]);
            (
                match t[0] {
                    "a" => builder.and(a, b),
                    "o" => builder.or(a, b),
                    "x" => builder.xor(a, b),
                    _ => builder.iff(a, b),
                },
                3,
            )
        }
        "i" => (builder.ite(pool[ix(t[1])], pool[ix(t[2])], pool[ix(t[3])]), 4),
        "c" => (builder.condition(pool[ix(t[1])], VarLabel::new(ix(t[2]) as u64), t[3] == "1"), 4),
        "e" => (builder.exists(pool[ix(t[1])], VarLabel::new(ix(t[2]) as u64)), 3),
        "m" => (builder.compose(pool[ix(t[1])], VarLabel::new(ix(t[2]) as u64), pool[ix(t[3])]), 4),
        _ => panic!("bad op"),
    }
}
/// size of the unfolding (what the model and the unconditional clear_scratch walk), saturating
fn unfold_size(p: SddPtr, memo: &mut HashMap<usize, u64>) -> u64 {
    match p {
        SddPtr::BDD(b) | SddPtr::ComplBDD(b) => {
            let key = b as *const _ as usize;
            if let Some(x) = memo.get(&key) {
                return *x;
            }
            let r = 1u64.saturating_add(unfold_size(b.low(), memo)).saturating_add(unfold_size(b.high(), memo));
            memo.insert(key, r);
            r
        }
        SddPtr::Reg(o) | SddPtr::Compl(o) => {
            let key = o as *const _ as usize;
            if let Some(x) = memo.get(&key) {
                return *x;
            }
            let mut r = 1u64;
            for a in o.iter() {
                r = r.saturating_add(unfold_size(a.prime(), memo)).saturating_add(unfold_size(a.sub(), memo));
            }
            memo.insert(key, r);
            r
        }
        _ => 1,
    }
}

#[derive(Clone, PartialEq, Debug)]
enum Ans {
    N(u128),
    B(bool),
    C(usize),
}

pub fn run(case: &str, st: &mut Stats) -> Outcome {
    let t = toks(case);
    let compress = t[0] == "1";
    let mut i = 1;
    let vt = vt_parse(&t, &mut i);
    assert!(t[i] == ";");
    i += 1;
    let mut builder = CompressionSddBuilder::new(vt_rsdd(&vt));
    if !compress {
        builder.set_compression(false);
    }
    let builder = &builder;
    let mut pool: Vec<SddPtr> = vec![];
    let ix = |s: &str| -> usize { s.parse().unwrap() };
    let mut nbin = 0;
    while t[i] != "W" {
        if matches!(t[i], "a" | "o" | "x" | "q" | "i") {
            nbin += 1;
        }
        let (r, adv) = exec_op(builder, &pool, &t[i..]);
        pool.push(r);
        i += adv;
    }
    let k = ix(t[i + 1]);
    let codes: Vec<u64> = (0..NV).map(|v| t[i + 2 + v].parse().unwrap()).collect();
    i += 2 + NV;
    assert!(t[i] == "A");
    let m = ix(t[i + 1]);
    let asgs: Vec<Vec<bool>> = (0..m).map(|q| (0..NV).map(|v| t[i + 2 + q * NV + v] == "1").collect()).collect();

    // every node reachable from the pool: their scratch slots are looked at after every query
    let mut all_nodes: HashMap<usize, SddPtr> = HashMap::new();
    for p in &pool {
        reach(*p, &mut all_nodes);
    }
    let mut fails: Vec<String> = vec![];
    let mut all_clear = true;
    let mut check_clear = |what: &str, fails: &mut Vec<String>| {
        let dirty = all_nodes.values().filter(|q| !q.is_scratch_cleared()).count();
        if dirty > 0 {
            all_clear = false;
            fails.push(format!("after {what}: {dirty} reachable node(s) still hold scratch data"));
        }
    };
    check_clear("building the pool", &mut fails);

    let mut w = Walk::new();
    let first = pool.len() - k;
    let mut out: Vec<String> = vec![];
    // the log of (pointer, query, answer) for the replay pass
    let mut log: Vec<(SddPtr, usize, Ans)> = vec![];
    let ask = |p: SddPtr, q: usize| -> Ans {
        match q {
            0 => Ans::N(ff_count::<PL>(p, &codes)),
            1 => Ans::N(ff_count::<PS>(p, &codes)),
            2 => Ans::C(p.count_nodes()),
            e => Ans::B(p.evaluate(&asgs[e - 3])),
        }
    };
    let mut any_node = false;
    let mut any_nonconst = false;
    for idx in first..pool.len() {
        for neg in [false, true] {
            let p = if neg { pool[idx].neg() } else { pool[idx] };
            let tt = w.tt(p);
            let name = format!("{idx}{}", if neg { "-" } else { "+" });
            if tt != 0 && tt != !0 {
                any_nonconst = true;
            }
            // weighted counts in two fields
            let cl = ask(p, 0);
            check_clear(&format!("unsmoothed_wmc (U64_LARGEST) on {name}"), &mut fails);
            let cs = ask(p, 1);
            check_clear(&format!("unsmoothed_wmc (U32_SMALL) on {name}"), &mut fails);
            let (bl, bs) = (brute(tt, &codes, PL), brute(tt, &codes, PS));
            if cl != Ans::N(bl) {
                fails.push(format!("{name}: count in Z_{PL} is {cl:?} but the sum over the models is {bl}"));
            }
            if cs != Ans::N(bs) {
                fails.push(format!("{name}: count in Z_{PS} is {cs:?} but the sum over the models is {bs}"));
            }
            log.push((p, 0, cl.clone()));
            log.push((p, 1, cs.clone()));
            // Boolean evaluation
            let mut ev = String::new();
            for (e, a) in asgs.iter().enumerate() {
                let r = ask(p, 3 + e);
                check_clear(&format!("evaluate on {name}"), &mut fails);
                let row = (0..NV).fold(0usize, |acc, v| acc | ((a[v] as usize) << v));
                let want = (tt >> row) & 1 == 1;
                if r != Ans::B(want) {
                    fails.push(format!("{name}: evaluate({a:?}) = {r:?} but the pointer denotes {want}"));
                }
                ev.push(if r == Ans::B(true) { '1' } else { '0' });
                log.push((p, 3 + e, r));
            }
            // count_nodes
            let cn = ask(p, 2);
            check_clear(&format!("count_nodes on {name}"), &mut fails);
            let (oc, nb, ng) = oracle_count(p);
            if cn != Ans::C(oc) {
                fails.push(format!("{name}: count_nodes = {cn:?} but walking the distinct nodes gives {oc}"));
            }
            log.push((p, 2, cn.clone()));
            if nb + ng > 0 {
                any_node = true;
            }
            if !neg {
                st.add("target_binary_nodes", nb as u64);
                st.add("target_general_nodes", ng as u64);
                st.bump(match p {
                    SddPtr::PtrTrue | SddPtr::PtrFalse => "target_const",
                    SddPtr::Var(..) => "target_literal",
                    SddPtr::BDD(_) => "target_binary_regular",
                    SddPtr::ComplBDD(_) => "target_binary_complemented",
                    SddPtr::Reg(_) => "target_general_regular",
                    SddPtr::Compl(_) => "target_general_complemented",
                });
            }
            let (Ans::N(l), Ans::N(s), Ans::C(c)) = (cl, cs, cn) else { unreachable!() };
            // the node count of an UNCOMPRESSED result depends on its shape, which no property fixes
            // (the oracle still checks it against the nodes actually reachable): compared only for
            // the compressing builder, whose results are canonical
            let cshow = if compress { c.to_string() } else { "*".to_string() };
            out.push(format!("{name}:L={l},S={s},ev={ev},cn={cshow}"));
        }
    }
    // replay: every query again, in reverse order (so between a query and its repetition lie
    // queries of other types on pointers sharing its nodes): same answers, scratch empty again
    for (p, q, a) in log.iter().rev() {
        let again = ask(*p, *q);
        if again != *a {
            fails.push(format!("query {q} repeated after other queries answers {again:?}, the first time {a:?}"));
        }
    }
    check_clear("the repeated queries", &mut fails);
    st.add("queries", 2 * log.len() as u64);
    out.push(format!("clr={}", all_clear as u8));
    st.bump(if compress { "compression_on" } else { "compression_off" });
    let mut lv = HashSet::new();
    fn leaves(t: &VT, s: &mut HashSet<u64>) {
        match t {
            VT::L(v) => {
                s.insert(*v);
            }
            VT::N(l, r) => {
                leaves(l, s);
                leaves(r, s)
            }
        }
    }
    leaves(&vt, &mut lv);
    st.bump(&format!("leaves={}", lv.len()));
    st.bump(&format!("targets={k}"));
    for c in &codes {
        st.bump(if *c < 7 { "weight_boundary_residue" } else { "weight_pseudo_random" });
    }
    fails.truncate(5);
    Outcome { result: out.join(" "), fails, nontrivial: any_node && any_nonconst && nbin > 0 }
}
