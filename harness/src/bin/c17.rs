//! C17: parsing and serialisation preserve the formula.
//! One case per line; the first token selects the stream:
//!   D <ncl> (<len> (<var> <pol>)*)*              CNF -> Cnf::new -> to_dimacs -> (+ header) -> Cnf::from_dimacs
//!   T <fmt> <nv> <nc> <ntok> <int>*              DIMACS text written by this file's printer (layout <fmt>) ->
//!                                                Cnf::from_dimacs and LogicalExpr::from_dimacs
//!   S <fmt> <prefix s-expression>                AST -> serde_sexpr text (this file's printer) -> serde_sexpr ->
//!                                                variable_mapping, LogicalExpr::from_sexpr
//!        sexpr ::= True | False | Var <name> | Not e | Or e e | And e e | Iff e e | Xor e e | Ite e e e
//!   B <bddprog case>                             RobddBuilder program -> every pool entry -> BDDSerializer -> JSON
//!   X <compress> <vtree> ; <sdd ops>             CompressionSddBuilder program -> every entry -> SDDSerializer -> JSON
//!   V <vtree>                                    VTree -> VTreeSerializer -> JSON          (vtree ::= L <v> | N t t)
//! The JSON is lexed by serde_json (third party) into a Value and interpreted by the readers of
//! this file (plain node tables with complement flags); nothing of rsdd is used to read it back.
use rsdd::builder::sdd::{CompressionSddBuilder, SddBuilder};
use rsdd::builder::BottomUpBuilder;
use rsdd::repr::{BddPtr, Cnf, Literal, LogicalExpr, SddPtr, VTree, VarLabel};
use rsdd::serialize::{BDDSerializer, LogicalSExpr, SDDSerializer, VTreeSerializer};
use rsdd_verif_harness::bddprog::{self, GenOpts};
use rsdd_verif_harness::*;
use serde_json::Value;
use std::collections::{BTreeSet, HashMap, HashSet};

pub const PROP: Prop = Prop { gen, run, panic_ok: never };

fn main() {
    run_main(PROP)
}

fn quiet<T>(f: impl FnOnce() -> T) -> Option<T> {
    std::panic::catch_unwind(std::panic::AssertUnwindSafe(f)).ok()
}

// ================================================================== generators
pub fn gen(rng: &mut Rng, idx: usize, n: usize, thorough: bool) -> String {
    match idx % 20 {
        0..=3 => gen_d(rng, idx, n),
        4..=7 => gen_t(rng, idx, n),
        8..=11 => gen_s(rng, idx, n),
        12..=13 => format!(
            "B {}",
            bddprog::gen_prog(rng, idx, n, &GenOpts { max_vars: 6, max_ops: if thorough { 30 } else { 20 }, new_vars: true, small_tables: false })
        ),
        14..=15 => gen_b(rng, idx, n, thorough),
        16..=18 => gen_x(rng, idx, n, thorough),
        _ => gen_v(rng, idx, n),
    }
}

/// growth-oriented BDD programs (same case language as bddprog): all literals first, then
/// and/or/xor/iff/ite over recent results, so that diagrams with shared nodes and complemented
/// edges are the rule
fn gen_b(rng: &mut Rng, idx: usize, n: usize, thorough: bool) -> String {
    let frac = (idx * 100) / n.max(1);
    let nvars = (2 + (frac * 6) / 100).min(7);
    let perm = rng.perm(nvars);
    let mut s = format!("B {nvars}");
    for p in &perm {
        s.push_str(&format!(" {p}"));
    }
    s.push_str(if rng.coin() { " a 0" } else { " l3 0" });
    for v in 0..nvars {
        s.push_str(&format!(" v {v} {}", rng.coin() as u8));
    }
    let mut pool = nvars;
    let nops = 3 + (frac * if thorough { 30 } else { 20 }) / 100 + rng.range(0, 3);
    for _ in 0..nops {
        let pick = |rng: &mut Rng, pool: usize| -> usize { if rng.chance(2, 3) { pool - 1 - rng.range(0, 3.min(pool - 1)) } else { rng.below(pool as u64) as usize } };
        let (i, j, k) = (pick(rng, pool), rng.below(pool as u64) as usize, pick(rng, pool));
        match rng.below(100) {
            0..=24 => s.push_str(&format!(" x {i} {j}")),
            25..=39 => s.push_str(&format!(" e {i} {j}")),
            40..=59 => s.push_str(&format!(" a {i} {j}")),
            60..=79 => s.push_str(&format!(" o {i} {j}")),
            80..=91 => s.push_str(&format!(" i {i} {j} {k}")),
            92..=96 => s.push_str(&format!(" n {i}")),
            _ => s.push_str(if rng.coin() { " t" } else { " f" }),
        }
        pool += 1;
    }
    s
}

fn gen_d(rng: &mut Rng, idx: usize, n: usize) -> String {
    let frac = (idx * 100) / n.max(1);
    let edge = rng.chance(1, 4);
    let nv = 1 + (frac * 7) / 100 + rng.range(0, 1);
    let big = rng.chance(1, 12);
    let ncl = if edge && rng.chance(1, 4) { 0 } else { rng.range(1, 2 + (frac * 8) / 100) };
    let mut s = format!("D {ncl}");
    for _ in 0..ncl {
        let len = if edge { *rng.pick(&[0usize, 0, 1, 1, 2, 3, 5]) } else { rng.range(1, 4) };
        s.push_str(&format!(" {len}"));
        let mut prev: Option<(u64, bool)> = None;
        for _ in 0..len {
            let mut v = rng.below(nv as u64);
            let mut p = rng.coin();
            if edge {
                if let Some((pv, pp)) = prev {
                    match rng.below(4) {
                        0 => { v = pv; p = pp }      // repeated literal
                        1 => { v = pv; p = !pp }     // complementary literal
                        _ => {}
                    }
                }
            }
            if big && rng.chance(1, 3) {
                v = *rng.pick(&[9u64, 10, 99, 100, 999, 1000, 4095]);
            }
            prev = Some((v, p));
            s.push_str(&format!(" {v} {}", p as u8));
        }
    }
    s
}

fn gen_t(rng: &mut Rng, idx: usize, n: usize) -> String {
    let frac = (idx * 100) / n.max(1);
    let edge = rng.chance(1, 4);
    let m = 1 + (frac * 5) / 100 + rng.range(0, 1).min(6 - 1 - (frac * 5) / 100);
    let m = m.min(6);
    let ncl = if edge && rng.chance(1, 5) { 0 } else { rng.range(1, 2 + (frac * 6) / 100) };
    let mut toks: Vec<i64> = vec![];
    for c in 0..ncl {
        let len = if edge { *rng.pick(&[0usize, 1, 1, 2, 3, 4]) } else { rng.range(1, 4) };
        for _ in 0..len {
            let v = 1 + rng.below(m as u64) as i64;
            toks.push(if rng.coin() { v } else { -v });
        }
        // the terminator of the last clause may be missing (EndOfFile ends a clause too)
        if !(c + 1 == ncl && len > 0 && rng.chance(1, 4)) {
            toks.push(0);
        }
    }
    let fmt = if rng.chance(1, 25) { 8 } else { rng.range(0, 6) };
    // header counts: true ones (clamped to >= 1: the lexer only accepts non-zero numbers) or lies
    let (hv, hc) = if rng.chance(1, 5) { (rng.range(1, 99), rng.range(1, 99)) } else { (m.max(1), ncl.max(1)) };
    let mut s = format!("T {fmt} {hv} {hc} {}", toks.len());
    for z in toks {
        s.push_str(&format!(" {z}"));
    }
    s
}

const NAMES: &[&str] = &["a", "B", "a10", "a9", "Z", "aa", "A", "b", "_x", "x-1", "10", "9", "a.b", "Ab", "aB", "z", "a1", "a09", "X", "Y",
    // long names sharing their first 16..24 bytes
    "station_north_gauge_level_high", "station_north_gauge_level_low", "station_north_gauge_level", "sensor_reading_0123456789_b", "sensor_reading_0123456789_a"];

fn gen_sx(rng: &mut Rng, depth: usize, top: bool, names: &[&str], consts: bool, out: &mut String) {
    let leaf = depth == 0 || (!top && rng.chance(1, 4));
    if leaf {
        if consts && rng.chance(1, 3) {
            out.push_str(if rng.coin() { " True" } else { " False" });
        } else {
            out.push_str(&format!(" Var {}", rng.pick(names)));
        }
        return;
    }
    match rng.below(12) {
        0..=2 => { out.push_str(" Not"); gen_sx(rng, depth - 1, false, names, consts, out) }
        3..=4 => { out.push_str(" Or"); gen_sx(rng, depth - 1, false, names, consts, out); gen_sx(rng, depth - 1, false, names, consts, out) }
        5..=6 => { out.push_str(" And"); gen_sx(rng, depth - 1, false, names, consts, out); gen_sx(rng, depth - 1, false, names, consts, out) }
        7..=8 => { out.push_str(" Iff"); gen_sx(rng, depth - 1, false, names, consts, out); gen_sx(rng, depth - 1, false, names, consts, out) }
        9 => { out.push_str(" Xor"); gen_sx(rng, depth - 1, false, names, consts, out); gen_sx(rng, depth - 1, false, names, consts, out) }
        _ => {
            out.push_str(" Ite");
            gen_sx(rng, depth - 1, false, names, consts, out);
            gen_sx(rng, depth - 1, false, names, consts, out);
            gen_sx(rng, depth - 1, false, names, consts, out)
        }
    }
}

fn gen_s(rng: &mut Rng, idx: usize, n: usize) -> String {
    let frac = (idx * 100) / n.max(1);
    let k = if rng.chance(1, 10) { 1 } else { rng.range(2, 2 + (frac * 4) / 100).min(6) };
    let mut pool: Vec<&str> = NAMES.to_vec();
    rng.shuffle(&mut pool);
    pool.truncate(k);
    let consts = rng.chance(1, 12);
    let depth = if rng.chance(1, 15) { 0 } else { 2 + (frac * 4) / 100 + rng.range(0, 1) };
    let mut s = format!("S {}", if rng.chance(1, 10) { 3 } else { rng.range(0, 2) });
    gen_sx(rng, depth, true, &pool, consts, &mut s);
    s
}

// ---- vtrees (own view) ----
#[derive(Clone, Debug, PartialEq)]
enum VT {
    L(u64),
    N(Box<VT>, Box<VT>),
}
fn vt_text(t: &VT) -> String {
    match t {
        VT::L(v) => format!("L {v}"),
        VT::N(l, r) => format!("N {} {}", vt_text(l), vt_text(r)),
    }
}
fn vt_parse(t: &[&str], i: &mut usize) -> VT {
    match t[*i] {
        "L" => {
            let v = t[*i + 1].parse().unwrap();
            *i += 2;
            VT::L(v)
        }
        "N" => {
            *i += 1;
            let l = vt_parse(t, i);
            let r = vt_parse(t, i);
            VT::N(Box::new(l), Box::new(r))
        }
        _ => panic!("bad vtree"),
    }
}
fn vt_rsdd(t: &VT) -> VTree {
    match t {
        VT::L(v) => VTree::new_leaf(VarLabel::new(*v)),
        VT::N(l, r) => VTree::new_node(Box::new(vt_rsdd(l)), Box::new(vt_rsdd(r))),
    }
}
fn vt_random(rng: &mut Rng, labels: &[u64]) -> VT {
    if labels.len() == 1 {
        return VT::L(labels[0]);
    }
    let k = rng.range(1, labels.len() - 1);
    VT::N(Box::new(vt_random(rng, &labels[..k])), Box::new(vt_random(rng, &labels[k..])))
}
fn vt_right(labels: &[u64]) -> VT {
    if labels.len() == 1 { VT::L(labels[0]) } else { VT::N(Box::new(VT::L(labels[0])), Box::new(vt_right(&labels[1..]))) }
}
fn vt_left(labels: &[u64]) -> VT {
    if labels.len() == 1 {
        VT::L(labels[0])
    } else {
        let n = labels.len();
        VT::N(Box::new(vt_left(&labels[..n - 1])), Box::new(VT::L(labels[n - 1])))
    }
}

const NV: usize = 7; // SDD truth tables range over variables 0..6
type TT = u128;
fn var_mask(v: usize) -> TT {
    let mut m: TT = 0;
    for row in 0..(1usize << NV) {
        if (row >> v) & 1 == 1 {
            m |= 1u128 << row;
        }
    }
    m
}

fn gen_x(rng: &mut Rng, idx: usize, n: usize, thorough: bool) -> String {
    let frac = (idx * 100) / n.max(1);
    let compress = rng.chance(3, 4);
    let maxleaves = if frac < 12 { 3 } else if frac < 40 { 4 } else if frac < 70 { 5 } else { 7 };
    let nleaves = rng.range(if frac < 5 { 1 } else if frac < 40 { 2 } else { 3 }, maxleaves);
    let mut labels: Vec<u64> = rng.perm(NV).into_iter().map(|x| x as u64).collect();
    labels.truncate(nleaves);
    let vt = match rng.below(8) {
        0 => vt_right(&labels),
        1 | 2 => vt_left(&labels),
        _ => vt_random(rng, &labels),
    };
    let maxops = if thorough { 34 } else { 24 };
    let mut nops = 4 + (frac * maxops) / 100 + rng.range(0, 3);
    if !compress {
        nops = nops.min(12);
    }
    let mut s = format!("X {} {} ;", compress as u8, vt_text(&vt));
    // CNF-shaped family (a third of the cases with >= 3 leaves): clauses as disjunctions of literals,
    // conjoined pairwise, the result sometimes negated -- CNF compilations are full of decision
    // nodes of one shape that differ in a single literal or pointer
    if nleaves >= 3 && rng.chance(1, 3) {
        let mut len = 0usize;
        let mut clause_ids = vec![];
        for _ in 0..rng.range(2, if compress { 7 } else { 4 }) {
            let w = rng.range(1, 3);
            let mut last = None;
            for _ in 0..w {
                s.push_str(&format!(" v {} {}", rng.pick(&labels), rng.coin() as u8));
                len += 1;
                last = Some(match last { None => len - 1, Some(p) => { s.push_str(&format!(" o {p} {}", len - 1)); len += 1; len - 1 } });
            }
            clause_ids.push(last.unwrap());
        }
        let mut acc = clause_ids[0];
        for c in &clause_ids[1..] {
            s.push_str(&format!(" a {acc} {c}"));
            len += 1;
            acc = len - 1;
        }
        if rng.coin() {
            s.push_str(&format!(" n {acc}"));
        }
        return s;
    }
    let mut len = 0usize;
    let lit = |rng: &mut Rng| format!(" v {} {}", rng.pick(&labels), rng.coin() as u8);
    let seed = if rng.chance(1, 8) { 1 } else { nleaves.max(2) };
    for k in 0..seed {
        s.push_str(&format!(" v {} {}", labels[k % nleaves], rng.coin() as u8));
        len += 1;
    }
    while len < nops {
        let mut i = rng.below(len as u64) as usize;
        if rng.coin() {
            i = len - 1 - rng.below(len.min(4) as u64) as usize;
        }
        let mut j = rng.below(len as u64) as usize;
        if rng.chance(1, 3) {
            j = len - 1;
        }
        let k = rng.below(len as u64) as usize;
        let v = *rng.pick(&labels);
        let op = match rng.below(100) {
            0..=7 => lit(rng),
            8..=10 => (if rng.coin() { " t" } else { " f" }).to_string(),
            11..=18 => format!(" n {i}"),
            19..=44 => format!(" a {i} {j}"),
            45..=64 => format!(" o {i} {j}"),
            65..=71 => format!(" x {i} {j}"),
            72..=78 => format!(" q {i} {j}"),
            79..=88 => format!(" i {i} {j} {k}"),
            89..=94 => format!(" c {i} {v} {}", rng.coin() as u8),
            _ => format!(" e {i} {v}"),
        };
        s.push_str(&op);
        len += 1;
    }
    s
}

fn gen_v(rng: &mut Rng, idx: usize, n: usize) -> String {
    let frac = (idx * 100) / n.max(1);
    let nl = rng.range(1, 1 + (frac * 11) / 100);
    let mut labels: Vec<u64> = rng.perm(40).into_iter().map(|x| x as u64).collect();
    labels.truncate(nl);
    let vt = match rng.below(5) {
        0 => vt_right(&labels),
        1 => vt_left(&labels),
        _ => vt_random(rng, &labels),
    };
    format!("V {}", vt_text(&vt))
}

// ================================================================== run
pub fn run(case: &str, st: &mut Stats) -> Outcome {
    let (kind, rest) = case.split_at(1);
    let rest = rest.trim_start();
    st.bump(&format!("stream_{kind}"));
    match kind {
        "D" => run_d(rest, st),
        "T" => run_t(rest, st),
        "S" => run_s(rest, st),
        "B" => run_b(rest, st),
        "X" => run_x(rest, st),
        "V" => run_v(rest, st),
        _ => panic!("bad case"),
    }
}

fn show_clauses(cs: &[Vec<Literal>]) -> String {
    let v: Vec<String> = cs
        .iter()
        .map(|c| {
            let l: Vec<String> = c.iter().map(|l| format!("{}{}", if l.polarity() { "+" } else { "-" }, l.label().value())).collect();
            format!("[{}]", l.join(" "))
        })
        .collect();
    v.join(" ")
}

/// own tokenizer for the lines to_dimacs prints: line -> signed integers
fn int_lines(text: &str) -> Vec<Vec<i64>> {
    text.split('\n').filter(|l| !l.trim().is_empty()).map(|l| l.split_whitespace().map(|w| w.parse::<i64>().expect("integer")).collect()).collect()
}

// ------------------------------------------------------------------ D
fn run_d(case: &str, st: &mut Stats) -> Outcome {
    let t = toks(case);
    let ncl: usize = t[0].parse().unwrap();
    let mut i = 1;
    let mut input: Vec<Vec<(u64, bool)>> = vec![];
    for _ in 0..ncl {
        let len: usize = t[i].parse().unwrap();
        i += 1;
        let mut c = vec![];
        for _ in 0..len {
            c.push((t[i].parse().unwrap(), t[i + 1] == "1"));
            i += 2;
        }
        input.push(c);
    }
    let clauses: Vec<Vec<Literal>> = input.iter().map(|c| c.iter().map(|(v, p)| Literal::new(VarLabel::new(*v), *p)).collect()).collect();
    let cnf = Cnf::new(&clauses);
    let text = cnf.to_dimacs();
    let lines = int_lines(&text);
    let mut fails = vec![];
    // oracle on the printed text: one line per clause, terminated by 0, literal sets preserved (1-based)
    if lines.len() != input.len() {
        fails.push(format!("to_dimacs printed {} clause lines for {} clauses", lines.len(), input.len()));
    }
    for (k, (l, c)) in lines.iter().zip(input.iter()).enumerate() {
        if l.last() != Some(&0) || l[..l.len() - 1].contains(&0) {
            fails.push(format!("printed line {k} is not a 0-terminated clause: {l:?}"));
        }
        let got: BTreeSet<i64> = l.iter().filter(|z| **z != 0).cloned().collect();
        let want: BTreeSet<i64> = c.iter().map(|(v, p)| if *p { *v as i64 + 1 } else { -(*v as i64 + 1) }).collect();
        if got != want {
            fails.push(format!("printed line {k} = {l:?} is not the literal set of clause {c:?}"));
        }
    }
    // re-parse: the printer emits no problem line, the parser needs one
    let nv = cnf.num_vars().max(1);
    let with_header = format!("p cnf {} {}{}", nv, input.len().max(1), text);
    let back = Cnf::from_dimacs(&with_header);
    if back.clauses() != cnf.clauses() {
        fails.push(format!("re-parsed clauses {} differ from the printed formula's {}", show_clauses(back.clauses()), show_clauses(cnf.clauses())));
    }
    if back.num_vars() != cnf.num_vars() {
        fails.push(format!("re-parsed num_vars {} != {}", back.num_vars(), cnf.num_vars()));
    }
    for (k, c) in input.iter().enumerate() {
        let got: BTreeSet<(u64, bool)> = back.clauses().get(k).map(|c| c.iter().map(|l| (l.label().value(), l.polarity())).collect()).unwrap_or_default();
        let want: BTreeSet<(u64, bool)> = c.iter().cloned().collect();
        if got != want {
            fails.push(format!("clause {k} after print+parse has literal set {got:?}, input {want:?}"));
        }
    }
    // the printed text alone (no header) is rejected by the parser: recorded, documented guard
    if quiet(|| Cnf::from_dimacs(&text)).is_some() {
        st.bump("headerless_text_accepted");
    }
    let ls: Vec<String> = lines.iter().map(|l| l.iter().map(|z| z.to_string()).collect::<Vec<_>>().join(" ")).collect();
    if input.is_empty() { st.bump("d_empty_formula") }
    if input.iter().any(|c| c.is_empty()) { st.bump("d_empty_clause") }
    if input.iter().zip(cnf.clauses()).any(|(a, b)| a.len() != b.len()) { st.bump("d_dedup_fired") }
    Outcome {
        result: format!(
            "D {} => {} nv={} text={}",
            ls.join(" / "),
            show_clauses(back.clauses()),
            back.num_vars(),
            text.replace('\n', "|").replace(' ', "_")
        ),
        fails,
        nontrivial: input.iter().filter(|c| c.len() >= 2).count() >= 1,
    }
}

// ------------------------------------------------------------------ T
/// this file's DIMACS printer; the layouts vary everything the token stream does not depend on
/// comment bodies: anything up to the end of the line is comment, including digits, signs, a
/// second "p cnf" and punctuation such as '%' (the SATLIB end marker when it stands alone)
fn noise(k: usize) -> &'static str {
    const N: [&str; 8] = [
        "generated by the C17 harness",
        "100% of the clauses follow; 50 % are binary",
        "p cnf 9 9 (not the problem line)",
        "% # @ ! $ ^ & * ( ) - + = [ ] { } ; : ' , . < > / ? | ~",
        "%",
        "-1 2 0",
        "0",
        "c c c %0 %1 0%",
    ];
    N[k % 8]
}

fn dimacs_text(fmt: usize, hv: usize, hc: usize, z: &[i64]) -> String {
    let mut s = String::new();
    let nz = hv * 3 + hc * 5 + z.len();
    let lit = |x: i64, spaced: bool| -> String { if x < 0 && spaced { format!("- {}", -x) } else { x.to_string() } };
    match fmt {
        0 => {
            s.push_str(&format!("p cnf {hv} {hc}\n"));
            for x in z {
                s.push_str(&lit(*x, false));
                s.push_str(if *x == 0 { "\n" } else { " " });
            }
        }
        1 => {
            // comments before the problem line and between clauses
            s.push_str(&format!("c {}\nc\nc p cnf 9 9 (not the problem line)\n", noise(nz)));
            s.push_str(&format!("p cnf {hv} {hc}\n"));
            for (k, x) in z.iter().enumerate() {
                s.push_str(&lit(*x, false));
                if *x == 0 { s.push_str(&format!("\nc clause done 1 2 0 {}\n", noise(nz + k))) } else { s.push(' ') }
            }
        }
        2 => {
            // everything on one line, tabs and runs of blanks
            s.push_str(&format!("  p\tcnf   {hv}\t\t{hc}  "));
            for x in z {
                s.push_str(&lit(*x, false));
                s.push_str("  \t");
            }
        }
        3 => {
            // one token per line, CRLF, leading blank lines
            s.push_str(&format!("\r\n\r\np cnf {hv} {hc}\r\n"));
            for x in z {
                s.push_str(&lit(*x, false));
                s.push_str("\r\n");
            }
        }
        4 => {
            // a comment in the middle of a clause; sign separated from the number
            s.push_str(&format!("p cnf {hv} {hc}\n"));
            for (k, x) in z.iter().enumerate() {
                s.push_str(&lit(*x, true));
                if k % 3 == 1 { s.push_str(&format!(" c interrupts the clause 7 0 {}\n", noise(nz + k))) } else { s.push(' ') }
            }
        }
        5 => {
            // no final newline, leading indentation as in the crate's own tests
            s.push_str(&format!("\n\t\t\tp cnf {hv} {hc}"));
            for x in z {
                if *x == 0 { s.push_str(" 0\n\t\t\t") } else { s.push_str(&format!(" {}", lit(*x, false))) }
            }
            s = s.trim_end().to_string();
        }
        6 => {
            s.push_str(&format!("c\np cnf {hv} {hc}\nc {}\n", noise(nz + 3)));
            for x in z {
                s.push_str(&lit(*x, false));
                s.push(' ');
            }
            s.push_str(&format!("\nc trailing comment {}", noise(nz)));
        }
        _ => {
            // 8: no problem line (what Cnf::to_dimacs prints on its own)
            for x in z {
                s.push_str(&lit(*x, false));
                s.push_str(if *x == 0 { "\n" } else { " " });
            }
        }
    }
    s
}

fn show_expr(e: &LogicalExpr) -> String {
    match e {
        LogicalExpr::Literal(v, p) => format!("{v}{}", if *p { "+" } else { "-" }),
        LogicalExpr::Not(a) => format!("!({})", show_expr(a)),
        LogicalExpr::And(a, b) => format!("&({},{})", show_expr(a), show_expr(b)),
        LogicalExpr::Or(a, b) => format!("|({},{})", show_expr(a), show_expr(b)),
        LogicalExpr::Iff(a, b) => format!("=({},{})", show_expr(a), show_expr(b)),
        LogicalExpr::Xor(a, b) => format!("^({},{})", show_expr(a), show_expr(b)),
        LogicalExpr::Ite { guard, thn, els } => format!("?({},{},{})", show_expr(guard), show_expr(thn), show_expr(els)),
    }
}

/// truth table of an expression through the library's LogicalExpr::eval; variable lo+j = bit j
fn expr_tt(e: &LogicalExpr, lo: usize, m: usize) -> String {
    (0..1usize << m)
        .map(|row| {
            let vals: HashMap<VarLabel, bool> = (0..m).map(|j| (VarLabel::new((lo + j) as u64), (row >> j) & 1 == 1)).collect();
            if e.eval(&vals) { '1' } else { '0' }
        })
        .collect()
}

/// the clause lists a token stream means (split at 0; end of input closes a non-empty clause)
fn split_clauses(z: &[i64]) -> Vec<Vec<i64>> {
    let mut out = vec![];
    let mut cur = vec![];
    for x in z {
        if *x == 0 {
            out.push(std::mem::take(&mut cur));
        } else {
            cur.push(*x);
        }
    }
    if !cur.is_empty() {
        out.push(cur);
    }
    out
}

fn run_t(case: &str, st: &mut Stats) -> Outcome {
    let t = toks(case);
    let fmt: usize = t[0].parse().unwrap();
    let (hv, hc): (usize, usize) = (t[1].parse().unwrap(), t[2].parse().unwrap());
    let nt: usize = t[3].parse().unwrap();
    let z: Vec<i64> = t[4..4 + nt].iter().map(|s| s.parse().unwrap()).collect();
    let text = dimacs_text(fmt, hv, hc, &z);
    st.bump(&format!("t_layout_{fmt}"));
    let m = z.iter().map(|x| x.unsigned_abs() as usize).max().unwrap_or(0);
    let want = split_clauses(&z);
    let mut fails = vec![];
    let cnf = quiet(|| Cnf::from_dimacs(&text));
    let expr = quiet(|| LogicalExpr::from_dimacs(&text));
    let spec_row = |row: usize| -> bool {
        // variable i (1-based) = bit i-1
        want.iter().all(|c| c.iter().any(|x| ((row >> (x.unsigned_abs() as usize - 1)) & 1 == 1) == (*x > 0)))
    };
    let cnf_s = match &cnf {
        None => "ERR".to_string(),
        Some(c) => {
            // oracle: clause k is the literal set of token clause k with labels shifted by one
            if c.clauses().len() != want.len() {
                fails.push(format!("Cnf::from_dimacs gives {} clauses, the text has {}", c.clauses().len(), want.len()));
            }
            for row in 0..1usize << m {
                let got = c.clauses().iter().all(|cl| cl.iter().any(|l| ((row >> l.label().value()) & 1 == 1) == l.polarity()));
                if got != spec_row(row) {
                    fails.push(format!("Cnf::from_dimacs: assignment {row:b} (variable i = bit i-1) evaluates to {got}, the text to {}", spec_row(row)));
                    break;
                }
            }
            format!("{} nv={}", show_clauses(c.clauses()), c.num_vars())
        }
    };
    let expr_s = match &expr {
        None => "PANIC".to_string(),
        Some(e) => {
            let tt = expr_tt(e, 1, m);
            for row in 0..1usize << m {
                if (tt.as_bytes()[row] == b'1') != spec_row(row) {
                    fails.push(format!("LogicalExpr::from_dimacs: assignment {row:b} (label i = DIMACS variable i) evaluates to {}, the text to {}", tt.as_bytes()[row] as char, spec_row(row)));
                    break;
                }
            }
            format!("{} tt={}", show_expr(e), tt)
        }
    };
    // documented guards: no problem line => parse error; no clause / an empty clause => from_dimacs (expr) panics
    let guard_cnf = fmt == 8;
    let guard_expr = guard_cnf || want.is_empty() || want.iter().any(|c| c.is_empty());
    if cnf.is_none() != guard_cnf {
        fails.push(format!("Cnf::from_dimacs {} on a text that is {}", if cnf.is_none() { "panicked" } else { "succeeded" }, if guard_cnf { "headerless" } else { "well formed" }));
    }
    if expr.is_none() != guard_expr {
        fails.push(format!("LogicalExpr::from_dimacs {} (guard expected: {guard_expr})", if expr.is_none() { "panicked" } else { "succeeded" }));
    }
    if want.is_empty() { st.bump("t_no_clause") }
    if want.iter().any(|c| c.is_empty()) { st.bump("t_empty_clause") }
    if z.last().map_or(false, |x| *x != 0) { st.bump("t_unterminated_last_clause") }
    if expr.is_none() { st.bump("t_expr_panics") }
    Outcome { result: format!("T cnf={cnf_s} expr={expr_s}"), fails, nontrivial: want.iter().filter(|c| c.len() >= 2).count() >= 1 && want.len() >= 2 }
}

// ------------------------------------------------------------------ S
#[derive(Clone, Debug)]
enum SX {
    T,
    F,
    Var(String),
    Not(Box<SX>),
    Or(Box<SX>, Box<SX>),
    And(Box<SX>, Box<SX>),
    Iff(Box<SX>, Box<SX>),
    Xor(Box<SX>, Box<SX>),
    Ite(Box<SX>, Box<SX>, Box<SX>),
}
fn sx_parse(t: &[&str], i: &mut usize) -> SX {
    let h = t[*i];
    *i += 1;
    match h {
        "True" => SX::T,
        "False" => SX::F,
        "Var" => {
            *i += 1;
            SX::Var(t[*i - 1].to_string())
        }
        "Not" => SX::Not(Box::new(sx_parse(t, i))),
        "Or" | "And" | "Iff" | "Xor" => {
            let a = Box::new(sx_parse(t, i));
            let b = Box::new(sx_parse(t, i));
            match h {
                "Or" => SX::Or(a, b),
                "And" => SX::And(a, b),
                "Iff" => SX::Iff(a, b),
                _ => SX::Xor(a, b),
            }
        }
        "Ite" => {
            let a = Box::new(sx_parse(t, i));
            let b = Box::new(sx_parse(t, i));
            let c = Box::new(sx_parse(t, i));
            SX::Ite(a, b, c)
        }
        _ => panic!("bad sexpr"),
    }
}
/// this file's printer of serde_sexpr syntax; sep varies the blanks
fn sx_text(e: &SX, sep: &str, out: &mut String) {
    let list = |h: &str, args: &[&SX], out: &mut String| {
        out.push('(');
        out.push_str(h);
        for a in args {
            out.push_str(sep);
            sx_text(a, sep, out);
        }
        out.push(')');
    };
    match e {
        SX::T => out.push_str("True"),
        SX::F => out.push_str("False"),
        SX::Var(s) => {
            out.push_str("(Var");
            out.push_str(sep);
            out.push_str(s);
            out.push(')');
        }
        SX::Not(a) => list("Not", &[a], out),
        SX::Or(a, b) => list("Or", &[a, b], out),
        SX::And(a, b) => list("And", &[a, b], out),
        SX::Iff(a, b) => list("Iff", &[a, b], out),
        SX::Xor(a, b) => list("Xor", &[a, b], out),
        SX::Ite(a, b, c) => list("Ite", &[a, b, c], out),
    }
}
fn sx_lib(e: &SX) -> LogicalSExpr {
    let b = |x: &SX| Box::new(sx_lib(x));
    match e {
        SX::T => LogicalSExpr::True,
        SX::F => LogicalSExpr::False,
        SX::Var(s) => LogicalSExpr::Var(s.clone()),
        SX::Not(a) => LogicalSExpr::Not(b(a)),
        SX::Or(x, y) => LogicalSExpr::Or(b(x), b(y)),
        SX::And(x, y) => LogicalSExpr::And(b(x), b(y)),
        SX::Iff(x, y) => LogicalSExpr::Iff(b(x), b(y)),
        SX::Xor(x, y) => LogicalSExpr::Xor(b(x), b(y)),
        SX::Ite(x, y, z) => LogicalSExpr::Ite(b(x), b(y), b(z)),
    }
}
fn sx_names(e: &SX, out: &mut Vec<String>) {
    match e {
        SX::T | SX::F => {}
        SX::Var(s) => out.push(s.clone()),
        SX::Not(a) => sx_names(a, out),
        SX::Or(a, b) | SX::And(a, b) | SX::Iff(a, b) | SX::Xor(a, b) => {
            sx_names(a, out);
            sx_names(b, out)
        }
        SX::Ite(a, b, c) => {
            sx_names(a, out);
            sx_names(b, out);
            sx_names(c, out)
        }
    }
}
fn sx_has_const(e: &SX) -> bool {
    match e {
        SX::T | SX::F => true,
        SX::Var(_) => false,
        SX::Not(a) => sx_has_const(a),
        SX::Or(a, b) | SX::And(a, b) | SX::Iff(a, b) | SX::Xor(a, b) => sx_has_const(a) || sx_has_const(b),
        SX::Ite(a, b, c) => sx_has_const(a) || sx_has_const(b) || sx_has_const(c),
    }
}
fn sx_eval(e: &SX, env: &HashMap<String, bool>) -> bool {
    match e {
        SX::T => true,
        SX::F => false,
        SX::Var(s) => env[s],
        SX::Not(a) => !sx_eval(a, env),
        SX::Or(a, b) => sx_eval(a, env) | sx_eval(b, env),
        SX::And(a, b) => sx_eval(a, env) & sx_eval(b, env),
        SX::Iff(a, b) => sx_eval(a, env) == sx_eval(b, env),
        SX::Xor(a, b) => sx_eval(a, env) != sx_eval(b, env),
        SX::Ite(a, b, c) => if sx_eval(a, env) { sx_eval(b, env) } else { sx_eval(c, env) },
    }
}
/// bytewise lexicographic "less than", written out (not String::cmp)
fn bytes_lt(a: &str, b: &str) -> bool {
    let (a, b) = (a.as_bytes(), b.as_bytes());
    let mut i = 0;
    loop {
        if i == a.len() {
            return i < b.len();
        }
        if i == b.len() {
            return false;
        }
        if a[i] != b[i] {
            return a[i] < b[i];
        }
        i += 1;
    }
}

fn run_s(case: &str, st: &mut Stats) -> Outcome {
    let t = toks(case);
    let fmt: usize = t[0].parse().unwrap();
    let mut i = 1;
    let ast = sx_parse(&t, &mut i);
    assert!(i == t.len());
    let mut text = String::new();
    match fmt {
        0 => sx_text(&ast, " ", &mut text),
        1 => sx_text(&ast, "  \t ", &mut text),
        2 => {
            sx_text(&ast, "\n  ", &mut text);
            text = format!("\n {text} \n");
        }
        _ => {
            sx_text(&ast, " ", &mut text);
            text = text.replace(")", " )").replace("(", "( ");
        }
    }
    let mut fails = vec![];
    let parsed: LogicalSExpr = match serde_sexpr::from_str::<LogicalSExpr>(&text) {
        Ok(p) => p,
        Err(e) => {
            // layout the third-party lexer rejects: recorded, the directly built AST is used instead
            st.bump(&format!("s_layout_{fmt}_rejected_by_serde_sexpr"));
            let _ = e;
            sx_lib(&ast)
        }
    };
    if parsed != sx_lib(&ast) {
        fails.push(format!("serde_sexpr parsed {text:?} into {parsed:?}, the printed AST is {:?}", sx_lib(&ast)));
    }
    let mapping = parsed.variable_mapping();
    let mut pairs: Vec<(String, usize)> = mapping.iter().map(|(k, v)| ((*k).clone(), *v)).collect();
    pairs.sort_by_key(|p| p.1);
    // oracle: index = number of distinct names of the expression that are bytewise smaller
    let mut names = vec![];
    sx_names(&ast, &mut names);
    let distinct: HashSet<String> = names.iter().cloned().collect();
    if distinct.len() != pairs.len() {
        fails.push(format!("mapping has {} keys, the expression {} distinct names", pairs.len(), distinct.len()));
    }
    for s in &distinct {
        let rank = distinct.iter().filter(|o| bytes_lt(o, s)).count();
        if mapping.get(s) != Some(&rank) {
            fails.push(format!("variable {s} is mapped to {:?}, its rank among the sorted names is {rank}", mapping.get(s)));
        }
    }
    let has_const = sx_has_const(&ast);
    let expr = quiet(|| LogicalExpr::from_sexpr(&parsed));
    if expr.is_none() != has_const {
        fails.push(format!("from_sexpr {} (constants present: {has_const})", if expr.is_none() { "panicked" } else { "succeeded" }));
    }
    let nn = pairs.len();
    let expr_s = match &expr {
        None => "PANIC".to_string(),
        Some(e) => {
            // oracle: for every assignment of the names, own evaluation of the AST = eval of the
            // result under "label i := value of the name of rank i"
            let mut sorted: Vec<String> = distinct.iter().cloned().collect();
            sorted.sort_by(|a, b| if bytes_lt(a, b) { std::cmp::Ordering::Less } else if bytes_lt(b, a) { std::cmp::Ordering::Greater } else { std::cmp::Ordering::Equal });
            for row in 0..1usize << nn {
                let env: HashMap<String, bool> = sorted.iter().enumerate().map(|(j, s)| (s.clone(), (row >> j) & 1 == 1)).collect();
                let vals: HashMap<VarLabel, bool> = (0..nn).map(|j| (VarLabel::new(j as u64), (row >> j) & 1 == 1)).collect();
                if e.eval(&vals) != sx_eval(&ast, &env) {
                    fails.push(format!("from_sexpr: under {env:?} the s-expression is {}, the result evaluates to {}", sx_eval(&ast, &env), e.eval(&vals)));
                    break;
                }
            }
            format!("{} tt={}", show_expr(e), expr_tt(e, 0, nn))
        }
    };
    st.bump(&format!("s_names={nn}"));
    if has_const { st.bump("s_with_constants") }
    let ms: Vec<String> = pairs.iter().map(|(k, v)| format!("{k}={v}")).collect();
    Outcome { result: format!("S map={} expr={expr_s}", ms.join(",")), fails, nontrivial: nn >= 2 && !has_const }
}

// ------------------------------------------------------------------ B
#[derive(Clone, Debug, PartialEq, Eq, Hash)]
enum P {
    T,
    F,
    Ptr(usize, bool),
    Lit(u64, bool),
}
/// canonical row numbering of a node table: rows are renumbered in the order in which a depth-first
/// walk from the root completes them (pointers of a row visited in the row's own order); rows the
/// root does not reach keep their relative order at the end.  The property fixes what a table
/// denotes and "children before parents", not the order of rows: the correspondence compares
/// tables modulo this renumbering.
fn canon_numbering(rows: &[Vec<P>], root: &P) -> Vec<usize> {
    let n = rows.len();
    let mut num: Vec<Option<usize>> = vec![None; n];
    let mut next = 0usize;
    fn visit(p: &P, rows: &[Vec<P>], num: &mut Vec<Option<usize>>, next: &mut usize, depth: usize) {
        if let P::Ptr(j, _) = p {
            if *j < rows.len() && num[*j].is_none() && depth < 100000 {
                num[*j] = Some(usize::MAX); // in progress (tables are acyclic; guards malformed ones)
                for q in &rows[*j] {
                    visit(q, rows, num, next, depth + 1);
                }
                num[*j] = Some(*next);
                *next += 1;
            }
        }
    }
    visit(root, rows, &mut num, &mut next, 0);
    for j in 0..n {
        if num[j].is_none() {
            num[j] = Some(next);
            next += 1;
        }
    }
    num.into_iter().map(|x| x.unwrap()).collect()
}
fn renum(p: &P, num: &[usize]) -> P {
    match p {
        P::Ptr(j, c) if *j < num.len() => P::Ptr(num[*j], *c),
        P::Ptr(j, c) => P::Ptr(*j, *c),
        P::T => P::T,
        P::F => P::F,
        P::Lit(l, b) => P::Lit(*l, *b),
    }
}

fn read_ptr(v: &Value) -> P {
    if let Some(s) = v.as_str() {
        return match s { "True" => P::T, "False" => P::F, _ => panic!("bad pointer {s}") };
    }
    let o = v.as_object().expect("pointer object");
    assert!(o.len() == 1);
    if let Some(p) = o.get("Ptr") {
        return P::Ptr(p["index"].as_u64().unwrap() as usize, p["compl"].as_bool().unwrap());
    }
    let l = o.get("Literal").expect("Ptr or Literal");
    P::Lit(l["label"].as_u64().unwrap(), l["polarity"].as_bool().unwrap())
}
fn show_ptr(p: &P) -> String {
    match p {
        P::T => "T".into(),
        P::F => "F".into(),
        P::Ptr(i, c) => format!("{}{i}", if *c { "~" } else { "" }),
        P::Lit(l, b) => format!("{}v{l}", if *b { "" } else { "!" }),
    }
}
/// reads {"nodes":[{"topvar","low","high"}],"roots":[ptr]} as a plain table
fn read_bdd_json(v: &Value) -> (Vec<(u64, P, P)>, P) {
    let nodes = v["nodes"].as_array().expect("nodes");
    let rows = nodes.iter().map(|n| (n["topvar"].as_u64().unwrap(), read_ptr(&n["low"]), read_ptr(&n["high"]))).collect();
    let roots = v["roots"].as_array().expect("roots");
    assert!(roots.len() == 1);
    (rows, read_ptr(&roots[0]))
}
/// evaluates a BDD table; None if a row points forward / out of range
fn eval_bdd_table(rows: &[(u64, P, P)], root: &P, a: usize) -> Option<bool> {
    let mut vals: Vec<bool> = vec![];
    let pv = |vals: &Vec<bool>, p: &P| -> Option<bool> {
        match p {
            P::T => Some(true),
            P::F => Some(false),
            P::Ptr(i, c) => vals.get(*i).map(|b| b ^ c),
            P::Lit(..) => None,
        }
    };
    for (v, l, h) in rows {
        let (bl, bh) = (pv(&vals, l)?, pv(&vals, h)?);
        vals.push(if (a >> v) & 1 == 1 { bh } else { bl });
    }
    pv(&vals, root)
}
fn count_nodes(p: BddPtr, seen: &mut HashSet<usize>) {
    if let BddPtr::Reg(n) | BddPtr::Compl(n) = p {
        if seen.insert(n as *const _ as usize) {
            count_nodes(n.low, seen);
            count_nodes(n.high, seen);
        }
    }
}

fn run_b(case: &str, st: &mut Stats) -> Outcome {
    let prog = bddprog::parse(case);
    let nv = prog.total_vars();
    let b = bddprog::AnyBuilder::new(&prog);
    let mut dummy = Stats::default();
    let pool = bddprog::exec(&b, &prog, &mut dummy);
    let mut out = vec![];
    let mut fails = vec![];
    let mut maxrows = 0;
    let mut shared = false;
    for (k, p) in pool.iter().enumerate() {
        let ser = BDDSerializer::from_bdd(*p);
        let js = serde_json::to_string(&ser).unwrap();
        let v: Value = serde_json::from_str(&js).unwrap();
        let (rows, root) = read_bdd_json(&v);
        // the library's own Deserialize must accept what Serialize wrote, and re-print it identically
        match serde_json::from_str::<BDDSerializer>(&js) {
            Ok(back) => {
                if serde_json::to_string(&back).unwrap() != js {
                    fails.push(format!("entry {k}: JSON -> BDDSerializer -> JSON is not the identity"));
                }
            }
            Err(e) => fails.push(format!("entry {k}: the library cannot read its own JSON: {e}")),
        }
        // oracle 1: same function
        for a in 0..1usize << nv {
            let got = eval_bdd_table(&rows, &root, a);
            if got != Some(bddprog::eval_ptr(*p, a)) {
                fails.push(format!("entry {k}: table evaluates to {got:?} under assignment {a:b}, the diagram to {}", bddprog::eval_ptr(*p, a)));
                break;
            }
        }
        // oracle 2: every node once, children before parents, as many rows as reachable nodes
        let distinct: HashSet<&(u64, P, P)> = rows.iter().collect();
        if distinct.len() != rows.len() {
            fails.push(format!("entry {k}: a row appears twice"));
        }
        for (i, (_, l, h)) in rows.iter().enumerate() {
            for c in [l, h] {
                if let P::Ptr(j, _) = c {
                    if *j >= i {
                        fails.push(format!("entry {k}: row {i} points to row {j}"));
                    }
                }
            }
        }
        let mut seen = HashSet::new();
        count_nodes(*p, &mut seen);
        if seen.len() != rows.len() {
            fails.push(format!("entry {k}: {} rows for {} reachable nodes", rows.len(), seen.len()));
        }
        // a row referenced more than once = a shared node
        let mut refs: HashMap<usize, usize> = HashMap::new();
        for (_, l, h) in &rows {
            for c in [l, h] {
                if let P::Ptr(j, _) = c {
                    *refs.entry(*j).or_insert(0) += 1;
                }
            }
        }
        if refs.values().any(|c| *c > 1) {
            shared = true;
        }
        if matches!(root, P::Ptr(_, true)) { st.bump("b_complemented_root") }
        if matches!(root, P::T | P::F) { st.bump("b_constant_root") }
        if rows.len() == 1 { st.bump("b_single_node") }
        if rows.iter().any(|(_, l, h)| matches!(l, P::Ptr(_, true)) || matches!(h, P::Ptr(_, true))) { st.bump("b_complemented_edge") }
        maxrows = maxrows.max(rows.len());
        let flat: Vec<Vec<P>> = rows.iter().map(|(_, l, h)| vec![renum(l, &[]), renum(h, &[])]).collect();
        let num = canon_numbering(&flat, &root);
        let mut order: Vec<usize> = (0..rows.len()).collect();
        order.sort_by_key(|j| num[*j]);
        let rs: Vec<String> = order.iter().map(|j| { let (v, l, h) = &rows[*j]; format!("{v},{},{}", show_ptr(&renum(l, &num)), show_ptr(&renum(h, &num))) }).collect();
        out.push(format!("{};{}", rs.join(" "), show_ptr(&renum(&root, &num))));
    }
    // diagrams from other producers of BddPtr (oracle only): top-down decision-DNNFs of a CNF
    // derived from the program (both stores; their nodes are not in ROBDD normal form: (v, T, F),
    // complemented high edges) and hand-built nodes; the JSON must denote what the pointer denotes
    {
        use rsdd::builder::decision_nnf::{DecisionNNFBuilder, SemanticDecisionNNFBuilder, StandardDecisionNNFBuilder};
        use rsdd::builder::TopDownBuilder;
        use rsdd::repr::{BddNode, Cnf, DDNNFPtr, Literal, VarLabel, VarOrder};
        let mut check_ptr = |what: &str, p: BddPtr, fails: &mut Vec<String>| {
            let js = serde_json::to_string(&BDDSerializer::from_bdd(p)).unwrap();
            let v: Value = serde_json::from_str(&js).unwrap();
            let (rows, root) = read_bdd_json(&v);
            for a in 0..1usize << nv.max(3) {
                let got = eval_bdd_table(&rows, &root, a);
                if got != Some(bddprog::eval_ptr(p, a)) {
                    fails.push(format!("{what}: table evaluates to {got:?} under assignment {a:b}, the diagram to {}", bddprog::eval_ptr(p, a)));
                    break;
                }
            }
        };
        // clauses read off the program: one per operation, over the variables it mentions
        let nvc = nv.max(3);
        let mut cls: Vec<Vec<Literal>> = vec![];
        for (k, op) in prog.ops.iter().enumerate() {
            let t = format!("{op:?}");
            let nums: Vec<u64> = t.split(|c: char| !c.is_ascii_digit()).filter(|x| !x.is_empty()).map(|x| x.parse::<u64>().unwrap() % nvc as u64).collect();
            if nums.is_empty() { continue; }
            let mut c: Vec<Literal> = vec![];
            for (j, v) in nums.iter().take(3).enumerate() {
                if !c.iter().any(|l| l.label().value() == *v) {
                    c.push(Literal::new(VarLabel::new(*v), (k + j + t.len()) % 2 == 0));
                }
            }
            cls.push(c);
            if cls.len() >= 6 { break; }
        }
        if !cls.is_empty() {
            let cnf = Cnf::new(&cls);
            let n2 = cnf.num_vars();
            let sb = StandardDecisionNNFBuilder::new(VarOrder::linear_order(n2));
            let d = sb.compile_cnf_topdown(&cnf);
            check_ptr("top-down (standard store) diagram", d, &mut fails);
            check_ptr("negated top-down (standard store) diagram", d.neg(), &mut fails);
            let mb = SemanticDecisionNNFBuilder::<{ rsdd::constants::primes::U64_LARGEST }>::new(VarOrder::linear_order(n2));
            let d2 = mb.compile_cnf_topdown(&cnf);
            check_ptr("top-down (semantic store) diagram", d2, &mut fails);
            st.bump("b_topdown_diagrams_serialised");
        }
        // hand-built nodes outside the normal form
        let n0 = BddNode::new(VarLabel::new(1), BddPtr::PtrTrue, BddPtr::PtrFalse);
        let n1 = BddNode::new(VarLabel::new(0), BddPtr::Compl(&n0), BddPtr::Reg(&n0));
        let n2 = BddNode::new(VarLabel::new(2), BddPtr::Reg(&n1), BddPtr::Compl(&n1));
        for (what, q) in [("(1 T F)", BddPtr::Reg(&n0)), ("!(1 T F)", BddPtr::Compl(&n0)), ("(0 !n0 n0)", BddPtr::Reg(&n1)), ("(2 n1 !n1)", BddPtr::Reg(&n2)), ("!(2 n1 !n1)", BddPtr::Compl(&n2))] {
            check_ptr(&format!("hand-built diagram {what}"), q, &mut fails);
        }
    }
    if shared { st.bump("b_cases_with_shared_nodes") }
    st.bump(&format!("b_maxrows={}", if maxrows < 3 { "0-2" } else if maxrows < 8 { "3-7" } else { "8+" }));
    fails.truncate(5);
    Outcome { result: format!("B {}", out.join(" | ")), fails, nontrivial: maxrows >= 3 }
}

// ------------------------------------------------------------------ X
fn addr(p: SddPtr) -> (u8, usize) {
    match p {
        SddPtr::PtrTrue => (0, 0),
        SddPtr::PtrFalse => (1, 0),
        SddPtr::Var(l, b) => (2, (l.value() as usize) * 2 + b as usize),
        SddPtr::BDD(b) => (3, b as *const _ as usize),
        SddPtr::ComplBDD(b) => (4, b as *const _ as usize),
        SddPtr::Reg(o) => (5, o as *const _ as usize),
        SddPtr::Compl(o) => (6, o as *const _ as usize),
    }
}
/// truth table by walking the in-memory nodes (never the library's evaluation)
fn sdd_tt(p: SddPtr, memo: &mut HashMap<(u8, usize), TT>, masks: &[TT]) -> TT {
    if let Some(x) = memo.get(&addr(p)) {
        return *x;
    }
    let r = match p {
        SddPtr::PtrTrue => !0,
        SddPtr::PtrFalse => 0,
        SddPtr::Var(l, b) => {
            let m = masks[l.value() as usize];
            if b { m } else { !m }
        }
        SddPtr::BDD(b) | SddPtr::ComplBDD(b) => {
            let m = masks[b.label().value() as usize];
            let lo = sdd_tt(b.low(), memo, masks);
            let hi = sdd_tt(b.high(), memo, masks);
            let x = (m & hi) | (!m & lo);
            if matches!(p, SddPtr::ComplBDD(_)) { !x } else { x }
        }
        SddPtr::Reg(o) | SddPtr::Compl(o) => {
            let mut x: TT = 0;
            for a in o.iter() {
                x |= sdd_tt(a.prime(), memo, masks) & sdd_tt(a.sub(), memo, masks);
            }
            if matches!(p, SddPtr::Compl(_)) { !x } else { x }
        }
    };
    memo.insert(addr(p), r);
    r
}
fn count_sdd_nodes(p: SddPtr, seen: &mut HashSet<usize>) {
    match p {
        SddPtr::BDD(b) | SddPtr::ComplBDD(b) => {
            if seen.insert(b as *const _ as usize) {
                count_sdd_nodes(b.low(), seen);
                count_sdd_nodes(b.high(), seen);
            }
        }
        SddPtr::Reg(o) | SddPtr::Compl(o) => {
            if seen.insert(o as *const _ as usize) {
                for a in o.iter() {
                    count_sdd_nodes(a.prime(), seen);
                    count_sdd_nodes(a.sub(), seen);
                }
            }
        }
        _ => {}
    }
}
/// reads {"nodes":[[{"prime","sub"}]],"roots":[ptr]}
fn read_sdd_json(v: &Value) -> (Vec<Vec<(P, P)>>, P) {
    let nodes = v["nodes"].as_array().expect("nodes");
    let rows = nodes.iter().map(|n| n.as_array().expect("or-node").iter().map(|a| (read_ptr(&a["prime"]), read_ptr(&a["sub"]))).collect()).collect();
    let roots = v["roots"].as_array().expect("roots");
    assert!(roots.len() == 1);
    (rows, read_ptr(&roots[0]))
}
fn eval_sdd_table(rows: &[Vec<(P, P)>], root: &P, masks: &[TT]) -> Option<TT> {
    let mut vals: Vec<TT> = vec![];
    let pv = |vals: &Vec<TT>, p: &P| -> Option<TT> {
        match p {
            P::T => Some(!0),
            P::F => Some(0),
            P::Lit(l, b) => Some(if *b { masks[*l as usize] } else { !masks[*l as usize] }),
            P::Ptr(i, c) => vals.get(*i).map(|x| if *c { !*x } else { *x }),
        }
    };
    for r in rows {
        let mut x: TT = 0;
        for (p, s) in r {
            x |= pv(&vals, p)? & pv(&vals, s)?;
        }
        vals.push(x);
    }
    pv(&vals, root)
}

fn run_x(case: &str, st: &mut Stats) -> Outcome {
    let t = toks(case);
    let compress = t[0] == "1";
    let mut i = 1;
    let vt = vt_parse(&t, &mut i);
    assert!(i == t.len() || t[i] == ";");
    i += 1;
    let mut builder = CompressionSddBuilder::new(vt_rsdd(&vt));
    if !compress {
        builder.set_compression(false);
    }
    let builder = &builder;
    let masks: Vec<TT> = (0..NV).map(var_mask).collect();
    let mut pool: Vec<SddPtr> = vec![];
    let ix = |s: &str| -> usize { s.parse().unwrap() };
    while i < t.len() {
        let (r, adv): (SddPtr, usize) = match t[i] {
            "t" => (SddPtr::PtrTrue, 1),
            "f" => (SddPtr::PtrFalse, 1),
            "v" => (builder.var(VarLabel::new(ix(t[i + 1]) as u64), t[i + 2] == "1"), 3),
            "n" => (builder.negate(pool[ix(t[i + 1])]), 2),
            "a" => (builder.and(pool[ix(t[i + 1])], pool[ix(t[i + 2])]), 3),
            "o" => (builder.or(pool[ix(t[i + 1])], pool[ix(t[i + 2])]), 3),
            "x" => (builder.xor(pool[ix(t[i + 1])], pool[ix(t[i + 2])]), 3),
            "q" => (builder.iff(pool[ix(t[i + 1])], pool[ix(t[i + 2])]), 3),
            "i" => (builder.ite(pool[ix(t[i + 1])], pool[ix(t[i + 2])], pool[ix(t[i + 3])]), 4),
            "c" => (builder.condition(pool[ix(t[i + 1])], VarLabel::new(ix(t[i + 2]) as u64), t[i + 3] == "1"), 4),
            "e" => (builder.exists(pool[ix(t[i + 1])], VarLabel::new(ix(t[i + 2]) as u64)), 3),
            _ => panic!("bad op"),
        };
        pool.push(r);
        i += adv;
    }
    let mut memo = HashMap::new();
    let mut out = vec![];
    let mut fails = vec![];
    let mut maxrows = 0;
    let mut general = false;
    for (k, p) in pool.iter().enumerate() {
        let ser = SDDSerializer::from_sdd(*p);
        let js = serde_json::to_string(&ser).unwrap();
        let v: Value = serde_json::from_str(&js).unwrap();
        let (rows, root) = read_sdd_json(&v);
        match serde_json::from_str::<SDDSerializer>(&js) {
            Ok(back) => {
                if serde_json::to_string(&back).unwrap() != js {
                    fails.push(format!("entry {k}: JSON -> SDDSerializer -> JSON is not the identity"));
                }
            }
            Err(e) => fails.push(format!("entry {k}: the library cannot read its own JSON: {e}")),
        }
        let want = sdd_tt(*p, &mut memo, &masks);
        let got = eval_sdd_table(&rows, &root, &masks);
        if got != Some(want) {
            fails.push(format!("entry {k}: table denotes {got:x?}, the in-memory SDD {want:032x}"));
        }
        for (i, r) in rows.iter().enumerate() {
            for (a, b) in r {
                for c in [a, b] {
                    if let P::Ptr(j, _) = c {
                        if *j >= i {
                            fails.push(format!("entry {k}: row {i} points to row {j}"));
                        }
                    }
                }
            }
        }
        let mut seen = HashSet::new();
        count_sdd_nodes(*p, &mut seen);
        if seen.len() != rows.len() {
            fails.push(format!("entry {k}: {} rows for {} reachable nodes", rows.len(), seen.len()));
        }
        if matches!(root, P::Ptr(_, true)) { st.bump("x_complemented_root") }
        if matches!(root, P::Lit(..)) { st.bump("x_literal_root") }
        if matches!(root, P::T | P::F) { st.bump("x_constant_root") }
        if matches!(p, SddPtr::Reg(_) | SddPtr::Compl(_)) { general = true }
        maxrows = maxrows.max(rows.len());
        let flat: Vec<Vec<P>> = rows.iter().map(|r| r.iter().flat_map(|(a, b)| [renum(a, &[]), renum(b, &[])]).collect()).collect();
        let num = canon_numbering(&flat, &root);
        let mut order: Vec<usize> = (0..rows.len()).collect();
        order.sort_by_key(|j| num[*j]);
        let rs: Vec<String> = order.iter().map(|j| rows[*j].iter().map(|(a, b)| format!("{}:{}", show_ptr(&renum(a, &num)), show_ptr(&renum(b, &num)))).collect::<Vec<_>>().join("+")).collect();
        if compress {
            out.push(format!("{};{}", rs.join(" "), show_ptr(&renum(&root, &num))));
        } else {
            // the shape of an uncompressed SDD is not fixed by any property (it depends on the order
            // in which apply meets elements): only what the table DENOTES is compared there
            let tt = got.unwrap_or(0);
            out.push(format!("tt:{}", (0..(1usize << NV)).map(|a| if (tt >> a) & 1 == 1 { '1' } else { '0' }).collect::<String>()));
        }
    }
    if general { st.bump("x_cases_with_general_nodes") }
    st.bump(&format!("x_maxrows={}", if maxrows < 2 { "0-1" } else if maxrows < 5 { "2-4" } else { "5+" }));
    st.bump(if compress { "x_compression_on" } else { "x_compression_off" });
    fails.truncate(5);
    Outcome { result: format!("X {}", out.join(" | ")), fails, nontrivial: maxrows >= 2 }
}

// ------------------------------------------------------------------ V
fn read_vtree_json(v: &Value) -> VT {
    let o = v.as_object().expect("vtree object");
    assert!(o.len() == 1);
    if let Some(l) = o.get("Leaf") {
        return VT::L(l.as_u64().unwrap());
    }
    let n = o.get("Node").expect("Leaf or Node");
    VT::N(Box::new(read_vtree_json(&n["left"])), Box::new(read_vtree_json(&n["right"])))
}
fn run_v(case: &str, st: &mut Stats) -> Outcome {
    let t = toks(case);
    let mut i = 0;
    let vt = vt_parse(&t, &mut i);
    let ser = VTreeSerializer::from_vtree(&vt_rsdd(&vt));
    let js = serde_json::to_string(&ser).unwrap();
    let v: Value = serde_json::from_str(&js).unwrap();
    let back = read_vtree_json(&v["root"]);
    let mut fails = vec![];
    if back != vt {
        fails.push(format!("the JSON describes {}, the vtree is {}", vt_text(&back), vt_text(&vt)));
    }
    match serde_json::from_str::<VTreeSerializer>(&js) {
        Ok(b) => {
            if serde_json::to_string(&b).unwrap() != js {
                fails.push("JSON -> VTreeSerializer -> JSON is not the identity".to_string());
            }
        }
        Err(e) => fails.push(format!("the library cannot read its own JSON: {e}")),
    }
    let leaves = t.iter().filter(|x| **x == "L").count();
    st.bump(&format!("v_leaves={}", if leaves < 3 { "1-2" } else if leaves < 7 { "3-6" } else { "7+" }));
    Outcome { result: format!("V {}", vt_text(&back)), fails, nontrivial: leaves >= 3 }
}
