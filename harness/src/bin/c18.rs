//! C18: the C ABI is a faithful wrapper of the Rust operations.
//! case:  a BDD program restricted to the C API's operations (linear order, cache-everything),
//!        then  K (<w_lo> <w_hi>)*total   integer weights for the counts
//!   ops:  t | f | v <var> <pol> | N <pol> | n <i> | a <i> <j> | o <i> <j> | i <i> <j> <k> | p <i> <var> <j>
//! Every operation is executed through the exported C symbols (linked from the rlib, feature
//! `ffi`) on one manager and through the native API on a second manager.
//! out:  per pool entry, the expanded unfolding read back through bdd_topvar/bdd_low/bdd_high/
//!       bdd_is_*; identity classes under bdd_eq; model counts; real weighted counts.
//! oracle: C vs native on every observable (eq matrix, top variable, children, is_* flags,
//!       count_nodes, model_count, real / complex / polynomial counts, JSON node table);
//!       truth tables vs the specification program; model_count = popcount.
use rsdd::repr::{BddPtr, DDNNFPtr, VarLabel, WmcParams};
use rsdd::util::semirings::{Complex, Polynomial, RealSemiring, Semiring};
use rsdd_verif_harness::bddprog::*;
use rsdd_verif_harness::*;
use std::collections::HashMap;
use std::ffi::{c_char, c_void, CStr};

type P = *mut c_void;
extern "C" {
    fn mk_bdd_manager_default_order(num_vars: u64) -> P;
    fn free_bdd_manager(mgr: P);
    fn bdd_var(b: P, label: u64, polarity: bool) -> P;
    fn bdd_new_var(b: P, polarity: bool) -> P;
    fn bdd_ite(b: P, f: P, g: P, h: P) -> P;
    fn bdd_and(b: P, l: P, r: P) -> P;
    fn bdd_or(b: P, l: P, r: P) -> P;
    fn bdd_negate(b: P, f: P) -> P;
    fn bdd_compose(b: P, f: P, l: u64, g: P) -> P;
    fn bdd_true(b: P) -> P;
    fn bdd_false(b: P) -> P;
    fn bdd_eq(b: P, l: P, r: P) -> bool;
    fn bdd_is_true(f: P) -> bool;
    fn bdd_is_false(f: P) -> bool;
    fn bdd_is_const(f: P) -> bool;
    fn bdd_count_nodes(f: P) -> usize;
    fn bdd_topvar(f: P) -> u64;
    fn bdd_low(f: P) -> P;
    fn bdd_high(f: P) -> P;
    fn robdd_model_count(b: P, f: P) -> u64;
    fn bdd_to_json(f: P) -> *const c_char;
    fn new_wmc_params_f64() -> P;
    fn free_wmc_params_f64(w: P);
    fn wmc_param_f64_set_weight(w: P, var: u64, low: f64, high: f64);
    fn bdd_wmc(f: P, w: P) -> f64;
    fn new_wmc_params_complex() -> P;
    fn free_wmc_params_complex(w: P);
    fn wmc_param_complex_set_weight(w: P, var: u64, low: Complex, high: Complex);
    fn bdd_wmc_complex(f: P, w: P) -> Complex;
    fn new_wmc_params_poly() -> P;
    fn destroy_wmc_params_poly(w: P);
    fn wmc_param_poly_set_weight(w: P, var: u64, lc: *const f64, ll: usize, hc: *const f64, hl: usize);
    fn bdd_wmc_poly(f: P, w: P) -> P;
    fn polynomial_len(p: P) -> usize;
    fn polynomial_get_coeffs(p: P, buf: *mut f64, max_len: usize) -> usize;
    fn destroy_polynomial(p: P);
    fn new_polynomial(coeffs: *const f64, len: usize) -> P;
    fn wmc_param_f64_var_weight(w: P, var: u64) -> WeightF64;
    fn weight_f64_lo(w: WeightF64) -> f64;
    fn weight_f64_hi(w: WeightF64) -> f64;
    fn wmc_param_complex_var_weight(w: P, var: u64) -> WeightComplex;
    fn weight_complex_lo(w: WeightComplex) -> Complex;
    fn weight_complex_hi(w: WeightComplex) -> Complex;
    fn wmc_param_poly_var_weight(w: P, var: u64) -> WeightPoly;
    fn bdd_new_label(b: P) -> u64;
    fn bdd_scratch(f: P, default: usize) -> usize;
    fn bdd_set_scratch(f: P, val: usize);
    fn bdd_clear_scratch(f: P);
    fn print_bdd(f: P) -> *const c_char;
    fn bdd_num_recursive_calls(b: P) -> usize;
    // CNF / order / dtree / vtree / decision-DNNF / SDD wrappers
    fn literal_new(label: u64, polarity: bool) -> u64;
    fn cnf_new(clauses: *const CClause, len: usize) -> P;
    fn cnf_from_dimacs(text: *const c_char) -> P;
    fn cnf_min_fill_order(cnf: P) -> P;
    fn var_order_new(order: *const u64, len: usize) -> P;
    fn var_order_linear(num_vars: usize) -> P;
    fn robdd_builder_all_table(order: P) -> P;
    fn robdd_builder_compile_cnf(builder: P, cnf: P) -> P;
    fn ddnnf_builder_new(order: P) -> P;
    fn ddnnf_builder_compile_cnf_topdown(builder: P, cnf: P) -> P;
    fn dtree_from_cnf(cnf: P, order: P) -> P;
    fn vtree_from_dtree(dtree: P) -> P;
    fn sdd_builder_new(vtree: P) -> P;
    fn sdd_builder_compile_cnf(builder: P, cnf: P) -> P;
    fn sdd_wmc(sdd: P, wmc: P) -> f64;
}
#[repr(C)]
#[derive(Clone, Copy)]
struct WeightF64(f64, f64);
#[repr(C)]
#[derive(Clone, Copy)]
struct WeightComplex(Complex, Complex);
#[repr(C)]
struct WeightPoly {
    low: P,
    high: P,
}
#[repr(C)]
struct CClause {
    vars: *mut u64,
    len: usize,
}

pub const PROP: Prop = Prop { gen, run, panic_ok: never };

fn main() {
    run_main(PROP)
}

/// polynomial weights with UNEQUAL low / high lengths (1..3 coefficients), and for one variable in
/// four a long one (32 or 33 coefficients, the last ones non-zero) to reach the truncation limit
fn poly_weight(v: usize, w: (f64, f64)) -> (Vec<f64>, Vec<f64>) {
    let lo: Vec<f64> = match v % 3 { 0 => vec![w.0], 1 => vec![w.0, 1.0], _ => vec![w.0, 0.0, 1.0] };
    let mut hi: Vec<f64> = match v % 3 { 0 => vec![w.1, w.0], 1 => vec![w.1], _ => vec![w.1, 1.0] };
    if v % 4 == 3 {
        hi = vec![0.0; 32 + (v % 2)];
        hi[0] = w.1;
        hi[31] = 1.0;
        if hi.len() > 32 { hi[32] = 2.0; }
    }
    (lo, hi)
}

pub fn gen(rng: &mut Rng, idx: usize, n: usize, thorough: bool) -> String {
    if idx % 4 == 3 {
        // CNF pipeline through the C API: cnf_new / cnf_from_dimacs, orders, BDD / decision-DNNF / SDD compilation
        use rsdd_verif_harness::exprs::*;
        let frac = (idx * 100) / n.max(1);
        let nv = 2 + (frac * if thorough { 4 } else { 3 }) / 100;
        let c = gen_cnf(rng, nv, 2 + frac / 25, true);
        let mut s = format!("F {} {nv}", rng.below(3));
        cnf_str(&c, &mut s);
        for v in rng.perm(nv) { s.push_str(&format!(" {v}")); }
        for _ in 0..nv { s.push_str(&format!(" {}", rng.below(9))); }
        return s;
    }
    let frac = (idx * 100) / n.max(1);
    let maxv = if thorough { 7 } else { 5 };
    let nvars = (1 + (frac * (maxv - 1)) / 100 + rng.range(0, 1)).min(maxv);
    let mut s = format!("{nvars}");
    for v in 0..nvars { s.push_str(&format!(" {v}")); }
    s.push_str(" a 0");
    let nops = 3 + (frac * if thorough { 40 } else { 20 }) / 100 + rng.range(0, 4);
    let (mut pool, mut cur, mut newleft) = (0usize, nvars, rng.range(0, 2));
    for k in 0..nops {
        let pick = |rng: &mut Rng, pool: usize| if rng.coin() && pool > 3 { pool - 1 - rng.range(0, 2) } else { rng.below(pool as u64) as usize };
        if pool < 2 || (k < nvars && rng.chance(2, 3)) {
            s.push_str(&format!(" v {} {}", rng.below(cur as u64), rng.coin() as u8));
        } else {
            match rng.below(20) {
                0 => s.push_str(" t"),
                1 => s.push_str(" f"),
                2 | 3 => s.push_str(&format!(" v {} {}", rng.below(cur as u64), rng.coin() as u8)),
                4 | 5 => s.push_str(&format!(" n {}", pick(rng, pool))),
                6..=9 => s.push_str(&format!(" a {} {}", pick(rng, pool), pick(rng, pool))),
                10..=13 => s.push_str(&format!(" o {} {}", pick(rng, pool), pick(rng, pool))),
                14..=16 => s.push_str(&format!(" i {} {} {}", pick(rng, pool), pick(rng, pool), pick(rng, pool))),
                17 | 18 => s.push_str(&format!(" p {} {} {}", pick(rng, pool), rng.below(cur as u64), pick(rng, pool))),
                _ => if newleft > 0 { newleft -= 1; cur += 1; s.push_str(&format!(" N {}", rng.coin() as u8)) } else { s.push_str(&format!(" n {}", pick(rng, pool))) },
            }
        }
        pool += 1;
    }
    s.push_str(" K");
    for _ in 0..cur { s.push_str(&format!(" {} {}", rng.below(6), rng.below(6))); }
    s
}

/// expanded unfolding through the C accessors (children complement-adjusted by low()/high())
unsafe fn c_unfold(f: P, out: &mut String, tt: &mut dyn FnMut(u64, bool, bool)) {
    if bdd_is_true(f) { out.push('T'); return; }
    if bdd_is_false(f) { out.push('F'); return; }
    let v = bdd_topvar(f);
    let (l, h) = (bdd_low(f), bdd_high(f));
    tt(v, bdd_is_const(l), bdd_is_const(h));
    out.push_str(&format!("({v} "));
    c_unfold(l, out, tt);
    out.push(' ');
    c_unfold(h, out, tt);
    out.push(')');
    drop(Box::from_raw(l as *mut BddPtr<'static>));
    drop(Box::from_raw(h as *mut BddPtr<'static>));
}
fn n_unfold(p: BddPtr, out: &mut String) {
    match p {
        BddPtr::PtrTrue => out.push('T'),
        BddPtr::PtrFalse => out.push('F'),
        _ => { out.push_str(&format!("({} ", p.var_safe().unwrap().value())); n_unfold(p.low(), out); out.push(' '); n_unfold(p.high(), out); out.push(')') }
    }
}
unsafe fn c_eval(f: P, a: usize) -> bool {
    // f is a Box<BddPtr>; evaluate through the C accessors
    if bdd_is_true(f) { return true; }
    if bdd_is_false(f) { return false; }
    let v = bdd_topvar(f);
    let c = if (a >> v) & 1 == 1 { bdd_high(f) } else { bdd_low(f) };
    let r = c_eval(c, a);
    drop(Box::from_raw(c as *mut BddPtr<'static>));
    r
}
fn json_eval(js: &serde_json::Value, ptr: &serde_json::Value, a: usize) -> bool {
    if ptr == "True" { return true; }
    if ptr == "False" { return false; }
    let p = &ptr["Ptr"];
    let node = &js["nodes"][p["index"].as_u64().unwrap() as usize];
    let v = node["topvar"].as_u64().unwrap();
    let r = json_eval(js, if (a >> v) & 1 == 1 { &node["high"] } else { &node["low"] }, a);
    r != p["compl"].as_bool().unwrap()
}

/// F <order kind> <nv> <cnf> <perm>*nv <hi8>*nv : the CNF-side wrappers
fn run_cnf_pipeline(case: &str, st: &mut Stats) -> Outcome {
    use rsdd::builder::sdd::CompressionSddBuilder;
    use rsdd::builder::BottomUpBuilder as _;
    use rsdd::repr::{Cnf, DTree, SddPtr, VTree, VarOrder};
    use rsdd_verif_harness::exprs::*;
    use rsdd_verif_harness::sddprog::sdd_eval;
    let t = toks(case);
    let okind: usize = t[1].parse().unwrap();
    let nv: usize = t[2].parse().unwrap();
    let mut i = 3;
    let raw = cnf_parse(&t, &mut i);
    let perm: Vec<u64> = (0..nv).map(|j| t[i + j].parse().unwrap()).collect();
    let hi8: Vec<f64> = (0..nv).map(|j| t[i + nv + j].parse::<f64>().unwrap() / 8.0).collect();
    let tt: Vec<bool> = (0..(1usize << nv)).map(|a| cnf_eval(&raw, a)).collect();
    let mut fails = vec![];
    let native_cnf = to_cnf(&raw);
    unsafe {
        // the same CNF through cnf_new (array of C clauses of literal_new words)
        let mk_cnf = || -> P {
            let mut words: Vec<Vec<u64>> = raw.iter().map(|c| c.iter().map(|(v, p)| literal_new(*v, *p)).collect()).collect();
            let cls: Vec<CClause> = words.iter_mut().map(|w| CClause { vars: w.as_mut_ptr(), len: w.len() }).collect();
            cnf_new(cls.as_ptr(), cls.len())
        };
        let c1 = mk_cnf();
        if (*(c1 as *const Cnf)).clauses() != native_cnf.clauses() || (*(c1 as *const Cnf)).num_vars() != native_cnf.num_vars() {
            fails.push("cnf_new builds a different CNF than Cnf::new on the same clauses".to_string());
        }
        // ... and through cnf_from_dimacs
        let mut text = format!("p cnf {nv} {}\n", raw.len());
        for cl in &raw { for (v, p) in cl { text.push_str(&format!("{}{} ", if *p { "" } else { "-" }, v + 1)); } text.push_str("0\n"); }
        let ctext = std::ffi::CString::new(text).unwrap();
        let c2 = cnf_from_dimacs(ctext.as_ptr());
        if (*(c2 as *const Cnf)).clauses() != native_cnf.clauses() {
            fails.push("cnf_from_dimacs parses a different CNF than the clauses printed".to_string());
        }
        let cnv = (*(c1 as *const Cnf)).num_vars();
        // orders
        let mk_order = |kind: usize| -> P {
            match kind { 0 => var_order_linear(cnv), 1 => cnf_min_fill_order(c1), _ => { let p: Vec<u64> = perm.iter().cloned().filter(|v| (*v as usize) < cnv).collect(); var_order_new(p.as_ptr(), p.len()) } }
        };
        let o1 = mk_order(okind);
        let native_order: VarOrder = (*(o1 as *const VarOrder)).clone();
        if okind == 1 && format!("{}", native_cnf.min_fill_order()) != format!("{native_order}") {
            fails.push("cnf_min_fill_order differs from the native min-fill order".to_string());
        }
        // BDD compilation (consumes the order and a CNF)
        let bb = robdd_builder_all_table(o1);
        let bd = robdd_builder_compile_cnf(bb, mk_cnf());
        // the manager must use exactly the order it was given: same shape as a native builder
        // over the same order
        {
            use rsdd::builder::bdd::RobddBuilder;
            use rsdd::builder::cache::AllIteTable;
            let nbld: RobddBuilder<AllIteTable<BddPtr>> = RobddBuilder::new(match okind {
                0 => VarOrder::linear_order(cnv),
                1 => native_cnf.min_fill_order(),
                _ => VarOrder::new(&perm.iter().cloned().filter(|v| (*v as usize) < cnv).map(VarLabel::new).collect::<Vec<_>>()),
            });
            let nd = nbld.compile_cnf(&native_cnf);
            let (mut cu, mut nu) = (String::new(), String::new());
            c_unfold(bd, &mut cu, &mut |_, _, _| {});
            n_unfold(nd, &mut nu);
            if cu != nu { fails.push(format!("robdd_builder_compile_cnf on a manager from order kind {okind} gives the diagram {cu}, a native builder over the same order gives {nu}")); }
        }
        let btab: Vec<bool> = (0..(1usize << nv)).map(|a| c_eval(bd, a)).collect();
        if btab != tt { fails.push("robdd_builder_compile_cnf: the diagram read through the C accessors denotes a different function than the CNF".to_string()); }
        // model counts on a manager whose order is not the identity: the compiled diagram, its
        // children, and every literal (one skipped level above or below the tested variable)
        {
            let pop = |f: &dyn Fn(usize) -> bool| (0..(1usize << cnv)).filter(|a| f(*a)).count() as u64;
            let mc = robdd_model_count(bb, bd);
            if mc != pop(&|a| tt[a]) { fails.push(format!("robdd_model_count on the manager with order {native_order} = {mc}, the CNF has {} models over its {cnv} variables", pop(&|a| tt[a]))); }
            if !bdd_is_const(bd) {
                for ch in [bdd_low(bd), bdd_high(bd)] {
                    let mc = robdd_model_count(bb, ch);
                    let want = pop(&|a| c_eval(ch, a));
                    if mc != want { fails.push(format!("robdd_model_count of a child of the compiled diagram (order {native_order}) = {mc}, it has {want} models")); }
                }
            }
            for v in 0..cnv {
                let l = bdd_var(bb, v as u64, v % 2 == 0);
                let mc = robdd_model_count(bb, l);
                if mc != 1u64 << (cnv - 1) { fails.push(format!("robdd_model_count of the literal of variable {v} (order {native_order}) = {mc}, expected {}", 1u64 << (cnv - 1))); }
                let g = bdd_and(bb, l, bd);
                let (mg, want) = (robdd_model_count(bb, g), pop(&|a| tt[a] && (((a >> v) & 1 == 1) == (v % 2 == 0))));
                if mg != want { fails.push(format!("robdd_model_count(literal {v} and CNF) = {mg}, expected {want}")); }
            }
        }
        // cnf_new with an empty clause among the others (len 0, non-null pointer): the CNF is
        // unsatisfiable, exactly as Cnf::new on the same clause list
        {
            let mut raw2 = raw.clone();
            raw2.insert(raw.len() / 2, vec![]);
            let mut words: Vec<Vec<u64>> = raw2.iter().map(|c| c.iter().map(|(v, p)| literal_new(*v, *p)).collect()).collect();
            let cls: Vec<CClause> = words.iter_mut().map(|w| CClause { vars: if w.is_empty() { std::ptr::NonNull::<u64>::dangling().as_ptr() } else { w.as_mut_ptr() }, len: w.len() }).collect();
            let ce = cnf_new(cls.as_ptr(), cls.len());
            let ne = to_cnf(&raw2);
            if (*(ce as *const Cnf)).clauses() != ne.clauses() || (*(ce as *const Cnf)).num_vars() != ne.num_vars() {
                fails.push("cnf_new on a clause list with an empty clause builds a different CNF than Cnf::new".to_string());
            }
            let be = robdd_builder_all_table(var_order_linear(ne.num_vars().max(1)));
            let de = robdd_builder_compile_cnf(be, ce);
            if !bdd_is_false(de) { fails.push("a CNF with an empty clause built by cnf_new does not compile to false".to_string()); }
        }
        // decision-DNNF (consumes an order)
        let db = ddnnf_builder_new(mk_order(okind));
        let dd = ddnnf_builder_compile_cnf_topdown(db, c1);
        if (0..(1usize << nv)).any(|a| c_eval(dd, a) != tt[a]) { fails.push("ddnnf_builder_compile_cnf_topdown: the diagram denotes a different function than the CNF".to_string()); }
        // dtree -> vtree -> SDD -> sdd_wmc
        let o3 = mk_order(okind);
        let dt = dtree_from_cnf(c1, o3);
        let vt = vtree_from_dtree(dt);
        let native_vt = VTree::from_dtree(&DTree::from_cnf(&native_cnf, &native_order));
        if vt.is_null() != native_vt.is_none() { fails.push("vtree_from_dtree null-ness differs from the native Option".to_string()); }
        if !vt.is_null() {
            let leaves_c: Vec<usize> = { let mut l: Vec<usize> = (*(vt as *const VTree)).all_vars().into_iter().collect(); l.sort(); l };
            let occurring: Vec<usize> = { let mut l: Vec<usize> = raw.iter().flatten().map(|(v, _)| *v as usize).collect(); l.sort(); l.dedup(); l };
            if leaves_c != occurring { fails.push("the vtree from vtree_from_dtree does not have exactly the CNF's variables as leaves".to_string()); }
            // a CNF over exactly the vtree's variables is needed by the SDD builder: only when every variable below num_vars occurs
            if occurring.len() == cnv {
                let sb = sdd_builder_new(vt);
                let sp = sdd_builder_compile_cnf(sb, c1);
                let sptr: SddPtr<'static> = *(sp as *const SddPtr<'static>);
                if (0..(1usize << nv)).any(|a| sdd_eval(sptr, a & ((1 << cnv) - 1)) != tt[a]) { fails.push("sdd_builder_compile_cnf: the SDD denotes a different function than the CNF".to_string()); }
                let w = new_wmc_params_f64();
                for v in 0..cnv { wmc_param_f64_set_weight(w, v as u64, 1.0 - hi8[v], hi8[v]); }
                let got = sdd_wmc(sp, w);
                let mut brute = 0.0f64;
                for a in 0..(1usize << cnv) { if tt[a] { brute += (0..cnv).map(|v| if (a >> v) & 1 == 1 { hi8[v] } else { 1.0 - hi8[v] }).product::<f64>(); } }
                if got != brute { fails.push(format!("sdd_wmc = {got}, the weighted sum over models is {brute}")); }
                free_wmc_params_f64(w);
                st.bump("capi_sdd_pipeline");
            }
        }
        st.bump("capi_cnf_pipeline");
        let _ = CompressionSddBuilder::new(VTree::new_leaf(VarLabel::new(0)));
        Outcome { result: { let mut h = String::new(); for ch in btab.chunks(4) { let mut d = 0; for (k, b) in ch.iter().enumerate() { if *b { d |= 1 << k } } h.push_str(&format!("{d:x}")); } h }, fails, nontrivial: raw.len() >= 2 }
    }
}

pub fn run(case: &str, st: &mut Stats) -> Outcome {
    if case.starts_with("F ") {
        return run_cnf_pipeline(case, st);
    }
    let prog = parse(case);
    let total = prog.total_vars();
    assert!(prog.rest[0] == "K");
    let w: Vec<(f64, f64)> = (0..total).map(|v| (prog.rest[1 + 2 * v].parse().unwrap(), prog.rest[2 + 2 * v].parse().unwrap())).collect();
    let spec = spec_tables(&prog);
    // native manager
    let nb = AnyBuilder::new(&prog);
    let mut dummy = Stats::default();
    let npool = exec(&nb, &prog, &mut dummy);
    let mut fails = vec![];
    let mut line = String::new();
    unsafe {
        let m = mk_bdd_manager_default_order(prog.nvars as u64);
        let mut cpool: Vec<P> = vec![];
        for op in &prog.ops {
            let g = |i: &usize| cpool[*i];
            let r = match op {
                Op::Const(true) => bdd_true(m),
                Op::Const(false) => bdd_false(m),
                Op::Var(v, p) => bdd_var(m, *v, *p),
                Op::NewVar(p) => bdd_new_var(m, *p),
                Op::Neg(i) => bdd_negate(m, g(i)),
                Op::And(i, j) => bdd_and(m, g(i), g(j)),
                Op::Or(i, j) => bdd_or(m, g(i), g(j)),
                Op::Ite(i, j, k) => bdd_ite(m, g(i), g(j), g(k)),
                Op::Compose(i, v, j) => bdd_compose(m, g(i), *v, g(j)),
                _ => panic!("operation not in the C API"),
            };
            cpool.push(r);
        }
        let wr = new_wmc_params_f64();
        let wc = new_wmc_params_complex();
        let wp = new_wmc_params_poly();
        for v in 0..total {
            wmc_param_f64_set_weight(wr, v as u64, w[v].0, w[v].1);
            wmc_param_complex_set_weight(wc, v as u64, Complex { re: w[v].0, im: w[v].1 }, Complex { re: w[v].1, im: -w[v].0 });
            let (lc, hc) = poly_weight(v, w[v]);
            wmc_param_poly_set_weight(wp, v as u64, lc.as_ptr(), lc.len(), hc.as_ptr(), hc.len());
        }
        // weights read back through the C getters (struct by value, field accessors, heap copies)
        let coeffs_of = |q: P| -> Vec<f64> { let mut buf = vec![0.0f64; 40]; let k = polynomial_get_coeffs(q, buf.as_mut_ptr(), 40); buf.truncate(k); buf };
        for v in 0..total {
            let wf = wmc_param_f64_var_weight(wr, v as u64);
            if wf.0 != w[v].0 || wf.1 != w[v].1 || weight_f64_lo(wf) != w[v].0 || weight_f64_hi(wf) != w[v].1 {
                fails.push(format!("wmc_param_f64_var_weight({v}) / weight_f64_lo/hi give ({}, {}), set_weight stored ({}, {})", weight_f64_lo(wf), weight_f64_hi(wf), w[v].0, w[v].1));
            }
            let wx = wmc_param_complex_var_weight(wc, v as u64);
            let (xl, xh) = (Complex { re: w[v].0, im: w[v].1 }, Complex { re: w[v].1, im: -w[v].0 });
            if weight_complex_lo(wx) != xl || weight_complex_hi(wx) != xh || wx.0 != xl || wx.1 != xh {
                fails.push(format!("wmc_param_complex_var_weight({v}) / weight_complex_lo/hi differ from the stored weights"));
            }
            let (lc, hc) = poly_weight(v, w[v]);
            let wq = wmc_param_poly_var_weight(wp, v as u64);
            let keep = |c: &[f64]| c[..c.len().min(32)].to_vec();
            if coeffs_of(wq.low) != keep(&lc) || coeffs_of(wq.high) != keep(&hc) || polynomial_len(wq.low) != lc.len().min(32) || polynomial_len(wq.high) != hc.len().min(32) {
                fails.push(format!("wmc_param_poly_var_weight({v}) returns polynomials {:?} / {:?}, stored {:?} / {:?}", coeffs_of(wq.low), coeffs_of(wq.high), keep(&lc), keep(&hc)));
            }
            destroy_polynomial(wq.low);
            destroy_polynomial(wq.high);
            // new_polynomial: the same marshalling on its own
            let q = new_polynomial(hc.as_ptr(), hc.len());
            if coeffs_of(q) != keep(&hc) || polynomial_len(q) != hc.len().min(32) {
                fails.push(format!("new_polynomial of {} coefficients reads back as {:?}", hc.len(), coeffs_of(q)));
            }
            destroy_polynomial(q);
        }
        let q0 = new_polynomial(std::ptr::null(), 0);
        if polynomial_len(q0) != 0 { fails.push("new_polynomial(null, 0) is not the zero polynomial".to_string()); }
        destroy_polynomial(q0);
        let nreal: WmcParams<RealSemiring> = WmcParams::new(HashMap::from_iter((0..total).map(|v| (VarLabel::new(v as u64), (RealSemiring(w[v].0), RealSemiring(w[v].1))))));
        let ncx: WmcParams<Complex> = WmcParams::new(HashMap::from_iter((0..total).map(|v| (VarLabel::new(v as u64), (Complex { re: w[v].0, im: w[v].1 }, Complex { re: w[v].1, im: -w[v].0 })))));
        // native polynomial from a coefficient slice: at most MAX_COEFFS = 32 coefficients are kept
        let mkp = |c: &[f64]| { let mut q = Polynomial::<RealSemiring>::zero(); let n = c.len().min(32); for i in 0..n { q.coefficients[i] = RealSemiring(c[i]); } q.len = n; q };
        let npl: WmcParams<Polynomial<RealSemiring>> = WmcParams::new(HashMap::from_iter((0..total).map(|v| { let (lc, hc) = poly_weight(v, w[v]); (VarLabel::new(v as u64), (mkp(&lc), mkp(&hc))) })));
        for k in 0..cpool.len() {
            let c = cpool[k];
            let n = npool[k];
            // denotation through the C accessors vs the specification
            for a in 0..(1usize << total) {
                if c_eval(c, a) != spec[k][a] {
                    fails.push(format!("C pool entry {k} ({:?}) evaluates to {} on assignment {a:#b}, the operation's definition gives {}", prog.ops[k], !spec[k][a], spec[k][a]));
                    break;
                }
            }
            let mut cu = String::new();
            c_unfold(c, &mut cu, &mut |_, _, _| {});
            let mut nu = String::new();
            n_unfold(n, &mut nu);
            if cu != nu { fails.push(format!("entry {k}: shape through the C accessors {cu} differs from the native diagram {nu}")); }
            if bdd_is_true(c) != n.is_true() || bdd_is_false(c) != n.is_false() || bdd_is_const(c) != n.is_const() { fails.push(format!("entry {k}: is_true/is_false/is_const differ between C and native")); }
            if !n.is_const() && !bdd_is_const(c) && bdd_topvar(c) != n.var_safe().unwrap().value() { fails.push(format!("entry {k}: bdd_topvar differs from the native top variable")); }
            if bdd_count_nodes(c) != n.count_nodes() { fails.push(format!("entry {k}: bdd_count_nodes differs from native count_nodes")); }
            // counts
            let cm = robdd_model_count(m, c);
            let nvars_now = nb.num_vars();
            let pop = spec[k].iter().filter(|x| **x).count() as u64;
            // the manager's variable count may be smaller than `total` while new_var operations
            // are still to come in the program; at the end both managers have `total` variables
            if nvars_now == total && cm != pop { fails.push(format!("entry {k}: robdd_model_count = {cm}, the function has {pop} models")); }
            let (cr, nr) = (bdd_wmc(c, wr), n.unsmoothed_wmc(&nreal).0);
            if cr != nr { fails.push(format!("entry {k}: bdd_wmc = {cr}, native = {nr}")); }
            let (cc, nc) = (bdd_wmc_complex(c, wc), n.unsmoothed_wmc(&ncx));
            if cc != nc { fails.push(format!("entry {k}: bdd_wmc_complex = {cc:?}, native = {nc:?}")); }
            let cp = bdd_wmc_poly(c, wp);
            let np = n.unsmoothed_wmc(&npl);
            let mut buf = vec![0.0f64; 32];
            let got = polynomial_get_coeffs(cp, buf.as_mut_ptr(), 32);
            if polynomial_len(cp) != np.len || got != np.len || (0..np.len).any(|i| buf[i] != np.coefficients[i].0) { fails.push(format!("entry {k}: bdd_wmc_poly differs from the native polynomial count")); }
            destroy_polynomial(cp);
            // scratch accessors: default when empty, value after set, default again after clear
            if !n.is_const() && !bdd_is_const(c) {
                let d = 77 + k;
                let s0 = bdd_scratch(c, d);
                bdd_set_scratch(c, 1000 + k);
                let s1 = bdd_scratch(c, d);
                bdd_clear_scratch(c);
                let s2 = bdd_scratch(c, d);
                if s0 != d || s1 != 1000 + k || s2 != d {
                    fails.push(format!("entry {k}: bdd_scratch/set/clear give {s0}, {s1}, {s2}; expected {d}, {}, {d}", 1000 + k));
                }
            }
            // a mark set through the C API on a child must be what the native mark is to
            // count_nodes (which skips nodes already marked with a usize): same count both ways
            if !n.is_const() && !n.low_raw().is_const() && !bdd_is_const(c) && !bdd_is_const(bdd_low(c)) {
                let cl = bdd_low(c);
                bdd_set_scratch(cl, 5);
                let cc = bdd_count_nodes(c);
                bdd_clear_scratch(cl);
                bdd_clear_scratch(c);
                let nl = n.low();
                nl.set_scratch::<usize>(5);
                let nc = n.count_nodes();
                nl.clear_scratch();
                n.clear_scratch();
                if cc != nc { fails.push(format!("entry {k}: bdd_count_nodes after bdd_set_scratch on the low child = {cc}, the native calls give {nc}")); }
                drop(Box::from_raw(cl as *mut BddPtr<'static>));
            }
            // print_bdd is the native printer's text
            let ptxt = CStr::from_ptr(print_bdd(c)).to_str().unwrap().to_string();
            if ptxt != n.print_bdd() { fails.push(format!("entry {k}: print_bdd gives {ptxt}, native {}", n.print_bdd())); }
            // JSON
            let js: serde_json::Value = serde_json::from_str(CStr::from_ptr(bdd_to_json(c)).to_str().unwrap()).unwrap();
            if (0..(1usize << total)).any(|a| json_eval(&js, &js["roots"][0], a) != spec[k][a]) { fails.push(format!("entry {k}: the JSON node table from bdd_to_json denotes a different function")); }
            line.push_str(&format!("{cu} mc={cm} w={} | ", cr as i128));
        }
        // equality matrix
        let mut classes = vec![];
        for i in 0..cpool.len() {
            let mut cls = i;
            for j in 0..i {
                let (ce, ne) = (bdd_eq(m, cpool[i], cpool[j]), nb.eq(npool[i], npool[j]));
                if ce != ne { fails.push(format!("bdd_eq({j},{i}) = {ce} but the native builder says {ne}")); }
                if ce != (spec[i] == spec[j]) { fails.push(format!("bdd_eq({j},{i}) = {ce} but same function = {}", spec[i] == spec[j])); }
                if ce && cls == i { cls = j; }
            }
            classes.push(cls.to_string());
        }
        line.push_str(&format!("eq {}", classes.join(" ")));
        // statistics and fresh labels through the C API: same numbers as the native manager, which
        // ran the same operations
        // the getter is a wrapper of the manager's own counter (read through the same cast the
        // library uses; how much work an operation does is not part of the contract)
        let own: &rsdd::builder::bdd::RobddBuilder<'static, rsdd::builder::cache::AllIteTable<BddPtr<'static>>> = &*(m as *const _);
        let (crc, nrc) = (bdd_num_recursive_calls(m), own.num_recursive_calls());
        if crc != nrc { fails.push(format!("bdd_num_recursive_calls = {crc}, the manager's own counter reads {nrc}")); }
        let (cl, nl) = (bdd_new_label(m), match &nb { AnyBuilder::All(b) => b.new_label().value(), AnyBuilder::Lru(b) => b.new_label().value() });
        if cl != nl || cl != total as u64 { fails.push(format!("bdd_new_label = {cl}, native new_label = {nl}, expected the next free label {total}")); }
        let fresh = bdd_var(m, cl, true);
        if bdd_topvar(fresh) != cl { fails.push(format!("the variable of the fresh label {cl} has top variable {}", bdd_topvar(fresh))); }
        drop(Box::from_raw(fresh as *mut BddPtr<'static>));
        for c in cpool { drop(Box::from_raw(c as *mut BddPtr<'static>)); }
        free_wmc_params_f64(wr);
        free_wmc_params_complex(wc);
        destroy_wmc_params_poly(wp);
        free_bdd_manager(m);
    }
    st.add("c_api_calls", prog.ops.len() as u64);
    st.bump(&format!("total_vars={total}"));
    Outcome { result: line, fails, nontrivial: prog.ops.len() >= 5 }
}
