//! C19: command-line tools report exact counts and faithful diagrams.
//! The three binaries are rebuilt from /repo's working tree (--features cli) by ./check and
//! found through RSDD_CLI_BIN_DIR; every case writes its input files to a scratch directory,
//! runs the binary and parses its stdout.
//! case kinds:
//!   M <m> <name idx>*m <k> <extra idx>*k E <expr> W (<has> <lo> <hi>)*(m+k) O <0 | 1 <name idx>*(m+k)>
//!        weighted_model_count -f formula.sexp -w weights.json [-c config.json]  (single-count mode)
//!        variables of the formula are numbered by rank of their name; the k extra names occur
//!        only in the weights file; has=0 omits that variable from the weights file
//!        -> out:  mc=<unweighted count> wmc=<weighted count>
//!   F <m> <name idx>*m E <expr> O <0 | 1 <name idx>*m>
//!        bottomup_formula_to_bdd -f formula.sexp [--ordering manual -c config.json] -> JSON
//!        -> out:  canonical truth table (hex) of the JSON diagram
//!   C <order 0|1> <nvars> <ncl> (<len> (<var> <pol>)*)*
//!        bottomup_cnf_to_bdd -f cnf.dimacs --order auto_minfill|auto_force -> JSON
//!        -> out:  canonical truth table (hex) of the JSON diagram
//! oracle: brute force over all assignments of all variables (exact integers); JSON node table
//! evaluated by an independent reader vs independent evaluation of the formula / CNF.
use rsdd_verif_harness::exprs::*;
use rsdd_verif_harness::*;
use std::process::Command;

pub const PROP: Prop = Prop { gen, run, panic_ok: never };

fn main() {
    run_main(PROP)
}

/// byte-order sorted pool of names that stresses lexicographic numbering
/// (the long ones share their first 16..24 bytes: a numbering that looks at a prefix only, or at
/// the length, mixes them up)
const NAMES: [&str; 23] = ["A", "B", "Sensor_reading_0123456789_c", "Z", "a", "a1", "a10", "a9", "a_very_long_variable_name_that_goes_on_0", "a_very_long_variable_name_that_goes_on_1", "b", "sensor_reading_0123456789_a", "sensor_reading_0123456789_b", "station_north_gauge_level", "station_north_gauge_level_high", "station_north_gauge_level_low", "station_north_gauge_lvl", "x", "x_1", "y", "z", "zz", "zzz"];

fn sorted_subset(rng: &mut Rng, n: usize, k: usize) -> Vec<usize> {
    let mut p = rng.perm(n);
    p.truncate(k);
    p.sort();
    p
}

pub fn gen(rng: &mut Rng, idx: usize, n: usize, thorough: bool) -> String {
    let frac = (idx * 100) / n.max(1);
    let maxv = if thorough { 6 } else { 4 };
    let m = (1 + (frac * (maxv - 1)) / 100 + rng.range(0, 1)).min(maxv);
    match rng.below(10) {
        0..=5 => {
            let k = rng.range(0, 2);
            let all = sorted_subset(rng, NAMES.len(), m + k);
            // which of them are formula variables (sorted), which weight-only
            let mut pick = rng.perm(m + k);
            pick.truncate(m);
            pick.sort();
            let fvars: Vec<usize> = pick.iter().map(|i| all[*i]).collect();
            let extra: Vec<usize> = (0..m + k).filter(|i| !pick.contains(i)).map(|i| all[i]).collect();
            // the expression must mention every formula variable (they are "the formula's variables")
            let mut e = gen_ex(rng, m, 2 + frac / 40, false, true);
            for v in 0..m {
                // formulas whose BDD root is NOT the first variable are the interesting ones
                e = if rng.coin() { Ex::O(Box::new(e), Box::new(Ex::A(Box::new(Ex::L(v as u64, true)), Box::new(Ex::L(((v + 1) % m) as u64, rng.coin()))))) } else { Ex::A(Box::new(Ex::O(Box::new(Ex::L(v as u64, rng.coin())), Box::new(Ex::L(((v + 1) % m) as u64, true)))), Box::new(e)) };
            }
            let mut s = format!("M {m}");
            for v in &fvars { s.push_str(&format!(" {v}")); }
            s.push_str(&format!(" {k}"));
            for v in &extra { s.push_str(&format!(" {v}")); }
            s.push_str(" E");
            ex_str(&e, &mut s);
            s.push_str(" W");
            for j in 0..m + k {
                // weight-only variables must be present in the weights file; formula variables may be omitted (default (0,0))
                let has = if j >= m { 1 } else { !rng.chance(1, 12) as u8 };
                s.push_str(&format!(" {has} {} {}", rng.below(8), rng.below(8)));
            }
            if rng.chance(1, 2) {
                s.push_str(" O 1");
                let mut names: Vec<usize> = fvars.iter().chain(extra.iter()).cloned().collect();
                rng.shuffle(&mut names);
                for v in names { s.push_str(&format!(" {v}")); }
            } else {
                s.push_str(" O 0");
            }
            s
        }
        6..=7 => {
            let fvars = sorted_subset(rng, NAMES.len(), m);
            let mut e = gen_ex(rng, m, 2 + frac / 40, false, true);
            for v in 0..m { e = Ex::O(Box::new(Ex::A(Box::new(Ex::L(v as u64, true)), Box::new(Ex::L(v as u64, false)))), Box::new(Ex::X(Box::new(e), Box::new(Ex::L(v as u64, rng.coin()))))); }
            let mut s = format!("F {m}");
            for v in &fvars { s.push_str(&format!(" {v}")); }
            s.push_str(" E");
            ex_str(&e, &mut s);
            if rng.coin() {
                s.push_str(" O 1");
                let mut names = fvars.clone();
                rng.shuffle(&mut names);
                for v in names { s.push_str(&format!(" {v}")); }
            } else {
                s.push_str(" O 0");
            }
            s
        }
        _ => {
            let nv = m + 1;
            let mut c = gen_cnf(rng, nv, 2 + frac / 20, true);
            let mut ord = rng.below(2);
            // an empty clause (a line holding only "0") among the others: unsatisfiable input.  Only
            // with min-fill: FORCE's average-span heuristic underflows on an empty clause (DESIGN section 0)
            if rng.chance(1, 6) {
                let at = rng.below(c.len() as u64 + 1) as usize;
                c.insert(at, vec![]);
                ord = 0;
            }
            let mut s = format!("C {ord} {nv}");
            cnf_str(&c, &mut s);
            s
        }
    }
}

fn sexp(e: &Ex, names: &[&str], s: &mut String) {
    match e {
        Ex::L(v, true) => s.push_str(&format!("(Var {})", names[*v as usize])),
        Ex::L(v, false) => s.push_str(&format!("(Not (Var {}))", names[*v as usize])),
        Ex::N(a) => { s.push_str("(Not "); sexp(a, names, s); s.push(')') }
        Ex::A(a, b) => { s.push_str("(And "); sexp(a, names, s); s.push(' '); sexp(b, names, s); s.push(')') }
        Ex::O(a, b) => { s.push_str("(Or "); sexp(a, names, s); s.push(' '); sexp(b, names, s); s.push(')') }
        Ex::I(a, b) => { s.push_str("(Iff "); sexp(a, names, s); s.push(' '); sexp(b, names, s); s.push(')') }
        Ex::X(a, b) => { s.push_str("(Xor "); sexp(a, names, s); s.push(' '); sexp(b, names, s); s.push(')') }
        Ex::K(a, b, c) => { s.push_str("(Ite "); sexp(a, names, s); s.push(' '); sexp(b, names, s); s.push(' '); sexp(c, names, s); s.push(')') }
        Ex::T | Ex::F => panic!("constants are outside the property"),
    }
}

fn json_eval(js: &serde_json::Value, ptr: &serde_json::Value, a: usize) -> bool {
    if ptr == "True" { return true; }
    if ptr == "False" { return false; }
    let p = &ptr["Ptr"];
    let node = &js["nodes"][p["index"].as_u64().unwrap() as usize];
    let v = node["topvar"].as_u64().unwrap();
    json_eval(js, if (a >> v) & 1 == 1 { &node["high"] } else { &node["low"] }, a) != p["compl"].as_bool().unwrap()
}
fn table_hex(t: &[bool]) -> String {
    let mut s = String::new();
    for ch in t.chunks(4) { let mut d = 0; for (i, b) in ch.iter().enumerate() { if *b { d |= 1 << i } } s.push_str(&format!("{d:x}")); }
    s
}

fn scratch_dir() -> std::path::PathBuf {
    let d = std::env::temp_dir().join(format!("rsdd_verif_c19_{}", std::process::id()));
    std::fs::create_dir_all(&d).unwrap();
    d
}
fn bin(name: &str) -> String {
    format!("{}/{}", std::env::var("RSDD_CLI_BIN_DIR").unwrap_or_else(|_| "/verif/.build/cli_target/debug".to_string()), name)
}

pub fn run(case: &str, st: &mut Stats) -> Outcome {
    let t = toks(case);
    let dir = scratch_dir();
    let mut fails = vec![];
    let u = |s: &str| -> usize { s.parse().unwrap() };
    match t[0] {
        "M" | "F" => {
            let m = u(t[1]);
            let fvars: Vec<usize> = (0..m).map(|j| u(t[2 + j])).collect();
            let mut i = 2 + m;
            let mut extra = vec![];
            if t[0] == "M" {
                let k = u(t[i]);
                extra = (0..k).map(|j| u(t[i + 1 + j])).collect();
                i += 1 + k;
            }
            assert!(t[i] == "E");
            i += 1;
            let e = ex_parse(&t, &mut i);
            let names: Vec<&str> = fvars.iter().map(|v| NAMES[*v]).collect();
            let mut text = String::new();
            sexp(&e, &names, &mut text);
            std::fs::write(dir.join("f.sexp"), &text).unwrap();
            let total = m + extra.len();
            let mut weights = vec![];
            if t[0] == "M" {
                assert!(t[i] == "W");
                i += 1;
                let mut wj = serde_json::Map::new();
                for j in 0..total {
                    let (has, lo, hi) = (t[i] != "0", u(t[i + 1]) as u128, u(t[i + 2]) as u128);
                    i += 3;
                    let name = if j < m { NAMES[fvars[j]] } else { NAMES[extra[j - m]] };
                    if has { wj.insert(name.to_string(), serde_json::json!({"low": lo as f64, "high": hi as f64})); weights.push((lo, hi)); } else { weights.push((0, 0)); }
                }
                std::fs::write(dir.join("w.json"), serde_json::to_string(&wj).unwrap()).unwrap();
            }
            assert!(t[i] == "O");
            let has_order = t[i + 1] != "0";
            if has_order {
                let order: Vec<&str> = (0..total).map(|j| NAMES[u(t[i + 2 + j])]).collect();
                std::fs::write(dir.join("c.json"), serde_json::to_string(&serde_json::json!({"order": order})).unwrap()).unwrap();
            }
            if t[0] == "M" {
                let mut cmd = Command::new(bin("weighted_model_count"));
                cmd.arg("-f").arg(dir.join("f.sexp")).arg("-w").arg(dir.join("w.json"));
                if has_order { cmd.arg("-c").arg(dir.join("c.json")); }
                let out = cmd.output().expect("cannot run weighted_model_count");
                let so = String::from_utf8_lossy(&out.stdout).to_string();
                let grab = |key: &str| -> Option<String> { so.lines().find_map(|l| l.strip_prefix(key).map(|x| x.trim().to_string())) };
                let (mc, wmc) = (grab("unweighted model count:"), grab("weighted model count:"));
                // brute force over all m+k variables
                let (mut models, mut sum) = (0u128, 0u128);
                for a in 0..(1usize << total) {
                    if ex_eval(&e, a & ((1 << m) - 1)) {
                        models += 1;
                        sum += (0..total).map(|v| if (a >> v) & 1 == 1 { weights[v].1 } else { weights[v].0 }).product::<u128>();
                    }
                }
                let line = match (&mc, &wmc) {
                    (Some(a), Some(b)) => {
                        let bi = b.parse::<f64>().map(|x| if x.fract() == 0.0 { format!("{}", x as u128) } else { b.clone() }).unwrap_or(b.clone());
                        if a.parse::<u128>().ok() != Some(models) { fails.push(format!("the tool prints {a} models for {text}; the formula has {models} over its {total} variables")); }
                        if bi.parse::<u128>().ok() != Some(sum) { fails.push(format!("the tool prints weighted count {b} for {text}; the weighted sum over models is {sum}")); }
                        format!("mc={a} wmc={bi}")
                    }
                    _ => { fails.push(format!("weighted_model_count failed: status {:?}, stderr {}", out.status.code(), String::from_utf8_lossy(&out.stderr).chars().take(300).collect::<String>())); "TOOL-FAILED".to_string() }
                };
                st.bump("tool_weighted_model_count");
                if has_order { st.bump("with_order"); }
                if !extra.is_empty() { st.bump("weight_only_variables"); }
                let _ = std::fs::remove_dir_all(&dir);
                return Outcome { result: line, fails, nontrivial: m >= 2 };
            }
            let mut cmd = Command::new(bin("bottomup_formula_to_bdd"));
            cmd.arg("-f").arg(dir.join("f.sexp"));
            if has_order { cmd.arg("--ordering").arg("manual").arg("-c").arg(dir.join("c.json")); }
            let out = cmd.output().expect("cannot run bottomup_formula_to_bdd");
            let line = match serde_json::from_slice::<serde_json::Value>(&out.stdout) {
                Ok(js) => {
                    let tb: Vec<bool> = (0..(1usize << m)).map(|a| json_eval(&js, &js["roots"][0], a)).collect();
                    if (0..(1usize << m)).any(|a| tb[a] != ex_eval(&e, a)) { fails.push(format!("the JSON diagram printed for {text} denotes a different function")); }
                    table_hex(&tb)
                }
                Err(_) => { fails.push(format!("bottomup_formula_to_bdd failed: {}", String::from_utf8_lossy(&out.stderr).chars().take(300).collect::<String>())); "TOOL-FAILED".to_string() }
            };
            st.bump("tool_formula_to_bdd");
            let _ = std::fs::remove_dir_all(&dir);
            Outcome { result: line, fails, nontrivial: m >= 2 }
        }
        "C" => {
            let ok = u(t[1]);
            let nv = u(t[2]);
            let mut i = 3;
            let raw = cnf_parse(&t, &mut i);
            let mut text = format!("p cnf {nv} {}\n", raw.len());
            for cl in &raw {
                for (v, p) in cl { text.push_str(&format!("{}{} ", if *p { "" } else { "-" }, v + 1)); }
                text.push_str("0\n");
            }
            std::fs::write(dir.join("f.cnf"), &text).unwrap();
            let out = Command::new(bin("bottomup_cnf_to_bdd")).arg("-f").arg(dir.join("f.cnf")).arg("--order").arg(if ok == 0 { "auto_minfill" } else { "auto_force" }).output().expect("cannot run bottomup_cnf_to_bdd");
            let line = match serde_json::from_slice::<serde_json::Value>(&out.stdout) {
                Ok(js) => {
                    let tb: Vec<bool> = (0..(1usize << nv)).map(|a| json_eval(&js, &js["roots"][0], a)).collect();
                    if (0..(1usize << nv)).any(|a| tb[a] != cnf_eval(&raw, a)) { fails.push(format!("the JSON diagram printed for the DIMACS input {:?} denotes a different function", text)); }
                    table_hex(&tb)
                }
                Err(_) => { fails.push(format!("bottomup_cnf_to_bdd failed: {}", String::from_utf8_lossy(&out.stderr).chars().take(300).collect::<String>())); "TOOL-FAILED".to_string() }
            };
            st.bump(if ok == 0 { "tool_cnf_to_bdd_minfill" } else { "tool_cnf_to_bdd_force" });
            let _ = std::fs::remove_dir_all(&dir);
            Outcome { result: line, fails, nontrivial: raw.len() >= 2 }
        }
        _ => panic!("bad case"),
    }
}
