//! C09: drive rsdd::repr::SATSolver (two-watched-literal unit propagation, decide/pop, residual hash,
//! satisfied flag) through decide/pop histories.
//! case:  (c <lit>*)* (d <lit> | p)*        lit = signed 1-based label, as in DIMACS
//! out:   NONE | <state> (<res> <state>)*   res = SAT | UNSAT | UNK | PANIC | POP
//! state = [<T|F|- per variable>;<difference_iter sorted>;<is_sat 0|1>;<cur_hash decimal>]
//! Oracle (independent of the solver and of the model): brute force over all total assignments.
use rsdd::repr::{Cnf, DecisionResult, Literal, SATSolver, VarLabel};
use rsdd_verif_harness::*;
use std::cell::RefCell;
use std::collections::HashMap;

pub const PROP: Prop = Prop { gen, run, panic_ok: never };

fn main() {
    run_main(PROP)
}

type L = (usize, bool);

fn lit_tok(l: L) -> String {
    if l.1 {
        format!("{}", l.0 + 1)
    } else {
        format!("-{}", l.0 + 1)
    }
}
fn parse_lit(t: &str) -> L {
    let i: i64 = t.parse().unwrap();
    if i > 0 {
        ((i - 1) as usize, true)
    } else {
        ((-i - 1) as usize, false)
    }
}
fn to_lit(l: L) -> Literal {
    Literal::new(VarLabel::new(l.0 as u64), l.1)
}
fn mk_solver(raw: &[Vec<L>]) -> Option<SATSolver> {
    let v: Vec<Vec<Literal>> = raw.iter().map(|c| c.iter().map(|l| to_lit(*l)).collect()).collect();
    SATSolver::new(Cnf::new(&v))
}
fn nvars_of(raw: &[Vec<L>]) -> usize {
    raw.iter().flat_map(|c| c.iter().map(|l| l.0 + 1)).max().unwrap_or(0)
}

#[derive(Clone, Debug)]
enum Op {
    D(L),
    P,
}

fn case_string(raw: &[Vec<L>], ops: &[Op]) -> String {
    let mut s = String::new();
    for c in raw {
        s.push_str("c ");
        for l in c {
            s.push_str(&lit_tok(*l));
            s.push(' ');
        }
    }
    for o in ops {
        match o {
            Op::D(l) => s.push_str(&format!("d {} ", lit_tok(*l))),
            Op::P => s.push_str("p "),
        }
    }
    s.trim().to_string()
}

// ---------------------------------------------------------------- generators
fn gen_clause(rng: &mut Rng, nv: usize, len: usize) -> Vec<L> {
    // distinct variables, random polarities
    let mut vars = rng.perm(nv);
    vars.truncate(len.min(nv));
    vars.into_iter().map(|v| (v, rng.coin())).collect()
}

fn gen_structured(rng: &mut Rng, nv: usize, nc: usize) -> Vec<Vec<L>> {
    (0..nc)
        .map(|_| {
            let len = *rng.pick(&[2usize, 2, 3, 3, 3, 4, 1]);
            gen_clause(rng, nv, len)
        })
        .collect()
}

fn gen_edge(rng: &mut Rng, nv: usize, nc: usize) -> Vec<Vec<L>> {
    let mut cls = gen_structured(rng, nv, nc);
    let k = rng.range(1, 3);
    for _ in 0..k {
        match rng.below(7) {
            0 => {
                // tautology: a literal and its negation (possibly with a repeated literal around it)
                let i = rng.below(cls.len() as u64) as usize;
                if let Some(&l) = cls[i].first() {
                    if rng.chance(1, 3) {
                        // x, -x, x in input order: the repetition survives Cnf::new
                        cls[i].insert(1, (l.0, !l.1));
                        cls[i].insert(2, l);
                    } else {
                        let pos = rng.range(0, cls[i].len());
                        cls[i].insert(pos, (l.0, !l.1));
                        if rng.coin() {
                            cls[i].push(l);
                        }
                    }
                }
            }
            1 => {
                // duplicate literal
                let i = rng.below(cls.len() as u64) as usize;
                if let Some(&l) = cls[i].first() {
                    cls[i].push(l);
                }
            }
            2 => {
                // unit clause
                let u = (rng.below(nv as u64) as usize, rng.coin());
                let pos = rng.range(0, cls.len());
                cls.insert(pos, vec![u]);
            }
            3 => {
                // empty clause (rare: SATSolver::new returns None)
                if rng.chance(1, 3) {
                    let pos = rng.range(0, cls.len());
                    cls.insert(pos, vec![]);
                }
            }
            4 => {
                // a variable in no clause: shift every label >= v up by one
                let v = rng.below(nv as u64) as usize;
                for c in cls.iter_mut() {
                    for l in c.iter_mut() {
                        if l.0 >= v {
                            l.0 += 1;
                        }
                    }
                }
            }
            5 => {
                // a duplicated clause, and a purely tautological two-literal clause
                let i = rng.below(cls.len() as u64) as usize;
                let c = cls[i].clone();
                cls.push(c);
                let v = rng.below(nv as u64) as usize;
                cls.push(vec![(v, true), (v, false)]);
            }
            _ => {
                // two unit clauses that may clash
                let v = rng.below(nv as u64) as usize;
                cls.push(vec![(v, rng.coin())]);
                cls.push(vec![(v, rng.coin())]);
            }
        }
    }
    cls
}

/// random decide/pop interleaving, to depth = number of variables.  `unset_only`: decide only
/// variables that are unset in the current state (the solver's intended use); otherwise any
/// variable with any polarity (already-set ones included).  The solver is used here only to know
/// which variables are unset and how deep the stack is (case selection, not checking).
fn gen_history(rng: &mut Rng, raw: &[Vec<L>], unset_only: bool, maxlen: usize, out_of_range: bool) -> Vec<Op> {
    let nv = nvars_of(raw);
    let mut ops = vec![];
    let mut solver = match mk_solver(raw) {
        Some(s) => s,
        None => return vec![Op::D((0, true))], // ignored by run: new returned None
    };
    let mut depth = 0usize;
    for _ in 0..maxlen {
        let do_pop = depth > 0 && (rng.chance(3, 10) || depth >= nv.max(1));
        if do_pop {
            ops.push(Op::P);
            // a panic here is the implementation's: keep the history up to it as the case
            if std::panic::catch_unwind(std::panic::AssertUnwindSafe(|| solver.pop())).is_err() {
                return ops;
            }
            depth -= 1;
            continue;
        }
        if nv == 0 {
            break;
        }
        if out_of_range && rng.chance(1, 12) {
            // label >= num_vars: documented-by-behaviour panic (index out of bounds), state untouched
            ops.push(Op::D((nv + rng.range(0, 1), rng.coin())));
            continue;
        }
        let cand: Vec<usize> = if unset_only {
            (0..nv).filter(|v| !solver.is_set(VarLabel::new(*v as u64))).collect()
        } else {
            (0..nv).collect()
        };
        if cand.is_empty() {
            if depth > 0 {
                ops.push(Op::P);
                if std::panic::catch_unwind(std::panic::AssertUnwindSafe(|| solver.pop())).is_err() {
                    return ops;
                }
                depth -= 1;
                continue;
            }
            break;
        }
        let l = (*rng.pick(&cand), rng.coin());
        ops.push(Op::D(l));
        match std::panic::catch_unwind(std::panic::AssertUnwindSafe(|| solver.decide(to_lit(l)))) {
            Err(_) => return ops,
            Ok(DecisionResult::UNSAT) => {}
            Ok(_) => depth += 1,
        }
    }
    ops
}

thread_local! {
    static QUEUE: RefCell<Vec<String>> = RefCell::new(Vec::new());
}

/// ALL valid histories of depth <= 3 on one tiny CNF (thorough tier)
fn all_histories(raw: &[Vec<L>]) -> Vec<String> {
    let nv = nvars_of(raw);
    let mut alphabet: Vec<Op> = vec![Op::P];
    for v in 0..nv {
        alphabet.push(Op::D((v, true)));
        alphabet.push(Op::D((v, false)));
    }
    let mut out = vec![];
    if mk_solver(raw).is_none() {
        return vec![case_string(raw, &[])];
    }
    fn depth_after(raw: &[Vec<L>], ops: &[Op]) -> usize {
        let mut s = mk_solver(raw).unwrap();
        let mut d = 0;
        for o in ops {
            match o {
                Op::P => {
                    s.pop();
                    d -= 1;
                }
                Op::D(l) => match s.decide(to_lit(*l)) {
                    DecisionResult::UNSAT => {}
                    _ => d += 1,
                },
            }
        }
        d
    }
    let mut frontier: Vec<Vec<Op>> = vec![vec![]];
    for _ in 0..3 {
        let mut next = vec![];
        for h in &frontier {
            let d = depth_after(raw, h);
            for o in &alphabet {
                if matches!(o, Op::P) && d == 0 {
                    continue;
                }
                let mut h2 = h.clone();
                h2.push(o.clone());
                out.push(case_string(raw, &h2));
                next.push(h2);
            }
        }
        frontier = next;
    }
    out
}

pub fn gen(rng: &mut Rng, idx: usize, n: usize, thorough: bool) -> String {
    let frac = (idx * 100) / n.max(1);
    if thorough && frac < 35 {
        // exhaustive blocks: a tiny CNF (<= 3 variables, <= 3 clauses), every history of depth <= 3
        let pending = QUEUE.with(|q| q.borrow_mut().pop());
        if let Some(c) = pending {
            return c;
        }
        let nv = rng.range(1, 3);
        let nc = rng.range(1, 3);
        let raw = if rng.chance(1, 4) { gen_edge(rng, nv, nc) } else { gen_structured(rng, nv, nc) };
        let raw: Vec<Vec<L>> = raw.into_iter().map(|c| c.into_iter().filter(|l| l.0 < 3).collect()).collect();
        let mut all = all_histories(&raw);
        all.reverse();
        let first = all.pop().unwrap();
        QUEUE.with(|q| *q.borrow_mut() = all);
        return first;
    }
    // sizes grow with the index
    let (nv, nc) = if frac < 30 {
        (rng.range(2, 4), rng.range(1, 4))
    } else if frac < 70 {
        (rng.range(3, 5), rng.range(2, 6))
    } else {
        (rng.range(3, 6), rng.range(2, 8))
    };
    let edge = rng.chance(1, 4);
    // a separate "long" stream: >= 27 literal occurrences, so that the product of the literal primes
    // exceeds 2^128 and wrapping_mul really wraps
    let big = !edge && frac >= 40 && rng.chance(1, 8);
    let raw = if edge {
        gen_edge(rng, nv, nc)
    } else if big {
        (0..rng.range(8, 9)).map(|_| { let len = rng.range(3, 4); gen_clause(rng, 6, len) }).collect()
    } else {
        gen_structured(rng, nv, nc)
    };
    let unset_only = rng.chance(3, 5);
    let nvr = nvars_of(&raw);
    let maxlen = if thorough { 4 * nvr + 4 } else { 3 * nvr + 2 };
    let ops = gen_history(rng, &raw, unset_only, maxlen, edge && !unset_only);
    case_string(&raw, &ops)
}

// ---------------------------------------------------------------- observation
#[derive(Clone, PartialEq, Debug)]
struct Obs {
    model: Vec<Option<bool>>,
    diff: Vec<i64>,
    is_sat: bool,
    hash: u128,
}

fn observe(s: &SATSolver, nv: usize, fails: &mut Vec<String>) -> Obs {
    let m = s.verif_model();
    let model: Vec<Option<bool>> = (0..nv).map(|v| m.get(VarLabel::new(v as u64))).collect();
    for v in 0..nv {
        if s.is_set(VarLabel::new(v as u64)) != model[v].is_some() {
            fails.push(format!("is_set({v}) disagrees with the model"));
        }
    }
    let mut diff: Vec<i64> = s
        .difference_iter()
        .map(|l| {
            let i = l.label().value() as i64 + 1;
            if l.polarity() {
                i
            } else {
                -i
            }
        })
        .collect();
    diff.sort_by_key(|a| (a.abs(), *a));
    Obs { model, diff, is_sat: s.is_sat(), hash: s.cur_hash() }
}

fn obs_string(o: &Obs) -> String {
    let ms: String = o.model.iter().map(|x| match x { Some(true) => 'T', Some(false) => 'F', None => '-' }).collect();
    let ds: Vec<String> = o.diff.iter().map(|d| d.to_string()).collect();
    format!("[{};{};{};{}]", ms, ds.join(","), if o.is_sat { 1 } else { 0 }, o.hash)
}

// ---------------------------------------------------------------- oracle (brute force)
fn lit_holds(a: u32, l: L) -> bool {
    ((a >> l.0) & 1 == 1) == l.1
}
/// all total assignments (bit v = value of variable v) satisfying the raw clauses and the decisions
fn models(raw: &[Vec<L>], nv: usize, decisions: &[L]) -> Vec<u32> {
    (0u32..(1u32 << nv))
        .filter(|a| raw.iter().all(|c| c.iter().any(|l| lit_holds(*a, *l))) && decisions.iter().all(|l| lit_holds(*a, *l)))
        .collect()
}
fn is_taut(c: &[L]) -> bool {
    c.iter().any(|l| c.contains(&(l.0, !l.1)))
}
/// positional residual formula: for every non-tautological clause (as a sorted set of literals)
/// either None (it has a true literal) or its unassigned literals
fn residual(raw: &[Vec<L>], model: &[Option<bool>]) -> Vec<Option<Vec<L>>> {
    raw.iter()
        .filter(|c| !is_taut(c))
        .map(|c| {
            if c.iter().any(|l| model[l.0] == Some(l.1)) {
                None
            } else {
                let mut r: Vec<L> = c.iter().filter(|l| model[l.0].is_none()).cloned().collect();
                r.sort();
                r.dedup();
                Some(r)
            }
        })
        .collect()
}
/// does the product of the first k primes stay below 2^128?  (exact, checked arithmetic)
fn primes_fit(k: usize) -> bool {
    let mut prod: u128 = 1;
    let mut c: u128 = 2;
    let mut found = 0;
    while found < k {
        if (2..c).take_while(|d| d * d <= c).all(|d| c % d != 0) {
            match prod.checked_mul(c) {
                Some(p) => prod = p,
                None => return false,
            }
            found += 1;
        }
        c += 1;
    }
    true
}

fn check_state(
    what: &str,
    raw: &[Vec<L>],
    nv: usize,
    decisions: &[L],
    o: &Obs,
    fails: &mut Vec<String>,
) {
    let ms = models(raw, nv, decisions);
    // soundness: every assigned literal is entailed by CNF + decisions
    for v in 0..nv {
        if let Some(b) = o.model[v] {
            if let Some(a) = ms.iter().find(|a| !lit_holds(**a, (v, b))) {
                fails.push(format!("{what}: x{v}={b} assigned but not entailed (countermodel {a:b})"));
            }
        }
    }
    // every decision on the stack is assigned as decided
    for d in decisions {
        if o.model[d.0] != Some(d.1) {
            fails.push(format!("{what}: decision {} not reflected in the model", lit_tok(*d)));
        }
    }
    // fix-point: no clause falsified, none with exactly one unassigned literal and no true one
    for (i, c) in raw.iter().enumerate() {
        if c.iter().any(|l| o.model[l.0] == Some(l.1)) {
            continue;
        }
        let mut un: Vec<L> = c.iter().filter(|l| o.model[l.0].is_none()).cloned().collect();
        un.sort();
        un.dedup();
        if un.is_empty() {
            fails.push(format!("{what}: clause {i} is falsified but UNSAT was not reported"));
        } else if un.len() == 1 {
            fails.push(format!("{what}: clause {i} is unit on {} but it was not propagated", lit_tok(un[0])));
        }
    }
    // satisfied flag <=> every non-tautological clause has a true literal
    let all_true = raw.iter().filter(|c| !is_taut(c)).all(|c| c.iter().any(|l| o.model[l.0] == Some(l.1)));
    if all_true != o.is_sat {
        fails.push(format!("{what}: is_sat()={} but 'every non-tautological clause has a true literal'={}", o.is_sat, all_true));
    }
}

pub fn run(case: &str, st: &mut Stats) -> Outcome {
    let t = toks(case);
    let mut raw: Vec<Vec<L>> = vec![];
    let mut i = 0;
    while i < t.len() && t[i] == "c" {
        i += 1;
        let mut c = vec![];
        while i < t.len() && t[i] != "c" && t[i] != "d" && t[i] != "p" {
            c.push(parse_lit(t[i]));
            i += 1;
        }
        raw.push(c);
    }
    let mut ops = vec![];
    while i < t.len() {
        if t[i] == "d" {
            ops.push(Op::D(parse_lit(t[i + 1])));
            i += 2;
        } else {
            ops.push(Op::P);
            i += 1;
        }
    }
    let nv = nvars_of(&raw);
    let mut fails: Vec<String> = vec![];
    st.bump(&format!("nvars={nv}"));
    st.bump(&format!("nclauses={}", raw.len().min(9)));
    if raw.iter().any(|c| is_taut(c)) {
        st.bump("has_tautology");
    }
    if raw.iter().any(|c| c.len() == 1) {
        st.bump("has_unit_clause");
    }
    if raw.iter().any(|c| c.is_empty()) {
        st.bump("has_empty_clause");
    }
    if (0..nv).any(|v| raw.iter().all(|c| c.iter().all(|l| l.0 != v))) {
        st.bump("has_unused_variable");
    }
    if raw.iter().any(|c| (0..c.len()).any(|a| (a + 1..c.len()).any(|b| c[a] == c[b]))) {
        st.bump("has_duplicate_literal");
    }
    // does a repeated literal survive Cnf::new (stable sort by label + adjacent dedup)?  e.g. x,-x,x
    if raw.iter().any(|c| {
        let mut d = c.clone();
        d.sort_by_key(|l| l.0); // stable
        d.dedup();
        (0..d.len()).any(|a| (a + 1..d.len()).any(|b| d[a] == d[b]))
    }) {
        st.bump("repeated_literal_survives_Cnf::new");
    }
    let nocc: usize = raw
        .iter()
        .filter(|c| !is_taut(c))
        .map(|c| {
            let mut d = c.clone();
            d.sort();
            d.dedup();
            d.len()
        })
        .sum();
    let fit = primes_fit(nocc);
    if !fit {
        st.bump("hash_wraps_possible(product>=2^128)");
    }

    let mut solver = match mk_solver(&raw) {
        None => {
            st.bump("new=None");
            // UNSAT from new only if the CNF has no model at all
            if let Some(a) = models(&raw, nv, &[]).first() {
                fails.push(format!("SATSolver::new returned None but the CNF has the model {a:b}"));
            }
            return Outcome { result: "NONE".to_string(), fails, nontrivial: !raw.iter().any(|c| c.is_empty()) };
        }
        Some(s) => s,
    };
    let mut out = String::new();
    let mut decisions: Vec<L> = vec![];
    let mut saved: Vec<Obs> = vec![]; // observables before each successful decide
    let mut seen: HashMap<u128, Vec<Option<Vec<L>>>> = HashMap::new();
    let mut seen_res: HashMap<Vec<Option<Vec<L>>>, u128> = HashMap::new();
    let mut cur = observe(&solver, nv, &mut fails);
    out.push_str(&obs_string(&cur));
    check_state("after new", &raw, nv, &decisions, &cur, &mut fails);
    let mut nontrivial = false;
    let mut note_hash = |o: &Obs, fails: &mut Vec<String>| {
        let r = residual(&raw, &o.model);
        if fit {
            if let Some(prev) = seen.get(&o.hash) {
                if *prev != r {
                    fails.push(format!("hash {} reached with two different residual formulas: {:?} and {:?}", o.hash, prev, r));
                }
            }
        }
        // the converse holds without any guard: identical residuals (same removed occurrences) => equal hashes
        if let Some(h) = seen_res.get(&r) {
            if *h != o.hash {
                fails.push(format!("identical residual formulas with different hashes {} and {}", h, o.hash));
            }
        }
        seen.insert(o.hash, r.clone());
        seen_res.insert(r, o.hash);
    };
    note_hash(&cur, &mut fails);
    for (k, o) in ops.iter().enumerate() {
        match o {
            Op::P => {
                st.bump("op_pop");
                solver.pop();
                decisions.pop();
                let now = observe(&solver, nv, &mut fails);
                let want = saved.pop().expect("generator only pops after a successful decide");
                if now != want {
                    fails.push(format!("step {k}: pop did not restore the observable state: {} vs {}", obs_string(&now), obs_string(&want)));
                }
                out.push_str(" POP ");
                out.push_str(&obs_string(&now));
                check_state(&format!("step {k} (pop)"), &raw, nv, &decisions, &now, &mut fails);
                cur = now;
            }
            Op::D(l) => {
                if l.0 >= nv {
                    st.bump("op_decide_out_of_range");
                    let r = std::panic::catch_unwind(std::panic::AssertUnwindSafe(|| solver.decide(to_lit(*l))));
                    if r.is_ok() {
                        fails.push(format!("step {k}: decide on label {} >= num_vars did not panic", l.0));
                    }
                    let now = observe(&solver, nv, &mut fails);
                    if now != cur {
                        fails.push(format!("step {k}: panicking decide changed the observable state"));
                    }
                    out.push_str(" PANIC ");
                    out.push_str(&obs_string(&now));
                    continue;
                }
                if cur.model[l.0].is_some() {
                    st.bump("op_decide_already_set");
                } else {
                    st.bump("op_decide_unset");
                }
                let res = solver.decide(to_lit(*l));
                let now = observe(&solver, nv, &mut fails);
                match res {
                    DecisionResult::UNSAT => {
                        st.bump("res_UNSAT");
                        out.push_str(" UNSAT ");
                        let mut d2 = decisions.clone();
                        d2.push(*l);
                        if let Some(a) = models(&raw, nv, &d2).first() {
                            fails.push(format!("step {k}: UNSAT reported but {a:b} is a model of CNF + decisions"));
                        }
                        if now != cur {
                            fails.push(format!("step {k}: UNSAT decide changed the observable state"));
                        }
                        if cur.model[l.0].is_none() {
                            nontrivial = true;
                        }
                    }
                    r => {
                        let sat = matches!(r, DecisionResult::SAT);
                        st.bump(if sat { "res_SAT" } else { "res_Unknown" });
                        out.push_str(if sat { " SAT " } else { " UNK " });
                        if sat != now.is_sat {
                            fails.push(format!("step {k}: DecisionResult::SAT={sat} but is_sat()={}", now.is_sat));
                        }
                        decisions.push(*l);
                        saved.push(cur.clone());
                        if now.diff.len() >= 2 {
                            nontrivial = true;
                            st.bump("decide_with_implied_literals");
                        }
                        // difference_iter = newly assigned literals
                        let mut want: Vec<i64> = (0..nv)
                            .filter(|v| now.model[*v].is_some() && cur.model[*v].is_none())
                            .map(|v| if now.model[v] == Some(true) { v as i64 + 1 } else { -(v as i64 + 1) })
                            .collect();
                        want.sort_by_key(|a| (a.abs(), *a));
                        if want != now.diff {
                            fails.push(format!("step {k}: difference_iter {:?} is not the set of newly assigned literals {:?}", now.diff, want));
                        }
                        for v in 0..nv {
                            if cur.model[v].is_some() && cur.model[v] != now.model[v] {
                                fails.push(format!("step {k}: decide changed the value of x{v}"));
                            }
                        }
                        check_state(&format!("step {k} (decide {})", lit_tok(*l)), &raw, nv, &decisions, &now, &mut fails);
                    }
                }
                out.push_str(&obs_string(&now));
                cur = now;
            }
        }
        note_hash(&cur, &mut fails);
    }
    st.add("history_len", ops.len() as u64);
    Outcome { result: out, fails, nontrivial }
}
