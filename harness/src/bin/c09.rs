//! C09: drive rsdd::repr::SATSolver (two-watched-literal unit propagation, decide/pop, residual hash,
//! satisfied flag) through decide/pop histories.
//! case:  (c <lit>*)* (d <lit> | p)*        lit = signed 1-based label, as in DIMACS
//! out:   NONE | <state> (<res> <state>)*   res = SAT | UNSAT | UNK | PANIC | POP
//! state = [<T|F|- per variable>;<difference_iter sorted>;<is_sat 0|1>;<cur_hash decimal>]
//! Oracle (independent of the solver and of the model): brute force over all total assignments
//! (<= 16 variables) and, for every size, the unique unit-propagation closure of CNF + decisions
//! computed by a naive reference propagator (occurrence lists, whole-clause evaluation, no watches),
//! with a small DPLL search for counter-models when solver and closure differ.
//! LARGE family (272-480 variables: implication chains / trees deeper than 256): case prefix `u` =
//! only the unit-propagation layer of the model is run by the driver (states print as [model;diff],
//! SAT/UNK both print as OK); without prefix the full solver model is compared as for small cases.
use rsdd::repr::{Cnf, DecisionResult, Literal, SATSolver, VarLabel};
use rsdd_verif_harness::*;
use std::cell::RefCell;
use std::collections::HashMap;

pub const PROP: Prop = Prop { gen, run, panic_ok: never };

fn main() {
    run_main(PROP)
}

type L = (usize, bool);

fn lit_tok(l: L) -> String {
    if l.1 {
        format!("{}", l.0 + 1)
    } else {
        format!("-{}", l.0 + 1)
    }
}
fn parse_lit(t: &str) -> L {
    let i: i64 = t.parse().unwrap();
    if i > 0 {
        ((i - 1) as usize, true)
    } else {
        ((-i - 1) as usize, false)
    }
}
fn to_lit(l: L) -> Literal {
    Literal::new(VarLabel::new(l.0 as u64), l.1)
}
fn mk_solver(raw: &[Vec<L>]) -> Option<SATSolver> {
    let v: Vec<Vec<Literal>> = raw.iter().map(|c| c.iter().map(|l| to_lit(*l)).collect()).collect();
    SATSolver::new(Cnf::new(&v))
}
fn nvars_of(raw: &[Vec<L>]) -> usize {
    raw.iter().flat_map(|c| c.iter().map(|l| l.0 + 1)).max().unwrap_or(0)
}

#[derive(Clone, Debug)]
enum Op {
    D(L),
    P,
}

fn case_string(raw: &[Vec<L>], ops: &[Op]) -> String {
    let mut s = String::new();
    for c in raw {
        s.push_str("c ");
        for l in c {
            s.push_str(&lit_tok(*l));
            s.push(' ');
        }
    }
    for o in ops {
        match o {
            Op::D(l) => s.push_str(&format!("d {} ", lit_tok(*l))),
            Op::P => s.push_str("p "),
        }
    }
    s.trim().to_string()
}

// ---------------------------------------------------------------- generators
fn gen_clause(rng: &mut Rng, nv: usize, len: usize) -> Vec<L> {
    // distinct variables, random polarities
    let mut vars = rng.perm(nv);
    vars.truncate(len.min(nv));
    vars.into_iter().map(|v| (v, rng.coin())).collect()
}

fn gen_structured(rng: &mut Rng, nv: usize, nc: usize) -> Vec<Vec<L>> {
    // wide family (a fifth of the formulas): two or three more variables and a few clauses of 5..8
    // literals of mixed polarity among binary ones
    let wide = nv >= 3 && rng.chance(1, 5);
    let nv = if wide { (nv + 3).min(9) } else { nv };
    (0..nc)
        .map(|_| {
            let len = if wide { *rng.pick(&[2usize, 2, 5, 6, 7, 8, 5, 2, 3]) } else { *rng.pick(&[2usize, 2, 3, 3, 3, 4, 1]) };
            gen_clause(rng, nv, len)
        })
        .collect()
}

fn gen_edge(rng: &mut Rng, nv: usize, nc: usize) -> Vec<Vec<L>> {
    let mut cls = gen_structured(rng, nv, nc);
    let k = rng.range(1, 3);
    for _ in 0..k {
        match rng.below(7) {
            0 => {
                // tautology: a literal and its negation (possibly with a repeated literal around it)
                let i = rng.below(cls.len() as u64) as usize;
                if let Some(&l) = cls[i].first() {
                    if rng.chance(1, 3) {
                        // x, -x, x in input order: the repetition survives Cnf::new
                        cls[i].insert(1, (l.0, !l.1));
                        cls[i].insert(2, l);
                    } else {
                        let pos = rng.range(0, cls[i].len());
                        cls[i].insert(pos, (l.0, !l.1));
                        if rng.coin() {
                            cls[i].push(l);
                        }
                    }
                }
            }
            1 => {
                // duplicate literal
                let i = rng.below(cls.len() as u64) as usize;
                if let Some(&l) = cls[i].first() {
                    cls[i].push(l);
                }
            }
            2 => {
                // unit clause
                let u = (rng.below(nv as u64) as usize, rng.coin());
                let pos = rng.range(0, cls.len());
                cls.insert(pos, vec![u]);
            }
            3 => {
                // empty clause (rare: SATSolver::new returns None)
                if rng.chance(1, 3) {
                    let pos = rng.range(0, cls.len());
                    cls.insert(pos, vec![]);
                }
            }
            4 => {
                // a variable in no clause: shift every label >= v up by one
                let v = rng.below(nv as u64) as usize;
                for c in cls.iter_mut() {
                    for l in c.iter_mut() {
                        if l.0 >= v {
                            l.0 += 1;
                        }
                    }
                }
            }
            5 => {
                // a duplicated clause, and a purely tautological two-literal clause
                let i = rng.below(cls.len() as u64) as usize;
                let c = cls[i].clone();
                cls.push(c);
                let v = rng.below(nv as u64) as usize;
                cls.push(vec![(v, true), (v, false)]);
            }
            _ => {
                // two unit clauses that may clash
                let v = rng.below(nv as u64) as usize;
                cls.push(vec![(v, rng.coin())]);
                cls.push(vec![(v, rng.coin())]);
            }
        }
    }
    cls
}

/// random decide/pop interleaving, to depth = number of variables.  `unset_only`: decide only
/// variables that are unset in the current state (the solver's intended use); otherwise any
/// variable with any polarity (already-set ones included).  The solver is used here only to know
/// which variables are unset and how deep the stack is (case selection, not checking).
fn gen_history(rng: &mut Rng, raw: &[Vec<L>], unset_only: bool, maxlen: usize, out_of_range: bool) -> Vec<Op> {
    let nv = nvars_of(raw);
    let mut ops = vec![];
    let mut solver = match mk_solver(raw) {
        Some(s) => s,
        None => return vec![Op::D((0, true))], // ignored by run: new returned None
    };
    let mut depth = 0usize;
    for _ in 0..maxlen {
        let do_pop = depth > 0 && (rng.chance(3, 10) || depth >= nv.max(1));
        if do_pop {
            ops.push(Op::P);
            // a panic here is the implementation's: keep the history up to it as the case
            if std::panic::catch_unwind(std::panic::AssertUnwindSafe(|| solver.pop())).is_err() {
                return ops;
            }
            depth -= 1;
            continue;
        }
        if nv == 0 {
            break;
        }
        if out_of_range && rng.chance(1, 12) {
            // label >= num_vars: documented-by-behaviour panic (index out of bounds), state untouched
            ops.push(Op::D((nv + rng.range(0, 1), rng.coin())));
            continue;
        }
        let cand: Vec<usize> = if unset_only {
            (0..nv).filter(|v| !solver.is_set(VarLabel::new(*v as u64))).collect()
        } else {
            (0..nv).collect()
        };
        if cand.is_empty() {
            if depth > 0 {
                ops.push(Op::P);
                if std::panic::catch_unwind(std::panic::AssertUnwindSafe(|| solver.pop())).is_err() {
                    return ops;
                }
                depth -= 1;
                continue;
            }
            break;
        }
        let l = (*rng.pick(&cand), rng.coin());
        ops.push(Op::D(l));
        match std::panic::catch_unwind(std::panic::AssertUnwindSafe(|| solver.decide(to_lit(l)))) {
            Err(_) => return ops,
            Ok(DecisionResult::UNSAT) => {}
            Ok(_) => depth += 1,
        }
    }
    ops
}

thread_local! {
    static QUEUE: RefCell<Vec<String>> = RefCell::new(Vec::new());
}

/// ALL valid histories of depth <= 3 on one tiny CNF (thorough tier)
fn all_histories(raw: &[Vec<L>]) -> Vec<String> {
    let nv = nvars_of(raw);
    let mut alphabet: Vec<Op> = vec![Op::P];
    for v in 0..nv {
        alphabet.push(Op::D((v, true)));
        alphabet.push(Op::D((v, false)));
    }
    let mut out = vec![];
    if mk_solver(raw).is_none() {
        return vec![case_string(raw, &[])];
    }
    fn depth_after(raw: &[Vec<L>], ops: &[Op]) -> usize {
        let mut s = mk_solver(raw).unwrap();
        let mut d = 0;
        for o in ops {
            match o {
                Op::P => {
                    s.pop();
                    d -= 1;
                }
                Op::D(l) => match s.decide(to_lit(*l)) {
                    DecisionResult::UNSAT => {}
                    _ => d += 1,
                },
            }
        }
        d
    }
    let mut frontier: Vec<Vec<Op>> = vec![vec![]];
    for _ in 0..3 {
        let mut next = vec![];
        for h in &frontier {
            let d = depth_after(raw, h);
            for o in &alphabet {
                if matches!(o, Op::P) && d == 0 {
                    continue;
                }
                let mut h2 = h.clone();
                h2.push(o.clone());
                out.push(case_string(raw, &h2));
                next.push(h2);
            }
        }
        frontier = next;
    }
    out
}


// ---------------------------------------------------------------- LARGE family
/// Implication chains / trees over 272..480 variables (node i <-> literal (lab[i], pol[i])), so that
/// one decision propagates through more than 256 nested implications; conflicts at the head, in
/// the middle or far down the chain; guarded links; joined chains; skip edges; clause and literal
/// order randomised.  Returns the clauses, a list of literals worth deciding, a prelude (decisions
/// that arm the long chain: guard / first short chain) and the literal at the head of the long chain.
fn gen_large_cnf(rng: &mut Rng, thorough: bool) -> (Vec<Vec<L>>, Vec<L>, Vec<L>, L) {
    let shape = rng.below(5);
    let hi = if thorough { 480 } else { 400 };
    let nv = if shape == 4 { rng.range(345, hi) } else { rng.range(272, hi) };
    let plain = rng.chance(1, 3);
    let lab: Vec<usize> = if plain { (0..nv).collect() } else { rng.perm(nv) };
    let pol: Vec<bool> = (0..nv).map(|_| plain || rng.chance(2, 3)).collect();
    let lit = |i: usize, b: bool| -> L { (lab[i], pol[i] == b) };
    let reserve = 6; // nodes nv-6.. : conflict variables and guards
    let avail = nv - reserve;
    let mut fresh = avail;
    let mut chain_cls: Vec<Vec<L>> = vec![];
    let mut conf_cls: Vec<Vec<L>> = vec![];
    let mut interesting: Vec<L> = vec![];
    let mut prelude: Vec<L> = vec![];
    let mut head: Option<L> = None;
    let imp = |rng: &mut Rng, a: L, b: L| -> Vec<L> {
        let na = (a.0, !a.1);
        if rng.coin() { vec![na, b] } else { vec![b, na] }
    };
    // the main chain (node indices), always longer than 257
    let main: Vec<usize>;
    match shape {
        0 | 3 => {
            let k = if rng.chance(1, 4) { rng.range(258, 262) } else { rng.range(258, avail) };
            main = (0..k).collect();
            let guards: Vec<usize> = if shape == 3 { (0..rng.range(1, 2)).map(|_| rng.range(1, k - 2)).collect() } else { vec![] };
            let g = fresh;
            if shape == 3 {
                fresh += 1;
                interesting.push(lit(g, true));
                prelude.push(lit(g, true));
            }
            for i in 0..k - 1 {
                let mut c = imp(rng, lit(i, true), lit(i + 1, true));
                if guards.contains(&i) {
                    let pos = rng.range(0, 2);
                    c.insert(pos, lit(g, false));
                    interesting.push(lit(i + 1, true));
                }
                chain_cls.push(c);
            }
        }
        1 => {
            // 2-3 chains from a shared head
            let k = rng.range(258, avail - 8);
            main = (0..k).collect();
            for i in 0..k - 1 {
                chain_cls.push(imp(rng, lit(i, true), lit(i + 1, true)));
            }
            let mut next = k;
            for _ in 0..rng.range(1, 2) {
                if next + 2 >= avail {
                    break;
                }
                let len = rng.range(2, avail - next);
                let mut prev = 0usize;
                for j in next..next + len {
                    chain_cls.push(imp(rng, lit(prev, true), lit(j, true)));
                    prev = j;
                }
                next += len;
            }
        }
        2 => {
            // caterpillar: spine + leaves hanging off random spine nodes
            let k = rng.range(258, avail - 4);
            main = (0..k).collect();
            for i in 0..k - 1 {
                chain_cls.push(imp(rng, lit(i, true), lit(i + 1, true)));
            }
            for j in k..avail {
                let at = rng.range(0, k - 1);
                let pos = rng.range(0, chain_cls.len());
                let c = imp(rng, lit(at, true), lit(j, true));
                chain_cls.insert(pos, c);
            }
        }
        _ => {
            // two short chains a, b; the long chain c starts only when both have arrived
            let la = rng.range(20, 40);
            let lb = rng.range(20, 40);
            let lc = rng.range(258, avail - la - lb);
            for i in 0..la - 1 {
                chain_cls.push(imp(rng, lit(i, true), lit(i + 1, true)));
            }
            for i in la..la + lb - 1 {
                chain_cls.push(imp(rng, lit(i, true), lit(i + 1, true)));
            }
            let c0 = la + lb;
            let mut j = vec![lit(la - 1, false), lit(la + lb - 1, false), lit(c0, true)];
            rng.shuffle(&mut j);
            chain_cls.push(j);
            for i in c0..c0 + lc - 1 {
                chain_cls.push(imp(rng, lit(i, true), lit(i + 1, true)));
            }
            main = (c0..c0 + lc).collect();
            interesting.push(lit(0, true));
            interesting.push(lit(la, true));
            prelude.push(lit(0, true));
            head = Some(lit(la, true));
        }
    }
    let k = main.len();
    interesting.push(lit(main[0], true));
    interesting.push(lit(main[0], true));
    interesting.push(lit(main[0], true));
    interesting.push(lit(main[257], true));
    interesting.push(lit(main[rng.range(256, k - 1)], false));
    interesting.push(lit(main[rng.range(1, 40)], true));
    // conflicts
    let nconf = *rng.pick(&[0usize, 1, 1, 1, 1, 2, 2]);
    for _ in 0..nconf {
        let j = match rng.below(10) {
            0..=3 => 0,
            4..=6 => rng.range(0, 40),
            _ => rng.range(0, k - 1),
        };
        if rng.chance(2, 3) && fresh < nv {
            let y = fresh;
            fresh += 1;
            conf_cls.push(imp(rng, lit(main[j], true), lit(y, true)));
            conf_cls.push(imp(rng, lit(main[j], true), lit(y, false)));
        } else {
            // a node far down the chain contradicts node j
            let i = if j + 200 < k - 1 { rng.range(j + 200, k - 1) } else { k - 1 };
            if i != j {
                conf_cls.push(imp(rng, lit(main[j], true), lit(main[i], false)));
            }
        }
        interesting.push(lit(main[j], true));
        interesting.push(lit(main[j], true));
    }
    // skip edges and forward ternary implications (do not change any closure, change the watch order)
    let mut extra: Vec<Vec<L>> = vec![];
    for _ in 0..rng.range(0, 5) {
        let i = rng.range(0, k - 12);
        let d = rng.range(2, 10);
        extra.push(imp(rng, lit(main[i], true), lit(main[i + d], true)));
    }
    for _ in 0..rng.range(0, 3) {
        let i = rng.range(0, k - 30);
        let mut c = vec![lit(main[i], false), lit(main[i + rng.range(1, 12)], true), lit(main[i + rng.range(13, 29)], true)];
        rng.shuffle(&mut c);
        extra.push(c);
    }
    if rng.chance(1, 10) {
        // a unit clause far down the chain: SATSolver::new already propagates the tail
        extra.push(vec![lit(main[rng.range(k - 60, k - 1)], true)]);
    }
    if rng.chance(1, 40) {
        extra.push(vec![lit(main[0], true)]);
    }
    for c in extra {
        let pos = rng.range(0, chain_cls.len());
        chain_cls.insert(pos, c);
    }
    let mut cls: Vec<Vec<L>>;
    match rng.below(6) {
        0 | 1 => {
            cls = chain_cls;
            cls.extend(conf_cls);
        }
        2 | 3 => {
            cls = chain_cls;
            cls.extend(conf_cls);
            rng.shuffle(&mut cls);
        }
        4 => {
            cls = conf_cls;
            cls.extend(chain_cls);
        }
        _ => {
            cls = chain_cls;
            cls.reverse();
            cls.extend(conf_cls);
        }
    }
    if rng.chance(1, 10) {
        let c = rng.pick(&cls).clone();
        let pos = rng.range(0, cls.len());
        cls.insert(pos, c);
    }
    let head = head.unwrap_or(lit(main[0], true));
    (cls, interesting, prelude, head)
}

/// short histories for the LARGE family: decide the head / a conflict node / a guard / a node beyond
/// depth 256, after an UNSAT decide usually decide the negation (what the top-down compiler does),
/// pops in between.  `budget` bounds the total number of literals assigned over the history (the
/// full solver model pays per assigned literal).  The solver is used for case selection only.
fn gen_history_large(rng: &mut Rng, raw: &[Vec<L>], interesting: &[L], prelude: &[L], head: L, maxlen: usize, budget: usize) -> Vec<Op> {
    let nv = nvars_of(raw);
    let mut ops = vec![];
    let mut solver = match mk_solver(raw) {
        Some(s) => s,
        None => return vec![],
    };
    let mut depth = 0usize;
    let mut spent = 0usize;
    let mut last_unsat: Option<L> = None;
    let mut pre: Vec<L> = if rng.chance(7, 10) { prelude.to_vec() } else { vec![] };
    pre.reverse();
    for step in 0..maxlen + pre.len() {
        if spent > budget {
            break;
        }
        let l = if let Some(l) = pre.pop() {
            l
        } else if let (Some(u), true) = (last_unsat, rng.chance(4, 5)) {
            (u.0, !u.1)
        } else if depth > 0 && rng.chance(1, 4) {
            ops.push(Op::P);
            if std::panic::catch_unwind(std::panic::AssertUnwindSafe(|| solver.pop())).is_err() {
                return ops;
            }
            depth -= 1;
            continue;
        } else if (step == 0 || ops.len() == prelude.len()) && rng.chance(1, 2) {
            head
        } else if rng.chance(3, 5) {
            let l = *rng.pick(interesting);
            if rng.chance(1, 6) { (l.0, !l.1) } else { l }
        } else {
            (rng.below(nv as u64) as usize, rng.coin())
        };
        last_unsat = None;
        ops.push(Op::D(l));
        match std::panic::catch_unwind(std::panic::AssertUnwindSafe(|| solver.decide(to_lit(l)))) {
            Err(_) => return ops,
            Ok(DecisionResult::UNSAT) => last_unsat = Some(l),
            Ok(_) => {
                depth += 1;
                spent += solver.difference_iter().count();
            }
        }
    }
    ops
}

fn gen_large(rng: &mut Rng, thorough: bool, full: bool) -> String {
    let (raw, interesting, prelude, head) = gen_large_cnf(rng, thorough);
    let ops = if full {
        let n = rng.range(2, 6);
        gen_history_large(rng, &raw, &interesting, &prelude, head, n, 450)
    } else {
        let n = rng.range(2, 14);
        gen_history_large(rng, &raw, &interesting, &prelude, head, n, 100000)
    };
    let s = case_string(&raw, &ops);
    if full { s } else { format!("u {s}") }
}

pub fn gen(rng: &mut Rng, idx: usize, n: usize, thorough: bool) -> String {
    // LARGE family: 1 case in 32, from a forked generator (the small streams keep their sequence);
    // 1 in 8 of them goes through the full solver model, the others through its unit-propagation layer
    if idx % 32 == 31 {
        let mut r2 = Rng::new(rng.0 ^ (idx as u64).wrapping_mul(0x2545F4914F6CDD1D));
        return gen_large(&mut r2, thorough, (idx / 32) % 8 == 3);
    }
    let frac = (idx * 100) / n.max(1);
    if thorough && frac < 35 {
        // exhaustive blocks: a tiny CNF (<= 3 variables, <= 3 clauses), every history of depth <= 3
        let pending = QUEUE.with(|q| q.borrow_mut().pop());
        if let Some(c) = pending {
            return c;
        }
        let nv = rng.range(1, 3);
        let nc = rng.range(1, 3);
        let raw = if rng.chance(1, 4) { gen_edge(rng, nv, nc) } else { gen_structured(rng, nv, nc) };
        let raw: Vec<Vec<L>> = raw.into_iter().map(|c| c.into_iter().filter(|l| l.0 < 3).collect()).collect();
        let mut all = all_histories(&raw);
        all.reverse();
        let first = all.pop().unwrap();
        QUEUE.with(|q| *q.borrow_mut() = all);
        return first;
    }
    // sizes grow with the index
    let (nv, nc) = if frac < 30 {
        (rng.range(2, 4), rng.range(1, 4))
    } else if frac < 70 {
        (rng.range(3, 5), rng.range(2, 6))
    } else {
        (rng.range(3, 6), rng.range(2, 8))
    };
    let edge = rng.chance(1, 4);
    // a separate "long" stream: >= 27 literal occurrences, so that the product of the literal primes
    // exceeds 2^128 and wrapping_mul really wraps
    let big = !edge && frac >= 40 && rng.chance(1, 8);
    let raw = if edge {
        gen_edge(rng, nv, nc)
    } else if big {
        (0..rng.range(8, 9)).map(|_| { let len = rng.range(3, 4); gen_clause(rng, 6, len) }).collect()
    } else {
        gen_structured(rng, nv, nc)
    };
    let unset_only = rng.chance(3, 5);
    let nvr = nvars_of(&raw);
    let maxlen = if thorough { 4 * nvr + 4 } else { 3 * nvr + 2 };
    let ops = gen_history(rng, &raw, unset_only, maxlen, edge && !unset_only);
    case_string(&raw, &ops)
}

// ---------------------------------------------------------------- observation
#[derive(Clone, PartialEq, Debug)]
struct Obs {
    model: Vec<Option<bool>>,
    diff: Vec<i64>,
    is_sat: bool,
    hash: u128,
}

fn observe(s: &SATSolver, nv: usize, fails: &mut Vec<String>) -> Obs {
    let m = s.verif_model();
    let model: Vec<Option<bool>> = (0..nv).map(|v| m.get(VarLabel::new(v as u64))).collect();
    for v in 0..nv {
        if s.is_set(VarLabel::new(v as u64)) != model[v].is_some() {
            fails.push(format!("is_set({v}) disagrees with the model"));
        }
    }
    let mut diff: Vec<i64> = s
        .difference_iter()
        .map(|l| {
            let i = l.label().value() as i64 + 1;
            if l.polarity() {
                i
            } else {
                -i
            }
        })
        .collect();
    diff.sort_by_key(|a| (a.abs(), *a));
    Obs { model, diff, is_sat: s.is_sat(), hash: s.cur_hash() }
}

fn obs_string(o: &Obs) -> String {
    let ms: String = o.model.iter().map(|x| match x { Some(true) => 'T', Some(false) => 'F', None => '-' }).collect();
    let ds: Vec<String> = o.diff.iter().map(|d| d.to_string()).collect();
    format!("[{};{};{};{}]", ms, ds.join(","), if o.is_sat { 1 } else { 0 }, o.hash)
}

// ---------------------------------------------------------------- oracle (brute force)
fn lit_holds(a: u32, l: L) -> bool {
    ((a >> l.0) & 1 == 1) == l.1
}
/// all total assignments (bit v = value of variable v) satisfying the raw clauses and the decisions
fn models(raw: &[Vec<L>], nv: usize, decisions: &[L]) -> Vec<u32> {
    (0u32..(1u32 << nv))
        .filter(|a| raw.iter().all(|c| c.iter().any(|l| lit_holds(*a, *l))) && decisions.iter().all(|l| lit_holds(*a, *l)))
        .collect()
}
fn is_taut(c: &[L]) -> bool {
    c.iter().any(|l| c.contains(&(l.0, !l.1)))
}
/// positional residual formula: for every non-tautological clause (as a sorted set of literals)
/// either None (it has a true literal) or its unassigned literals
fn residual(raw: &[Vec<L>], model: &[Option<bool>]) -> Vec<Option<Vec<L>>> {
    raw.iter()
        .filter(|c| !is_taut(c))
        .map(|c| {
            if c.iter().any(|l| model[l.0] == Some(l.1)) {
                None
            } else {
                let mut r: Vec<L> = c.iter().filter(|l| model[l.0].is_none()).cloned().collect();
                r.sort();
                r.dedup();
                Some(r)
            }
        })
        .collect()
}
/// does the product of the first k primes stay below 2^128?  (exact, checked arithmetic)
fn primes_fit(k: usize) -> bool {
    let mut prod: u128 = 1;
    let mut c: u128 = 2;
    let mut found = 0;
    while found < k {
        if (2..c).take_while(|d| d * d <= c).all(|d| c % d != 0) {
            match prod.checked_mul(c) {
                Some(p) => prod = p,
                None => return false,
            }
            found += 1;
        }
        c += 1;
    }
    true
}

fn check_state(
    what: &str,
    raw: &[Vec<L>],
    nv: usize,
    decisions: &[L],
    o: &Obs,
    fails: &mut Vec<String>,
) {
    let ms = models(raw, nv, decisions);
    // soundness: every assigned literal is entailed by CNF + decisions
    for v in 0..nv {
        if let Some(b) = o.model[v] {
            if let Some(a) = ms.iter().find(|a| !lit_holds(**a, (v, b))) {
                fails.push(format!("{what}: x{v}={b} assigned but not entailed (countermodel {a:b})"));
            }
        }
    }
    // every decision on the stack is assigned as decided
    for d in decisions {
        if o.model[d.0] != Some(d.1) {
            fails.push(format!("{what}: decision {} not reflected in the model", lit_tok(*d)));
        }
    }
    // fix-point: no clause falsified, none with exactly one unassigned literal and no true one
    for (i, c) in raw.iter().enumerate() {
        if c.iter().any(|l| o.model[l.0] == Some(l.1)) {
            continue;
        }
        let mut un: Vec<L> = c.iter().filter(|l| o.model[l.0].is_none()).cloned().collect();
        un.sort();
        un.dedup();
        if un.is_empty() {
            fails.push(format!("{what}: clause {i} is falsified but UNSAT was not reported"));
        } else if un.len() == 1 {
            fails.push(format!("{what}: clause {i} is unit on {} but it was not propagated", lit_tok(un[0])));
        }
    }
    // satisfied flag <=> every non-tautological clause has a true literal
    let all_true = raw.iter().filter(|c| !is_taut(c)).all(|c| c.iter().any(|l| o.model[l.0] == Some(l.1)));
    if all_true != o.is_sat {
        fails.push(format!("{what}: is_sat()={} but 'every non-tautological clause has a true literal'={}", o.is_sat, all_true));
    }
}

// ---------------------------------------------------------------- oracle (scalable): unit-propagation closure
/// clauses as sorted sets of literals + occurrence lists (index 2*var + polarity)
struct Formula {
    cls: Vec<Vec<L>>,
    occ: Vec<Vec<usize>>,
}
fn lidx(l: L) -> usize {
    2 * l.0 + l.1 as usize
}
impl Formula {
    fn new(raw: &[Vec<L>], nv: usize) -> Formula {
        let cls: Vec<Vec<L>> = raw
            .iter()
            .map(|c| {
                let mut d = c.clone();
                d.sort();
                d.dedup();
                d
            })
            .collect();
        let mut occ = vec![vec![]; 2 * nv];
        for (i, c) in cls.iter().enumerate() {
            for l in c {
                occ[lidx(*l)].push(i);
            }
        }
        Formula { cls, occ }
    }
}
/// Naive reference propagator: assign `units`, then repeat "a clause without a true literal whose
/// literals are all false but one gets that one assigned" until nothing changes.  false = some
/// clause has all its literals false (conflict).  Without a conflict the result is the unique
/// unit-propagation closure (least fix-point), whatever order the clauses are visited in.
fn up_close(f: &Formula, m: &mut Vec<Option<bool>>, units: &[L]) -> bool {
    let mut q: Vec<L> = vec![];
    for &u in units {
        match m[u.0] {
            Some(b) => {
                if b != u.1 {
                    return false;
                }
            }
            None => {
                m[u.0] = Some(u.1);
                q.push(u);
            }
        }
    }
    let mut i = 0;
    while i < q.len() {
        let l = q[i];
        i += 1;
        for &ci in &f.occ[lidx((l.0, !l.1))] {
            let c = &f.cls[ci];
            if c.iter().any(|x| m[x.0] == Some(x.1)) {
                continue;
            }
            let un: Vec<L> = c.iter().filter(|x| m[x.0].is_none()).cloned().collect();
            match un.len() {
                0 => return false,
                1 => {
                    m[un[0].0] = Some(un[0].1);
                    q.push(un[0]);
                }
                _ => {}
            }
        }
    }
    true
}
/// closure of the empty assignment: empty clause -> conflict, unit clauses are the seeds
fn up_initial(f: &Formula, nv: usize) -> Option<Vec<Option<bool>>> {
    if f.cls.iter().any(|c| c.is_empty()) {
        return None;
    }
    let units: Vec<L> = f.cls.iter().filter(|c| c.len() == 1).map(|c| c[0]).collect();
    let mut m = vec![None; nv];
    if up_close(f, &mut m, &units) {
        Some(m)
    } else {
        None
    }
}
/// DPLL over the closure (counter-model search, only run when solver and closure differ):
/// Ok(Some(a)) total model extending m, Ok(None) none exists, Err(()) node budget exhausted
fn find_model(f: &Formula, m: Vec<Option<bool>>, budget: &mut usize) -> Result<Option<Vec<bool>>, ()> {
    if *budget == 0 {
        return Err(());
    }
    *budget -= 1;
    match m.iter().position(|x| x.is_none()) {
        None => {
            let a: Vec<bool> = m.iter().map(|x| x.unwrap()).collect();
            if f.cls.iter().all(|c| c.iter().any(|l| a[l.0] == l.1)) {
                Ok(Some(a))
            } else {
                Ok(None)
            }
        }
        Some(v) => {
            for b in [false, true] {
                let mut m2 = m.clone();
                if up_close(f, &mut m2, &[(v, b)]) {
                    if let Some(a) = find_model(f, m2, budget)? {
                        return Ok(Some(a));
                    }
                }
            }
            Ok(None)
        }
    }
}
/// a total model of the CNF extending `base` (a conflict-free closure) and the literals `extra`
fn search(f: &Formula, base: &[Option<bool>], extra: &[L]) -> Result<Option<Vec<bool>>, ()> {
    let mut m = base.to_vec();
    if !up_close(f, &mut m, extra) {
        return Ok(None);
    }
    let mut budget = 20000usize;
    find_model(f, m, &mut budget)
}
fn show_model(a: &[bool]) -> String {
    let t: Vec<String> = a.iter().enumerate().filter(|(_, b)| **b).map(|(v, _)| (v + 1).to_string()).collect();
    format!("true variables (1-based) {{{}}}, all others false", t.join(","))
}

/// decisions reflected, fix-point, satisfied flag: no enumeration needed
fn check_common(what: &str, raw: &[Vec<L>], decisions: &[L], o: &Obs, fails: &mut Vec<String>) {
    for d in decisions {
        if o.model[d.0] != Some(d.1) {
            fails.push(format!("{what}: decision {} not reflected in the model", lit_tok(*d)));
        }
    }
    let mut shown = 0;
    for (i, c) in raw.iter().enumerate() {
        if c.iter().any(|l| o.model[l.0] == Some(l.1)) {
            continue;
        }
        let mut un: Vec<L> = c.iter().filter(|l| o.model[l.0].is_none()).cloned().collect();
        un.sort();
        un.dedup();
        if un.len() <= 1 {
            shown += 1;
            if shown > 4 {
                continue;
            }
        }
        if un.is_empty() {
            fails.push(format!("{what}: clause {i} is falsified but UNSAT was not reported"));
        } else if un.len() == 1 {
            fails.push(format!("{what}: clause {i} is unit on {} but it was not propagated", lit_tok(un[0])));
        }
    }
    let all_true = raw.iter().filter(|c| !is_taut(c)).all(|c| c.iter().any(|l| o.model[l.0] == Some(l.1)));
    if all_true != o.is_sat {
        fails.push(format!("{what}: is_sat()={} but 'every non-tautological clause has a true literal'={}", o.is_sat, all_true));
    }
}

/// the solver's partial model against the closure `exp` of CNF + decisions: a closure literal that
/// is unassigned is a missed implication; an assigned literal outside the closure is reported as
/// not entailed when the search finds a model of CNF + decisions with the opposite value
fn check_closure(what: &str, f: &Formula, exp: &[Option<bool>], o: &Obs, st: &mut Stats, fails: &mut Vec<String>) {
    let nv = exp.len();
    let extra: Vec<usize> = (0..nv).filter(|v| o.model[*v].is_some() && o.model[*v] != exp[*v]).collect();
    let missing: Vec<usize> = (0..nv).filter(|v| o.model[*v].is_none() && exp[*v].is_some()).collect();
    if !missing.is_empty() {
        let v = missing[0];
        fails.push(format!(
            "{what}: {} literal(s) of the unit-propagation closure of CNF + decisions are unassigned, first {}",
            missing.len(),
            lit_tok((v, exp[v].unwrap()))
        ));
    }
    for (k, v) in extra.iter().enumerate() {
        if k >= 2 {
            break;
        }
        let b = o.model[*v].unwrap();
        match search(f, exp, &[(*v, !b)]) {
            Ok(Some(a)) => fails.push(format!(
                "{what}: {} assigned but not entailed by CNF + decisions ({} assigned literal(s) are outside the unit-propagation closure; countermodel: {})",
                lit_tok((*v, b)),
                extra.len(),
                show_model(&a)
            )),
            Ok(None) => st.bump("assigned_literal_entailed_but_not_by_unit_propagation"),
            Err(()) => fails.push(format!(
                "{what}: {} assigned but outside the unit-propagation closure of CNF + decisions (countermodel search gave up)",
                lit_tok((*v, b))
            )),
        }
    }
}

const BRUTE_MAX: usize = 16;

pub fn run(case: &str, st: &mut Stats) -> Outcome {
    let t0 = toks(case);
    // `u`: LARGE-family case compared with the unit-propagation layer of the model only
    let light = t0.first() == Some(&"u");
    let t = if light { &t0[1..] } else { &t0[..] };
    let mut raw: Vec<Vec<L>> = vec![];
    let mut i = 0;
    while i < t.len() && t[i] == "c" {
        i += 1;
        let mut c = vec![];
        while i < t.len() && t[i] != "c" && t[i] != "d" && t[i] != "p" {
            c.push(parse_lit(t[i]));
            i += 1;
        }
        raw.push(c);
    }
    let mut ops = vec![];
    while i < t.len() {
        if t[i] == "d" {
            ops.push(Op::D(parse_lit(t[i + 1])));
            i += 2;
        } else {
            ops.push(Op::P);
            i += 1;
        }
    }
    let nv = nvars_of(&raw);
    let small = nv <= BRUTE_MAX;
    let mut fails: Vec<String> = vec![];
    if small {
        st.bump(&format!("nvars={nv}"));
    } else {
        st.bump(&format!("nvars={}..{} (LARGE family)", nv / 50 * 50, nv / 50 * 50 + 49));
        st.bump(if light { "large:model=unit-propagation layer only" } else { "large:model=full solver" });
    }
    st.bump(&format!("nclauses={}", raw.len().min(9)));
    if raw.iter().any(|c| is_taut(c)) {
        st.bump("has_tautology");
    }
    if raw.iter().any(|c| c.len() == 1) {
        st.bump("has_unit_clause");
    }
    if raw.iter().any(|c| c.is_empty()) {
        st.bump("has_empty_clause");
    }
    if (0..nv).any(|v| raw.iter().all(|c| c.iter().all(|l| l.0 != v))) {
        st.bump("has_unused_variable");
    }
    if raw.iter().any(|c| (0..c.len()).any(|a| (a + 1..c.len()).any(|b| c[a] == c[b]))) {
        st.bump("has_duplicate_literal");
    }
    // does a repeated literal survive Cnf::new (stable sort by label + adjacent dedup)?  e.g. x,-x,x
    if raw.iter().any(|c| {
        let mut d = c.clone();
        d.sort_by_key(|l| l.0); // stable
        d.dedup();
        (0..d.len()).any(|a| (a + 1..d.len()).any(|b| d[a] == d[b]))
    }) {
        st.bump("repeated_literal_survives_Cnf::new");
    }
    let nocc: usize = raw
        .iter()
        .filter(|c| !is_taut(c))
        .map(|c| {
            let mut d = c.clone();
            d.sort();
            d.dedup();
            d.len()
        })
        .sum();
    let fit = primes_fit(nocc);
    if !fit {
        st.bump("hash_wraps_possible(product>=2^128)");
    }
    let f = Formula::new(&raw, nv);
    let exp0 = up_initial(&f, nv);
    let pre = if light { "U " } else { "" };
    // the residual hash is compared as an equivalence CLASS within the history (#k = the k-th
    // distinct hash value seen in this case): the property fixes when two hashes are equal, not
    // their numeric values (which depend on how primes are dealt to the literal occurrences)
    let hash_classes: RefCell<Vec<u128>> = RefCell::new(vec![]);
    let show = |o: &Obs| -> String {
        let s = obs_string(o);
        // [model;diff;is_sat;hash]
        let cut_h = s.rfind(';').unwrap();
        if light {
            // -> [model;diff]
            let cut = s[..cut_h].rfind(';').unwrap();
            format!("{}]", &s[..cut])
        } else {
            let mut hc = hash_classes.borrow_mut();
            let k = match hc.iter().position(|h| *h == o.hash) { Some(k) => k, None => { hc.push(o.hash); hc.len() - 1 } };
            format!("{};#{k}]", &s[..cut_h])
        }
    };

    let mut solver = match mk_solver(&raw) {
        None => {
            st.bump("new=None");
            // UNSAT from new only if the CNF has no model at all
            if small {
                if let Some(a) = models(&raw, nv, &[]).first() {
                    fails.push(format!("SATSolver::new returned None but the CNF has the model {a:b}"));
                }
            }
            if let Some(e) = &exp0 {
                match search(&f, e, &[]) {
                    Ok(Some(a)) => fails.push(format!(
                        "SATSolver::new returned None but unit propagation meets no conflict and the CNF has a model: {}",
                        show_model(&a)
                    )),
                    Ok(None) => st.bump("new=None_without_unit_conflict_but_unsatisfiable"),
                    Err(()) => fails.push("SATSolver::new returned None but unit propagation of the unit clauses meets no conflict".to_string()),
                }
            }
            return Outcome { result: format!("{pre}NONE"), fails, nontrivial: !raw.iter().any(|c| c.is_empty()) };
        }
        Some(s) => s,
    };
    let mut out = String::from(pre);
    let mut decisions: Vec<L> = vec![];
    let mut saved: Vec<Obs> = vec![]; // observables before each successful decide
    let mut seen: HashMap<u128, Vec<Option<Vec<L>>>> = HashMap::new();
    let mut seen_res: HashMap<Vec<Option<Vec<L>>>, u128> = HashMap::new();
    let mut cur = observe(&solver, nv, &mut fails);
    out.push_str(&show(&cur));
    if small {
        check_state("after new", &raw, nv, &decisions, &cur, &mut fails);
    } else {
        check_common("after new", &raw, &decisions, &cur, &mut fails);
    }
    // expected partial models (closure of CNF + decisions), one per stack level
    let mut exp_cur: Vec<Option<bool>> = match exp0 {
        Some(e) => {
            check_closure("after new", &f, &e, &cur, st, &mut fails);
            e
        }
        None => {
            fails.push("SATSolver::new returned a solver although unit propagation of the unit clauses ends in a conflict".to_string());
            cur.model.clone()
        }
    };
    let mut exp_saved: Vec<Vec<Option<bool>>> = vec![];
    let mut nontrivial = false;
    let mut note_hash = |o: &Obs, fails: &mut Vec<String>| {
        let r = residual(&raw, &o.model);
        if fit {
            if let Some(prev) = seen.get(&o.hash) {
                if *prev != r {
                    fails.push(format!("hash {} reached with two different residual formulas: {:?} and {:?}", o.hash, prev, r));
                }
            }
        }
        // the converse holds without any guard: identical residuals (same removed occurrences) => equal hashes
        if let Some(h) = seen_res.get(&r) {
            if *h != o.hash {
                fails.push(format!("identical residual formulas with different hashes {} and {}", h, o.hash));
            }
        }
        seen.insert(o.hash, r.clone());
        seen_res.insert(r, o.hash);
    };
    note_hash(&cur, &mut fails);
    let mut prev_unsat: Option<L> = None;
    for (k, o) in ops.iter().enumerate() {
        let was_unsat = prev_unsat.take();
        match o {
            Op::P => {
                if saved.is_empty() {
                    // only reachable when an earlier decide of a valid history reported UNSAT wrongly
                    // (already recorded above): popping now would unwrap an empty stack in the solver
                    fails.push(format!("step {k}: the history pops here but no successful decide is outstanding (an earlier decide reported UNSAT unexpectedly)"));
                    break;
                }
                st.bump("op_pop");
                solver.pop();
                decisions.pop();
                let now = observe(&solver, nv, &mut fails);
                let want = saved.pop().expect("generator only pops after a successful decide");
                if now != want {
                    let (a, b) = (obs_string(&now), obs_string(&want));
                    fails.push(format!(
                        "step {k}: pop did not restore the observable state: {} vs {}",
                        if small { a } else { format!("{} assigned", now.model.iter().filter(|x| x.is_some()).count()) },
                        if small { b } else { format!("{} assigned", want.model.iter().filter(|x| x.is_some()).count()) }
                    ));
                }
                out.push_str(" POP ");
                out.push_str(&show(&now));
                let what = format!("step {k} (pop)");
                if small {
                    check_state(&what, &raw, nv, &decisions, &now, &mut fails);
                } else {
                    check_common(&what, &raw, &decisions, &now, &mut fails);
                }
                exp_cur = exp_saved.pop().unwrap();
                check_closure(&what, &f, &exp_cur, &now, st, &mut fails);
                cur = now;
            }
            Op::D(l) => {
                if l.0 >= nv {
                    st.bump("op_decide_out_of_range");
                    let r = std::panic::catch_unwind(std::panic::AssertUnwindSafe(|| solver.decide(to_lit(*l))));
                    if r.is_ok() {
                        fails.push(format!("step {k}: decide on label {} >= num_vars did not panic", l.0));
                    }
                    let now = observe(&solver, nv, &mut fails);
                    if now != cur {
                        fails.push(format!("step {k}: panicking decide changed the observable state"));
                    }
                    out.push_str(" PANIC ");
                    out.push_str(&show(&now));
                    continue;
                }
                if cur.model[l.0].is_some() {
                    st.bump("op_decide_already_set");
                } else {
                    st.bump("op_decide_unset");
                }
                let res = solver.decide(to_lit(*l));
                let now = observe(&solver, nv, &mut fails);
                // the closure of CNF + decisions + l, computed without the solver
                let mut exp_try = exp_cur.clone();
                let exp_ok = up_close(&f, &mut exp_try, &[*l]);
                match res {
                    DecisionResult::UNSAT => {
                        st.bump("res_UNSAT");
                        out.push_str(" UNSAT ");
                        prev_unsat = Some(*l);
                        if small {
                            let mut d2 = decisions.clone();
                            d2.push(*l);
                            if let Some(a) = models(&raw, nv, &d2).first() {
                                fails.push(format!("step {k}: UNSAT reported but {a:b} is a model of CNF + decisions"));
                            }
                        }
                        if exp_ok {
                            match find_model(&f, exp_try, &mut 20000) {
                                Ok(Some(a)) => fails.push(format!(
                                    "step {k}: decide {} reported UNSAT but unit propagation meets no conflict and CNF + decisions have a model: {}",
                                    lit_tok(*l),
                                    show_model(&a)
                                )),
                                Ok(None) => st.bump("UNSAT_without_unit_conflict_but_unsatisfiable"),
                                Err(()) => fails.push(format!("step {k}: decide {} reported UNSAT but unit propagation of CNF + decisions meets no conflict", lit_tok(*l))),
                            }
                        }
                        if now != cur {
                            fails.push(format!("step {k}: UNSAT decide changed the observable state"));
                        }
                        if cur.model[l.0].is_none() {
                            nontrivial = true;
                        }
                    }
                    r => {
                        let sat = matches!(r, DecisionResult::SAT);
                        st.bump(if sat { "res_SAT" } else { "res_Unknown" });
                        out.push_str(if light { " OK " } else if sat { " SAT " } else { " UNK " });
                        if sat != now.is_sat {
                            fails.push(format!("step {k}: DecisionResult::SAT={sat} but is_sat()={}", now.is_sat));
                        }
                        decisions.push(*l);
                        saved.push(cur.clone());
                        if now.diff.len() >= 2 {
                            nontrivial = true;
                            st.bump("decide_with_implied_literals");
                        }
                        if now.diff.len() > 257 {
                            st.bump("large:decide_with_more_than_256_implied_literals");
                        }
                        if was_unsat == Some((l.0, !l.1)) {
                            st.bump("decide_UNSAT_then_decide_the_negation");
                        }
                        // difference_iter = newly assigned literals
                        let mut want: Vec<i64> = (0..nv)
                            .filter(|v| now.model[*v].is_some() && cur.model[*v].is_none())
                            .map(|v| if now.model[v] == Some(true) { v as i64 + 1 } else { -(v as i64 + 1) })
                            .collect();
                        want.sort_by_key(|a| (a.abs(), *a));
                        if want != now.diff {
                            fails.push(format!(
                                "step {k}: difference_iter ({} literals) is not the set of newly assigned literals ({} literals)",
                                now.diff.len(),
                                want.len()
                            ));
                        }
                        for v in 0..nv {
                            if cur.model[v].is_some() && cur.model[v] != now.model[v] {
                                fails.push(format!("step {k}: decide changed the value of x{v}"));
                            }
                        }
                        let what = format!("step {k} (decide {})", lit_tok(*l));
                        if small {
                            check_state(&what, &raw, nv, &decisions, &now, &mut fails);
                        } else {
                            check_common(&what, &raw, &decisions, &now, &mut fails);
                        }
                        exp_saved.push(exp_cur.clone());
                        if exp_ok {
                            check_closure(&what, &f, &exp_try, &now, st, &mut fails);
                            exp_cur = exp_try;
                        } else {
                            fails.push(format!(
                                "step {k}: decide {} succeeded although unit propagation of CNF + decisions ends in a conflict (no model extends the decisions)",
                                lit_tok(*l)
                            ));
                            exp_cur = now.model.clone();
                        }
                    }
                }
                out.push_str(&show(&now));
                cur = now;
            }
        }
        note_hash(&cur, &mut fails);
    }
    st.add("history_len", ops.len() as u64);
    Outcome { result: out, fails, nontrivial }
}
