//! C03 / C04 (tree layer): random operation programs on rsdd's CompressionSddBuilder, every vtree
//! shape, compression on and off.
//! case:  <compress 0|1> <cap> <vtree> ; <ops>
//!   vtree ::= L <var> | N <vtree> <vtree>            cap = initial unique-table slots (0 = shipped)
//!   ops   ::= t | f | v <var> <pol> | n <i> | a <i> <j> | o <i> <j> | x <i> <j> | q <i> <j>
//!           | i <i> <j> <k> | c <i> <var> <0|1> | e <i> <var> | m <i> <var> <j>      (i,j,k: pool indices)
//!           | k <n> (<len> <lit>*)^n      compile_cnf of Cnf::new(raw clauses); lit = 2*var + polarity
//!        with compression off AND a compile_cnf in the program only truth tables are printed (the clause
//!        order after the code's sort with a non-total comparator is not determined by the property)
//! generator: the general operation mix on vtrees of 1..7 leaves (labels 0..6), plus three shape families
//!        (gen_dense, gen_mixed, gen_wide; labels 0..7): DENSE = Shannon expansions over the 3..5 left
//!        variables of a vtree node with a palette of small right-hand functions (s, !s, literals,
//!        constants), combined by and/or/xor/iff in both argument orders (9..32 cells per product);
//!        MIXED = a binary decision above a general node, ((a ((b c) d)) rest); WIDE = 8 variables,
//!        ((3|3) | 2), two 8-element selectors whose product has 64 cells.  C03_FAMILY=dense|mixed|
//!        wide|base forces one family (development aid).
//! out:   unfolding of every pool entry (re-walked after the last operation), '#', then for every
//!        entry the index of the first pointer-equal entry.
//! oracle: truth table (256 rows, variables 0..7) of every entry, computed by walking the nodes
//!        (elements, complement bits) -- not through the library's evaluation -- against the spec
//!        program evaluated on bitsets; per reachable node the partition / confinement rules
//!        (C03: what and() relies on; C04 additionally non-false primes, distinct subs, trimming,
//!        the library's own predicates, and pointer equality <=> truth-table equality).
use rsdd::builder::sdd::{CompressionSddBuilder, SddBuilder};
use rsdd::builder::BottomUpBuilder;
use rsdd::repr::{Cnf, DDNNFPtr, DTree, Literal, SddPtr, VTree, VarLabel};
use rsdd::util::btree::BTree;
use rsdd_verif_harness::*;
use std::collections::HashMap;

/// false: property C03 (this file).  true: property C04 (c04.rs is this file with the flag set).
const C04: bool = false;

pub const PROP: Prop = Prop { gen, run, panic_ok: never };

fn main() {
    run_main(PROP)
}

const NV: usize = 8; // truth tables range over variables 0..7 (256 rows)
/// the original program families draw their labels from 0..6 (the truth-table mode of the OCaml
/// driver prints 128 rows); only the dense / mixed / wide families use label 7
const NV_BASE: usize = 7;

/// 256-row truth table: row r (bit v of r = value of variable v) is bit r % 128 of word r / 128
#[derive(Clone, Copy, PartialEq, Eq, Hash, Default, Debug)]
struct TT([u128; 2]);
impl TT {
    const ZERO: TT = TT([0, 0]);
    const FULL: TT = TT([!0, !0]);
    #[allow(dead_code)]
    fn bit(self, row: usize) -> bool {
        (self.0[row >> 7] >> (row & 127)) & 1 == 1
    }
    fn full() -> TT {
        TT::FULL
    }
    fn is_zero(self) -> bool {
        self == TT::ZERO
    }
    /// rows move up by n (1 <= n <= 128)
    fn shl(self, n: usize) -> TT {
        if n >= 128 {
            TT([0, self.0[0]])
        } else {
            TT([self.0[0] << n, (self.0[1] << n) | (self.0[0] >> (128 - n))])
        }
    }
    /// rows move down by n (1 <= n <= 128)
    fn shr(self, n: usize) -> TT {
        if n >= 128 {
            TT([self.0[1], 0])
        } else {
            TT([(self.0[0] >> n) | (self.0[1] << (128 - n)), self.0[1] >> n])
        }
    }
    /// all 256 rows, row 255 first
    fn hex(self) -> String {
        format!("{:032x}{:032x}", self.0[1], self.0[0])
    }
    /// rows 127..0 (variable 7 false): the format of the OCaml driver's truth-table mode
    fn hex_lo(self) -> String {
        format!("{:032x}", self.0[0])
    }
}
impl std::ops::BitAnd for TT {
    type Output = TT;
    fn bitand(self, o: TT) -> TT {
        TT([self.0[0] & o.0[0], self.0[1] & o.0[1]])
    }
}
impl std::ops::BitOr for TT {
    type Output = TT;
    fn bitor(self, o: TT) -> TT {
        TT([self.0[0] | o.0[0], self.0[1] | o.0[1]])
    }
}
impl std::ops::BitXor for TT {
    type Output = TT;
    fn bitxor(self, o: TT) -> TT {
        TT([self.0[0] ^ o.0[0], self.0[1] ^ o.0[1]])
    }
}
impl std::ops::Not for TT {
    type Output = TT;
    fn not(self) -> TT {
        TT([!self.0[0], !self.0[1]])
    }
}
impl std::ops::BitOrAssign for TT {
    fn bitor_assign(&mut self, o: TT) {
        *self = *self | o
    }
}
impl std::ops::BitAndAssign for TT {
    fn bitand_assign(&mut self, o: TT) {
        *self = *self & o
    }
}

fn var_mask(v: usize) -> TT {
    if v == 7 {
        return TT([0, !0]);
    }
    // blocks of 2^v zeros and 2^v ones, repeated over 128 rows
    let w = 1usize << v;
    let mut m: u128 = if v == 6 { !0u128 << 64 } else { ((1u128 << w) - 1) << w };
    let mut width = 2 * w;
    while width < 128 {
        m |= m << width;
        width *= 2;
    }
    TT([m, m])
}
fn tt_cond(f: TT, v: usize, b: bool) -> TT {
    let m = var_mask(v);
    let sh = 1usize << v;
    if b {
        let hi = f & m;
        hi | hi.shr(sh)
    } else {
        let lo = f & !m;
        lo | lo.shl(sh)
    }
}
fn tt_depends(f: TT, v: usize) -> bool {
    tt_cond(f, v, true) != tt_cond(f, v, false)
}
fn tt_deps(f: TT) -> u8 {
    let mut m = 0u8;
    for v in 0..NV {
        if tt_depends(f, v) {
            m |= 1 << v;
        }
    }
    m
}

// ---------- vtrees (the harness's own view; nothing from VTreeManager) ----------
#[derive(Clone, Debug)]
enum VT {
    L(u64),
    N(Box<VT>, Box<VT>),
}
#[derive(Clone, Debug)]
struct VInfo {
    leaf: Option<u64>,
    lvars: u8,
    rvars: u8,
    lo: usize,
    hi: usize, // in-order index range of the subtree
    left_is_leaf: bool,
}
fn vt_info(t: &VT, out: &mut Vec<VInfo>) -> u8 {
    match t {
        VT::L(v) => {
            let i = out.len();
            out.push(VInfo { leaf: Some(*v), lvars: 0, rvars: 0, lo: i, hi: i, left_is_leaf: false });
            1u8 << *v
        }
        VT::N(l, r) => {
            let lo = out.len();
            let lv = vt_info(l, out);
            let me = out.len();
            out.push(VInfo { leaf: None, lvars: lv, rvars: 0, lo, hi: 0, left_is_leaf: matches!(**l, VT::L(_)) });
            let rv = vt_info(r, out);
            out[me].rvars = rv;
            out[me].hi = out.len() - 1;
            lv | rv
        }
    }
}
fn vt_text(t: &VT) -> String {
    match t {
        VT::L(v) => format!("L {v}"),
        VT::N(l, r) => format!("N {} {}", vt_text(l), vt_text(r)),
    }
}
fn vt_parse(t: &[&str], i: &mut usize) -> VT {
    match t[*i] {
        "L" => {
            let v = t[*i + 1].parse().unwrap();
            *i += 2;
            VT::L(v)
        }
        "N" => {
            *i += 1;
            let l = vt_parse(t, i);
            let r = vt_parse(t, i);
            VT::N(Box::new(l), Box::new(r))
        }
        _ => panic!("bad vtree"),
    }
}
fn vt_rsdd(t: &VT) -> VTree {
    match t {
        VT::L(v) => VTree::new_leaf(VarLabel::new(*v)),
        VT::N(l, r) => VTree::new_node(Box::new(vt_rsdd(l)), Box::new(vt_rsdd(r))),
    }
}
fn vt_of_rsdd(t: &VTree) -> VT {
    match t {
        BTree::Leaf(v) => VT::L(v.value()),
        BTree::Node((), l, r) => VT::N(Box::new(vt_of_rsdd(l)), Box::new(vt_of_rsdd(r))),
    }
}
/// random CNF over the labels: 0..5 clauses of 0..4 literals; edge stream: empty formula, empty
/// clause, unit clauses, repeated and complementary literals
fn gen_cnf(rng: &mut Rng, labels: &[u64], maxcl: usize) -> Vec<Vec<(u64, bool)>> {
    let n = if rng.chance(1, 12) { 0 } else { rng.range(1, maxcl) };
    let mut f = vec![];
    for _ in 0..n {
        let len = if rng.chance(1, 15) { 0 } else if rng.chance(1, 5) { 1 } else { rng.range(1, 4) };
        let mut c: Vec<(u64, bool)> = vec![];
        for _ in 0..len {
            if !c.is_empty() && rng.chance(1, 8) {
                let (v, b) = *rng.pick(&c);
                c.push((v, if rng.coin() { b } else { !b })); // repeated / complementary literal
            } else {
                c.push((*rng.pick(labels), rng.coin()));
            }
        }
        f.push(c);
    }
    f
}
fn cnf_text(f: &[Vec<(u64, bool)>]) -> String {
    let mut s = format!(" k {}", f.len());
    for c in f {
        s.push_str(&format!(" {}", c.len()));
        for (v, b) in c {
            s.push_str(&format!(" {}", 2 * v + *b as u64));
        }
    }
    s
}
fn cnf_rsdd(f: &[Vec<(u64, bool)>]) -> Cnf {
    let cl: Vec<Vec<Literal>> = f.iter().map(|c| c.iter().map(|(v, b)| Literal::new(VarLabel::new(*v), *b)).collect()).collect();
    Cnf::new(&cl)
}
/// the vtree the library derives from the CNF (min-fill dtree), if it is usable for this case:
/// distinct leaves that cover the labels
fn vt_from_dtree(f: &[Vec<(u64, bool)>], labels: &[u64]) -> Option<VT> {
    if f.is_empty() || f.iter().any(|c| c.is_empty()) {
        return None;
    }
    let f2 = f.to_vec();
    let r = std::panic::catch_unwind(move || {
        let cnf = cnf_rsdd(&f2);
        let dt = DTree::from_cnf(&cnf, &cnf.min_fill_order());
        VTree::from_dtree(&dt).map(|v| vt_of_rsdd(&v))
    });
    let vt = r.ok()??;
    let mut lv = vec![];
    vt_leaves(&vt, &mut lv);
    let mut sorted = lv.clone();
    sorted.sort();
    sorted.dedup();
    if sorted.len() != lv.len() || labels.iter().any(|l| !lv.contains(l)) || lv.iter().any(|l| *l as usize >= NV) {
        return None;
    }
    Some(vt)
}
fn vt_leaves(t: &VT, out: &mut Vec<u64>) {
    match t {
        VT::L(v) => out.push(*v),
        VT::N(l, r) => {
            vt_leaves(l, out);
            vt_leaves(r, out)
        }
    }
}
fn vt_random(rng: &mut Rng, labels: &[u64]) -> VT {
    if labels.len() == 1 {
        return VT::L(labels[0]);
    }
    let k = rng.range(1, labels.len() - 1);
    VT::N(Box::new(vt_random(rng, &labels[..k])), Box::new(vt_random(rng, &labels[k..])))
}
fn vt_right(labels: &[u64]) -> VT {
    if labels.len() == 1 {
        VT::L(labels[0])
    } else {
        VT::N(Box::new(VT::L(labels[0])), Box::new(vt_right(&labels[1..])))
    }
}
fn vt_left(labels: &[u64]) -> VT {
    if labels.len() == 1 {
        VT::L(labels[0])
    } else {
        let n = labels.len();
        VT::N(Box::new(vt_left(&labels[..n - 1])), Box::new(VT::L(labels[n - 1])))
    }
}
fn vt_balanced(labels: &[u64]) -> VT {
    if labels.len() == 1 {
        VT::L(labels[0])
    } else {
        let k = labels.len() / 2;
        VT::N(Box::new(vt_balanced(&labels[..k])), Box::new(vt_balanced(&labels[k..])))
    }
}

fn vt_shape(rng: &mut Rng, labels: &[u64]) -> VT {
    match rng.below(5) {
        0 => vt_right(labels),
        1 => vt_left(labels),
        2 => vt_balanced(labels),
        _ => vt_random(rng, labels),
    }
}
fn vt_node(l: VT, r: VT) -> VT {
    VT::N(Box::new(l), Box::new(r))
}

// ---------- generator ----------
/// the operation text of a case under construction; `len` = number of pool entries so far
struct Prog {
    s: String,
    len: usize,
}
impl Prog {
    fn emit(&mut self, op: String) -> usize {
        self.s.push(' ');
        self.s.push_str(&op);
        self.len += 1;
        self.len - 1
    }
}
/// a function by Shannon expansion over `vars` (pool indices of positive literals, outermost
/// first) with if-then-else operations; the 2^|vars| leaves are pool indices drawn from `palette`
/// (`distinct`: without replacement, as far as the palette reaches)
fn shannon(rng: &mut Rng, p: &mut Prog, vars: &[usize], palette: &[usize], distinct: bool) -> usize {
    let n = 1usize << vars.len();
    let mut layer: Vec<usize> = if distinct {
        let mut pal: Vec<usize> = palette.to_vec();
        pal.sort();
        pal.dedup();
        rng.shuffle(&mut pal);
        (0..n).map(|k| pal[k % pal.len()]).collect()
    } else {
        (0..n).map(|_| *rng.pick(palette)).collect()
    };
    for d in (0..vars.len()).rev() {
        let x = vars[d];
        layer = layer.chunks(2).map(|pr| p.emit(format!("i {x} {} {}", pr[0], pr[1]))).collect();
    }
    layer[0]
}
/// positive literals of all labels; returns the pool index of the literal of labels[0]
fn emit_lits(p: &mut Prog, labels: &[u64]) -> usize {
    let base = p.len;
    for l in labels {
        p.emit(format!("v {l} 1"));
    }
    base
}
/// the same binary operation in both argument orders (the canonicity oracle compares the two)
fn emit_both(rng: &mut Rng, p: &mut Prog, ops: &[&str], f: usize, g: usize) {
    for op in ops {
        if rng.coin() {
            p.emit(format!("{op} {f} {g}"));
            p.emit(format!("{op} {g} {f}"));
        } else {
            p.emit(format!("{op} {g} {f}"));
            p.emit(format!("{op} {f} {g}"));
        }
    }
}
fn some_ops(rng: &mut Rng, lo: usize, hi: usize) -> Vec<&'static str> {
    let mut ops = vec!["a", "o", "x", "q"];
    rng.shuffle(&mut ops);
    ops.truncate(rng.range(lo, hi));
    ops
}

/// DENSE family: two or three random functions over 5..7 variables, each a Shannon expansion over
/// some of the 3..5 variables under the LEFT child of a vtree node (balanced / random / linear
/// inside) with leaves from a palette of small functions of the variables under the right child
/// (constants, literals, a decision node s, its complement !s, ...), then and/or/xor/iff between
/// two of them in BOTH argument orders, and ite(f,g,h) against ite(!f,h,g).  The cartesian products
/// at that vtree node have up to 2^5 cells with repeated and complemented subs.
fn gen_dense(rng: &mut Rng, frac: usize) -> (VT, Vec<u64>, Prog) {
    let n = if frac < 30 { rng.range(5, 6) } else { *rng.pick(&[5, 6, 6, 6, 7, 7, 7, 7]) };
    let mut labels: Vec<u64> = rng.perm(NV).into_iter().map(|x| x as u64).collect();
    if rng.coin() {
        labels = (0..NV as u64).collect();
    }
    labels.truncate(n);
    // left child: 3..5 variables, at least one (mostly two or more) on the right
    let mut k = rng.range(3, 5.min(n - 1));
    if n - k < 2 && rng.chance(3, 4) {
        k = n - 2;
    }
    let core = vt_node(vt_shape(rng, &labels[..k]), vt_shape(rng, &labels[k..]));
    let mut all = labels.clone();
    // sometimes the dense node is not the root
    let vt = if n < NV && rng.chance(1, 5) {
        let extra = (0..NV as u64).find(|x| !labels.contains(x)).unwrap();
        all.push(extra);
        if rng.coin() { vt_node(VT::L(extra), core) } else { vt_node(core, VT::L(extra)) }
    } else {
        core
    };
    let mut p = Prog { s: String::new(), len: 0 };
    let base = emit_lits(&mut p, &labels);
    let lit = |i: usize| base + i;
    // palette over the right variables
    let tt = p.emit("t".to_string());
    let ff = p.emit("f".to_string());
    let r0 = lit(k);
    let nr0 = p.emit(format!("n {r0}"));
    let mut pal = vec![tt, ff, r0, nr0];
    if n - k >= 2 {
        let r1 = lit(k + 1);
        let nr1 = p.emit(format!("n {r1}"));
        let s = p.emit(format!("{} {} {}", rng.pick(&["a", "a", "o", "x"]), rng.pick(&[r0, nr0]), rng.pick(&[r1, nr1])));
        let ns = p.emit(format!("n {s}"));
        pal.extend([r1, nr1, s, ns, s, ns, s, ns]);
        if n - k >= 3 {
            let r2 = lit(k + 2);
            let s2 = p.emit(format!("{} {} {}", rng.pick(&["a", "o", "x", "q"]), rng.pick(&[s, ns, r1]), r2));
            let ns2 = p.emit(format!("n {s2}"));
            pal.extend([r2, s2, ns2, s2, ns2]);
        } else if rng.coin() {
            let s2 = p.emit(format!("{} {} {}", rng.pick(&["a", "o", "x"]), rng.pick(&[r0, nr0]), rng.pick(&[r1, nr1])));
            let ns2 = p.emit(format!("n {s2}"));
            pal.extend([s2, ns2]);
        }
    }
    // the functions: expansions over 2..4 of the left variables (all of them, or a random subset)
    let nf = if rng.chance(1, 3) { 3 } else { 2 };
    let mut fs = vec![];
    for _ in 0..nf {
        let mut vars: Vec<usize> = (0..k).map(lit).collect();
        if rng.chance(2, 3) {
            rng.shuffle(&mut vars);
            vars.truncate(rng.range(2, k.min(3)));
            if rng.coin() {
                vars.sort();
            }
        } else if k > 4 {
            vars.truncate(4);
        }
        // a sub-palette per function keeps the number of distinct subs (elements) varied
        let mut sub = pal.clone();
        if rng.chance(1, 4) {
            // mostly constant subs and one other: conditioning a prime-side variable often leaves
            // only the constant subs (a node that has to be trimmed)
            let other = *rng.pick(&pal);
            sub = vec![tt, ff, tt, ff, other];
        } else if rng.coin() {
            rng.shuffle(&mut sub);
            sub.truncate(rng.range(3, 6));
        }
        fs.push(shannon(rng, &mut p, &vars, &sub, false));
    }
    let (f, g) = (fs[0], fs[1]);
    let ops = some_ops(rng, 2, 3);
    emit_both(rng, &mut p, &ops, f, g);
    if nf == 3 {
        let h = fs[2];
        let nfx = p.emit(format!("n {f}"));
        if rng.coin() {
            p.emit(format!("i {f} {g} {h}"));
            p.emit(format!("i {nfx} {h} {g}"));
        } else {
            p.emit(format!("i {nfx} {h} {g}"));
            p.emit(format!("i {f} {g} {h}"));
        }
        let ops = some_ops(rng, 1, 1);
        let other = *rng.pick(&[f, g]);
        emit_both(rng, &mut p, &ops, h, other);
    }
    // condition / exists / compose of the dense functions and of the products, mostly on a
    // prime-side (left) variable
    let first_result = fs[nf - 1] + 1;
    for _ in 0..rng.range(0, 3) {
        let target = if rng.coin() { *rng.pick(&fs) } else { rng.range(first_result, p.len - 1) };
        let v = if rng.chance(3, 4) { *rng.pick(&labels[..k]) } else { *rng.pick(&labels) };
        match rng.below(5) {
            0 | 1 => p.emit(format!("c {target} {v} {}", rng.coin() as u8)),
            2 | 3 => p.emit(format!("e {target} {v}")),
            _ => p.emit(format!("m {target} {v} {}", rng.pick(&pal))),
        };
    }
    (vt, all, p)
}

/// MIXED-SHAPE family: a binary decision (vtree node with a leaf on the left) above a general
/// node (its right child is not right-linear): ((a ((b c) d)) rest) and relatives, with random
/// functions G1, G2 of the inner variables (Shannon expansion), B = a op G, f = B <=> e / B xor e /
/// ite(B, e, G2).  Right-linear, left-linear and balanced vtrees never give this shape.
fn gen_mixed(rng: &mut Rng, frac: usize) -> (VT, Vec<u64>, Prog) {
    let n = if frac < 30 { 5 } else { rng.range(5, 7) };
    let mut labels: Vec<u64> = rng.perm(NV).into_iter().map(|x| x as u64).collect();
    if rng.coin() {
        labels = (0..NV as u64).collect();
    }
    labels.truncate(n);
    let a = labels[0];
    let k = if n >= 6 && rng.coin() { 4 } else { 3 };
    let inner: Vec<u64> = labels[1..1 + k].to_vec();
    let m = if k == 3 {
        if rng.chance(2, 3) { vt_node(vt_node(VT::L(inner[0]), VT::L(inner[1])), VT::L(inner[2])) } else { vt_random(rng, &inner) }
    } else if rng.coin() {
        vt_balanced(&inner)
    } else {
        vt_left(&inner)
    };
    let left = vt_node(VT::L(a), m);
    let rest = &labels[1 + k..];
    let r = vt_shape(rng, rest);
    let vt = if rng.chance(3, 4) { vt_node(left, r) } else { vt_node(r, left) };
    let mut p = Prog { s: String::new(), len: 0 };
    let base = emit_lits(&mut p, &labels);
    let lit_of = |l: u64| base + labels.iter().position(|x| *x == l).unwrap();
    let last = lit_of(*inner.last().unwrap());
    let nlast = p.emit(format!("n {last}"));
    let tt = p.emit("t".to_string());
    let ff = p.emit("f".to_string());
    let vars: Vec<usize> = inner[..k - 1].iter().map(|l| lit_of(*l)).collect();
    let g1 = shannon(rng, &mut p, &vars, &[last, nlast, tt, ff, last, nlast], false);
    let g2 = shannon(rng, &mut p, &vars, &[last, nlast, tt, ff, last, nlast], false);
    let al = lit_of(a);
    let bnode = match rng.below(3) {
        0 => p.emit(format!("a {al} {g1}")),
        1 => p.emit(format!("o {al} {g1}")),
        _ => p.emit(format!("i {al} {g1} {g2}")),
    };
    let e = lit_of(*labels.last().unwrap());
    let f = match rng.below(3) {
        0 => p.emit(format!("q {bnode} {e}")),
        1 => p.emit(format!("x {bnode} {e}")),
        _ => p.emit(format!("i {bnode} {e} {g2}")),
    };
    if rng.coin() {
        let ops = some_ops(rng, 1, 2);
        emit_both(rng, &mut p, &ops, f, g2);
    }
    (vt, labels, p)
}

/// WIDE family (8 variables): the left child of the root has 6 variables split 3|3 (or 2|4, 4|2),
/// the right child 2.  Operand A selects, by the minterms of the first group, among pairwise
/// distinct functions of the two right variables; operand B does the same over the second group.
/// and/or/xor/iff of A and B is a cartesian product of up to 64 (prime, sub) cells at the root,
/// of which only 16 subs can be different.
fn gen_wide(rng: &mut Rng) -> (VT, Vec<u64>, Prog) {
    let mut labels: Vec<u64> = (0..NV as u64).collect();
    if rng.coin() {
        rng.shuffle(&mut labels);
    }
    let ka = *rng.pick(&[3, 3, 3, 3, 2, 4]);
    let kb = 6 - ka;
    let left = if rng.chance(4, 5) {
        vt_node(vt_shape(rng, &labels[..ka]), vt_shape(rng, &labels[ka..6]))
    } else {
        vt_shape(rng, &labels[..6])
    };
    let right = vt_node(VT::L(labels[6]), VT::L(labels[7]));
    let vt = vt_node(left, right);
    let mut p = Prog { s: String::new(), len: 0 };
    let base = emit_lits(&mut p, &labels);
    // all 16 functions of the two right variables
    let (r0, r1) = (base + 6, base + 7);
    let nr0 = p.emit(format!("n {r0}"));
    let nr1 = p.emit(format!("n {r1}"));
    let mut pal = vec![r0, r1, nr0, nr1];
    for (x, y) in [(r0, r1), (r0, nr1), (nr0, r1), (nr0, nr1)] {
        let c = p.emit(format!("a {x} {y}"));
        pal.push(c);
        pal.push(p.emit(format!("n {c}")));
    }
    let x = p.emit(format!("x {r0} {r1}"));
    pal.push(x);
    pal.push(p.emit(format!("n {x}")));
    pal.push(p.emit("t".to_string()));
    pal.push(p.emit("f".to_string()));
    let va: Vec<usize> = (0..ka).map(|i| base + i).collect();
    let vb: Vec<usize> = (ka..ka + kb).map(|i| base + i).collect();
    let distinct = !rng.chance(1, 6);
    let a = shannon(rng, &mut p, &va, &pal, distinct);
    let b = shannon(rng, &mut p, &vb, &pal, distinct);
    let mut ops = vec!["a"];
    if rng.coin() {
        ops.push(*rng.pick(&["o", "x", "q"]));
    }
    emit_both(rng, &mut p, &ops, a, b);
    (vt, labels, p)
}

/// random operations on the pool (`len` entries so far) until it has `nops` entries
fn gen_tail(rng: &mut Rng, s: &mut String, len0: usize, nops: usize, labels: &[u64], cnf_case: bool, maxcl: usize) {
    let mut len = len0;
    let lit = |rng: &mut Rng| format!(" v {} {}", rng.pick(labels), rng.coin() as u8);
    while len < nops {
        // operands: biased towards recent (larger) results
        let mut i = rng.below(len as u64) as usize;
        if rng.coin() {
            i = len - 1 - rng.below(len.min(4) as u64) as usize;
        }
        // edge stream: equal arguments, an argument and its negation, recent results
        let mut j = rng.below(len as u64) as usize;
        if rng.chance(1, 10) {
            j = i;
        }
        if rng.chance(1, 3) {
            j = len - 1;
        }
        let k = rng.below(len as u64) as usize;
        let v = *rng.pick(labels);
        // ite family: two if-then-elses that normalise to the same standard triple (the cache key
        // of one must not answer the other): ite(!a, c, !b) and ite(a, b, c), in either order
        if len >= 3 && len + 4 <= nops && rng.chance(1, 12) {
            let (a, b, c) = (i, j, k);
            let (na, nb) = (len, len + 1);
            s.push_str(&format!(" n {a} n {b}"));
            if rng.coin() {
                s.push_str(&format!(" i {na} {c} {nb} i {a} {b} {c}"));
            } else {
                s.push_str(&format!(" i {a} {b} {c} i {na} {c} {nb}"));
            }
            len += 4;
            continue;
        }
        let op = match rng.below(if cnf_case { 108 } else { 100 }) {
            100..=107 => cnf_text(&gen_cnf(rng, labels, maxcl)),
            0..=7 => lit(rng),
            8..=9 => (if rng.coin() { " t" } else { " f" }).to_string(),
            10..=14 => format!(" n {i}"),
            15..=39 => format!(" a {i} {j}"),
            40..=54 => format!(" o {i} {j}"),
            55..=61 => format!(" x {i} {j}"),
            62..=68 => format!(" q {i} {j}"),
            69..=78 => format!(" i {i} {j} {k}"),
            79..=87 => format!(" c {i} {v} {}", rng.coin() as u8),
            88..=93 => format!(" e {i} {v}"),
            _ => format!(" m {i} {v} {j}"),
        };
        s.push_str(&op);
        len += 1;
    }
}

pub fn gen(rng: &mut Rng, idx: usize, n: usize, thorough: bool) -> String {
    let frac = (idx * 100) / n.max(1);
    let compress = if C04 { !rng.chance(1, 8) } else { rng.chance(3, 5) };
    // unique-table capacity: 0 = shipped size; small values make the tables grow
    let cap = if C04 {
        if rng.chance(2, 3) { rng.range(2, 16) } else { 0 }
    } else if rng.chance(1, 4) {
        rng.range(2, 16)
    } else {
        0
    };
    // shape families, 15% dense / 6% mixed / 3% wide of the cases after the first 8%: see gen_dense,
    // gen_mixed, gen_wide (their programs end with 0..3 operations of the general mix)
    if frac >= 8 {
        let mut fam = rng.below(1000);
        // development knob: C03_FAMILY=dense|mixed|wide|base forces one family
        match std::env::var("C03_FAMILY").as_deref() {
            Ok("dense") => fam = 0,
            Ok("mixed") => fam = 150,
            Ok("wide") => fam = 210,
            Ok("base") => fam = 999,
            _ => {}
        }
        let pre = if fam < 150 {
            Some(("dense", gen_dense(rng, frac), true, rng.range(0, 3)))
        } else if fam < 210 {
            Some(("mixed", gen_mixed(rng, frac), compress || rng.coin(), rng.range(0, 3)))
        } else if fam < 240 {
            Some(("wide", gen_wide(rng), true, rng.range(0, 1)))
        } else {
            None
        };
        if let Some((_name, (vt, labels, p), compress, extra)) = pre {
            let mut s = format!("{} {} {} ;{}", compress as u8, cap, vt_text(&vt), p.s);
            let nops = p.len + extra;
            gen_tail(rng, &mut s, p.len, nops, &labels, false, 0);
            return s;
        }
    }
    let maxleaves = if frac < 12 { 3 } else if frac < 40 { 4 } else if frac < 70 { 5 } else { 7 };
    let nleaves = rng.range(if frac < 5 { 1 } else if frac < 40 { 2 } else { 3 }, maxleaves);
    // labels: a random subset of 0..6, in random order
    let mut labels: Vec<u64> = rng.perm(NV_BASE).into_iter().map(|x| x as u64).collect();
    if rng.coin() {
        labels = (0..NV_BASE as u64).collect();
        rng.shuffle(&mut labels[..nleaves.max(1)]);
    }
    labels.truncate(nleaves);
    let mut vt = match rng.below(6) {
        0 => vt_right(&labels),
        1 => vt_left(&labels),
        2 => vt_balanced(&labels),
        _ => vt_random(rng, &labels),
    };
    // a third of the cases compile CNFs; half of those under the vtree the library derives from
    // the first CNF (VTree::from_dtree(DTree::from_cnf(.., min_fill_order)))
    let cnf_case = rng.chance(1, 3);
    // uncompressed SDDs of CNFs blow up quickly: keep those cases small
    let small = cnf_case && !compress;
    if small && labels.len() > 5 {
        labels.truncate(5);
        vt = vt_random(rng, &labels);
    }
    let maxcl = if small { 3 } else { 5 };
    let first_cnf = gen_cnf(rng, &labels, maxcl);
    let mut dtree_vt = false;
    if cnf_case && rng.coin() {
        // the derived vtree only has the CNF's variables: restrict the labels to them
        let mut used: Vec<u64> = first_cnf.iter().flatten().map(|l| l.0).collect();
        used.sort();
        used.dedup();
        if let Some(v) = vt_from_dtree(&first_cnf, &used) {
            vt = v;
            labels = used;
            dtree_vt = true;
        }
    }
    if dtree_vt && std::env::var("C03_DUMP").is_ok() {
        eprintln!("DTREE-VTREE {}", vt_text(&vt));
    }
    let maxops = if thorough { 40 } else { 26 };
    let mut nops = 4 + (frac * maxops) / 100 + rng.range(0, 4);
    if !compress {
        nops = nops.min(16); // uncompressed SDDs grow exponentially with the program
    }
    if small {
        nops = nops.min(9);
    }
    let mut s = format!("{} {} {} ;", compress as u8, cap, vt_text(&vt));
    let mut len = 0usize;
    let lit = |rng: &mut Rng| format!(" v {} {}", rng.pick(&labels), rng.coin() as u8);
    for _ in 0..rng.range(2, nleaves + 1) {
        s.push_str(&lit(rng));
        len += 1;
    }
    if cnf_case {
        s.push_str(&cnf_text(&first_cnf));
        len += 1;
    }
    gen_tail(rng, &mut s, len, nops, &labels, cnf_case, maxcl);
    s
}

// ---------- walking the implementation's nodes ----------
fn addr(p: SddPtr) -> (u8, usize) {
    match p {
        SddPtr::PtrTrue => (0, 0),
        SddPtr::PtrFalse => (1, 0),
        SddPtr::Var(l, b) => (2, (l.value() as usize) * 2 + b as usize),
        SddPtr::BDD(b) => (3, b as *const _ as usize),
        SddPtr::ComplBDD(b) => (4, b as *const _ as usize),
        SddPtr::Reg(o) => (5, o as *const _ as usize),
        SddPtr::Compl(o) => (6, o as *const _ as usize),
    }
}
struct Walk {
    tt: HashMap<(u8, usize), TT>,
    show: HashMap<(u8, usize), String>,
    masks: Vec<TT>,
}
impl Walk {
    fn new() -> Walk {
        Walk { tt: HashMap::new(), show: HashMap::new(), masks: (0..NV).map(var_mask).collect() }
    }
    fn tt(&mut self, p: SddPtr) -> TT {
        if let Some(x) = self.tt.get(&addr(p)) {
            return *x;
        }
        let r = match p {
            SddPtr::PtrTrue => TT::FULL,
            SddPtr::PtrFalse => TT::ZERO,
            SddPtr::Var(l, b) => {
                let m = self.masks[l.value() as usize];
                if b { m } else { !m }
            }
            SddPtr::BDD(b) | SddPtr::ComplBDD(b) => {
                let m = self.masks[b.label().value() as usize];
                let lo = self.tt(b.low());
                let hi = self.tt(b.high());
                let x = (m & hi) | (!m & lo);
                if matches!(p, SddPtr::ComplBDD(_)) { !x } else { x }
            }
            SddPtr::Reg(o) | SddPtr::Compl(o) => {
                let mut x: TT = TT::ZERO;
                for a in o.iter() {
                    let pt = self.tt(a.prime());
                    let st = self.tt(a.sub());
                    x |= pt & st;
                }
                if matches!(p, SddPtr::Compl(_)) { !x } else { x }
            }
        };
        self.tt.insert(addr(p), r);
        r
    }
    fn show(&mut self, p: SddPtr) -> String {
        if let Some(x) = self.show.get(&addr(p)) {
            return x.clone();
        }
        let r = match p {
            SddPtr::PtrTrue => "T".to_string(),
            SddPtr::PtrFalse => "F".to_string(),
            SddPtr::Var(l, b) => format!("{}v{}", if b { "" } else { "!" }, l.value()),
            SddPtr::BDD(b) | SddPtr::ComplBDD(b) => format!(
                "{}B{}.{}({},{})",
                if matches!(p, SddPtr::ComplBDD(_)) { "~" } else { "" },
                b.index().value(),
                b.label().value(),
                self.show(b.low()),
                self.show(b.high())
            ),
            SddPtr::Reg(o) | SddPtr::Compl(o) => {
                let mut es: Vec<String> = o.iter().map(|a| format!("{}:{}", self.show(a.prime()), self.show(a.sub()))).collect();
                es.sort();
                format!("{}O{}[{}]", if matches!(p, SddPtr::Compl(_)) { "~" } else { "" }, o.index().value(), es.join(";"))
            }
        };
        self.show.insert(addr(p), r.clone());
        r
    }
}
/// all pointers reachable from p (p itself, primes, subs, low/high), each once
fn reach<'a>(p: SddPtr<'a>, seen: &mut HashMap<(u8, usize), SddPtr<'a>>) {
    if seen.contains_key(&addr(p)) {
        return;
    }
    seen.insert(addr(p), p);
    match p {
        SddPtr::BDD(b) | SddPtr::ComplBDD(b) => {
            reach(b.low(), seen);
            reach(b.high(), seen);
        }
        SddPtr::Reg(o) | SddPtr::Compl(o) => {
            for a in o.iter() {
                reach(a.prime(), seen);
                reach(a.sub(), seen);
            }
        }
        _ => {}
    }
}

fn vidx_of(p: SddPtr, infos: &[VInfo]) -> Option<usize> {
    match p {
        SddPtr::Var(l, _) => infos.iter().position(|x| x.leaf == Some(l.value())),
        SddPtr::BDD(b) | SddPtr::ComplBDD(b) => Some(b.index().value()),
        SddPtr::Reg(o) | SddPtr::Compl(o) => Some(o.index().value()),
        _ => None,
    }
}
fn classify(a: SddPtr, b: SddPtr, infos: &[VInfo]) -> &'static str {
    if a.is_true() || a.is_false() || b.is_true() || b.is_false() || a == b || a == b.neg() {
        return "and_base_case";
    }
    let (i, j) = (vidx_of(a, infos).unwrap(), vidx_of(b, infos).unwrap());
    let (i, j) = if i <= j { (i, j) } else { (j, i) };
    if i == j {
        return "and_cartesian";
    }
    // lca = smallest subtree containing both
    let l = (0..infos.len()).filter(|&k| infos[k].lo <= i && j <= infos[k].hi).min_by_key(|&k| infos[k].hi - infos[k].lo).unwrap();
    if l == i {
        "and_sub_desc"
    } else if l == j {
        "and_prime_desc"
    } else if infos[l].left_is_leaf {
        "and_indep_right_linear"
    } else {
        "and_indep"
    }
}

/// statistics: number of consistent (prime, prime) cells of a cartesian-product apply
fn cells_stat(a: SddPtr, b: SddPtr, infos: &[VInfo], w: &mut Walk, st: &mut Stats) {
    if let (SddPtr::Reg(x) | SddPtr::Compl(x), SddPtr::Reg(y) | SddPtr::Compl(y)) = (a, b) {
        if classify(a, b, infos) != "and_cartesian" {
            return;
        }
        let mut cells = 0;
        for p in x.iter() {
            for q in y.iter() {
                if !(w.tt(p.prime()) & w.tt(q.prime())).is_zero() {
                    cells += 1;
                }
            }
        }
        st.bump(if cells > 32 { "cartesian_cells>32" } else if cells > 8 { "cartesian_cells_9..32" } else { "cartesian_cells<=8" });
    }
}

/// structural rules of one reachable node, from truth tables of its own primes and subs
fn check_node(p: SddPtr, w: &mut Walk, infos: &[VInfo], compress: bool, fails: &mut Vec<String>, st: &mut Stats) {
    let full: TT = TT::full();
    match p {
        SddPtr::BDD(b) | SddPtr::ComplBDD(b) => {
            st.bump("nodes_binary");
            if matches!(b.low(), SddPtr::Reg(_) | SddPtr::Compl(_)) || matches!(b.high(), SddPtr::Reg(_) | SddPtr::Compl(_)) {
                st.bump("nodes_binary_above_general");
            }
            let i = b.index().value();
            if i >= infos.len() || infos[i].leaf.is_some() {
                fails.push(format!("binary node {} sits at vtree index {i}, which is not an internal node", w.show(p)));
                return;
            }
            let inf = &infos[i];
            if inf.lvars & (1 << b.label().value()) == 0 {
                fails.push(format!("binary node {}: decision variable is not under the left child of vtree node {i}", w.show(p)));
            }
            for (nm, c) in [("low", b.low()), ("high", b.high())] {
                let d = tt_deps(w.tt(c));
                if d & !inf.rvars != 0 {
                    fails.push(format!("binary node {}: {nm} child depends on variables outside the right child of vtree node {i}", w.show(p)));
                }
            }
            if compress && C04 {
                if b.low() == b.high() || w.tt(b.low()) == w.tt(b.high()) {
                    fails.push(format!("binary node {} has two equal children (not compressed)", w.show(p)));
                }
                if (w.tt(b.low()).is_zero() && w.tt(b.high()) == full) || (w.tt(b.low()) == full && w.tt(b.high()).is_zero()) {
                    fails.push(format!("binary node {} is a literal in disguise (not trimmed)", w.show(p)));
                }
            }
        }
        SddPtr::Reg(o) | SddPtr::Compl(o) => {
            st.bump("nodes_general");
            let i = o.index().value();
            if i >= infos.len() || infos[i].leaf.is_some() {
                fails.push(format!("decision node {} sits at vtree index {i}, which is not an internal node", w.show(p)));
                return;
            }
            let inf = infos[i].clone();
            let els: Vec<(SddPtr, SddPtr)> = o.iter().map(|a| (a.prime(), a.sub())).collect();
            let mut union: TT = TT::ZERO;
            for (k, (pr, sb)) in els.iter().enumerate() {
                let pt = w.tt(*pr);
                if tt_deps(pt) & !inf.lvars != 0 {
                    fails.push(format!("node {}: prime {k} depends on variables outside the left child of vtree node {i}", w.show(p)));
                }
                if tt_deps(w.tt(*sb)) & !inf.rvars != 0 {
                    fails.push(format!("node {}: sub {k} depends on variables outside the right child of vtree node {i}", w.show(p)));
                }
                if !(union & pt).is_zero() {
                    fails.push(format!("node {}: prime {k} overlaps an earlier prime (not mutually exclusive)", w.show(p)));
                }
                union |= pt;
                if compress && C04 && pt.is_zero() {
                    fails.push(format!("node {}: prime {k} is unsatisfiable", w.show(p)));
                }
            }
            if union != full {
                fails.push(format!("node {}: primes are not exhaustive", w.show(p)));
            }
            if compress && C04 {
                for k in 0..els.len() {
                    for m in 0..k {
                        if els[k].1 == els[m].1 || w.tt(els[k].1) == w.tt(els[m].1) {
                            fails.push(format!("node {}: subs {m} and {k} are equal (not compressed)", w.show(p)));
                        }
                    }
                }
                if els.len() < 2 {
                    fails.push(format!("node {} has fewer than two elements (not trimmed)", w.show(p)));
                }
                if els.len() == 2 {
                    let (s0, s1) = (w.tt(els[0].1), w.tt(els[1].1));
                    if (s0 == full && s1.is_zero()) || (s0.is_zero() && s1 == full) {
                        fails.push(format!("node {} is its own prime in disguise: {{(p,T),(~p,F)}} (not trimmed)", w.show(p)));
                    }
                }
            }
        }
        _ => {}
    }
}

pub fn run(case: &str, st: &mut Stats) -> Outcome {
    if std::env::var("C03_DUMP").is_ok() {
        eprintln!("CASE {case}");
    }
    let t = toks(case);
    let compress = t[0] == "1";
    let cap: usize = t[1].parse().unwrap();
    let mut i = 2;
    let vt = vt_parse(&t, &mut i);
    assert!(i == t.len() || t[i] == ";");
    i += 1;
    let mut infos = vec![];
    vt_info(&vt, &mut infos);
    let mut leaves = vec![];
    vt_leaves(&vt, &mut leaves);

    rsdd::verif::TABLE_CAPACITY.with(|c| c.set(if cap > 0 { Some(cap) } else { None }));
    let mut builder = CompressionSddBuilder::new(vt_rsdd(&vt));
    rsdd::verif::TABLE_CAPACITY.with(|c| c.set(None));
    if !compress {
        builder.set_compression(false);
    }
    let builder = &builder;
    let masks: Vec<TT> = (0..NV).map(var_mask).collect();
    let mut pool: Vec<SddPtr> = vec![];
    let mut spec: Vec<TT> = vec![];
    let mut nbin = 0;
    let mut has_cnf = false;
    let ix = |s: &str| -> usize { s.parse().unwrap() };
    let mut w0 = Walk::new(); // input-distribution statistics only
    while i < t.len() {
        let (r, sp, adv): (SddPtr, TT, usize) = match t[i] {
            "t" => (SddPtr::PtrTrue, TT::FULL, 1),
            "f" => (SddPtr::PtrFalse, TT::ZERO, 1),
            "v" => {
                let (v, p) = (ix(t[i + 1]), t[i + 2] == "1");
                (builder.var(VarLabel::new(v as u64), p), if p { masks[v] } else { !masks[v] }, 3)
            }
            "n" => {
                let a = ix(t[i + 1]);
                (builder.negate(pool[a]), !spec[a], 2)
            }
            "a" | "o" | "x" | "q" => {
                let (a, b) = (ix(t[i + 1]), ix(t[i + 2]));
                nbin += 1;
                match t[i] {
                    "a" => {
                        st.bump(classify(pool[a], pool[b], &infos));
                        cells_stat(pool[a], pool[b], &infos, &mut w0, st);
                        (builder.and(pool[a], pool[b]), spec[a] & spec[b], 3)
                    }
                    "o" => {
                        st.bump(classify(pool[a].neg(), pool[b].neg(), &infos));
                        cells_stat(pool[a], pool[b], &infos, &mut w0, st);
                        (builder.or(pool[a], pool[b]), spec[a] | spec[b], 3)
                    }
                    "x" => (builder.xor(pool[a], pool[b]), spec[a] ^ spec[b], 3),
                    _ => (builder.iff(pool[a], pool[b]), !(spec[a] ^ spec[b]), 3),
                }
            }
            "i" => {
                let (a, b, c) = (ix(t[i + 1]), ix(t[i + 2]), ix(t[i + 3]));
                nbin += 1;
                (builder.ite(pool[a], pool[b], pool[c]), (spec[a] & spec[b]) | (!spec[a] & spec[c]), 4)
            }
            "c" => {
                let (a, v, b) = (ix(t[i + 1]), ix(t[i + 2]), t[i + 3] == "1");
                (builder.condition(pool[a], VarLabel::new(v as u64), b), tt_cond(spec[a], v, b), 4)
            }
            "e" => {
                let (a, v) = (ix(t[i + 1]), ix(t[i + 2]));
                (builder.exists(pool[a], VarLabel::new(v as u64)), tt_cond(spec[a], v, true) | tt_cond(spec[a], v, false), 3)
            }
            "m" => {
                // documented definition (builder/mod.rs): exists v. (v <=> g) /\ f
                let (a, v, g) = (ix(t[i + 1]), ix(t[i + 2]), ix(t[i + 3]));
                let body = !(masks[v] ^ spec[g]) & spec[a];
                (builder.compose(pool[a], VarLabel::new(v as u64), pool[g]), tt_cond(body, v, true) | tt_cond(body, v, false), 4)
            }
            "k" => {
                let n = ix(t[i + 1]);
                let mut j = i + 2;
                let mut f: Vec<Vec<(u64, bool)>> = vec![];
                for _ in 0..n {
                    let len = ix(t[j]);
                    j += 1;
                    let mut c = vec![];
                    for _ in 0..len {
                        let x = ix(t[j]) as u64;
                        c.push((x / 2, x % 2 == 1));
                        j += 1;
                    }
                    f.push(c);
                }
                // oracle: truth table from the raw clauses
                let mut sp: TT = TT::FULL;
                for c in &f {
                    let mut ct: TT = TT::ZERO;
                    for (v, b) in c {
                        ct |= if *b { masks[*v as usize] } else { !masks[*v as usize] };
                    }
                    sp &= ct;
                }
                has_cnf = true;
                st.bump(if f.is_empty() { "cnf_empty_formula" } else if f.iter().any(|c| c.is_empty()) { "cnf_with_empty_clause" } else { "cnf_regular" });
                let cnf = cnf_rsdd(&f);
                (builder.compile_cnf(&cnf), sp, j - i)
            }
            _ => panic!("bad op"),
        };
        st.bump(&format!("op_{}", t[i]));
        pool.push(r);
        spec.push(sp);
        i += adv;
    }
    // observe: every pool entry is re-walked after the last operation
    let mut w = Walk::new();
    let mut fails = vec![];
    let mut out: Vec<String> = vec![];
    for (k, p) in pool.iter().enumerate() {
        out.push(w.show(*p));
        let got = w.tt(*p);
        if got != spec[k] {
            fails.push(format!("pool entry {k} = {} has truth table {}, the operation's definition gives {}", w.show(*p), got.hex(), spec[k].hex()));
        }
    }
    out.push("#".to_string());
    let _ = has_cnf;
    if !compress {
        // without compression the shape of a result is not fixed by any property (it depends on the
        // order in which apply visits elements, the clause order after compile_cnf's sort, ...):
        // only denotations are compared there; the compressing builder's results are canonical
        // and are compared node by node
        out.clear();
        for p in pool.iter() {
            out.push(w.tt(*p).hex_lo());
        }
        out.push("#".to_string());
        out.push("tt".to_string());
        st.bump("truth_table_mode_cases");
    } else {
        for k in 0..pool.len() {
            let first = (0..k).find(|&m| pool[m] == pool[k]).unwrap_or(k);
            out.push(first.to_string());
        }
    }
    // per reachable node: partition and vtree confinement (+ C04: compressed, trimmed, canonical)
    let mut seen: HashMap<(u8, usize), SddPtr> = HashMap::new();
    for p in &pool {
        reach(*p, &mut seen);
    }
    let mut keys: Vec<(u8, usize)> = seen.keys().cloned().collect();
    keys.sort();
    let mut any_node = false;
    let mut any_general = false;
    for k in &keys {
        let p = seen[k];
        match p {
            SddPtr::BDD(_) | SddPtr::ComplBDD(_) => any_node = true,
            SddPtr::Reg(_) | SddPtr::Compl(_) => {
                any_node = true;
                any_general = true
            }
            _ => {}
        }
        if p.is_neg() {
            st.bump("complemented_pointers");
        }
        check_node(p, &mut w, &infos, compress, &mut fails, st);
    }
    if C04 && compress {
        // pointer equality <=> same function, over everything reachable
        let mut by_tt: HashMap<TT, SddPtr> = HashMap::new();
        for k in &keys {
            let p = seen[k];
            let x = w.tt(p);
            if let Some(q) = by_tt.get(&x) {
                if *q != p {
                    fails.push(format!("{} and {} denote the same function but are different pointers", w.show(*q), w.show(p)));
                }
            } else {
                by_tt.insert(x, p);
            }
        }
        for a in 0..pool.len() {
            for b in 0..a {
                if (pool[a] == pool[b]) != (spec[a] == spec[b]) {
                    fails.push(format!("pool entries {b} and {a}: pointer-equal = {}, same function = {}", pool[a] == pool[b], spec[a] == spec[b]));
                }
            }
        }
        // the library's own predicates, as a cross-check
        for (k, p) in pool.iter().enumerate() {
            if !p.is_compressed() || !p.is_trimmed() || !p.is_canonical() {
                fails.push(format!("library predicate fails on pool entry {k}: compressed={} trimmed={}", p.is_compressed(), p.is_trimmed()));
            }
        }
    }
    let _ = &leaves;
    st.bump(if compress { "compression_on" } else { "compression_off" });
    st.bump(&format!("leaves={}", leaves.len()));
    st.bump(&format!("table_cap={}", if cap == 0 { "shipped".to_string() } else if cap <= 4 { "2-4".to_string() } else { "5-16".to_string() }));
    if any_general {
        st.bump("cases_with_general_nodes");
    }
    fails.truncate(5);
    Outcome { result: out.join(" "), fails, nontrivial: any_node && (nbin > 0 || has_cnf) }
}

#[cfg(test)]
mod tt_tests {
    use super::*;
    #[test]
    fn masks_and_cofactors_agree_with_rows() {
        for v in 0..NV {
            let m = var_mask(v);
            for row in 0..256 {
                assert_eq!(m.bit(row), (row >> v) & 1 == 1, "mask {v} row {row}");
            }
        }
        let mut rng = Rng::new(7);
        for _ in 0..200 {
            let f = TT([((rng.next() as u128) << 64) | rng.next() as u128, ((rng.next() as u128) << 64) | rng.next() as u128]);
            for v in 0..NV {
                for b in [false, true] {
                    let c = tt_cond(f, v, b);
                    for row in 0..256 {
                        let src = if b { row | (1 << v) } else { row & !(1 << v) };
                        assert_eq!(c.bit(row), f.bit(src));
                    }
                }
            }
            assert_eq!((!f).hex().len(), 64);
            assert_eq!(f & !f, TT::ZERO);
            assert_eq!(f | !f, TT::full());
            assert_eq!(f ^ f, TT::ZERO);
        }
    }
}
