//! C02S (store layer of C02): drive the real rsdd::backing_store::BackedRobinhoodTable<u64>
//! directly, with explicit (colliding, wrapping) hashes and tiny initial capacities.
//! case:  <cap|D> (i <elem> <hash> | g <hash>)*        D = the shipped DEFAULT_SIZE (no hook)
//!        S <cap> <lo> <hi>                             exhaustive sweep (see `sweep`)
//! out:   per call the identity class of the returned reference = index of the first call that
//!        returned the same address (`N` for get_by_hash -> None), then n=<num_nodes> h=<hits>
//!        order=<identity classes of the stored elements (iter()), sorted: the slot layout is not compared>
//!        sweep: n=<histories> digest=<fnv1a-64 of all result lines>
use rsdd::verif::{BackedRobinhoodTable, TABLE_CAPACITY};
use rsdd_verif_harness::*;
use std::collections::{HashMap, HashSet};

pub const PROP: Prop = Prop { gen, run, panic_ok };

fn main() {
    run_main(PROP)
}

#[derive(Clone, Copy)]
enum Op {
    Ins(u64, u64),
    Get(u64),
}

/// A panic is acceptable only where the u8 probe distance can overflow (debug build): that needs
/// a cluster of more than 256 stored entries, hence more than 256 distinct (element, hash) pairs
/// in the history (theorem C02S_rh_total_small).  The model must then report the overflow as well
/// (its line is PANIC too).
fn panic_ok(case: &str) -> bool {
    let t = toks(case);
    if t.is_empty() || t[0] == "S" {
        return false;
    }
    let mut s = HashSet::new();
    let mut i = 1;
    while i < t.len() {
        if t[i] == "i" {
            s.insert((t[i + 1], t[i + 2]));
            i += 3;
        } else {
            i += 2;
        }
    }
    s.len() > 256
}

pub fn gen(rng: &mut Rng, idx: usize, n: usize, thorough: bool) -> String {
    // thorough tier: the first 12 cases of every shard are the exhaustive small sweep
    // (capacities 1,2,4 x four quarters of the 256 hash assignments)
    if thorough && idx < 12 {
        let cap = [1, 2, 4][idx / 4];
        let q = idx % 4;
        return format!("S {cap} {} {}", q * 64, q * 64 + 64);
    }
    // sizes grow with the index so that the first failing case tends to be small
    let frac = (idx * 100) / n.max(1);
    let capmax = if frac < 30 { 2 } else if frac < 60 { 5 } else { 16 };
    let default_cap = thorough && frac > 50 && rng.chance(1, 2000); // a few long cases only: the unary-nat model is slow at 131072 slots
    let cap = rng.range(1, capmax);
    let maxops = if thorough { 400 } else { 120 };
    let nops = 1 + (frac * maxops) / 100 + rng.range(0, 5);
    let nops = nops.min(maxops);
    let overflow_stream = thorough && frac > 80 && rng.chance(1, 60); // edge stream: > 256 colliding elements
    let nelems = if overflow_stream {
        nops as u64
    } else {
        let d = *rng.pick(&[1usize, 2, 4]);
        rng.range(1, (nops / d).max(2)) as u64
    };
    // hash function of the element: ranges chosen so that homes collide and wrap
    let hrange: u64 = if overflow_stream { *rng.pick(&[1u64, 2]) } else { *rng.pick(&[1u64, 2, 4, 8, 64, 1 << 40, u64::MAX]) };
    let inconsistent = !overflow_stream && rng.chance(1, 10); // malformed stream: hashes not a function of the element
    let hashes: Vec<u64> = (0..nelems).map(|_| rng.below(hrange)).collect();
    // element names are arbitrary u64 (not small indices)
    let names: Vec<u64> = (0..nelems).map(|k| if rng.chance(1, 4) { rng.next() | 1 << 63 } else { 2 * k + 10 }).collect();
    let mut s = if default_cap { "D".to_string() } else { format!("{cap}") };
    for j in 0..nops {
        // the overflow stream inserts mostly fresh elements so that one cluster exceeds 256
        let k = if overflow_stream && rng.chance(9, 10) { j } else { rng.below(nelems) as usize };
        if overflow_stream || rng.chance(17, 20) {
            let h = if inconsistent && rng.chance(1, 3) { rng.below(hrange) } else { hashes[k] };
            s.push_str(&format!(" i {} {h}", names[k]));
        } else {
            let h = if rng.coin() { hashes[k] } else { rng.below(hrange) };
            s.push_str(&format!(" g {h}"));
        }
    }
    s
}

struct Res {
    line: String,
    fails: Vec<String>,
    grew: bool,
    hits: u64,
    distinct: usize,
    consistent: bool,
}

/// Run one history on a fresh real table; the oracle is set semantics, independent of the model.
fn history(cap: Option<usize>, ops: &[Op]) -> Res {
    TABLE_CAPACITY.with(|c| c.set(cap));
    let mut tbl: Box<BackedRobinhoodTable<'static, u64>> = Box::new(BackedRobinhoodTable::new());
    TABLE_CAPACITY.with(|c| c.set(None));
    let cap0 = cap.unwrap_or(131072);
    let ptr: *mut BackedRobinhoodTable<'static, u64> = &mut *tbl;
    let mut line = String::new();
    let mut fails = vec![];
    // identity classes by address
    let mut first_call: HashMap<usize, usize> = HashMap::new();
    // oracle state.  The table compares the hash first and the element second, so what it stores is
    // the set of distinct (element, hash) PAIRS of the history: a stream whose hashes are not a
    // function of the element is a consistent stream over pairs (hash of a pair = its second
    // component).  Set semantics is therefore checked on pairs, for every stream.
    let mut handed: Vec<(&'static u64, u64)> = vec![]; // every reference handed out, with the element it was handed out for
    let mut addr_of: HashMap<(u64, u64), usize> = HashMap::new(); // pair -> address
    let mut pair_at: HashMap<usize, (u64, u64)> = HashMap::new(); // address -> pair
    let mut hash_of: HashMap<u64, u64> = HashMap::new();
    let mut consistent = true; // statistics only
    let mut expect_hits = 0u64;
    for (k, op) in ops.iter().enumerate() {
        match *op {
            Op::Ins(e, h) => {
                if *hash_of.entry(e).or_insert(h) != h {
                    consistent = false;
                }
                // the table's methods take `&'a mut self` with the table's own lifetime: re-borrow
                let r: &'static u64 = unsafe { (&mut *ptr).get_or_insert_by_hash(h, e, false) };
                let a = r as *const u64 as usize;
                let cls = *first_call.entry(a).or_insert(k);
                line.push_str(&format!(" {cls}"));
                if *r != e {
                    fails.push(format!("call {k}: get_or_insert({e}) returned a reference that reads {}", *r));
                }
                match addr_of.get(&(e, h)) {
                    Some(&a0) => {
                        expect_hits += 1;
                        if a0 != a {
                            fails.push(format!("call {k}: element {e} (hash {h}) was given a second address (duplicate node)"));
                        }
                    }
                    None => {
                        if let Some(p2) = pair_at.get(&a) {
                            fails.push(format!("call {k}: new element {e} (hash {h}) shares its address with {p2:?}"));
                        }
                        addr_of.insert((e, h), a);
                        pair_at.insert(a, (e, h));
                    }
                }
                handed.push((r, e));
            }
            Op::Get(h) => {
                let r: Option<&'static u64> = unsafe { (&mut *ptr).get_by_hash(h) };
                match r {
                    None => {
                        line.push_str(" N");
                        if addr_of.keys().any(|&(_, x)| x == h) {
                            fails.push(format!("call {k}: get_by_hash({h}) found nothing although an element with that hash was inserted"));
                        }
                    }
                    Some(r) => {
                        let a = r as *const u64 as usize;
                        // with several distinct elements stored under this hash, WHICH of them a lookup
                        // by hash meets first depends on the slot layout, which no property fixes: then
                        // only "one of them" (A) is compared (the oracle below checks it is one of them)
                        let ambiguous = addr_of.keys().filter(|&&(_, x)| x == h).count() >= 2;
                        if ambiguous {
                            line.push_str(" A");
                        } else {
                            match first_call.get(&a) {
                                Some(c) => line.push_str(&format!(" {c}")),
                                None => line.push_str(" ?"),
                            }
                        }
                        expect_hits += 1;
                        match pair_at.get(&a) {
                            Some(&(e2, h2)) => {
                                if h2 != h || e2 != *r {
                                    fails.push(format!("call {k}: get_by_hash({h}) returned the node of element {e2} stored under hash {h2} (reads {})", *r));
                                }
                            }
                            None => fails.push(format!("call {k}: get_by_hash({h}) returned an address never handed out")),
                        }
                    }
                }
            }
        }
        // earlier references still read the same element (the arena is append-only)
        for (j, (r, e)) in handed.iter().enumerate() {
            if **r != *e {
                fails.push(format!("after call {k}: the reference returned by insert number {j} now reads {} instead of {e}", **r));
                break;
            }
        }
    }
    let (nn, hits) = (tbl.num_nodes(), tbl.hits());
    if nn != addr_of.len() {
        fails.push(format!("num_nodes = {nn} but {} distinct (element, hash) pairs were inserted", addr_of.len()));
    }
    if hits as u64 != expect_hits {
        fails.push(format!("hits = {hits} but {expect_hits} calls found an existing element"));
    }
    line.push_str(&format!(" n={nn} h={hits} order="));
    // the slot order of the stored elements (iter() walks the slot array): makes the layout, hence
    // the capacity at every moment (homes are hash % cap) and the robin-hood swaps, observable
    let ord: Vec<String> = tbl.iter().map(|r| match first_call.get(&(r as *const u64 as usize)) {
        Some(c) => c.to_string(),
        None => "?".to_string(),
    }).collect();
    // compared as a SET (sorted): which slot an element sits in (capacity at that moment, probe
    // order, the moment of a growth) is not fixed by the property; that every stored element is
    // there exactly once, and found again by every later call, is
    let mut sorted = ord.clone();
    sorted.sort_by_key(|x| x.parse::<u64>().unwrap_or(u64::MAX));
    line.push_str(&sorted.join(","));
    if ord.len() != nn {
        fails.push(format!("iter() yields {} elements but num_nodes = {nn}", ord.len()));
    }
    let distinct = addr_of.len();
    drop(handed);
    drop(tbl);
    Res { line: line.trim().to_string(), fails, grew: 10 * nn > 7 * cap0, hits: hits as u64, distinct, consistent }
}

fn fnv(d: &mut u64, s: &str) {
    for b in s.bytes().chain(std::iter::once(b'\n')) {
        *d ^= b as u64;
        *d = d.wrapping_mul(0x100000001b3);
    }
}

/// Exhaustive: every assignment `code` in lo..hi of hashes < 4 to the 4 elements, every history of
/// 0..=6 get_or_insert calls over the 4 elements, followed by get_by_hash of 0..4.
fn sweep(cap: usize, lo: usize, hi: usize, fails: &mut Vec<String>) -> String {
    let mut d = 0xcbf29ce484222325u64;
    let mut count = 0u64;
    for code in lo..hi {
        let hs: Vec<u64> = (0..4).map(|e| ((code >> (2 * e)) & 3) as u64).collect();
        for l in 0..=6usize {
            for m in 0..(1usize << (2 * l)) {
                let mut ops: Vec<Op> = (0..l).map(|j| { let e = (m >> (2 * j)) & 3; Op::Ins(e as u64, hs[e]) }).collect();
                for h in 0..4 {
                    ops.push(Op::Get(h));
                }
                let r = history(Some(cap), &ops);
                fnv(&mut d, &r.line);
                count += 1;
                if !r.fails.is_empty() && fails.len() < 5 {
                    fails.push(format!("sweep cap={cap} code={code} len={l} hist={m}: {}", r.fails[0]));
                }
            }
        }
    }
    format!("n={count} digest={d:x}")
}

pub fn run(case: &str, st: &mut Stats) -> Outcome {
    let t = toks(case);
    if t[0] == "S" {
        let (cap, lo, hi): (usize, usize, usize) = (t[1].parse().unwrap(), t[2].parse().unwrap(), t[3].parse().unwrap());
        let mut fails = vec![];
        let result = sweep(cap, lo, hi, &mut fails);
        st.bump("sweep_cases");
        return Outcome { result, fails, nontrivial: true };
    }
    let cap: Option<usize> = if t[0] == "D" { None } else { Some(t[0].parse().unwrap()) };
    let mut ops = vec![];
    let mut i = 1;
    while i < t.len() {
        match t[i] {
            "i" => {
                ops.push(Op::Ins(t[i + 1].parse().unwrap(), t[i + 2].parse().unwrap()));
                i += 3;
            }
            "g" => {
                ops.push(Op::Get(t[i + 1].parse().unwrap()));
                i += 2;
            }
            _ => panic!("bad case"),
        }
    }
    let r = history(cap, &ops);
    st.bump(&format!("cap={}", t[0]));
    st.add("calls", ops.len() as u64);
    st.add("hits", r.hits);
    st.add("distinct_elements", r.distinct as u64);
    if r.grew {
        st.bump("grew_at_least_once");
    }
    if !r.consistent {
        st.bump("inconsistent_hash_stream");
    }
    Outcome { result: r.line, fails: r.fails, nontrivial: r.grew && r.hits > 0 }
}
