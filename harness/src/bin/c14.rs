//! C14: orders, dtrees, vtrees.  Three case streams (first token):
//!   O (lin <n> | new <k> <v>*k) <op>*      ops: nl | get v | lvl p | lt a b | lte a b | ab v | be v |
//!                                               fe a b c (items: label or -) | last | nv | dump
//!   V (t <shape> | rl <v>* | ll <v>* | es <k> <v>* | rs <v>* t <shape>)   shape: prefix, n = node, l<v> = leaf
//!   C <kind> ; <clauses>                   kind: lin | perm <k> <p>*k | mf | force <k> <p>*k | forcep
//!                                          clauses: DIMACS literals (1-based, signed), 0 ends a clause
//!   W <k> (<a> <b>)*k <src>                DEEP vtrees (62..160 leaves, some node at depth >= 64 in most):
//!                                          src: rl <v>* | ll <v>* | t <shape> | cnf ; <clauses>  (vtree of the
//!                                          dtree of the CNF under the linear order); the k pairs of in-order
//!                                          indices are the lca / is_prime queries shown in the result line (and
//!                                          compared with the model); the oracle checks ALL node pairs
//! Output: one canonical line; P = the implementation panicked where the model returns None.
use rsdd::repr::{Cnf, DTree, Literal, PartialVariableOrder, VTree, VTreeIndex, VTreeManager, VarLabel, VarOrder};
use rsdd::util::btree::BTree;
use rsdd_verif_harness::*;
use std::collections::{BTreeMap, BTreeSet};
use std::panic::{catch_unwind, AssertUnwindSafe};

pub const PROP: Prop = Prop { gen, run, panic_ok: never };

fn main() {
    run_main(PROP)
}

fn quiet<T>(f: impl FnOnce() -> T) -> Option<T> {
    catch_unwind(AssertUnwindSafe(f)).ok()
}

// ---------------------------------------------------------------- generators
#[derive(Clone)]
enum Sh {
    L(usize),
    N(Box<Sh>, Box<Sh>),
}
fn sh_str(s: &Sh, out: &mut String) {
    match s {
        Sh::L(v) => out.push_str(&format!(" l{v}")),
        Sh::N(l, r) => {
            out.push_str(" n");
            sh_str(l, out);
            sh_str(r, out);
        }
    }
}
fn rand_shape(rng: &mut Rng, labels: &[usize]) -> Sh {
    if labels.len() == 1 {
        Sh::L(labels[0])
    } else {
        let s = rng.range(1, labels.len() - 1);
        Sh::N(Box::new(rand_shape(rng, &labels[..s])), Box::new(rand_shape(rng, &labels[s..])))
    }
}
fn of_vtree(t: &VTree) -> Sh {
    match t {
        BTree::Leaf(v) => Sh::L(v.value_usize()),
        BTree::Node((), l, r) => Sh::N(Box::new(of_vtree(l)), Box::new(of_vtree(r))),
    }
}

fn gen_clauses(rng: &mut Rng, frac: usize, thorough: bool) -> Vec<Vec<i64>> {
    // spread family (one case in six beyond the first fifth): 6..10 variable indices of which one to
    // three are unused (gaps below the largest label), the smallest labels mostly in unit clauses,
    // and clauses whose variables lie far apart -- long spans make the iterative heuristics run
    // several passes
    if frac >= 20 && rng.chance(1, 6) {
        let nv = rng.range(6, 10);
        let mut pool: Vec<usize> = (0..nv).collect();
        for _ in 0..rng.range(1, 3) {
            let k = rng.below(pool.len() as u64 - 1) as usize; // never the largest label
            pool.remove(k);
        }
        let lowest: Vec<usize> = pool.iter().cloned().take(rng.range(1, 2)).collect();
        let rest: Vec<usize> = pool.iter().cloned().filter(|v| !lowest.contains(v) || rng.chance(1, 4)).collect();
        let lit = |rng: &mut Rng, v: usize| { let x = v as i64 + 1; if rng.coin() { x } else { -x } };
        let mut cls: Vec<Vec<i64>> = vec![];
        for v in &lowest {
            cls.push(vec![lit(rng, *v)]);
        }
        for _ in 0..rng.range(1, 4) {
            let a = rest[rng.below((rest.len() as u64 + 1) / 2) as usize];
            let b = rest[rest.len() - 1 - rng.below((rest.len() as u64 + 1) / 2) as usize];
            let mut c = vec![lit(rng, a), lit(rng, b)];
            if rng.chance(1, 3) { let x = *rng.pick(&rest); c.push(lit(rng, x)); }
            cls.push(c);
        }
        if rng.coin() { rng.shuffle(&mut cls); }
        return cls;
    }
    let maxv = if thorough { 8 } else { 6 };
    let nv = 2 + rng.range(0, ((frac * (maxv - 2)) / 100).max(2));
    let ncl = if rng.chance(1, 25) { 0 } else { rng.range(1, 3 + (frac * 6) / 100) };
    // the labels actually used: sometimes a strict subset (unused indices), sometimes two blocks
    let mut pool: Vec<usize> = (0..nv).collect();
    if rng.chance(1, 4) && nv > 1 {
        rng.shuffle(&mut pool);
        let keep = rng.range(nv.saturating_sub(2).max(1), nv);
        pool.truncate(keep);
    }
    let two_blocks = rng.chance(1, 3) && pool.len() >= 2;
    let mut cls: Vec<Vec<i64>> = vec![];
    for _ in 0..ncl {
        let from: Vec<usize> = if two_blocks {
            let h = pool.len() / 2;
            if rng.coin() { pool[..h].to_vec() } else { pool[h..].to_vec() }
        } else {
            pool.clone()
        };
        let w = if rng.chance(1, 4) { 1 } else if rng.chance(1, 25) { 0 } else { rng.range(1, 4) };
        let mut c = vec![];
        for _ in 0..w {
            let v = *rng.pick(&from) as i64 + 1;
            c.push(if rng.coin() { v } else { -v });
        }
        if rng.chance(1, 6) && !cls.is_empty() {
            let d = rng.pick(&cls).clone(); // duplicate clause
            cls.push(d);
        } else {
            cls.push(c);
        }
    }
    cls
}

fn mk_cnf(cls: &[Vec<i64>]) -> Cnf {
    let v: Vec<Vec<Literal>> = cls
        .iter()
        .map(|c| c.iter().map(|&l| Literal::new(VarLabel::new((l.abs() - 1) as u64), l > 0)).collect())
        .collect();
    Cnf::new(&v)
}

fn cls_str(cls: &[Vec<i64>]) -> String {
    let mut s = String::from(" ;");
    for c in cls {
        for l in c {
            s.push_str(&format!(" {l}"));
        }
        s.push_str(" 0");
    }
    s
}

// ---------------------------------------------------------------- DEEP vtrees (stream W): generator
/// small pieces peeled off one side at every level: depth about leaves / 1.5
fn peel_shape(rng: &mut Rng, labels: &[usize], bias: u64, zigzag: bool, flip: bool) -> Sh {
    if labels.len() <= 2 {
        return rand_shape(rng, labels);
    }
    let m = if zigzag { 1 } else { (*rng.pick(&[1usize, 1, 1, 1, 1, 2, 3])).min(labels.len() - 1) };
    let left_small = if zigzag { flip } else { rng.chance(bias, 100) };
    if left_small {
        Sh::N(Box::new(rand_shape(rng, &labels[..m])), Box::new(peel_shape(rng, &labels[m..], bias, zigzag, !flip)))
    } else {
        let c = labels.len() - m;
        Sh::N(Box::new(peel_shape(rng, &labels[..c], bias, zigzag, !flip)), Box::new(rand_shape(rng, &labels[c..])))
    }
}
/// depth of every node, in in-order sequence
fn sh_depths(s: &Sh, d: usize, out: &mut Vec<usize>) {
    match s {
        Sh::L(_) => out.push(d),
        Sh::N(l, r) => {
            sh_depths(l, d + 1, out);
            out.push(d);
            sh_depths(r, d + 1, out);
        }
    }
}
fn gen_deep(rng: &mut Rng, thorough: bool) -> String {
    let hi = if thorough { 160 } else { 130 };
    // mostly >= 65 leaves; a few just below (depth 61..63: the last sizes every width of index survives)
    let k = if rng.chance(1, 8) { rng.range(62, 66) } else { rng.range(65, hi) };
    let labels: Vec<usize> = match rng.below(4) {
        0 => (0..k).collect(),
        1 => {
            let mut p = rng.perm(k + 5);
            p.truncate(k);
            p
        }
        _ => rng.perm(k),
    };
    let ls: String = labels.iter().map(|v| format!(" {v}")).collect();
    let (src, shape): (String, Sh) = match rng.below(10) {
        0 | 1 => (format!("rl{ls}"), Sh::L(0).right_comb(&labels)),
        2 | 3 => (format!("ll{ls}"), Sh::left_comb(&labels)),
        4 => {
            let first = rng.coin();
            let sh = peel_shape(rng, &labels, 0, true, first);
            let mut t = String::new();
            sh_str(&sh, &mut t);
            (format!("t{t}"), sh)
        }
        5 | 6 | 7 => {
            let bias = *rng.pick(&[8u64, 50, 92]);
            let sh = peel_shape(rng, &labels, bias, false, false);
            let mut t = String::new();
            sh_str(&sh, &mut t);
            (format!("t{t}"), sh)
        }
        _ => {
            // chain-structured CNF over n variables, linear order: the dtree's cutset spine is deep
            let n = rng.range(70, if thorough { 120 } else { 100 });
            let mut cls: Vec<Vec<i64>> = vec![];
            for i in 1..n as i64 {
                let mut c = vec![if rng.coin() { -i } else { i }, if rng.coin() { i + 1 } else { -(i + 1) }];
                if rng.chance(1, 6) && i + 2 <= n as i64 {
                    c.push(i + 2);
                }
                if rng.coin() {
                    c.reverse();
                }
                cls.push(c);
            }
            match rng.below(4) {
                0 => cls.reverse(),
                1 => {
                    // a few clauses out of place
                    for _ in 0..rng.range(1, 4) {
                        let a = rng.range(0, cls.len() - 1);
                        let b = rng.range(0, cls.len() - 1);
                        cls.swap(a, b);
                    }
                }
                _ => {}
            }
            if rng.chance(1, 4) {
                cls.push(vec![rng.range(1, n) as i64]);
            }
            let cnf = mk_cnf(&cls);
            let sh = quiet(|| {
                let o = cnf.linear_order();
                let d = DTree::from_cnf(&cnf, &o);
                VTree::from_dtree(&d).map(|v| of_vtree(&v))
            })
            .flatten()
            .unwrap_or(Sh::L(0));
            (format!("cnf{}", cls_str(&cls)), sh)
        }
    };
    let mut depth = vec![];
    sh_depths(&shape, 0, &mut depth);
    let sz = depth.len();
    let deep: Vec<usize> = (0..sz).filter(|i| depth[*i] >= 60).collect();
    let npairs = rng.range(50, 90);
    let mut q = String::new();
    for _ in 0..npairs {
        let mut one = |rng: &mut Rng, want_deep: bool| -> usize {
            if want_deep && !deep.is_empty() { *rng.pick(&deep) } else { rng.range(0, sz - 1) }
        };
        let (a, b) = match rng.below(8) {
            0..=3 => (one(rng, true), one(rng, true)),
            4 => (one(rng, true), one(rng, false)),
            5 => (one(rng, false), one(rng, true)),
            6 => {
                let a = one(rng, true);
                (a, if rng.coin() { a } else { (a + 1).min(sz - 1) })
            }
            _ => (one(rng, false), one(rng, false)),
        };
        q.push_str(&format!(" {a} {b}"));
    }
    format!("W {npairs}{q} {src}")
}
impl Sh {
    fn right_comb(self, labels: &[usize]) -> Sh {
        // the shape VTree::right_linear builds (used for choosing the queries only)
        let mut it = labels.iter().rev();
        let mut acc = Sh::L(*it.next().unwrap());
        for &l in it {
            acc = Sh::N(Box::new(Sh::L(l)), Box::new(acc));
        }
        acc
    }
    fn left_comb(labels: &[usize]) -> Sh {
        let mut it = labels.iter();
        let mut acc = Sh::L(*it.next().unwrap());
        for &l in it {
            acc = Sh::N(Box::new(acc), Box::new(Sh::L(l)));
        }
        acc
    }
}

pub fn gen(rng: &mut Rng, idx: usize, n: usize, thorough: bool) -> String {
    // DEEP vtrees: 1 case in 32, from a forked generator (the other streams keep their sequence)
    if idx % 32 == 31 {
        let mut r2 = Rng::new(rng.0 ^ (idx as u64).wrapping_mul(0x2545F4914F6CDD1D));
        return gen_deep(&mut r2, thorough);
    }
    let frac = (idx * 100) / n.max(1);
    let stream = rng.below(100);
    if stream < 22 {
        // ---- VarOrder operation sequences
        let nv = rng.range(0, 1 + frac / 12);
        let mut s = String::from("O");
        let kind = rng.below(100);
        if kind < 45 {
            s.push_str(&format!(" lin {nv}"));
        } else if kind < 85 {
            s.push_str(&format!(" new {nv}"));
            for p in rng.perm(nv) {
                s.push_str(&format!(" {p}"));
            }
        } else {
            // malformed: duplicates / out of range
            s.push_str(&format!(" new {nv}"));
            for _ in 0..nv {
                s.push_str(&format!(" {}", rng.range(0, nv + 1)));
            }
        }
        let mut cur = nv;
        let nops = rng.range(0, 4 + frac / 8);
        let pickv = |rng: &mut Rng, cur: usize| -> usize {
            if rng.chance(1, 12) { cur + rng.range(0, 1) } else { rng.range(0, cur.max(1) - 1) }
        };
        for _ in 0..nops {
            match rng.below(11) {
                0 | 1 => {
                    s.push_str(" nl");
                    cur += 1;
                }
                2 => s.push_str(&format!(" get {}", pickv(rng, cur))),
                3 => s.push_str(&format!(" lvl {}", pickv(rng, cur))),
                4 => s.push_str(&format!(" lt {} {}", pickv(rng, cur), pickv(rng, cur))),
                5 => s.push_str(&format!(" lte {} {}", pickv(rng, cur), pickv(rng, cur))),
                6 => s.push_str(&format!(" ab {}", pickv(rng, cur))),
                7 => s.push_str(&format!(" be {}", pickv(rng, cur))),
                8 | 9 => {
                    s.push_str(" fe");
                    for _ in 0..3 {
                        if rng.chance(1, 4) { s.push_str(" -") } else { s.push_str(&format!(" {}", pickv(rng, cur))) }
                    }
                }
                _ => s.push_str(" last"),
            }
        }
        s.push_str(" nv dump");
        s
    } else if stream < 50 {
        // ---- vtrees
        let maxl = if thorough { 8 } else { 6 };
        let k = 1 + rng.range(0, ((frac * (maxl - 1)) / 100).max(3));
        let mut labels: Vec<usize> = if rng.chance(1, 4) {
            let mut p = rng.perm(k + 3);
            p.truncate(k); // gaps: unused indices
            p
        } else {
            rng.perm(k)
        };
        if rng.chance(1, 20) && k >= 2 {
            labels[0] = labels[1]; // repeated label: VTreeManager::new must refuse
        }
        let ls: String = labels.iter().map(|v| format!(" {v}")).collect();
        match rng.below(10) {
            0 => format!("V rl{ls}"),
            1 => format!("V ll{ls}"),
            2 => format!("V es {}{ls}", rng.range(0, 3)),
            3 => {
                let lab: Vec<VarLabel> = labels.iter().map(|&v| VarLabel::new_usize(v)).collect();
                let t = VTree::rand_split(&lab, [0.0, 0.3, 0.7][rng.range(0, 2)]);
                let mut sh = String::new();
                sh_str(&of_vtree(&t), &mut sh);
                format!("V rs{ls} t{sh}")
            }
            _ => {
                let mut sh = String::new();
                sh_str(&rand_shape(rng, &labels), &mut sh);
                format!("V t{sh}")
            }
        }
    } else {
        // ---- CNF x order -> dtree -> vtree
        let cls = gen_clauses(rng, frac, thorough);
        let cnf = mk_cnf(&cls);
        let nv = cnf.num_vars();
        let k = rng.below(100);
        let kind = if k < 25 {
            "lin".to_string()
        } else if k < 50 {
            let m = if rng.chance(1, 5) { rng.range(0, nv + 2) } else { nv };
            let p: String = rng.perm(m).iter().map(|v| format!(" {v}")).collect();
            format!("perm {m}{p}")
        } else if k < 75 || cls.is_empty() {
            "mf".to_string()
        } else {
            match quiet(|| cnf.force_order()) {
                Some(o) => {
                    let p: String = o.in_order_iter().map(|v| format!(" {}", v.value())).collect();
                    format!("force {}{p}", o.num_vars())
                }
                None => "forcep".to_string(),
            }
        };
        format!("C {kind}{}", cls_str(&cls))
    }
}

// ---------------------------------------------------------------- helpers for run
#[derive(Debug)]
struct It(Option<VarLabel>);
impl PartialVariableOrder for It {
    fn var(&self) -> Option<VarLabel> {
        self.0
    }
}

fn vt_str(t: &VTree) -> String {
    match t {
        BTree::Leaf(v) => format!("{}", v.value()),
        BTree::Node((), l, r) => format!("({} {})", vt_str(l), vt_str(r)),
    }
}
fn parse_shape(t: &[&str], i: &mut usize) -> VTree {
    let tok = t[*i];
    *i += 1;
    if tok == "n" {
        let l = parse_shape(t, i);
        let r = parse_shape(t, i);
        VTree::new_node(Box::new(l), Box::new(r))
    } else {
        VTree::new_leaf(VarLabel::new_usize(tok[1..].parse().unwrap()))
    }
}
fn is_perm(v: &[usize]) -> bool {
    let mut seen = vec![false; v.len()];
    for &x in v {
        if x >= v.len() || seen[x] {
            return false;
        }
        seen[x] = true;
    }
    true
}
fn set_str<I: Iterator<Item = usize>>(it: I) -> String {
    let v: Vec<String> = it.map(|x| x.to_string()).collect();
    format!("[{}]", v.join(","))
}
fn lits_str(c: &[Literal]) -> String {
    let v: Vec<String> = c
        .iter()
        .map(|l| format!("{}{}", if l.polarity() { "" } else { "-" }, l.label().value() + 1))
        .collect();
    format!("[{}]", v.join(","))
}
fn dt_str(d: &DTree) -> String {
    match d {
        DTree::Leaf { clause, cutset, vars } => format!(
            "(L {} c{} v{})",
            lits_str(clause),
            set_str(cutset.iter().map(|v| v.value_usize())),
            set_str(vars.iter().map(|v| v.value_usize()))
        ),
        DTree::Node { l, r, cutset, vars } => format!(
            "(N c{} v{} {} {})",
            set_str(cutset.iter().map(|v| v.value_usize())),
            set_str(vars.iter().map(|v| v.value_usize())),
            dt_str(l),
            dt_str(r)
        ),
    }
}

// oracle over the dtree: recompute everything from the leaves
fn dt_leaves(d: &DTree, out: &mut Vec<Vec<Literal>>) {
    match d {
        DTree::Leaf { clause, .. } => out.push(clause.clone()),
        DTree::Node { l, r, .. } => {
            dt_leaves(l, out);
            dt_leaves(r, out);
        }
    }
}
fn dt_check(d: &DTree, anc: &BTreeSet<usize>, complete: bool, fails: &mut Vec<String>, cuts: &mut Vec<usize>) -> BTreeSet<usize> {
    match d {
        DTree::Leaf { clause, cutset, vars } => {
            let tv: BTreeSet<usize> = clause.iter().map(|l| l.label().value_usize()).collect();
            let fv: BTreeSet<usize> = vars.iter().map(|v| v.value_usize()).collect();
            let fc: BTreeSet<usize> = cutset.iter().map(|v| v.value_usize()).collect();
            if fv != tv {
                fails.push(format!("dtree vars field of leaf {} is {:?}, clause variables {:?}", lits_str(clause), fv, tv));
            }
            let want: BTreeSet<usize> = tv.difference(anc).cloned().collect();
            if fc != want {
                fails.push(format!("dtree cutset of leaf {} is {:?}, expected vars minus ancestors {:?}", lits_str(clause), fc, want));
            }
            cuts.extend(cutset.iter().map(|v| v.value_usize()));
            tv
        }
        DTree::Node { l, r, cutset, vars } => {
            let fc: BTreeSet<usize> = cutset.iter().map(|v| v.value_usize()).collect();
            cuts.extend(cutset.iter().map(|v| v.value_usize()));
            let mut anc2 = anc.clone();
            anc2.extend(fc.iter().cloned());
            let lv = dt_check(l, &anc2, complete, fails, cuts);
            let rv = dt_check(r, &anc2, complete, fails, cuts);
            let tv: BTreeSet<usize> = lv.union(&rv).cloned().collect();
            let fv: BTreeSet<usize> = vars.iter().map(|v| v.value_usize()).collect();
            if fv != tv {
                fails.push(format!("dtree vars field of a node is {:?}, union of the children's variables is {:?}", fv, tv));
            }
            if complete {
                let want: BTreeSet<usize> = lv.intersection(&rv).filter(|x| !anc.contains(x)).cloned().collect();
                if fc != want {
                    fails.push(format!("dtree cutset of a node is {:?}, expected (vars l & vars r) minus ancestors = {:?}", fc, want));
                }
            }
            tv
        }
    }
}

// oracle over a vtree: in-order numbering, parents, lca by walking up
struct Walk {
    parent: Vec<Option<usize>>,
    side: Vec<bool>, // true = right child of its parent
    sub: Vec<String>,
    leaf_idx: BTreeMap<usize, usize>,
}
fn walk(t: &VTree, w: &mut Walk) -> usize {
    match t {
        BTree::Leaf(v) => {
            let i = w.sub.len();
            w.sub.push(vt_str(t));
            w.parent.push(None);
            w.side.push(false);
            w.leaf_idx.insert(v.value_usize(), i);
            i
        }
        BTree::Node((), l, r) => {
            let li = walk(l, w);
            let i = w.sub.len();
            w.sub.push(vt_str(t));
            w.parent.push(None);
            w.side.push(false);
            let ri = walk(r, w);
            w.parent[li] = Some(i);
            w.parent[ri] = Some(i);
            w.side[ri] = true;
            i
        }
    }
}
fn chain(w: &Walk, mut i: usize) -> Vec<usize> {
    let mut c = vec![i];
    while let Some(p) = w.parent[i] {
        c.push(p);
        i = p;
    }
    c
}

fn run_order(t: &[&str], st: &mut Stats) -> Outcome {
    let mut fails = vec![];
    let mut out = String::new();
    let mut i;
    let start_perm;
    let ord = if t[1] == "lin" {
        let n: usize = t[2].parse().unwrap();
        i = 3;
        start_perm = true;
        st.bump("O:lin");
        quiet(|| VarOrder::linear_order(n))
    } else {
        let k: usize = t[2].parse().unwrap();
        let v: Vec<usize> = t[3..3 + k].iter().map(|x| x.parse().unwrap()).collect();
        i = 3 + k;
        start_perm = is_perm(&v);
        st.bump(if start_perm { "O:new_perm" } else { "O:new_malformed" });
        let lab: Vec<VarLabel> = v.iter().map(|&x| VarLabel::new_usize(x)).collect();
        quiet(|| VarOrder::new(&lab))
    };
    let mut ord = match ord {
        Some(o) => o,
        None => {
            if start_perm {
                fails.push("VarOrder::new panicked on a permutation".into());
            }
            return Outcome { result: "P".into(), fails, nontrivial: false };
        }
    };
    let mut nops = 0;
    let opt = |x: Option<String>| x.unwrap_or_else(|| "P".to_string());
    while i < t.len() {
        nops += 1;
        let a = |k: usize| -> usize { t[i + k].parse().unwrap() };
        match t[i] {
            "nl" => {
                let before: Vec<usize> = (0..ord.num_vars()).map(|v| quiet(|| ord.get(VarLabel::new_usize(v))).unwrap_or(usize::MAX)).collect();
                let n = ord.num_vars();
                let l = ord.new_last();
                out.push_str(&format!(" nl={}", l.value()));
                // oracle: extension keeps every old position, new label sits last
                for (v, &p) in before.iter().enumerate() {
                    if ord.get(VarLabel::new_usize(v)) != p {
                        fails.push(format!("new_last moved variable {v}"));
                    }
                }
                if l.value_usize() != n || ord.num_vars() != n + 1 || ord.get(l) != n {
                    fails.push("new_last: new label is not last".into());
                }
                i += 1;
            }
            "get" => {
                out.push_str(&format!(" {}", opt(quiet(|| ord.get(VarLabel::new_usize(a(1))).to_string()))));
                i += 2;
            }
            "lvl" => {
                out.push_str(&format!(" {}", opt(quiet(|| ord.var_at_level(a(1)).value().to_string()))));
                i += 2;
            }
            "lt" | "lte" => {
                let (x, y) = (VarLabel::new_usize(a(1)), VarLabel::new_usize(a(2)));
                let lt = t[i] == "lt";
                let r = quiet(|| if lt { ord.lt(x, y) } else { ord.lte(x, y) });
                if let Some(b) = r {
                    let (px, py) = (ord.get(x), ord.get(y));
                    if b != (if lt { px < py } else { px <= py }) {
                        fails.push(format!("{} {} {} disagrees with positions", t[i], a(1), a(2)));
                    }
                }
                out.push_str(&format!(" {}", opt(r.map(|b| if b { "T".into() } else { "F".into() }))));
                i += 3;
            }
            "ab" | "be" => {
                let x = VarLabel::new_usize(a(1));
                let ab = t[i] == "ab";
                let r = quiet(|| if ab { ord.above(x) } else { ord.below(x) });
                out.push_str(&format!(" {}", opt(r.map(|o| o.map_or("N".to_string(), |v| v.value().to_string())))));
                i += 2;
            }
            "fe" => {
                let items: Vec<It> = (1..4).map(|k| It(if t[i + k] == "-" { None } else { Some(VarLabel::new_usize(a(k))) })).collect();
                let r = quiet(|| ord.first_essential(&items[0], &items[1], &items[2]));
                if let Some(v) = r {
                    // oracle: minimal position among the items that have a variable (when all are in range)
                    let vars: Vec<usize> = items.iter().filter_map(|x| x.0.map(|l| l.value_usize())).collect();
                    if vars.iter().all(|&x| x < ord.num_vars()) {
                        let best = vars.iter().map(|&x| ord.get(VarLabel::new_usize(x))).min().unwrap();
                        if ord.get(v) != best || !vars.contains(&v.value_usize()) {
                            fails.push(format!("first_essential returned {} which is not first among {:?}", v.value(), vars));
                        }
                    }
                }
                out.push_str(&format!(" {}", opt(r.map(|v| v.value().to_string()))));
                i += 4;
            }
            "last" => {
                out.push_str(&format!(" {}", opt(quiet(|| ord.last_var().value().to_string()))));
                i += 1;
            }
            "nv" => {
                out.push_str(&format!(" nv={}", ord.num_vars()));
                i += 1;
            }
            "dump" => {
                let v2p: Vec<usize> = (0..ord.num_vars()).map(|v| ord.get(VarLabel::new_usize(v))).collect();
                let p2v: Vec<usize> = ord.in_order_iter().map(|v| v.value_usize()).collect();
                out.push_str(&format!(" {}|{}", set_str(v2p.iter().cloned()), set_str(p2v.iter().cloned())));
                if start_perm {
                    // oracle: mutually inverse permutations
                    let ok = v2p.len() == p2v.len()
                        && is_perm(&v2p)
                        && is_perm(&p2v)
                        && (0..v2p.len()).all(|v| p2v[v2p[v]] == v && v2p[p2v[v]] == v);
                    if !ok {
                        fails.push(format!("order maps are not mutually inverse permutations: {:?} {:?}", v2p, p2v));
                    }
                }
                i += 1;
            }
            _ => panic!("bad op"),
        }
    }
    st.add("O:ops", nops as u64);
    Outcome { result: out.trim().to_string(), fails, nontrivial: start_perm && nops >= 4 }
}

fn run_vtree(t: &[&str], st: &mut Stats) -> Outcome {
    let mut fails = vec![];
    let nums = |xs: &[&str]| -> Vec<VarLabel> { xs.iter().map(|x| VarLabel::new_usize(x.parse().unwrap())).collect() };
    let tree: Option<VTree> = match t[1] {
        "t" => {
            let mut i = 2;
            Some(parse_shape(t, &mut i))
        }
        "rl" => quiet(|| VTree::right_linear(&nums(&t[2..]))),
        "ll" => quiet(|| VTree::left_linear(&nums(&t[2..]))),
        "es" => {
            let k: usize = t[2].parse().unwrap();
            quiet(|| VTree::even_split(&nums(&t[3..]), k))
        }
        "rs" => {
            let p = t.iter().position(|x| *x == "t").unwrap();
            let order = nums(&t[2..p]);
            // oracle for the random constructor: whatever split is drawn, the leaves are the order
            for bias in [0.0, 0.5] {
                let r = VTree::rand_split(&order, bias);
                let flat: Vec<VarLabel> = VTree::flatten_vtree(&r).into_iter().cloned().collect();
                if flat != order {
                    fails.push("rand_split changed the leaf order".into());
                }
            }
            let mut i = p + 1;
            let rec = parse_shape(t, &mut i);
            let flat: Vec<VarLabel> = VTree::flatten_vtree(&rec).into_iter().cloned().collect();
            if flat != order {
                fails.push("recorded rand_split tree does not have the order as leaves".into());
            }
            Some(rec)
        }
        _ => panic!("bad vtree case"),
    };
    st.bump(&format!("V:{}", t[1]));
    let tree = match tree {
        Some(x) => x,
        None => return Outcome { result: "P".into(), fails, nontrivial: false },
    };
    let shape = vt_str(&tree);
    let mut w = Walk { parent: vec![], side: vec![], sub: vec![], leaf_idx: BTreeMap::new() };
    walk(&tree, &mut w);
    let sz = w.sub.len();
    let leaves: Vec<usize> = VTree::flatten_vtree(&tree).into_iter().map(|v| v.value_usize()).collect();
    let distinct: BTreeSet<usize> = leaves.iter().cloned().collect();
    st.bump(&format!("V:leaves={}", leaves.len()));
    let mgr = match quiet(|| VTreeManager::new(tree.clone())) {
        Some(m) => m,
        None => {
            if distinct.len() == leaves.len() {
                fails.push("VTreeManager::new panicked on a tree without repeated labels".into());
            }
            return Outcome { result: format!("t={shape} P"), fails, nontrivial: false };
        }
    };
    if distinct.len() != leaves.len() {
        fails.push("VTreeManager::new accepted a repeated label".into());
    }
    // every node's VTreeIndex: leaves through var_index, inner nodes as lca of leaves
    let mut idx: BTreeMap<usize, VTreeIndex> = BTreeMap::new();
    for &l in &leaves {
        let i = mgr.var_index(VarLabel::new_usize(l));
        idx.insert(i.value(), i);
    }
    let leaf_ix: Vec<VTreeIndex> = idx.values().cloned().collect();
    for a in &leaf_ix {
        for b in &leaf_ix {
            let c = mgr.lca(*a, *b);
            idx.insert(c.value(), c);
        }
    }
    let all: Vec<VTreeIndex> = idx.values().cloned().collect();
    let mut out = format!("t={shape} n={} sz={}", mgr.num_vars(), all.len());
    if all.len() != sz || all.iter().enumerate().any(|(k, i)| i.value() != k) {
        fails.push(format!("vtree indices are not 0..{}: {:?}", sz, all.iter().map(|i| i.value()).collect::<Vec<_>>()));
        return Outcome { result: out, fails, nontrivial: false };
    }
    if mgr.num_vars() != leaves.len() {
        fails.push(format!("num_vars = {} but the tree has {} leaves", mgr.num_vars(), leaves.len()));
    }
    out.push_str(" vi=");
    out.push_str(&leaves.iter().map(|&l| format!("{}:{}", l, mgr.var_index(VarLabel::new_usize(l)).value())).collect::<Vec<_>>().join(","));
    for &l in &leaves {
        if mgr.var_index(VarLabel::new_usize(l)).value() != w.leaf_idx[&l] {
            fails.push(format!("var_index({l}) is not the in-order index"));
        }
    }
    out.push_str(" sub=");
    out.push_str(&all.iter().map(|i| vt_str(mgr.vtree(*i))).collect::<Vec<_>>().join(","));
    for (k, i) in all.iter().enumerate() {
        if vt_str(mgr.vtree(*i)) != w.sub[k] {
            fails.push(format!("vtree({k}) is not the {k}-th node in order"));
        }
    }
    let mut lca_s = String::new();
    let mut pr_s = String::new();
    for (a, ia) in all.iter().enumerate() {
        let ca = chain(&w, a);
        for (b, ib) in all.iter().enumerate() {
            let c = mgr.lca(*ia, *ib).value();
            lca_s.push_str(&format!("{c}."));
            let p = mgr.is_prime_index(*ia, *ib);
            pr_s.push(if p { '1' } else { '0' });
            // oracle: walk up
            let cb = chain(&w, b);
            let want = *ca.iter().find(|x| cb.contains(x)).unwrap();
            if c != want {
                fails.push(format!("lca({a},{b}) = {c}, tree walk gives {want}"));
            }
            // prime relation: a is the lca or below its left child, b is the lca or below its right child
            let below = |x: usize, right: bool| -> bool {
                if x == want {
                    return true;
                }
                let ch = chain(&w, x);
                let pos = ch.iter().position(|y| *y == want).unwrap();
                w.side[ch[pos - 1]] == right
            };
            let want_p = a != b && below(a, false) && below(b, true);
            if p != want_p {
                fails.push(format!("is_prime_index({a},{b}) = {p}, tree relation gives {want_p}"));
            }
        }
    }
    out.push_str(&format!(" lca={lca_s} pr={pr_s}"));
    // the pointer-level entry point is_prime(SddPtr, SddPtr): literals, binary decisions and general
    // decision nodes built by an SDD builder over this vtree; a pointer stands for the vtree node
    // it is normalised for (a literal for its leaf), and the relation must be the tree's
    if distinct.len() == leaves.len() && leaves.len() >= 2 && leaves.len() <= 8 {
        use rsdd::builder::sdd::{CompressionSddBuilder, SddBuilder};
        use rsdd::builder::BottomUpBuilder;
        use rsdd::repr::SddPtr;
        let sb = CompressionSddBuilder::new(tree.clone());
        let lits: Vec<SddPtr> = leaves.iter().map(|l| sb.var(VarLabel::new_usize(*l), true)).collect();
        let mut ptrs: Vec<SddPtr> = lits.clone();
        for i in 0..lits.len() {
            for j in 0..lits.len() {
                if i != j {
                    ptrs.push(sb.and(lits[i], lits[j]));
                    ptrs.push(sb.or(lits[i], sb.negate(lits[j])));
                    if i < j { ptrs.push(sb.xor(lits[i], lits[j])); }
                }
            }
        }
        if lits.len() >= 3 {
            for i in 0..lits.len() - 2 {
                let f = sb.and(lits[i], sb.or(lits[i + 1], lits[i + 2]));
                ptrs.push(f);
                ptrs.push(sb.iff(f, lits[(i + 2) % lits.len()]));
            }
        }
        ptrs.retain(|p| !p.is_const());
        ptrs.dedup();
        let node_of = |p: &SddPtr| -> usize {
            match p {
                SddPtr::Var(l, _) => w.leaf_idx[&l.value_usize()],
                _ => p.vtree().value(),
            }
        };
        let mut bad = 0;
        for a in &ptrs {
            for b in &ptrs {
                let (ia, ib) = (node_of(a), node_of(b));
                // tree relation recomputed as above
                let (ca, cb) = (chain(&w, ia), chain(&w, ib));
                let want = *ca.iter().find(|x| cb.contains(x)).unwrap();
                let below = |x: usize, right: bool| -> bool {
                    if x == want { return true; }
                    let ch = chain(&w, x);
                    let pos = ch.iter().position(|y| *y == want).unwrap();
                    w.side[ch[pos - 1]] == right
                };
                let want_p = ia != ib && below(ia, false) && below(ib, true);
                let got = mgr.is_prime(*a, *b);
                if got != want_p {
                    bad += 1;
                    if bad <= 2 {
                        fails.push(format!("is_prime on pointers normalised for vtree nodes {ia} and {ib} ({} / {}) = {got}, tree relation gives {want_p}", if matches!(a, SddPtr::Var(..)) { "literal" } else if matches!(a, SddPtr::BDD(_) | SddPtr::ComplBDD(_)) { "binary decision" } else { "decision node" }, if matches!(b, SddPtr::Var(..)) { "literal" } else if matches!(b, SddPtr::BDD(_) | SddPtr::ComplBDD(_)) { "binary decision" } else { "decision node" }));
                    }
                }
            }
        }
        st.add("V:pointer_level_is_prime_pairs", (ptrs.len() * ptrs.len()) as u64);
    }
    Outcome { result: out, fails, nontrivial: leaves.len() >= 3 }
}

fn run_cnf(t: &[&str], st: &mut Stats) -> Outcome {
    let mut fails = vec![];
    let semi = t.iter().position(|x| *x == ";").unwrap();
    let mut cls: Vec<Vec<i64>> = vec![];
    let mut cur = vec![];
    for x in &t[semi + 1..] {
        let l: i64 = x.parse().unwrap();
        if l == 0 {
            cls.push(std::mem::take(&mut cur));
        } else {
            cur.push(l);
        }
    }
    let cnf = mk_cnf(&cls);
    let nv = cnf.num_vars();
    st.bump(&format!("C:{}", t[1]));
    st.bump(&format!("C:vars={nv}"));
    st.bump(&format!("C:clauses={}", cls.len()));
    let used: BTreeSet<usize> = cnf.clauses().iter().flat_map(|c| c.iter().map(|l| l.label().value_usize())).collect();
    if used.len() < nv {
        st.bump("C:unused_indices");
    }
    let mut out = format!("nv={nv}");
    // the elimination order
    let order: Option<VarOrder> = match t[1] {
        "lin" => quiet(|| cnf.linear_order()),
        "perm" | "force" => {
            let k: usize = t[2].parse().unwrap();
            let p: Vec<VarLabel> = t[3..3 + k].iter().map(|x| VarLabel::new_usize(x.parse().unwrap())).collect();
            if t[1] == "force" {
                // the implementation's heuristic output is only required to be a permutation
                match quiet(|| cnf.force_order()) {
                    Some(o) => {
                        let p2v: Vec<usize> = o.in_order_iter().map(|v| v.value_usize()).collect();
                        let v2p: Vec<usize> = (0..o.num_vars()).map(|v| o.get(VarLabel::new_usize(v))).collect();
                        if p2v.len() != nv || !is_perm(&p2v) || !is_perm(&v2p) || (0..nv).any(|v| p2v[v2p[v]] != v) {
                            fails.push(format!("force_order is not a permutation of the variables: {:?}", p2v));
                        }
                        let rec: Vec<usize> = p.iter().map(|v| v.value_usize()).collect();
                        if rec != p2v {
                            st.bump("C:force_differs_from_recorded");
                        }
                    }
                    None => fails.push("force_order panicked on a CNF with clauses and no empty clause".into()),
                }
            }
            quiet(|| VarOrder::new(&p))
        }
        "mf" => {
            let o = quiet(|| cnf.min_fill_order());
            match &o {
                Some(o) => {
                    let p2v: Vec<usize> = o.in_order_iter().map(|v| v.value_usize()).collect();
                    let v2p: Vec<usize> = (0..o.num_vars()).map(|v| o.get(VarLabel::new_usize(v))).collect();
                    if p2v.len() != nv || !is_perm(&p2v) || !is_perm(&v2p) || (0..nv).any(|v| p2v[v2p[v]] != v) {
                        fails.push(format!("min_fill_order is not a permutation of the variables: {:?}", p2v));
                    }
                }
                None => fails.push("min_fill_order panicked".into()),
            }
            o
        }
        "forcep" => {
            if quiet(|| cnf.force_order()).is_some() {
                st.bump("C:forcep_no_longer_panics");
            }
            return Outcome { result: format!("{out} ord=P"), fails, nontrivial: false };
        }
        _ => panic!("bad kind"),
    };
    let order = match order {
        Some(o) => o,
        None => return Outcome { result: format!("{out} ord=P"), fails, nontrivial: false },
    };
    let p2v: Vec<usize> = order.in_order_iter().map(|v| v.value_usize()).collect();
    out.push_str(&format!(" ord={}", set_str(p2v.iter().cloned())));
    let complete = used.iter().all(|v| p2v.contains(v));
    if !complete {
        st.bump("C:order_incomplete");
    }
    let dt = match quiet(|| DTree::from_cnf(&cnf, &order)) {
        Some(d) => d,
        None => {
            if !cls.is_empty() {
                fails.push("from_cnf panicked on a non-empty clause list".into());
            }
            return Outcome { result: format!("{out} dt=P"), fails, nontrivial: false };
        }
    };
    out.push_str(&format!(" dt={} cw={}", dt_str(&dt), dt.cutwidth()));
    // oracle: leaves = clauses (multiset), vars / cutsets by their definitions
    let mut lv = vec![];
    dt_leaves(&dt, &mut lv);
    let mut a: Vec<String> = lv.iter().map(|c| lits_str(c)).collect();
    let mut b: Vec<String> = cnf.clauses().iter().map(|c| lits_str(c)).collect();
    a.sort();
    b.sort();
    if a != b {
        fails.push(format!("dtree leaves {:?} are not the clauses {:?}", a, b));
    }
    let mut cuts = vec![];
    let mut dfails = vec![];
    dt_check(&dt, &BTreeSet::new(), complete, &mut dfails, &mut cuts);
    fails.extend(dfails);
    if complete {
        let cs: BTreeSet<usize> = cuts.iter().cloned().collect();
        if cs.len() != cuts.len() || cs != used {
            fails.push(format!("cutsets {:?} do not partition the variables {:?}", cuts, used));
        }
    }
    let vt = VTree::from_dtree(&dt);
    match &vt {
        None => {
            out.push_str(" vt=-");
            if complete && !used.is_empty() {
                fails.push("from_dtree returned None although variables occur".into());
            }
        }
        Some(v) => {
            out.push_str(&format!(" vt={}", vt_str(v)));
            let flat: Vec<usize> = VTree::flatten_vtree(v).into_iter().map(|x| x.value_usize()).collect();
            let fs: BTreeSet<usize> = flat.iter().cloned().collect();
            if fs.len() != flat.len() {
                fails.push(format!("vtree of the dtree repeats a variable: {:?}", flat));
            }
            if complete && fs != used {
                fails.push(format!("vtree leaves {:?} are not the CNF's variables {:?}", flat, used));
            }
        }
    }
    Outcome { result: out, fails, nontrivial: cls.len() >= 2 && used.len() >= 2 }
}

// ---------------------------------------------------------------- DEEP vtrees (stream W): oracle by parent pointers
struct Deep {
    parent: Vec<usize>, // usize::MAX for the root
    depth: Vec<usize>,
    right: Vec<bool>, // is the right child of its parent
    leaf: Vec<Option<usize>>,
    sub: Vec<String>,
}
/// in-order numbering by a structural walk; returns the index of the root of `t`
fn deep_walk(t: &VTree, d: usize, w: &mut Deep) -> usize {
    let push = |w: &mut Deep, leaf: Option<usize>, sub: String| -> usize {
        w.parent.push(usize::MAX);
        w.depth.push(d);
        w.right.push(false);
        w.leaf.push(leaf);
        w.sub.push(sub);
        w.parent.len() - 1
    };
    match t {
        BTree::Leaf(v) => push(w, Some(v.value_usize()), vt_str(t)),
        BTree::Node((), l, r) => {
            let li = deep_walk(l, d + 1, w);
            let i = push(w, None, vt_str(t));
            let ri = deep_walk(r, d + 1, w);
            w.parent[li] = i;
            w.parent[ri] = i;
            w.right[ri] = true;
            i
        }
    }
}
/// lowest common ancestor by walking up, with the children of it through which a and b are reached
fn deep_lca(w: &Deep, a: usize, b: usize) -> (usize, Option<usize>, Option<usize>) {
    let (mut x, mut y) = (a, b);
    let (mut cx, mut cy) = (None, None);
    while w.depth[x] > w.depth[y] {
        cx = Some(x);
        x = w.parent[x];
    }
    while w.depth[y] > w.depth[x] {
        cy = Some(y);
        y = w.parent[y];
    }
    while x != y {
        cx = Some(x);
        cy = Some(y);
        x = w.parent[x];
        y = w.parent[y];
    }
    (x, cx, cy)
}

fn run_deep(t: &[&str], st: &mut Stats) -> Outcome {
    let mut fails: Vec<String> = vec![];
    let k: usize = t[1].parse().unwrap();
    let queries: Vec<(usize, usize)> = (0..k).map(|i| (t[2 + 2 * i].parse().unwrap(), t[3 + 2 * i].parse().unwrap())).collect();
    let src = &t[2 + 2 * k..];
    let nums = |xs: &[&str]| -> Vec<VarLabel> { xs.iter().map(|x| VarLabel::new_usize(x.parse().unwrap())).collect() };
    st.bump(&format!("W:{}", src[0]));
    let tree: Option<VTree> = match src[0] {
        "t" => {
            let mut i = 1;
            Some(parse_shape(src, &mut i))
        }
        "rl" => quiet(|| VTree::right_linear(&nums(&src[1..]))),
        "ll" => quiet(|| VTree::left_linear(&nums(&src[1..]))),
        "cnf" => {
            let mut cls: Vec<Vec<i64>> = vec![];
            let mut cur = vec![];
            for x in &src[2..] {
                let l: i64 = x.parse().unwrap();
                if l == 0 {
                    cls.push(std::mem::take(&mut cur));
                } else {
                    cur.push(l);
                }
            }
            let cnf = mk_cnf(&cls);
            let used: BTreeSet<usize> = cnf.clauses().iter().flat_map(|c| c.iter().map(|l| l.label().value_usize())).collect();
            let r = quiet(|| {
                let o = cnf.linear_order();
                let d = DTree::from_cnf(&cnf, &o);
                (VTree::from_dtree(&d), d)
            });
            match r {
                None => {
                    fails.push("linear_order / from_cnf / from_dtree panicked on a chain CNF".into());
                    None
                }
                Some((v, d)) => {
                    // the dtree oracle of stream C, at this size
                    let mut lv = vec![];
                    dt_leaves(&d, &mut lv);
                    let mut a: Vec<String> = lv.iter().map(|c| lits_str(c)).collect();
                    let mut b: Vec<String> = cnf.clauses().iter().map(|c| lits_str(c)).collect();
                    a.sort();
                    b.sort();
                    if a != b {
                        fails.push("dtree leaves are not the clauses".into());
                    }
                    let mut cuts = vec![];
                    let mut dfails = vec![];
                    dt_check(&d, &BTreeSet::new(), true, &mut dfails, &mut cuts);
                    dfails.truncate(3);
                    fails.extend(dfails);
                    match &v {
                        None => fails.push("from_dtree returned None although variables occur".into()),
                        Some(v) => {
                            let fs: BTreeSet<usize> = VTree::flatten_vtree(v).into_iter().map(|x| x.value_usize()).collect();
                            if fs != used {
                                fails.push("vtree leaves are not the CNF's variables".into());
                            }
                        }
                    }
                    v
                }
            }
        }
        _ => panic!("bad W case"),
    };
    let tree = match tree {
        Some(x) => x,
        None => return Outcome { result: "P".into(), fails, nontrivial: false },
    };
    let shape = vt_str(&tree);
    let mut w = Deep { parent: vec![], depth: vec![], right: vec![], leaf: vec![], sub: vec![] };
    deep_walk(&tree, 0, &mut w);
    let sz = w.parent.len();
    let leaves: Vec<usize> = w.leaf.iter().filter_map(|x| *x).collect();
    let distinct: BTreeSet<usize> = leaves.iter().cloned().collect();
    let maxd = *w.depth.iter().max().unwrap();
    st.bump(&format!("W:leaves={}..{}", leaves.len() / 20 * 20, leaves.len() / 20 * 20 + 19));
    st.bump(if maxd >= 64 { "W:depth>=64" } else { "W:depth<64" });
    let mgr = match quiet(|| VTreeManager::new(tree.clone())) {
        Some(m) => m,
        None => {
            if distinct.len() == leaves.len() {
                fails.push("VTreeManager::new panicked on a tree without repeated labels".into());
            }
            return Outcome { result: format!("t={shape} P"), fails, nontrivial: false };
        }
    };
    // every node's VTreeIndex: leaves through var_index, inner nodes as lca of leaf pairs
    let mut idx: BTreeMap<usize, VTreeIndex> = BTreeMap::new();
    for &l in &leaves {
        let i = mgr.var_index(VarLabel::new_usize(l));
        idx.insert(i.value(), i);
    }
    let leaf_ix: Vec<VTreeIndex> = idx.values().cloned().collect();
    for a in &leaf_ix {
        for b in &leaf_ix {
            let c = mgr.lca(*a, *b);
            idx.insert(c.value(), c);
        }
    }
    let all: Vec<VTreeIndex> = idx.values().cloned().collect();
    let mut out = format!("t={shape} n={} sz={}", mgr.num_vars(), all.len());
    if mgr.num_vars() != leaves.len() {
        fails.push(format!("num_vars = {} but the tree has {} leaves", mgr.num_vars(), leaves.len()));
    }
    for (i, l) in w.leaf.iter().enumerate() {
        if let Some(l) = l {
            let got = mgr.var_index(VarLabel::new_usize(*l)).value();
            if got != i {
                fails.push(format!("var_index({l}) = {got} is not the in-order index {i}"));
            }
        }
    }
    if all.len() != sz || all.iter().enumerate().any(|(k, i)| i.value() != k) {
        // still say which leaf pairs are wrong: that needs no index of an inner node
        let mut bad = 0;
        for (a, la) in w.leaf.iter().enumerate() {
            for (b, lb) in w.leaf.iter().enumerate() {
                if let (Some(la), Some(lb)) = (la, lb) {
                    let c = mgr.lca(mgr.var_index(VarLabel::new_usize(*la)), mgr.var_index(VarLabel::new_usize(*lb))).value();
                    let want = deep_lca(&w, a, b).0;
                    if c != want {
                        bad += 1;
                        if bad <= 3 {
                            fails.push(format!("lca(leaf {la} = index {a}, leaf {lb} = index {b}) = {c}, tree walk gives {want}"));
                        }
                    }
                }
            }
        }
        fails.push(format!(
            "the lca of the leaf pairs yields {} distinct indices, the tree has {} nodes ({} leaf pairs have a wrong lca)",
            all.len(),
            sz,
            bad
        ));
        return Outcome { result: out, fails, nontrivial: false };
    }
    out.push_str(" vi=");
    out.push_str(&leaves.iter().map(|&l| format!("{}:{}", l, mgr.var_index(VarLabel::new_usize(l)).value())).collect::<Vec<_>>().join(","));
    for (k, i) in all.iter().enumerate() {
        if vt_str(mgr.vtree(*i)) != w.sub[k] {
            fails.push(format!("vtree({k}) is not the {k}-th node in order"));
        }
    }
    // ALL node pairs against the tree walk
    let (mut bad_lca, mut bad_pr) = (0usize, 0usize);
    for a in 0..sz {
        for b in 0..sz {
            let c = mgr.lca(all[a], all[b]).value();
            let p = mgr.is_prime_index(all[a], all[b]);
            let (want, ca, cb) = deep_lca(&w, a, b);
            if c != want {
                bad_lca += 1;
                if bad_lca <= 3 {
                    fails.push(format!("lca({a},{b}) = {c}, tree walk gives {want} (depths {} and {})", w.depth[a], w.depth[b]));
                }
            }
            // a is the lca or below its left child, b is the lca or below its right child
            let want_p = a != b && ca.map_or(true, |x| !w.right[x]) && cb.map_or(true, |x| w.right[x]);
            if p != want_p {
                bad_pr += 1;
                if bad_pr <= 3 {
                    fails.push(format!("is_prime_index({a},{b}) = {p}, tree relation gives {want_p}"));
                }
            }
        }
    }
    if bad_lca > 3 || bad_pr > 3 {
        fails.push(format!("{bad_lca} of {} node pairs have a wrong lca, {bad_pr} a wrong prime relation", sz * sz));
    }
    // prime relation between variables (sample: the leaves of the queried subtrees)
    for &(a, b) in queries.iter().take(20) {
        if a < sz && b < sz {
            let la = (0..sz).filter(|i| w.leaf[*i].is_some()).min_by_key(|i| (*i as i64 - a as i64).abs()).unwrap();
            let lb = (0..sz).filter(|i| w.leaf[*i].is_some()).min_by_key(|i| (*i as i64 - b as i64).abs()).unwrap();
            let p = mgr.is_prime_var(VarLabel::new_usize(w.leaf[la].unwrap()), VarLabel::new_usize(w.leaf[lb].unwrap()));
            let (_, ca, cb) = deep_lca(&w, la, lb);
            let want_p = la != lb && ca.map_or(true, |x| !w.right[x]) && cb.map_or(true, |x| w.right[x]);
            if p != want_p {
                fails.push(format!("is_prime_var(leaf at {la}, leaf at {lb}) = {p}, tree relation gives {want_p}"));
            }
        }
    }
    out.push_str(" q=");
    for &(a, b) in &queries {
        if a < sz && b < sz {
            out.push_str(&format!("{a},{b}:{}:{};", mgr.lca(all[a], all[b]).value(), if mgr.is_prime_index(all[a], all[b]) { 1 } else { 0 }));
        } else {
            out.push_str(&format!("{a},{b}:P:{};", if a < b { 1 } else { 0 }));
        }
    }
    Outcome { result: out, fails, nontrivial: true }
}

pub fn run(case: &str, st: &mut Stats) -> Outcome {
    let t = toks(case);
    match t[0] {
        "W" => run_deep(&t, st),
        "O" => run_order(&t, st),
        "V" => run_vtree(&t, st),
        "C" => run_cnf(&t, st),
        _ => panic!("bad case"),
    }
}
