//! C02L (link between the store layer and the tree layer of C02): drive the REAL
//! `RobddBuilder::get_or_insert(BddNode::new(var, low, high))` with sequences of node requests whose
//! children are constants, earlier results or negations of earlier results, on unique tables of
//! 1..16 initial slots (hook `rsdd::verif::TABLE_CAPACITY`) so that the table grows.
//! `get_or_insert` itself neither reduces nor checks the variable order, so unreduced requests
//! (low == high) and requests whose high child is complemented or false are legal and exercised.
//! case:  <cap> (<var> <lo> <hi>)*     lo/hi: T | F | r<k> (k-th earlier result) | n<k> (its negation)
//! out:   per request R<cls> / C<cls> (constructor of the returned pointer; cls = index of the first
//!        request that returned the same node ADDRESS), then n=<distinct node addresses>, then " | "
//!        and the unfolding string of every result, walked from the real pointer when it was
//!        returned, separated by ';' (strings longer than 60 characters as #<length>:<fnv1a-64>).
//! oracle (independent of the model): two results are pointer-equal (`==` on BddPtr) iff their
//!        unfolding strings are equal; every result unfolds to the string-level normalisation of
//!        (var, unfold lo, unfold hi); every stored node has a regular, non-false high child;
//!        after ALL requests every earlier result still unfolds to the same string.
use rsdd::builder::bdd::{BddBuilder, RobddBuilder};
use rsdd::builder::cache::AllIteTable;
use rsdd::repr::{BddNode, BddPtr, VarLabel};
use rsdd::verif::TABLE_CAPACITY;
use rsdd_verif_harness::*;
use std::collections::HashMap;

pub const PROP: Prop = Prop { gen, run, panic_ok: never };

fn main() {
    run_main(PROP)
}

#[derive(Clone, Copy, PartialEq, Debug)]
enum Arg {
    T,
    F,
    R(usize),
    N(usize),
}

impl Arg {
    fn show(&self) -> String {
        match self {
            Arg::T => "T".into(),
            Arg::F => "F".into(),
            Arg::R(k) => format!("r{k}"),
            Arg::N(k) => format!("n{k}"),
        }
    }
    fn neg(&self) -> Arg {
        match *self {
            Arg::T => Arg::F,
            Arg::F => Arg::T,
            Arg::R(k) => Arg::N(k),
            Arg::N(k) => Arg::R(k),
        }
    }
    fn parse(s: &str) -> Arg {
        match s.as_bytes()[0] {
            b'T' => Arg::T,
            b'F' => Arg::F,
            b'r' => Arg::R(s[1..].parse().unwrap()),
            b'n' => Arg::N(s[1..].parse().unwrap()),
            _ => panic!("bad argument"),
        }
    }
}

const MAX_TREE: u64 = 400; // bound on the size of an unfolding (they are walked without sharing)

pub fn gen(rng: &mut Rng, idx: usize, n: usize, thorough: bool) -> String {
    // sizes grow with the index so that the first failing case tends to be small
    let frac = (idx * 100) / n.max(1);
    let capmax = if frac < 25 { 2 } else if frac < 50 { 5 } else { 16 };
    let cap = rng.range(1, capmax);
    let maxreq = if thorough { 160 } else { 70 };
    let nreq = (1 + (frac * maxreq) / 100 + rng.range(0, 4)).min(maxreq);
    // few variables => the same (var, low, high) is requested again by chance; sometimes huge labels
    let nvars = *rng.pick(&[1u64, 2, 3, 5]);
    let big = rng.chance(1, 8);
    let mut reqs: Vec<(u64, Arg, Arg)> = vec![];
    let mut size: Vec<u64> = vec![]; // size of the unfolding of result k (no sharing): 1 + lo + hi
    let asize = |a: Arg, size: &Vec<u64>| match a {
        Arg::T | Arg::F => 1,
        Arg::R(k) | Arg::N(k) => size[k],
    };
    for k in 0..nreq {
        let pick_arg = |rng: &mut Rng, budget: u64, size: &Vec<u64>| -> Arg {
            for _ in 0..6 {
                let a = if k == 0 || rng.chance(1, 4) {
                    if rng.coin() { Arg::T } else { Arg::F }
                } else {
                    // prefer recent results (deeper diagrams), sometimes any
                    let j = if rng.coin() { k - 1 - rng.below((k as u64).min(4)) as usize } else { rng.below(k as u64) as usize };
                    if rng.chance(2, 5) { Arg::N(j) } else { Arg::R(j) }
                };
                if asize(a, size) <= budget {
                    return a;
                }
            }
            if rng.coin() { Arg::T } else { Arg::F }
        };
        let kind = rng.below(100);
        let (v, lo, hi) = if k > 0 && kind < 18 {
            // the same request again: must come back as the same pointer
            reqs[rng.below(k as u64) as usize]
        } else if k > 0 && kind < 30 {
            // the request with both children negated: same node, opposite constructor
            let (v, lo, hi) = reqs[rng.below(k as u64) as usize];
            (v, lo.neg(), hi.neg())
        } else if k > 0 && kind < 38 {
            // an earlier request under another variable
            let (_, lo, hi) = reqs[rng.below(k as u64) as usize];
            (rng.below(nvars), lo, hi)
        } else {
            let v = if big && rng.chance(1, 3) { (1u64 << 32) + rng.below(3) } else { rng.below(nvars) };
            let lo = pick_arg(rng, MAX_TREE / 2, &size);
            let hi = if kind < 50 {
                lo // unreduced request
            } else if kind < 62 {
                // high child complemented or false
                let j = if k > 0 { Some(rng.below(k as u64) as usize) } else { None };
                match j {
                    Some(j) if size[j] <= MAX_TREE / 2 && rng.chance(2, 3) => Arg::N(j),
                    _ => Arg::F,
                }
            } else {
                pick_arg(rng, MAX_TREE / 2, &size)
            };
            (v, lo, hi)
        };
        size.push(1 + asize(lo, &size) + asize(hi, &size));
        reqs.push((v, lo, hi));
    }
    let mut s = format!("{cap}");
    for (v, lo, hi) in reqs {
        s.push_str(&format!(" {v} {} {}", lo.show(), hi.show()));
    }
    s
}

/// The unfolding of a real pointer, walked through the public fields of the nodes.
fn unf(p: BddPtr, out: &mut String) {
    match p {
        BddPtr::PtrTrue => out.push('T'),
        BddPtr::PtrFalse => out.push('F'),
        BddPtr::Reg(n) | BddPtr::Compl(n) => {
            if let BddPtr::Compl(_) = p {
                out.push('~');
            }
            out.push('(');
            out.push_str(&n.var.value().to_string());
            out.push(',');
            unf(n.low, out);
            out.push(',');
            unf(n.high, out);
            out.push(')');
        }
    }
}
fn unfold(p: BddPtr) -> String {
    let mut s = String::new();
    unf(p, &mut s);
    s
}

/// negation on unfolding strings (the tree layer's `neg`)
fn sneg(s: &str) -> String {
    match s {
        "T" => "F".into(),
        "F" => "T".into(),
        _ if s.starts_with('~') => s[1..].to_string(),
        _ => format!("~{s}"),
    }
}

/// the tree layer's `mk_node` on unfolding strings
fn mk_node_str(v: u64, lo: &str, hi: &str) -> String {
    if hi.starts_with('~') || hi == "F" {
        format!("~({v},{},{})", sneg(lo), sneg(hi))
    } else {
        format!("({v},{lo},{hi})")
    }
}

/// every node below `p` has a regular, non-false high child
fn high_ok(p: BddPtr) -> bool {
    match p {
        BddPtr::PtrTrue | BddPtr::PtrFalse => true,
        BddPtr::Reg(n) | BddPtr::Compl(n) => {
            matches!(n.high, BddPtr::Reg(_) | BddPtr::PtrTrue) && high_ok(n.low) && high_ok(n.high)
        }
    }
}

fn fnv(s: &str) -> u64 {
    let mut d = 0xcbf29ce484222325u64;
    for b in s.bytes() {
        d ^= b as u64;
        d = d.wrapping_mul(0x100000001b3);
    }
    d
}
fn show(s: &str) -> String {
    if s.len() <= 60 { s.to_string() } else { format!("#{}:{:x}", s.len(), fnv(s)) }
}

fn addr(p: BddPtr) -> usize {
    match p {
        BddPtr::Reg(n) | BddPtr::Compl(n) => n as *const BddNode as usize,
        _ => 0,
    }
}

pub fn run(case: &str, st: &mut Stats) -> Outcome {
    let t = toks(case);
    let cap: usize = t[0].parse().unwrap();
    let mut reqs: Vec<(u64, Arg, Arg)> = vec![];
    let mut i = 1;
    while i + 2 < t.len() {
        reqs.push((t[i].parse().unwrap(), Arg::parse(t[i + 1]), Arg::parse(t[i + 2])));
        i += 3;
    }
    assert!(i == t.len(), "bad case");

    TABLE_CAPACITY.with(|c| c.set(Some(cap)));
    let b = RobddBuilder::<AllIteTable<BddPtr>>::new_with_linear_order(1);
    TABLE_CAPACITY.with(|c| c.set(None));

    let mut fails: Vec<String> = vec![];
    let mut pool: Vec<BddPtr> = vec![];
    let mut unfs: Vec<String> = vec![];
    let mut first: HashMap<usize, usize> = HashMap::new();
    let mut line = String::new();
    let (mut hits, mut neg_high, mut unreduced) = (0u64, 0u64, 0u64);
    for (k, &(v, lo, hi)) in reqs.iter().enumerate() {
        let res = |a: Arg| -> BddPtr {
            match a {
                Arg::T => BddPtr::PtrTrue,
                Arg::F => BddPtr::PtrFalse,
                Arg::R(j) => pool[j],
                Arg::N(j) => match pool[j] {
                    // negation of a pointer = the other constructor on the same node (written out
                    // here: the oracle does not use the library's neg)
                    BddPtr::Reg(n) => BddPtr::Compl(n),
                    BddPtr::Compl(n) => BddPtr::Reg(n),
                    BddPtr::PtrTrue => BddPtr::PtrFalse,
                    BddPtr::PtrFalse => BddPtr::PtrTrue,
                },
            }
        };
        let (plo, phi) = (res(lo), res(hi));
        if matches!(phi, BddPtr::Compl(_) | BddPtr::PtrFalse) {
            neg_high += 1;
        }
        if plo == phi {
            unreduced += 1;
        }
        // the unfoldings of the arguments, walked now
        let (slo, shi) = (unfold(plo), unfold(phi));
        let r = b.get_or_insert(BddNode::new(VarLabel::new(v), plo, phi));
        let a = addr(r);
        let ctor = match r {
            BddPtr::Reg(_) => "R",
            BddPtr::Compl(_) => "C",
            BddPtr::PtrTrue => "T",
            BddPtr::PtrFalse => "F",
        };
        let cls = match first.get(&a) {
            Some(&c) => {
                hits += 1;
                c
            }
            None => {
                first.insert(a, k);
                k
            }
        };
        line.push_str(&format!("{ctor}{cls} "));
        let s = unfold(r);
        let expect = mk_node_str(v, &slo, &shi);
        if s != expect {
            fails.push(format!("request {k} ({v} {} {}): result unfolds to {} but mk_node of the children's unfoldings is {}", lo.show(), hi.show(), show(&s), show(&expect)));
        }
        if !high_ok(r) {
            fails.push(format!("request {k}: a node below the result has a complemented or false high child"));
        }
        pool.push(r);
        unfs.push(s);
    }
    // pointer identity is structural identity of the unfoldings, over all pairs of results
    for i in 0..pool.len() {
        for j in 0..i {
            let ptr_eq = pool[i] == pool[j];
            let tree_eq = unfs[i] == unfs[j];
            if ptr_eq != tree_eq {
                fails.push(format!("results {j} and {i}: pointer-equal = {ptr_eq} but equal unfoldings = {tree_eq}"));
            }
        }
    }
    // after all requests every earlier result still unfolds to the same tree
    for (k, p) in pool.iter().enumerate() {
        if unfold(*p) != unfs[k] {
            fails.push(format!("result {k} unfolds to a different tree after the later requests"));
        }
    }
    let nn = first.len();
    line.push_str(&format!("n={nn} | "));
    line.push_str(&unfs.iter().map(|s| show(s)).collect::<Vec<_>>().join(";"));
    let grew = 10 * nn > 7 * cap;
    st.bump(&format!("cap={cap}"));
    st.add("requests", reqs.len() as u64);
    st.add("hits", hits);
    st.add("distinct_nodes", nn as u64);
    st.add("requests_high_complemented_or_false", neg_high);
    st.add("requests_low_eq_high", unreduced);
    st.add("result_pairs", (pool.len() * pool.len().saturating_sub(1) / 2) as u64);
    if grew {
        st.bump("grew_at_least_once");
    }
    if unfs.iter().any(|s| s.len() > 60) {
        st.bump("cases_with_digested_unfoldings");
    }
    Outcome { result: line.trim().to_string(), fails, nontrivial: grew && hits > 0 && neg_high > 0 }
}
